// filesinkh — correspondence driver for FileSink (C08, C15).
// It generates operation histories (writes of 1..200 bytes biased onto the MaxBytes boundary, Reopen, external rename of
// the active file, pauses around MaxDuration) for configurations MaxBytes 0..300 x MaxFiles 0..3 x MaxDuration {0, 30ms} x
// TimestampOnlyOnRotate x Mode x file-name shapes, runs them on the real FileSink (built from the tree under test) in a
// fresh directory, observes after every call (ack, directory listing with modes and contents tokenised into whole
// events, BytesWritten, LastCreated, directory mode) and prints cases_*.v files for Run_FileSink.mismatches.
// Further generators: special paths (/dev/null, /dev/stdout, /dev/stderr), concurrent writers, and a child process
// killed with SIGKILL at a random instant.
package main

import (
	"bufio"
	"bytes"
	"context"
	"encoding/json"
	"errors"
	"flag"
	"fmt"
	"io"
	"os"
	"os/exec"
	"os/signal"
	"path/filepath"
	"sort"
	"strconv"
	"strings"
	"sync"
	"syscall"
	"time"

	el "github.com/hashicorp/eventlogger"
	"verifharness/hc"
)

// ---------- cases ----------
type Cfg struct {
	Path     string `json:"path"` // dir | null | stdout | stderr
	FileName string `json:"file_name"`
	MaxBytes int    `json:"max_bytes"`
	MaxFiles int    `json:"max_files"`
	MaxDurMs int    `json:"max_dur_ms"`
	TsOnly   bool   `json:"ts_only"`
	Mode     uint32 `json:"mode"`
	Foreign  []int  `json:"foreign,omitempty"` // indices into foreignNames, planted before the first call
	PreDir   bool   `json:"pre_dir,omitempty"` // the directory exists already (mode 0750)
	PathVar  int    `json:"path_var,omitempty"` // how Path is spelt: 0 absolute, 1 with a trailing slash, 2 relative to the working directory, 3 nested two levels below a directory that does not exist yet, 4 below a regular file (every open must fail), 5 under /dev/shm, 6 <tmp>/dev/null.d/logs, 7 <tmp>/x/dev/null, 8 "/dev/stdout/" (a directory path that cannot be made)
	Format   string `json:"format,omitempty"`   // FileSink.Format: "" (defaults to JSONFormat), "json" explicitly, or another name
	// fsize cases: the child runs with RLIMIT_FSIZE = FsizeLimit and processes FsizeEvents events
	FsizeLimit  int `json:"fsize_limit,omitempty"`
	FsizeEvents int `json:"fsize_events,omitempty"`
}
type Op struct {
	K       string `json:"k"` // w | reopen | extren | pause | rmdir | rmactive | touch | append | chmod | newsink
	Size    int    `json:"size,omitempty"`
	PauseUs int    `json:"pause_us,omitempty"`
	Ctx     int    `json:"ctx,omitempty"` // w: which kind of context Process is called with (see ctxOf)
	NoFmt   bool   `json:"no_fmt,omitempty"`  // w: the event carries other formats but not the sink's: Process must refuse it and touch nothing
	NilVal  bool   `json:"nil_val,omitempty"` // w with size 0: the formatted value is nil (present in the map) rather than []byte{}
	Pos     int    `json:"pos,omitempty"`     // touch / append: which file of the sink, 0 = oldest in reading order
	When    int    `json:"when,omitempty"`    // touch: 0 now, 1 an hour ago, 2 in an hour
	How     int    `json:"how,omitempty"`     // touch: 0 Chtimes, 1 chmod and back, 2 rewrite in place (same name, content and mode; new inode)
	Src     int    `json:"src,omitempty"`     // append: the event whose bytes are appended
	FMode   int    `json:"fmode,omitempty"`   // chmod: the mode the file is left with
	Obj     int    `json:"obj,omitempty"`     // w: 0 a fresh *Event, 1 / 2 one of two Event objects the producer recycles (bytes replaced with FormattedAs)
	Repeat  bool   `json:"repeat,omitempty"`  // w with Obj > 0: hand the object in again as it is (same bytes, same id): it must be written again
}
type Case struct {
	ID      int    `json:"id"`
	Gen     string `json:"gen"`
	Cfg     Cfg    `json:"cfg"`
	Ops     []Op   `json:"ops,omitempty"`
	Len     int    `json:"len,omitempty"`     // number of operations to generate when Ops is empty
	Seed    uint64 `json:"seed,omitempty"`    // generator seed of this case
	Writers []int  `json:"writers,omitempty"` // conc: events per writer
	KillUs  int    `json:"kill_us,omitempty"` // kill: delay after the first acknowledgement
	Reopeners int  `json:"reopeners,omitempty"` // conc: goroutines that call Reopen() in a loop next to the writers
	Rm      bool   `json:"rm,omitempty"`      // generate deletions from outside (rmdir / rmactive) as well
}

// observation of one file of the sink's name space / after one step
type FObs struct {
	Kind  int    `json:"kind"` // 1 stamped, 2 plain, 9 a file that is neither of these nor planted by the harness
	Name  string `json:"name"`
	Stamp int64  `json:"-"`
	Mode  uint32 `json:"mode"`
	Data  []int  `json:"data"`
	Size  int    `json:"size"`
}
type SObs struct {
	Ok      bool     `json:"ok"`
	Err     string   `json:"err,omitempty"`
	Files   []FObs   `json:"files"`
	Foreign [][2]int `json:"foreign,omitempty"`
	Bw      int64    `json:"bw"`
	Lc      int64    `json:"lc"`
	Dir     uint32   `json:"dir"`
	Out     []int    `json:"out,omitempty"`
	ErrOut  []int    `json:"errout,omitempty"`
}

// what is fed to the model for one step
type Feed struct {
	T         [5]int64
	Ambiguous bool
}

// neighbourStem: a stem that a wrongly computed base name would produce — what strings.TrimRight(FileName, ext) (a cut SET,
// not a suffix) yields when that differs from the real stem ("syslog.log" -> "sys"), otherwise the stem minus its last
// character; "" when there is no such stem.
func neighbourStem(fileName string) string {
	ext := filepath.Ext(fileName)
	base := strings.TrimSuffix(fileName, ext)
	if ext == "" {
		ext = ".log"
	}
	if cut := strings.TrimRight(fileName, ext); cut != base && cut != "" {
		return cut
	}
	if len(base) > 1 {
		return base[:len(base)-1]
	}
	return ""
}

// files outside the sink's name space (base.ext, base-<stamp>.ext) that a sloppy pattern or glob would touch; "" = not
// available for this file name
var foreignNames = func(fileName string) []string {
	ext := filepath.Ext(fileName)
	base := strings.TrimSuffix(fileName, ext)
	if ext == "" {
		ext = ".log"
	}
	packed := ".gz" // a compressed rotated file: base-<stamp>.ext.gz does not match base-*.ext …
	if ext == ".gz" {
		packed = ".old" // … unless ext is .gz itself
	}
	out := []string{"", "other.txt", fileName + ".bak", "x" + base + "-1700000000000000000" + ext, base + "_17" + ext,
		base + "-1700000000000000000" + ext + packed, "", "",
		// near-misses of a rotated name: other case, surrounding blanks, other case of the extension, no dash, a longer stem
		strings.ToUpper(base) + "-1700000000000000000" + ext, " " + base + "-1700000000000000000" + ext,
		base + "-1700000000000000000" + ext + " ", base + "-1700000000000000000" + strings.ToUpper(ext),
		base + "1700000000000000000" + ext, base + "x-1700000000000000000" + ext,
		// … and of the plain name
		strings.ToUpper(fileName[:1]) + fileName[1:], fileName + " "}
	if nb := neighbourStem(fileName); nb != "" {
		out[6] = nb + "-archive" + ext             // sys-archive.log next to syslog.log
		out[7] = nb + "-1700000000000000000" + ext // a rotated file of another sink called sys.log
	}
	ns := newNamespace(fileName)
	seen := map[string]bool{}
	for i, n := range out {
		if i == 0 {
			continue
		}
		if k, _ := ns.classify(n); n == "" || k != 0 || seen[n] || len(n) > 250 {
			out[i] = "" // would be in the sink's own name space (e.g. the case twin of a name without letters), or a duplicate
		}
		seen[n] = true
	}
	return out
}

const foreignContent = "not an event\n"

// ---------- contexts ----------
// FileSink.Process takes a context; whatever it is, "returned nil" must mean "the event is in the file".
// 0 Background, 1 live and cancellable, 2 already cancelled, 3 deadline in the past, 4 a custom type whose Err() is non-nil,
// 5 cancelled with a custom cause, 6 cancelled by another goroutine while the call is in flight
type doneCtx struct{ context.Context }

func (doneCtx) Err() error            { return context.Canceled }
func (doneCtx) Done() <-chan struct{} { c := make(chan struct{}); close(c); return c }

func ctxOf(kind int) (context.Context, context.CancelFunc) {
	switch kind {
	case 1:
		return context.WithCancel(context.Background())
	case 2:
		c, cancel := context.WithCancel(context.Background())
		cancel()
		return c, func() {}
	case 3:
		return context.WithDeadline(context.Background(), time.Now().Add(-time.Hour))
	case 4:
		return doneCtx{context.Background()}, func() {}
	case 5:
		c, cancel := context.WithCancelCause(context.Background())
		cancel(errors.New("custom cause"))
		return c, func() {}
	case 6: // cancelled while the call is (about to be) in flight
		c, cancel := context.WithCancel(context.Background())
		go cancel()
		return c, func() {}
	}
	return context.Background(), func() {}
}

// ---------- payloads ----------
// sequential / concurrent cases: the first byte is the event's key (1..127, unique in the case), every other byte is
// >= 128, so a fragment of an event can never be completed by what follows it.
func payload(key int, size int) []byte {
	b := make([]byte, size)
	if size == 0 {
		return b
	}
	b[0] = byte(key)
	x := uint32(key)*2654435761 + 12345
	for j := 1; j < size; j++ {
		x = x*1664525 + 1013904223
		b[j] = 128 + byte(x>>24)&127
	}
	return b
}

type tokenizer struct {
	byKey map[byte][]byte
	idOf  map[byte]int
}

// tokens: the ids of the whole events the bytes consist of; 0 for a remainder that is not a sequence of whole events
func (t *tokenizer) tokens(b []byte) []int {
	out := []int{}
	for len(b) > 0 {
		p, ok := t.byKey[b[0]]
		if !ok || !bytes.HasPrefix(b, p) {
			return append(out, 0)
		}
		out = append(out, t.idOf[b[0]])
		b = b[len(p):]
	}
	return out
}

// kill cases: event i is "<i>:<pad>\n"
func linePayload(i int) []byte {
	n := 3 + (i*7919)%57
	return []byte(strconv.Itoa(i) + ":" + strings.Repeat("x", n) + "\n")
}
func lineTokens(b []byte) []int {
	out := []int{}
	for len(b) > 0 {
		j := bytes.IndexByte(b, '\n')
		if j < 0 {
			return append(out, 0)
		}
		line := b[:j+1]
		k := bytes.IndexByte(line, ':')
		if k <= 0 {
			return append(out, 0)
		}
		i, err := strconv.Atoi(string(line[:k]))
		if err != nil || i <= 0 || !bytes.Equal(line, linePayload(i)) {
			return append(out, 0)
		}
		out = append(out, i)
		b = b[j+1:]
	}
	return out
}

// ---------- the directory as the harness sees it ----------
type namespace struct {
	fileName, base, ext string
}

func newNamespace(fileName string) namespace {
	ext := filepath.Ext(fileName)
	base := strings.TrimSuffix(fileName, ext)
	if ext == "" {
		ext = ".log"
	}
	return namespace{fileName, base, ext}
}
func (ns namespace) stamped(ts int64) string { return ns.base + "-" + strconv.FormatInt(ts, 10) + ns.ext }

// classify: 2 plain, 1 stamped (+stamp), 9 matches base-*.ext without being a stamp, 0 foreign
func (ns namespace) classify(name string) (int, int64) {
	if name == ns.fileName {
		return 2, 0
	}
	if strings.HasPrefix(name, ns.base+"-") && strings.HasSuffix(name, ns.ext) && len(name) >= len(ns.base)+1+len(ns.ext) {
		mid := name[len(ns.base)+1 : len(name)-len(ns.ext)]
		if ts, err := strconv.ParseInt(mid, 10, 64); err == nil && ts > 0 && strconv.FormatInt(ts, 10) == mid {
			return 1, ts
		}
		return 9, 0
	}
	return 0, 0
}

func listDir(dir string, ns namespace, tok func([]byte) []int, foreign []int, fnames []string) (files []FObs, fobs [][2]int, dirMode uint32) {
	st, err := os.Stat(dir)
	if err != nil || !st.IsDir() {
		return nil, nil, 0
	}
	dirMode = uint32(st.Mode().Perm())
	ents, _ := os.ReadDir(dir)
	for _, e := range ents {
		k, ts := ns.classify(e.Name())
		if k == 0 {
			planted := false
			for _, f := range foreign {
				if fnames[f] == e.Name() {
					planted = true
				}
			}
			if planted {
				continue
			}
			k = 9 // neither base.ext nor base-<stamp>.ext nor a file the harness planted: the sink made it
		}
		p := filepath.Join(dir, e.Name())
		fi, err := os.Lstat(p)
		if err != nil {
			continue
		}
		b, _ := os.ReadFile(p)
		files = append(files, FObs{Kind: k, Name: e.Name(), Stamp: ts, Mode: uint32(fi.Mode().Perm()), Data: tok(b), Size: len(b)})
	}
	sort.SliceStable(files, func(i, j int) bool {
		a, b := files[i], files[j]
		if (a.Kind == 2) != (b.Kind == 2) {
			return b.Kind == 2
		}
		if a.Stamp != b.Stamp {
			return a.Stamp < b.Stamp
		}
		return a.Name < b.Name
	})
	for _, f := range foreign {
		fi, err := os.Lstat(filepath.Join(dir, fnames[f]))
		if err != nil {
			continue
		}
		m := int(fi.Mode().Perm())
		if b, err := os.ReadFile(filepath.Join(dir, fnames[f])); err != nil || string(b) != foreignContent {
			m = 0o7777 // content changed: reported as an impossible mode so that the comparison fails
		}
		fobs = append(fobs, [2]int{f, m})
	}
	return
}

// ---------- Gallina printing ----------
func cfgLit(c Cfg) string {
	p := map[string]string{"dir": "PDir", "null": "PDevNull", "stdout": "PStdout", "stderr": "PStderr"}[c.Path]
	return fmt.Sprintf("{| path := %s; maxBytes := %s; maxFiles := %s; maxDur := %s; tsOnly := %s; cmode := %s |}",
		p, hc.Z(int64(c.MaxBytes)), hc.N(c.MaxFiles), hc.Z(int64(c.MaxDurMs)*1000000), hc.B(c.TsOnly), hc.N(int(c.Mode)))
}
func nlist(xs []int) string {
	if len(xs) == 0 {
		return "[]"
	}
	s := make([]string, len(xs))
	for i, x := range xs {
		s[i] = strconv.Itoa(x)
	}
	return "[" + strings.Join(s, ";") + "]%N"
}
func nlistList(xs [][]int) string {
	s := make([]string, len(xs))
	for i, x := range xs {
		s[i] = nlist(x)
	}
	return "[" + strings.Join(s, "; ") + "]"
}
func fobsLit(f FObs) string {
	return fmt.Sprintf("{| fo_kind := %s; fo_mode := %s; fo_data := %s |}", hc.N(f.Kind), hc.N(int(f.Mode)), nlist(f.Data))
}
func sobsLit(o *SObs) string {
	if o == nil {
		return "None"
	}
	fl := make([]string, len(o.Files))
	for i, f := range o.Files {
		fl[i] = fobsLit(f)
	}
	fr := make([]string, len(o.Foreign))
	for i, f := range o.Foreign {
		fr[i] = hc.Pair(hc.N(f[0]), hc.N(f[1]))
	}
	return fmt.Sprintf("Some {| o_ok := %s; o_files := %s; o_foreign := %s; o_bw := %s; o_lc := %s; o_dir := %s; o_out := %s; o_err := %s |}",
		hc.B(o.Ok), hc.List(fl), hc.List(fr), hc.Z(o.Bw), hc.Z(o.Lc), hc.N(int(o.Dir)), nlist(o.Out), nlist(o.ErrOut))
}

func dirEvLit(evs []dirEv) string {
	l := make([]string, len(evs))
	for i, e := range evs {
		l[i] = hc.Pair(hc.N(e.Kind), hc.Z(e.Stamp))
	}
	return hc.List(l)
}

// ---------- the directory's own event log (inotify): the order in which the kernel performed creations, renames and removals ----------
type dirWatch struct{ fd int }

func watchDir(dir string) (*dirWatch, error) {
	fd, err := syscall.InotifyInit1(syscall.IN_NONBLOCK | syscall.IN_CLOEXEC)
	if err != nil {
		return nil, err
	}
	if _, err := syscall.InotifyAddWatch(fd, dir, syscall.IN_CREATE|syscall.IN_MOVED_TO|syscall.IN_DELETE); err != nil {
		syscall.Close(fd)
		return nil, err
	}
	return &dirWatch{fd}, nil
}

// drain returns the queued events in kernel order; ok = false when the queue overflowed
func (w *dirWatch) drain() (evs []struct {
	mask uint32
	name string
}, ok bool) {
	ok = true
	buf := make([]byte, 1<<16)
	for {
		n, err := syscall.Read(w.fd, buf)
		if n <= 0 || err != nil {
			break
		}
		for off := 0; off+syscall.SizeofInotifyEvent <= n; {
			mask := uint32(buf[off+4]) | uint32(buf[off+5])<<8 | uint32(buf[off+6])<<16 | uint32(buf[off+7])<<24
			ln := int(uint32(buf[off+12]) | uint32(buf[off+13])<<8 | uint32(buf[off+14])<<16 | uint32(buf[off+15])<<24)
			name := strings.TrimRight(string(buf[off+syscall.SizeofInotifyEvent:off+syscall.SizeofInotifyEvent+ln]), "\x00")
			if mask&syscall.IN_Q_OVERFLOW != 0 {
				ok = false
			}
			evs = append(evs, struct {
				mask uint32
				name string
			}{mask, name})
			off += syscall.SizeofInotifyEvent + ln
		}
	}
	syscall.Close(w.fd)
	return
}

type step struct {
	opLit string
	obs   *SObs
}

// dirEv: one change of the directory as the kernel queued it (inotify): 1 = a stamped name appeared (created or renamed to),
// 2 = a stamped name was removed, 3 = a stamped name that is there at the end; with its stamp
type dirEv struct {
	Kind  int
	Stamp int64
}

func caseLit(id int, c Cfg, dm int, writers int, wacked [][]int, model bool, steps []step, evs ...dirEv) string {
	var sb strings.Builder
	dmLit := "None"
	if dm != 0 {
		dmLit = "Some " + hc.N(dm)
	}
	fmt.Fprintf(&sb, "{| c_id := %s; c_cfg := %s; c_fids := %s; c_dm := %s; c_k0 := 0%%Z; c_writers := %s; c_counts := %s; c_model := %s; c_dirlog := %s; c_steps := [",
		hc.N(id), cfgLit(c), nlist(c.Foreign), dmLit, hc.N(writers), nlistList(wacked), hc.B(model), dirEvLit(evs))
	for i, s := range steps {
		if i > 0 {
			sb.WriteString(";\n  ")
		}
		sb.WriteString("(" + s.opLit + ", " + sobsLit(s.obs) + ")")
	}
	sb.WriteString("] |}")
	return sb.String()
}

// ---------- running one sequential case ----------
type result struct {
	c        Case
	lit      string
	obs      []*SObs
	feeds    []Feed
	panicked string
	stats    map[string]int
	nontriv  bool
	sig      string
}

func nowNs() int64 { return time.Now().UnixNano() }

// spin until the wall clock reads later than x (nanosecond stamps must be distinct)
func after(x int64) int64 {
	for {
		if t := nowNs(); t > x {
			return t
		}
	}
}

var stdMu sync.Mutex // os.Stdout / os.Stderr are swapped by the special-path cases

func execSeq(c Case, root string) (res result) {
	res.c = c
	res.stats = map[string]int{}
	defer func() {
		if r := recover(); r != nil {
			res.panicked = fmt.Sprint(r)
		}
	}()
	ns := newNamespace(c.Cfg.FileName)
	fnames := foreignNames(c.Cfg.FileName)
	dir := filepath.Join(root, fmt.Sprintf("c%06d", c.ID), "logs")
	os.RemoveAll(filepath.Dir(dir))
	if err := os.MkdirAll(filepath.Dir(dir), 0o755); err != nil {
		panic(err)
	}
	defer os.RemoveAll(filepath.Dir(dir))
	dm := 0
	top := filepath.Dir(dir)
	blocked := c.Cfg.PathVar == 4 || c.Cfg.PathVar == 8
	pathVar := c.Cfg.PathVar
	if pathVar == 5 {
		// a directory that really lies under /dev/ (tmpfs): an ordinary directory for the sink, whatever its path starts with
		shm := fmt.Sprintf("/dev/shm/filesinkh-%d-%06d", os.Getpid(), c.ID)
		if err := os.Mkdir(shm, 0o755); err == nil {
			defer os.RemoveAll(shm)
			dir = filepath.Join(shm, "logs")
		} else {
			pathVar = 0
			res.stats["dev_shm_not_writable_path_variant_skipped"]++
		}
	}
	switch pathVar {
	case 3:
		dir = filepath.Join(dir, "a", "b") // MkdirAll has three levels to make
	case 6:
		dir = filepath.Join(filepath.Dir(dir), "dev", "null.d", "logs") // contains "/dev/" and "/dev/null" without being either
	case 7:
		dir = filepath.Join(filepath.Dir(dir), "x", "dev", "null") // a directory that is called null, below one called dev
	case 4:
		if err := os.WriteFile(dir, []byte("a file where a directory is expected\n"), 0o644); err != nil {
			panic(err)
		}
		dir = filepath.Join(dir, "sub")
	}
	if c.Cfg.Path == "dir" && !blocked && (c.Cfg.PreDir || len(c.Cfg.Foreign) > 0) {
		if err := os.MkdirAll(dir, 0o750); err != nil {
			panic(err)
		}
		os.Chmod(dir, 0o750) // whatever the umask
		dm = 0o750
		for _, f := range c.Cfg.Foreign {
			p := filepath.Join(dir, fnames[f])
			if err := os.WriteFile(p, []byte(foreignContent), 0o644); err != nil {
				panic(err)
			}
			os.Chmod(p, 0o644)
		}
	}
	sinkPath := dir
	switch pathVar {
	case 8:
		sinkPath = "/dev/stdout/" // not the special path: a directory path nobody can create — every open fails, nothing is printed
	case 1:
		sinkPath = dir + "/"
	case 2:
		if wd, err := os.Getwd(); err == nil {
			if rel, err := filepath.Rel(wd, dir); err == nil {
				sinkPath = rel
			}
		}
	}
	fmtKey := c.Cfg.Format
	if fmtKey == "" {
		fmtKey = el.JSONFormat
	}
	_ = top
	newSink := func() *el.FileSink {
		return &el.FileSink{Path: sinkPath, Format: c.Cfg.Format, FileName: c.Cfg.FileName, MaxBytes: c.Cfg.MaxBytes, MaxFiles: c.Cfg.MaxFiles,
			MaxDuration: time.Duration(c.Cfg.MaxDurMs) * time.Millisecond, TimestampOnlyOnRotate: c.Cfg.TsOnly, Mode: os.FileMode(c.Cfg.Mode)}
	}
	fs := newSink()
	var outF, errF *os.File
	special := c.Cfg.Path != "dir"
	switch c.Cfg.Path {
	case "null":
		fs.Path = "/dev/null"
	case "stdout", "stderr":
		fs.Path = "/dev/" + c.Cfg.Path
		stdMu.Lock()
		defer stdMu.Unlock()
		outF, _ = os.CreateTemp(filepath.Dir(dir), "stdout")
		errF, _ = os.CreateTemp(filepath.Dir(dir), "stderr")
		so, se := os.Stdout, os.Stderr
		os.Stdout, os.Stderr = outF, errF
		defer func() { os.Stdout, os.Stderr = so, se; outF.Close(); errF.Close() }()
	}
	tk := &tokenizer{byKey: map[byte][]byte{}, idOf: map[byte]int{}}
	maxDur := int64(c.Cfg.MaxDurMs) * 1000000
	modeA := !c.Cfg.TsOnly && (c.Cfg.MaxBytes > 0 || c.Cfg.MaxDurMs != 0)

	t0 := nowNs() - 1000
	rel := func(t time.Time) int64 {
		if t.IsZero() {
			return 0
		}
		return t.UnixNano() - t0
	}
	observe := func(ok bool, err error) *SObs {
		o := &SObs{Ok: ok}
		if err != nil {
			o.Err = err.Error()
		}
		if !special {
			o.Files, o.Foreign, o.Dir = listDir(dir, ns, tk.tokens, c.Cfg.Foreign, fnames)
		}
		o.Bw, o.Lc = fs.BytesWritten, rel(fs.LastCreated)
		if outF != nil {
			b, _ := os.ReadFile(outF.Name())
			o.Out = tk.tokens(b)
			b, _ = os.ReadFile(errF.Name())
			o.ErrOut = tk.tokens(b)
		}
		return o
	}
	stampsOf := func(o *SObs) map[int64]bool {
		m := map[int64]bool{}
		if o != nil {
			for _, f := range o.Files {
				if f.Kind == 1 {
					m[f.Stamp] = true
				}
			}
		}
		return m
	}

	var r *hc.Rand
	adaptive := len(c.Ops) == 0
	n := len(c.Ops)
	if adaptive {
		r = hc.NewRand(c.Seed)
		n = c.Len
	}
	open := false     // mirror of fs.f != nil: the last Process/Reopen succeeded
	activeName := ""  // current name of the file the sink has open
	var prev *SObs
	last := int64(0) // last reading fed to the model
	nextKey := 1
	rotations, extrens, ambiguous, certainYes, certainNo, removals, tampers := 0, 0, 0, 0, 0, 0, 0
	mlc := int64(0) // LastCreated as the MODEL has it: the open() readings fed so far (never taken from the sink outside a call's bracket)
	var objs [3]*el.Event
	var objLast [3]struct {
		key, size int
		ok        bool
	}
	lastWasRm := false
	var steps []step
	var sigb strings.Builder
	fmt.Fprintf(&sigb, "%+v|", c.Cfg)

	for i := 0; i < n; i++ {
		var op Op
		if adaptive {
			nfiles := 0
			if prev != nil {
				nfiles = len(prev.Files)
			}
			sinceUs := int64(0)
			if open {
				sinceUs = (nowNs() - t0 - mlc) / 1000
			}
			op = genOp(r, c, fs, open, nextKey, lastWasRm, nfiles, sinceUs)
			res.c.Ops = append(res.c.Ops, op)
		} else {
			op = c.Ops[i]
		}
		fmt.Fprintf(&sigb, "%s%d.%d.%d%v,", op.K, op.Size, op.Ctx, op.Obj, op.Repeat)
		switch op.K {
		case "w":
			key, size := 0, op.Size
			if op.Repeat && op.Obj > 0 && objLast[op.Obj].ok && !op.NoFmt {
				key, size = objLast[op.Obj].key, objLast[op.Obj].size // the very same event again
				res.stats["same_event_object_handed_in_again"]++
			} else {
				if nextKey > 127 {
					panic("too many writes in one case")
				}
				key = nextKey
				nextKey++
			}
			data := payload(key, size)
			if size > 0 {
				tk.byKey[byte(key)] = data
				tk.idOf[byte(key)] = key
			} else {
				res.stats["empty_writes"]++
				if op.NilVal {
					data = nil // present in the map, nil: Event.Format reports it as existing
				}
			}
			// the event carries the sink's format (unless NoFmt) and a decoy under another name whose bytes must never reach a file
			pristine := append([]byte(nil), data...)
			ev := &el.Event{}
			if op.Obj > 0 {
				if objs[op.Obj] == nil {
					objs[op.Obj] = &el.Event{}
				}
				ev = objs[op.Obj] // a recycled object: the producer replaces its bytes before each call
				res.stats["recycled_event_objects"]++
			}
			ev.FormattedAs("decoy-format", []byte{0xFE, 0xFD, 0xFC})
			if !op.NoFmt {
				ev.FormattedAs(fmtKey, data)
			} else {
				delete(ev.Formatted, fmtKey)
				if fmtKey != el.JSONFormat {
					ev.FormattedAs(el.JSONFormat, []byte{0xFB, 0xFA})
				}
			}
			objLast[op.Obj].key, objLast[op.Obj].size, objLast[op.Obj].ok = key, size, !op.NoFmt && size > 0
			lcPrev := fs.LastCreated
			before := stampsOf(prev)
			var eLo, eHi int64
			tB := after(last+t0) - t0
			if open {
				eLo = tB - mlc
			}
			pctx, pcancel := ctxOf(op.Ctx)
			_, err := fs.Process(pctx, ev)
			pcancel()
			res.stats[fmt.Sprintf("process_ctx_kind_%d", op.Ctx)]++
			if !op.NoFmt && !bytes.Equal(ev.Formatted[fmtKey], pristine) {
				panic("the sink changed the caller's formatted bytes")
			}
			tA := nowNs() - t0
			if open {
				eHi = tA - mlc
			}
			if !open {
				eLo, eHi = 0, tA-tB
			}
			o := observe(err == nil, err)
			var fresh []int64
			for _, f := range o.Files {
				if f.Kind == 1 && !before[f.Stamp] {
					fresh = append(fresh, f.Stamp-t0)
				}
			}
			lcChanged := !fs.LastCreated.Equal(lcPrev)
			lcAfter := rel(fs.LastCreated)
			// which branches did the call take, as far as the observations tell
			var rotated bool
			switch {
			case special:
			case open:
				rotated = lcChanged || err != nil
			case modeA:
				rotated = len(fresh) >= 2
			default:
				rotated = len(fresh) >= 1 || err != nil
			}
			var fd Feed
			cur := tB
			// a reading taken from LastCreated / a file name is only believed when it lies inside this call's bracket: a
			// LastCreated that open() did not refresh must not be fed to the model as if it had
			inB := func(v int64) bool { return v >= tB && v <= tA }
			obsOr := func(v int64, have bool) int64 {
				if have && !inB(v) {
					have = false
					res.stats["reading_outside_the_calls_bracket_not_fed"]++
				}
				if have {
					cur = v
				} else {
					cur++
				}
				return cur
			}
			// t1: createTime of open() before rotate
			switch {
			case special || open:
				fd.T[0] = obsOr(0, false)
			case modeA:
				fd.T[0] = obsOr(first(fresh), len(fresh) >= 1)
			default:
				fd.T[0] = obsOr(lcAfter, !rotated && err == nil)
			}
			lcAt := mlc
			if !open {
				lcAt = fd.T[0]
			}
			// t2: the reading of time.Since — only its comparison with MaxDuration matters
			want := false
			if maxDur > 0 && !special {
				switch {
				case eLo > maxDur:
					want = true
					certainYes++
				case eHi <= maxDur:
					certainNo++
				default:
					want = rotated
					fd.Ambiguous = true
					ambiguous++
				}
				if want {
					if cur+1 < lcAt+maxDur+1 {
						cur = lcAt + maxDur
					}
					cur++
				} else {
					if cur+1 > lcAt+maxDur {
						cur = lcAt + maxDur - 1 // the wall clock and the monotonic clock disagree by a few ns: clock_okb will say so
					}
					cur++
				}
				fd.T[1] = cur
			} else {
				fd.T[1] = obsOr(0, false)
			}
			// t3: rotateTime (TimestampOnlyOnRotate)
			fd.T[2] = obsOr(lastOf(fresh), c.Cfg.TsOnly && rotated && len(fresh) >= 1)
			// t4: createTime of open() after rotate
			fd.T[3] = obsOr(lcAfter, rotated && err == nil && !special)
			fd.T[4] = obsOr(0, false)
			last = max64(cur, tA)
			if !op.NoFmt && !special {
				if !open {
					mlc = fd.T[0]
				}
				if rotated && err == nil {
					mlc = fd.T[3]
				}
			}
			if rotated && !op.NoFmt {
				rotations++
			}
			if op.NoFmt {
				// refused before the lock was taken: the sink's state, and so the mirror, is unchanged
			} else if err == nil && !special {
				if lcChanged || !open {
					if modeA {
						activeName = ns.stamped(fs.LastCreated.UnixNano())
					} else {
						activeName = c.Cfg.FileName
					}
				}
				open = true
			} else if !special {
				open = false
			}
			if op.NoFmt {
				// refused before the lock: the model's XUnformatted (ok = false, nothing changes)
				steps = append(steps, step{"XUnformatted " + hc.Z(fd.T[4]), o})
				res.obs, res.feeds, prev = append(res.obs, o), append(res.feeds, fd), o
				res.stats["writes_without_the_sinks_format"]++
				break
			}
			steps = append(steps, step{fmt.Sprintf("XOp (Write %s %s %s %s %s %s %s nofault)", hc.N(key), hc.Z(int64(size)),
				hc.Z(fd.T[0]), hc.Z(fd.T[1]), hc.Z(fd.T[2]), hc.Z(fd.T[3]), hc.Z(fd.T[4])), o})
			res.obs, res.feeds, prev = append(res.obs, o), append(res.feeds, fd), o
		case "reopen":
			tB := after(last+t0) - t0
			err := fs.Reopen()
			tA := nowNs() - t0
			o := observe(err == nil, err)
			t := rel(fs.LastCreated)
			if special || err != nil {
				t = tA
			} else if t < tB || t > tA {
				// Reopen always opens: its createTime lies inside the call. A LastCreated from before is not that reading.
				t = tB + 1
				res.stats["reading_outside_the_calls_bracket_not_fed"]++
			}
			if !special && err == nil {
				mlc = t
			}
			last = max64(t, tA)
			if !special {
				open = err == nil
				if open {
					if modeA {
						activeName = ns.stamped(fs.LastCreated.UnixNano())
					} else {
						activeName = c.Cfg.FileName
					}
				}
			}
			steps = append(steps, step{"XOp (Reopen " + hc.Z(t) + ")", o})
			res.obs, res.feeds, prev = append(res.obs, o), append(res.feeds, Feed{T: [5]int64{t}}), o
		case "extren":
			abs := after(last + t0)
			t := abs - t0
			if open && activeName != "" && !special {
				nn := ns.stamped(abs)
				if err := os.Rename(filepath.Join(dir, activeName), filepath.Join(dir, nn)); err == nil {
					activeName = nn
					extrens++
				}
			}
			o := observe(true, nil)
			last = max64(t, nowNs()-t0)
			steps = append(steps, step{"XOp (ExtRename " + hc.Z(t) + ")", o})
			res.obs, res.feeds, prev = append(res.obs, o), append(res.feeds, Feed{T: [5]int64{t}}), o
		case "pause":
			time.Sleep(time.Duration(op.PauseUs) * time.Microsecond)
			t := after(last+t0) - t0
			o := observe(true, nil)
			last = t
			steps = append(steps, step{"XOp (Pause " + hc.Z(t) + ")", o})
			res.obs, res.feeds, prev = append(res.obs, o), append(res.feeds, Feed{T: [5]int64{t}}), o
		case "chmod", "newsink":
			// somebody chmods one of the sink's files and leaves it so; or the program replaces the sink object by a new one with the
			// same configuration on the same path (its first open then finds the files — and their modes — already there)
			t := after(last+t0) - t0
			lit := "XOp (Pause " + hc.Z(t) + ")"
			if !special {
				if op.K == "newsink" {
					fs = newSink() // the old object (and its descriptor) is simply dropped
					open, activeName, mlc = false, "", 0
					lit = "XNewSink " + hc.Z(t)
					tampers++
				} else if prev != nil && op.Pos < len(prev.Files) {
					if os.Chmod(filepath.Join(dir, prev.Files[op.Pos].Name), os.FileMode(op.FMode)) == nil {
						lit = fmt.Sprintf("XChmod %s %s %s", hc.N(op.Pos), hc.N(op.FMode), hc.Z(t))
						tampers++
					}
				}
			}
			o := observe(true, nil)
			last = max64(t, nowNs()-t0)
			steps = append(steps, step{lit, o})
			res.obs, res.feeds, prev = append(res.obs, o), append(res.feeds, Feed{T: [5]int64{t}}), o
		case "touch", "append":
			// somebody else touches one of the sink's files: metadata only (mtime to now / the past / the future, chmod and
			// back, rewritten in place) — invisible to the model, which knows names, modes and contents — or appends the
			// bytes of an earlier event to it
			t := after(last+t0) - t0
			lit := "XOp (Pause " + hc.Z(t) + ")"
			if !special && prev != nil && op.Pos < len(prev.Files) {
				f := prev.Files[op.Pos]
				path := filepath.Join(dir, f.Name)
				if op.K == "touch" {
					switch op.How {
					case 1:
						if os.Chmod(path, os.FileMode(f.Mode)^0o040) == nil {
							os.Chmod(path, os.FileMode(f.Mode))
						}
					case 2:
						if f.Name != activeName { // the sink's descriptor must keep pointing at the active file
							if b, err := os.ReadFile(path); err == nil {
								tmp := filepath.Join(filepath.Dir(dir), "rewrite.tmp")
								if os.WriteFile(tmp, b, 0o600) == nil && os.Chmod(tmp, os.FileMode(f.Mode)) == nil {
									os.Rename(tmp, path)
								}
							}
						}
					}
					if op.How != 1 {
						when := time.Now()
						if op.When == 1 {
							when = when.Add(-time.Hour)
						} else if op.When == 2 {
							when = when.Add(time.Hour)
						}
						os.Chtimes(path, when, when)
					}
					tampers++
				} else if b, ok := tk.byKey[byte(op.Src)]; ok {
					if fh, err := os.OpenFile(path, os.O_WRONLY|os.O_APPEND, 0); err == nil {
						fh.Write(b)
						fh.Close()
						lit = fmt.Sprintf("XAppend %s %s %s", hc.N(op.Pos), hc.N(op.Src), hc.Z(t))
						tampers++
					}
				}
			}
			o := observe(true, nil)
			last = max64(t, nowNs()-t0)
			steps = append(steps, step{lit, o})
			res.obs, res.feeds, prev = append(res.obs, o), append(res.feeds, Feed{T: [5]int64{t}}), o
		case "rmdir", "rmactive":
			// somebody deletes the whole log directory / only the file the sink has open
			t := after(last+t0) - t0
			if !special {
				if op.K == "rmdir" {
					os.RemoveAll(dir)
					activeName = ""
					removals++
				} else if open && activeName != "" {
					if os.Remove(filepath.Join(dir, activeName)) == nil {
						removals++
					}
					activeName = ""
				}
			}
			o := observe(true, nil)
			last = max64(t, nowNs()-t0)
			lit := "XRmDir "
			if op.K == "rmactive" {
				lit = "XRmActive "
			}
			steps = append(steps, step{lit + hc.Z(t), o})
			res.obs, res.feeds, prev = append(res.obs, o), append(res.feeds, Feed{T: [5]int64{t}}), o
		default:
			panic("unknown op " + op.K)
		}
		lastWasRm = op.K == "rmdir" || op.K == "rmactive" || op.K == "chmod"
	}
	res.stats["external_removals_done"] = removals
	res.stats["external_touch_or_append_done"] = tampers
	res.stats["rotations_observed"] = rotations
	res.stats["ext_renames_done"] = extrens
	res.stats["duration_ambiguous"] = ambiguous
	res.stats["duration_certain_yes"] = certainYes
	res.stats["duration_certain_no"] = certainNo
	res.stats["steps"] = len(steps)
	res.nontriv = rotations > 0 || extrens > 0
	res.sig = sigb.String()
	res.lit = caseLit(c.ID, c.Cfg, dm, 0, nil, !blocked, steps)
	return res
}

func first(xs []int64) int64 {
	if len(xs) == 0 {
		return 0
	}
	return xs[0]
}
func lastOf(xs []int64) int64 {
	if len(xs) == 0 {
		return 0
	}
	return xs[len(xs)-1]
}
func max64(a, b int64) int64 {
	if a > b {
		return a
	}
	return b
}

// ---------- generators ----------
// file-name shapes: the usual one, another extension, no extension, several dots, a stem ending in characters of its own
// extension (strings.TrimRight vs TrimSuffix), an extension-only name, a one-letter stem
var fileNames = []string{"audit.log", "audit.log", "ev.json", "noext", "a.b.c", "syslog.log", "catalog.log", "data.dat", "test.txt",
	"x.tar.gz", ".log", "g.log",
	// look-alike stems: no extension, doubled extension, other case, leading blank, a stem ending in digits / in something
	// that looks like a stamp, a long name
	"stdout", "null", "stderr.log", // the special paths' last elements as file names
	"audit", "audit.log.log", "Audit.log", " audit.log", "audit2024.log", "audit-1700000000000000000.log",
	strings.Repeat("n", 180) + ".log"}

func genCfg(r *hc.Rand, timeCases bool) Cfg {
	c := Cfg{Path: "dir", FileName: fileNames[r.Intn(len(fileNames))]}
	switch r.Intn(8) {
	case 0, 1:
		c.MaxBytes = 0
	case 2:
		c.MaxBytes = 1 + r.Intn(3)
	case 3:
		c.MaxBytes = 300 - r.Intn(3)
	default:
		c.MaxBytes = []int{10, 25, 50, 100, 150, 200, 1 + r.Intn(300), 1 + r.Intn(300)}[r.Intn(8)]
	}
	switch r.Intn(24) {
	case 0:
		c.MaxBytes = -1 // never rotates by size, and does not switch to stamped names either
	case 1:
		c.MaxBytes = 1 << 40
	}
	c.MaxFiles = r.Intn(4)
	if !timeCases && r.Chance(1, 20) {
		c.MaxDurMs = -1 // != 0: stamped names; not > 0: never rotates by time
	}
	c.PathVar = []int{0, 0, 0, 1, 2, 3, 5, 6, 7}[r.Intn(9)]
	c.Format = []string{"", "", "json", "cev"}[r.Intn(4)]
	if timeCases {
		c.MaxDurMs = 30
		if r.Chance(1, 2) {
			c.MaxBytes = 0
		}
	}
	c.TsOnly = r.Bool()
	c.Mode = []uint32{0, 0, 0o600, 0o644, 0o640, 0o666, 0o400 | 0o200 | 0o040, 0o400}[r.Intn(8)]
	fn := foreignNames(c.FileName)
	if r.Chance(1, 2) {
		k := 1 + r.Intn(3)
		seen := map[int]bool{}
		if fn[6] != "" && r.Chance(2, 3) { // the neighbours a too-wide pattern would take for the sink's own files
			seen[6], seen[7] = true, true
			c.Foreign = append(c.Foreign, 6, 7)
			k += 2
		}
		for len(c.Foreign) < k {
			f := 1 + r.Intn(len(fn)-1)
			if fn[f] != "" && !seen[f] {
				seen[f] = true
				c.Foreign = append(c.Foreign, f)
			}
		}
		sort.Ints(c.Foreign)
	} else if r.Chance(1, 4) {
		c.PreDir = true
	}
	if r.Chance(1, 40) {
		// a component of Path is a regular file: every open fails; judged by the oracles alone (nothing acknowledged, nothing made)
		c.PathVar, c.Foreign, c.PreDir, c.MaxFiles = []int{4, 4, 8}[r.Intn(3)], nil, false, 0
	}
	return c
}

// one operation, chosen knowing the sink's exported counters (boundary bias)
func genOp(r *hc.Rand, cs Case, fs *el.FileSink, open bool, nextKey int, lastWasRm bool, nfiles int, sinceUs int64) Op {
	c := cs.Cfg
	if cs.Rm && nextKey >= 2 {
		// histories with deletions from outside: the interesting part is the next open() — Reopen or a rotating write
		if lastWasRm && r.Chance(1, 2) {
			return Op{K: "reopen"}
		}
		switch y := r.Intn(100); {
		case y < 7:
			return Op{K: "rmdir"}
		case y < 12:
			return Op{K: "rmactive"}
		case y < 17 && nfiles > 0:
			return Op{K: "append", Pos: r.Intn(nfiles), Src: 1 + r.Intn(nextKey-1)}
		case y < 25 && nfiles > 0:
			// mostly the newest (= active) file; a mode looser or tighter than the configured one, or the default 0600 itself
			pos := nfiles - 1
			if r.Chance(1, 4) {
				pos = r.Intn(nfiles)
			}
			return Op{K: "chmod", Pos: pos, FMode: []int{0o644, 0o666, 0o640, 0o600, 0o400}[r.Intn(5)]}
		case y < 29:
			return Op{K: "newsink"}
		}
	}
	if nfiles > 0 && r.Chance(7, 100) {
		// oldest, newest (the active one) or any file; mtime now / past / future, chmod and back, rewrite in place
		pos := []int{0, nfiles - 1, r.Intn(nfiles)}[r.Intn(3)]
		return Op{K: "touch", Pos: pos, When: r.Intn(3), How: []int{0, 0, 0, 1, 2}[r.Intn(5)]}
	}
	timed := c.MaxDurMs > 0
	if timed && open && nextKey >= 2 {
		// Reopen (or a new sink object) BETWEEN the pauses: LastCreated must restart there
		if r.Chance(1, 8) {
			return Op{K: "reopen"}
		}
		if r.Chance(1, 40) {
			return Op{K: "newsink"}
		}
	}
	x := r.Intn(100)
	switch {
	case x < 58 || nextKey < 2:
		size := 1 + r.Intn(200)
		if r.Chance(1, 3) {
			size = 1 + r.Intn(12)
		}
		if c.MaxBytes > 0 && r.Chance(3, 5) {
			bw := 0
			if open {
				bw = int(fs.BytesWritten)
			}
			d := c.MaxBytes - bw + []int{0, 0, -1, 1}[r.Intn(4)] // land exactly on / one below / one above MaxBytes
			if d >= 1 && d <= 200 {
				size = d
			}
		}
		ctxKind := 0
		if r.Chance(1, 3) {
			ctxKind = 1 + r.Intn(6)
		}
		if r.Chance(1, 30) {
			return Op{K: "w", Size: 1 + r.Intn(20), Ctx: ctxKind, NoFmt: true}
		}
		if r.Chance(1, 40) {
			size = 1000 + r.Intn(3000) // much larger than any MaxBytes in use
		}
		// an event whose formatted value is empty ([]byte{} or nil): as first write, right when the file is due, in between
		due := c.MaxBytes > 0 && open && int(fs.BytesWritten) >= c.MaxBytes
		if (nextKey < 2 && r.Chance(1, 6)) || (due && r.Chance(1, 4)) || r.Chance(1, 20) {
			return Op{K: "w", Size: 0, Ctx: ctxKind, NilVal: r.Bool()}
		}
		// the producer recycles Event objects: the same object with new bytes, or handed in again unchanged
		if r.Chance(1, 8) {
			return Op{K: "w", Size: size, Ctx: ctxKind, Obj: 1 + r.Intn(2), Repeat: r.Chance(1, 3)}
		}
		return Op{K: "w", Size: size, Ctx: ctxKind}
	case x < 70:
		return Op{K: "reopen"}
	case x < 82:
		return Op{K: "extren"}
	default:
		if !timed {
			return Op{K: "pause", PauseUs: r.Intn(300)}
		}
		// aim at an elapsed time around MaxDuration
		target := []int64{20000, 28500, 31500, 45000, 5000}[r.Intn(5)]
		p := target - sinceUs // measured from the open the MODEL knows of: the pauses before and after a Reopen each stay below / go above MaxDuration on their own
		if p < 0 {
			p = int64(r.Intn(2000))
		}
		return Op{K: "pause", PauseUs: int(p)}
	}
}

// ---------- concurrent writers ----------
func execConc(c Case, root string) (res result) {
	res.c = c
	res.stats = map[string]int{}
	defer func() {
		if r := recover(); r != nil {
			res.panicked = fmt.Sprint(r)
		}
	}()
	ns := newNamespace(c.Cfg.FileName)
	dir := filepath.Join(root, fmt.Sprintf("c%06d", c.ID), "logs")
	os.RemoveAll(filepath.Dir(dir))
	os.MkdirAll(filepath.Dir(dir), 0o755)
	defer os.RemoveAll(filepath.Dir(dir))
	fs := &el.FileSink{Path: dir, FileName: c.Cfg.FileName, MaxBytes: c.Cfg.MaxBytes, MaxFiles: c.Cfg.MaxFiles,
		TimestampOnlyOnRotate: c.Cfg.TsOnly, Mode: os.FileMode(c.Cfg.Mode)}
	// the directory exists beforehand so that it can be watched: its event queue is the order of the sink's critical sections
	if err := os.Mkdir(dir, 0o750); err != nil {
		panic(err)
	}
	os.Chmod(dir, 0o750)
	watch, werr := watchDir(dir)
	tk := &tokenizer{byKey: map[byte][]byte{}, idOf: map[byte]int{}}
	r := hc.NewRand(c.Seed)
	type ev struct {
		id   int
		data []byte
	}
	key := 1
	sizes := map[int]int{}
	evs := make([][]ev, len(c.Writers))
	for w, n := range c.Writers {
		for s := 1; s <= n; s++ {
			id := (w+1)*10000 + s
			size := 1 + r.Intn(40)
			if r.Chance(1, 4) {
				size = 1 + r.Intn(200)
			}
			d := payload(key, size)
			tk.byKey[byte(key)] = d
			tk.idOf[byte(key)] = id
			sizes[id] = size
			key++
			evs[w] = append(evs[w], ev{id, d})
		}
	}
	acked := make([][]int, len(c.Writers))
	var panicMu sync.Mutex
	panicked := ""
	var wg sync.WaitGroup
	start := make(chan struct{})
	for w := range c.Writers {
		wg.Add(1)
		go func(w int) {
			defer wg.Done()
			defer func() {
				if r := recover(); r != nil {
					panicMu.Lock()
					panicked = fmt.Sprint(r)
					panicMu.Unlock()
				}
			}()
			<-start
			recycled := &el.Event{} // every writer recycles one Event object: new bytes before each call
			for _, e := range evs[w] {
				pctx, pcancel := ctxOf((e.id * 7) % 12) // kinds 7..11 are Background
				recycled.FormattedAs(el.JSONFormat, e.data)
				if _, err := fs.Process(pctx, recycled); err == nil {
					acked[w] = append(acked[w], e.id)
				}
				pcancel()
			}
		}(w)
	}
	// Reopen() callers: their open() stamps a new file inside the critical section while writers are queueing
	stop := make(chan struct{})
	var rwg sync.WaitGroup
	reopens := 0
	var reopenMu sync.Mutex
	for i := 0; i < c.Reopeners; i++ {
		rwg.Add(1)
		go func() {
			defer rwg.Done()
			<-start
			for {
				select {
				case <-stop:
					return
				default:
				}
				if fs.Reopen() == nil {
					reopenMu.Lock()
					reopens++
					reopenMu.Unlock()
				}
				time.Sleep(20 * time.Microsecond)
			}
		}()
	}
	close(start)
	finished := make(chan struct{})
	go func() { wg.Wait(); close(finished) }()
	select {
	case <-finished:
	case <-time.After(60 * time.Second):
		panic("hang: concurrent Process / Reopen callers did not finish within 60 s")
	}
	close(stop)
	rwg.Wait()
	if panicked != "" {
		panic("a writer goroutine panicked: " + panicked)
	}
	o := &SObs{Ok: true, Lc: -1, Bw: fs.BytesWritten}
	o.Files, o.Foreign, o.Dir = listDir(dir, ns, tk.tokens, nil, nil)
	var dirlog []dirEv
	if werr == nil {
		evs, ok := watch.drain()
		if ok {
			for _, e := range evs {
				k, ts := ns.classify(e.name)
				if k != 1 {
					continue
				}
				switch {
				case e.mask&(syscall.IN_CREATE|syscall.IN_MOVED_TO) != 0:
					dirlog = append(dirlog, dirEv{1, ts})
				case e.mask&syscall.IN_DELETE != 0:
					dirlog = append(dirlog, dirEv{2, ts})
				}
			}
			for _, f := range o.Files {
				if f.Kind == 1 {
					dirlog = append(dirlog, dirEv{3, f.Stamp})
				}
			}
			res.stats["conc_dir_events"] += len(evs)
		} else {
			res.stats["conc_dir_event_queue_overflowed"]++
		}
	} else {
		res.stats["conc_dir_watch_unavailable"]++
	}
	res.stats["conc_reopens"] = reopens
	total := 0
	for w := range acked {
		total += len(acked[w])
	}
	var steps []step
	model := c.Cfg.MaxFiles == 0 && c.Reopeners == 0
	t := int64(10)
	wr := func(id int, ob *SObs) {
		steps = append(steps, step{fmt.Sprintf("XOp (Write %s %s %s %s %s %s %s nofault)", hc.N(id), hc.Z(int64(sizes[id])),
			hc.Z(t+1), hc.Z(t+2), hc.Z(t+3), hc.Z(t+4), hc.Z(t+5)), ob})
		t += 10
	}
	if model {
		// the order of the events in the files is the order in which the writers got the mutex: run the model on it
		var order []int
		for _, f := range o.Files {
			for _, id := range f.Data {
				if id != 0 {
					order = append(order, id)
				}
			}
		}
		seen := map[int]bool{}
		for _, id := range order {
			seen[id] = true
		}
		for w := range acked { // acknowledged events that are in no file still count as acknowledged
			for _, id := range acked[w] {
				if !seen[id] {
					order = append(order, id)
				}
			}
		}
		for i, id := range order {
			if i == len(order)-1 {
				wr(id, o)
			} else {
				wr(id, nil)
			}
		}
		if len(order) == 0 {
			steps = append(steps, step{"XOp (Pause 5%Z)", o})
		}
	} else {
		for w := range acked {
			for _, id := range acked[w] {
				wr(id, nil)
			}
		}
		steps = append(steps, step{"XOp (Pause " + hc.Z(t+1) + ")", o})
	}
	res.obs = []*SObs{o}
	res.stats["conc_events"] = total
	res.stats["conc_files"] = len(o.Files)
	res.nontriv = len(o.Files) > 1 && len(c.Writers) > 1
	res.sig = fmt.Sprintf("conc %+v %v %d", c.Cfg, c.Writers, c.Seed)
	res.lit = caseLit(c.ID, c.Cfg, 0o750, len(c.Writers), acked, model, steps, dirlog...)
	return res
}

// ---------- SIGKILL ----------
func childMain(cfgJSON string, dir string) {
	var c Cfg
	if err := json.Unmarshal([]byte(cfgJSON), &c); err != nil {
		os.Exit(3)
	}
	fs := &el.FileSink{Path: dir, FileName: c.FileName, MaxBytes: c.MaxBytes, MaxFiles: c.MaxFiles,
		TimestampOnlyOnRotate: c.TsOnly, Mode: os.FileMode(c.Mode)}
	ackPipe := os.NewFile(3, "acks")
	recycled := &el.Event{} // the producer recycles one Event object
	if c.FsizeLimit > 0 {
		// write(2) starts failing (EFBIG, possibly after a short write) once a file reaches the limit
		signal.Ignore(syscall.SIGXFSZ)
		lim := syscall.Rlimit{Cur: uint64(c.FsizeLimit), Max: uint64(c.FsizeLimit)}
		if err := syscall.Setrlimit(syscall.RLIMIT_FSIZE, &lim); err != nil {
			os.Exit(6)
		}
		for i := 1; i <= c.FsizeEvents; i++ {
			pctx, pcancel := ctxOf(i % 9)
			recycled.FormattedAs(el.JSONFormat, linePayload(i))
			_, err := fs.Process(pctx, recycled)
			pcancel()
			b := byte('a')
			if err != nil {
				b = 'e'
			}
			if _, err := ackPipe.Write([]byte{b}); err != nil {
				os.Exit(5)
			}
		}
		os.Exit(0)
	}
	for i := 1; ; i++ {
		pctx, pcancel := ctxOf(i % 9)
		recycled.FormattedAs(el.JSONFormat, linePayload(i))
		_, err := fs.Process(pctx, recycled)
		pcancel()
		if err != nil {
			fmt.Fprintf(os.Stderr, "child: Process %d: %v\n", i, err)
			os.Exit(4)
		}
		// the acknowledgement: written only after Process has returned
		if _, err := ackPipe.Write([]byte{'a'}); err != nil {
			os.Exit(5)
		}
	}
}

type kresult struct {
	fsize    bool
	c        Case
	lit      string
	acks     int
	files    []FObs
	panicked string
	nontriv  bool
}

func execKill(c Case, root string) (res kresult) {
	res.c = c
	defer func() {
		if r := recover(); r != nil {
			res.panicked = fmt.Sprint(r)
		}
	}()
	ns := newNamespace(c.Cfg.FileName)
	dir := filepath.Join(root, fmt.Sprintf("k%06d", c.ID), "logs")
	os.RemoveAll(filepath.Dir(dir))
	os.MkdirAll(filepath.Dir(dir), 0o755)
	defer os.RemoveAll(filepath.Dir(dir))
	pr, pw, err := os.Pipe()
	if err != nil {
		panic(err)
	}
	js, _ := json.Marshal(c.Cfg)
	cmd := exec.Command(os.Args[0], "-child", string(js), "-child-dir", dir)
	cmd.ExtraFiles = []*os.File{pw}
	var stderr bytes.Buffer
	cmd.Stderr = &stderr
	if err := cmd.Start(); err != nil {
		panic(err)
	}
	pw.Close()
	acks := 0
	firstAck := make(chan struct{})
	done := make(chan struct{})
	go func() {
		buf := make([]byte, 4096)
		for {
			n, err := pr.Read(buf)
			if n > 0 {
				if acks == 0 {
					close(firstAck)
				}
				acks += n
			}
			if err != nil {
				close(done)
				return
			}
		}
	}()
	select {
	case <-firstAck:
	case <-time.After(5 * time.Second):
	}
	time.Sleep(time.Duration(c.KillUs) * time.Microsecond)
	_ = cmd.Process.Signal(syscall.SIGKILL)
	werr := cmd.Wait()
	<-done
	pr.Close()
	if ee, ok := werr.(*exec.ExitError); !ok || !ee.Sys().(syscall.WaitStatus).Signaled() {
		panic(fmt.Sprintf("child was not killed: %v %s", werr, stderr.String()))
	}
	files, _, _ := listDir(dir, ns, lineTokens, nil, nil)
	res.acks, res.files = acks, files
	res.nontriv = acks > 0
	fl := make([]string, len(files))
	for i, f := range files {
		fl[i] = fobsLit(f)
	}
	sizes := make([]string, acks+1)
	for i := range sizes {
		sizes[i] = strconv.Itoa(len(linePayload(i + 1)))
	}
	szLit := "[" + strings.Join(sizes, ";") + "]%Z"
	res.lit = fmt.Sprintf("{| k_id := %s; k_cfg := %s; k_acks := %s; k_sizes := %s; k_files := %s |}", hc.N(c.ID), cfgLit(c.Cfg), hc.N(acks), szLit, hc.List(fl))
	return res
}

// ---------- failing write(2): a child whose files may not grow beyond RLIMIT_FSIZE ----------
func execFsize(c Case, root string) (res kresult) {
	res.c = c
	defer func() {
		if r := recover(); r != nil {
			res.panicked = fmt.Sprint(r)
		}
	}()
	ns := newNamespace(c.Cfg.FileName)
	dir := filepath.Join(root, fmt.Sprintf("l%06d", c.ID), "logs")
	os.RemoveAll(filepath.Dir(dir))
	os.MkdirAll(filepath.Dir(dir), 0o755)
	defer os.RemoveAll(filepath.Dir(dir))
	pr, pw, err := os.Pipe()
	if err != nil {
		panic(err)
	}
	js, _ := json.Marshal(c.Cfg)
	cmd := exec.Command(os.Args[0], "-child", string(js), "-child-dir", dir)
	cmd.ExtraFiles = []*os.File{pw}
	var stderr bytes.Buffer
	cmd.Stderr = &stderr
	if err := cmd.Start(); err != nil {
		panic(err)
	}
	pw.Close()
	acks, _ := io.ReadAll(pr)
	pr.Close()
	if err := cmd.Wait(); err != nil {
		panic(fmt.Sprintf("fsize child failed: %v %s", err, stderr.String()))
	}
	files, _, _ := listDir(dir, ns, lineTokens, nil, nil)
	var ackedIDs []int
	failed := 0
	for i, b := range acks {
		if b == 'a' {
			ackedIDs = append(ackedIDs, i+1)
		} else {
			failed++
		}
	}
	res.acks, res.files = len(ackedIDs), files
	res.nontriv = failed > 0 && len(ackedIDs) > 0
	fl := make([]string, len(files))
	for i, f := range files {
		fl[i] = fobsLit(f)
	}
	res.lit = fmt.Sprintf("{| l_id := %s; l_cfg := %s; l_acked := %s; l_failed := %s; l_files := %s |}", hc.N(c.ID), cfgLit(c.Cfg), nlist(ackedIDs), hc.N(failed), hc.List(fl))
	return res
}

// ---------- main ----------
type emitter struct {
	cf      *hc.CaseFile
	side    io.Writer
	stats   map[string]int
	sigs    map[string]bool
	nontriv int
	panics  []string
}

func (e *emitter) add(stats map[string]int) {
	for k, v := range stats {
		e.stats[k] += v
	}
}

func readCorpus(path string) []Case {
	var out []Case
	data, err := os.ReadFile(path)
	if err != nil {
		return nil
	}
	for _, line := range strings.Split(string(data), "\n") {
		line = strings.TrimSpace(line)
		if line == "" || strings.HasPrefix(line, "#") {
			continue
		}
		var c Case
		if err := json.Unmarshal([]byte(line), &c); err != nil {
			fmt.Fprintf(os.Stderr, "corpus: %v\n", err)
			continue
		}
		c.Gen = "corpus"
		out = append(out, c)
	}
	return out
}

func main() {
	out := flag.String("out", ".", "output directory")
	prefix := flag.String("prefix", "cases", "case file prefix")
	modes := flag.String("modes", "seq,timed,special", "generators: seq,timed,seqrm,special,conc,kill,fsize")
	nSeq := flag.Int("seq", 500, "sequential size-triggered cases")
	nTimed := flag.Int("timed", 100, "sequential cases with MaxDuration = 30ms")
	nSeqRm := flag.Int("seqrm", 150, "sequential cases that also delete the directory / the active file from outside")
	nConc := flag.Int("conc", 40, "concurrent-writer cases")
	nKill := flag.Int("kill", 30, "SIGKILL cases")
	nFsize := flag.Int("fsize", 30, "cases run by a child under RLIMIT_FSIZE (write(2) fails once a file reaches the limit)")
	length := flag.Int("len", 25, "operations per sequential case")
	perShard := flag.Int("per-shard", 50, "cases per file")
	workers := flag.Int("workers", 48, "cases run in parallel")
	corpus := flag.String("corpus", "", "corpus file (JSON lines), run first")
	replay := flag.String("replay", "", "replay one JSON case and print its observations")
	root := flag.String("root", "", "scratch directory for the sinks' directories (default <out>/fs)")
	child := flag.String("child", "", "internal: run as the writer child of a kill case")
	childDir := flag.String("child-dir", "", "internal")
	flag.Parse()
	// the result must not depend on the umask: 0600 / 0700 / explicit modes survive all of these
	syscall.Umask([]int{0o022, 0o077, 0o002, 0}[hc.Seed()%4])

	if *child != "" {
		childMain(*child, *childDir)
		return
	}
	if *root == "" {
		*root = filepath.Join(*out, "fs")
	}
	os.MkdirAll(*root, 0o755)

	if *replay != "" {
		data, err := os.ReadFile(*replay)
		if err != nil {
			fmt.Fprintln(os.Stderr, err)
			os.Exit(2)
		}
		var wrapper struct {
			Case Case `json:"case"`
		}
		if err := json.Unmarshal(data, &wrapper); err != nil || wrapper.Case.Cfg.Path == "" {
			_ = json.Unmarshal(data, &wrapper.Case)
		}
		c := wrapper.Case
		switch {
		case c.Cfg.FsizeLimit > 0:
			k := execFsize(c, *root)
			fmt.Printf("fsize case (RLIMIT_FSIZE %d): %d events acknowledged\n", c.Cfg.FsizeLimit, k.acks)
			for _, f := range k.files {
				fmt.Printf("  %s mode %o size %d events %s\n", f.Name, f.Mode, f.Size, summarise(f.Data))
			}
		case c.KillUs > 0 || c.Gen == "kill":
			k := execKill(c, *root)
			fmt.Printf("kill case: %d acknowledgements reached the parent\n", k.acks)
			for _, f := range k.files {
				fmt.Printf("  %s mode %o events %s\n", f.Name, f.Mode, summarise(f.Data))
			}
		case len(c.Writers) > 0:
			r := execConc(c, *root)
			for _, f := range r.obs[0].Files {
				fmt.Printf("  %s mode %o events %v\n", f.Name, f.Mode, f.Data)
			}
		default:
			r := execSeq(c, *root)
			for i, o := range r.obs {
				js, _ := json.Marshal(o)
				fmt.Printf("step %d %+v fed %v ambiguous=%v\n  -> %s\n", i, r.c.Ops[i], r.feeds[i].T, r.feeds[i].Ambiguous, js)
			}
			if r.panicked != "" {
				fmt.Printf("PANIC: %s\n", r.panicked)
			}
		}
		return
	}

	header := "From Coq Require Import List NArith ZArith.\nFrom Verif Require Import FileSink Run_FileSink.\nImport ListNotations."
	cf := &hc.CaseFile{Dir: *out, Prefix: *prefix, PerShard: *perShard, Type: "list fcase", Header: header,
		Footer: "Definition M := Eval vm_compute in mismatches cases.\nPrint M.\nDefinition C := Eval vm_compute in coverage cases.\nPrint C."}
	kf := &hc.CaseFile{Dir: *out, Prefix: *prefix + "_kill", PerShard: 10, Type: "list kcase", Header: header,
		Footer: "Definition M := Eval vm_compute in kill_mismatches cases.\nPrint M.\nDefinition W := Eval vm_compute in kill_positions cases.\nPrint W."}
	lf := &hc.CaseFile{Dir: *out, Prefix: *prefix + "_fsize", PerShard: 50, Type: "list lcase", Header: header,
		Footer: "Definition M := Eval vm_compute in fsize_mismatches cases.\nPrint M."}
	sideF, err := os.Create(*out + "/" + *prefix + ".jsonl")
	if err != nil {
		panic(err)
	}
	side := bufio.NewWriter(sideF)
	e := &emitter{cf: cf, side: side, stats: map[string]int{}, sigs: map[string]bool{}}
	r := hc.NewRand(hc.Seed())

	// the list of cases to run
	var todo []Case
	id := 1
	if *corpus != "" {
		for _, c := range readCorpus(*corpus) {
			c.ID = id
			id++
			todo = append(todo, c)
		}
	}
	for _, m := range strings.Split(*modes, ",") {
		switch m {
		case "seq", "timed", "seqrm":
			n := *nSeq
			if m == "timed" {
				n = *nTimed
			}
			if m == "seqrm" {
				n = *nSeqRm
			}
			g := r.Fork()
			for i := 0; i < n; i++ {
				cfg := genCfg(g, m == "timed")
				if m == "seqrm" && g.Chance(1, 3) {
					cfg.Mode = 0o600 // the default, configured explicitly: must behave like any other explicit mode (chmod on every open)
				}
				todo = append(todo, Case{ID: id, Gen: m, Cfg: cfg, Len: *length, Seed: g.U64(), Rm: m == "seqrm"})
				id++
			}
		case "special":
			g := r.Fork()
			for _, p := range []string{"null", "stdout", "stderr"} {
				for k := 0; k < 2; k++ {
					c := genCfg(g, false)
					c.Path, c.Foreign, c.PreDir, c.PathVar, c.Format = p, nil, false, 0, ""
					todo = append(todo, Case{ID: id, Gen: "special", Cfg: c, Len: 12, Seed: g.U64()})
					id++
				}
			}
		case "conc":
			g := r.Fork()
			for i := 0; i < *nConc; i++ {
				c := genCfg(g, false)
				c.Foreign, c.PreDir, c.PathVar, c.Format, c.MaxDurMs = nil, false, 0, "", 0
				if c.MaxBytes <= 0 || c.MaxBytes > 100 {
					c.MaxBytes = 20 + g.Intn(80)
				}
				nw := 1 + g.Intn(8)
				if g.Chance(3, 4) && nw < 3 {
					nw = 3 + g.Intn(6) // mostly real contention
				}
				if g.Chance(1, 3) {
					c.MaxBytes = 1 + g.Intn(30) // a rotation every one or two events
				}
				ws := make([]int, nw)
				for w := range ws {
					ws[w] = 1 + g.Intn(120/nw)
				}
				reop := 0
				if g.Chance(1, 2) {
					reop = 1 + g.Intn(2)
				}
				todo = append(todo, Case{ID: id, Gen: "conc", Cfg: c, Writers: ws, Seed: g.U64(), Reopeners: reop})
				id++
			}
		case "fsize":
			g := r.Fork()
			for i := 0; i < *nFsize; i++ {
				c := genCfg(g, false)
				c.Foreign, c.PreDir, c.MaxFiles, c.PathVar, c.Format, c.MaxDurMs = nil, false, 0, 0, "", 0
				if g.Bool() {
					c.MaxBytes = 0
				}
				c.FsizeLimit = 100 + g.Intn(900)
				c.FsizeEvents = 40
				todo = append(todo, Case{ID: id, Gen: "fsize", Cfg: c, Seed: g.U64()})
				id++
			}
		case "kill":
			g := r.Fork()
			for i := 0; i < *nKill; i++ {
				c := genCfg(g, false)
				c.Foreign, c.PreDir, c.PathVar, c.Format, c.MaxDurMs = nil, false, 0, "", 0
				c.MaxBytes = []int{40, 60, 100, 200, 300}[g.Intn(5)]
				todo = append(todo, Case{ID: id, Gen: "kill", Cfg: c, KillUs: 50 + g.Intn(4000), Seed: g.U64()})
				id++
			}
		case "":
		default:
			fmt.Fprintf(os.Stderr, "unknown mode %s\n", m)
			os.Exit(2)
		}
	}

	// run them on a pool of workers; emit in id order
	type slot struct {
		r *result
		k *kresult
	}
	results := make([]slot, len(todo))
	var wg sync.WaitGroup
	sem := make(chan struct{}, *workers)
	killSem := make(chan struct{}, 4)
	for i := range todo {
		wg.Add(1)
		go func(i int) {
			defer wg.Done()
			c := todo[i]
			switch {
			case c.Gen == "fsize" || c.Cfg.FsizeLimit > 0:
				killSem <- struct{}{}
				k := execFsize(c, *root)
				<-killSem
				k.fsize = true
				results[i].k = &k
			case c.Gen == "kill" || c.KillUs > 0:
				killSem <- struct{}{}
				k := execKill(c, *root)
				<-killSem
				results[i].k = &k
			case len(c.Writers) > 0:
				sem <- struct{}{}
				x := execConc(c, *root)
				<-sem
				results[i].r = &x
			default:
				sem <- struct{}{}
				x := execSeq(c, *root)
				<-sem
				results[i].r = &x
			}
		}(i)
	}
	wg.Wait()
	for i := range todo {
		if k := results[i].k; k != nil {
			if k.panicked != "" {
				e.panics = append(e.panics, fmt.Sprintf("case %d: %s", k.c.ID, k.panicked))
				continue
			}
			js, _ := json.Marshal(k.c)
			side.Write(js)
			side.WriteString("\n")
			if k.fsize {
				lf.Add(k.lit)
				e.stats["fsize_cases"]++
				e.stats["fsize_acks"] += k.acks
				if k.nontriv {
					e.nontriv++
				}
				continue
			}
			kf.Add(k.lit)
			e.stats["kill_cases"]++
			e.stats["kill_acks"] += k.acks
			if k.nontriv {
				e.nontriv++
			}
			continue
		}
		x := results[i].r
		js, _ := json.Marshal(x.c)
		side.Write(js)
		side.WriteString("\n")
		if x.panicked != "" {
			e.panics = append(e.panics, fmt.Sprintf("case %d: %s", x.c.ID, x.panicked))
			continue
		}
		cf.Add(x.lit)
		e.add(x.stats)
		e.stats["cases_"+x.c.Gen]++
		if x.nontriv && !e.sigs[x.sig] {
			e.sigs[x.sig] = true
			e.nontriv++
		}
	}
	cf.Close()
	kf.Close()
	lf.Close()
	side.Flush()
	sideF.Close()
	os.RemoveAll(*root)
	summary := map[string]interface{}{}
	summary["stats"] = e.stats
	summary["files"] = cf.Files
	summary["kill_files"] = append(append([]string{}, kf.Files...), lf.Files...)
	summary["cases"] = cf.Total + kf.Total + lf.Total
	summary["distinct_nontrivial"] = e.nontriv
	summary["panics"] = e.panics
	summary["seed"] = hc.Seed()
	js, _ := json.MarshalIndent(summary, "", " ")
	os.WriteFile(*out+"/"+*prefix+"_summary.json", js, 0o644)
	fmt.Printf("filesinkh: %d cases in %d files, %d panics\n", cf.Total+kf.Total+lf.Total, len(cf.Files)+len(kf.Files)+len(lf.Files), len(e.panics))
}

func summarise(xs []int) string {
	if len(xs) <= 12 {
		return fmt.Sprint(xs)
	}
	return fmt.Sprintf("%v … %v (%d)", xs[:5], xs[len(xs)-5:], len(xs))
}
