// fmth — correspondence driver for C14: JSONFormatter, JSONFormatterFilter, Filter and Event.FormattedAs/Format.
// Generated payloads (jgen) x event types with special characters x creation times x predicate outcomes x pre-existing
// format tables are run through the real nodes (built from the tree under test); inputs and the projected observables are
// printed as cases_*.v for Run_Formatters.mismatches, which compares the stored bytes with Json.render byte for byte inside
// Coq and evaluates the property's own oracle (parse the stored line back) on the observation.
package main

import (
	"bytes"
	"context"
	"encoding/hex"
	"encoding/json"
	"flag"
	"fmt"
	"os"
	"reflect"
	"sort"
	"strings"
	"sync"
	"time"

	el "github.com/hashicorp/eventlogger"
	"verifharness/hc"
	"verifharness/jgen"
)

// ---------------------------------------------------------------- cases
type TOp struct {
	G   int    `json:"g"`
	Set bool   `json:"set"`
	F   string `json:"f"`
	V   string `json:"v,omitempty"`
	Nil bool   `json:"nil,omitempty"` // FormattedAs(f, nil): a nil value is still a write
	Run bool   `json:"run,omitempty"` // run JSONFormatter.Process on the event: a write of the event's line under "json"
}

// the event of a table case is fixed, so the line a formatter run stores under json is this constant
const tableLine = "{\"created_at\":\"1970-01-01T00:00:00Z\",\"event_type\":\"tbl\",\"payload\":null}\n"

// the key alphabet of the format-table sequences: the well-known names, the empty name, names differing from them in case
// or by surrounding white space, a non-ASCII, a control-character and a very long name
var tableKeys = []string{"json", "", "JSON", "Json", " json", "json ", "cloudevents-json", "cloudevents-text", "text", "jsön", "日本", "a\tb", strings.Repeat("k", 300), "js"}

func (o TOp) value() []byte {
	if o.Nil {
		return nil
	}
	return unhex(o.V)
}

type Case struct {
	ID        int               `json:"id"`
	Gen       string            `json:"gen"`
	Kind      string            `json:"kind"`           // proc | table
	Node      string            `json:"node,omitempty"` // formatter | jff | filter
	Pred      int               `json:"pred"`           // 0 absent 1 true 2 false 3 error
	Type      string            `json:"type,omitempty"` // hex
	Time      jgen.TimeSpec     `json:"time"`
	Payload   *jgen.Recipe      `json:"payload,omitempty"`
	Ctx       int               `json:"ctx,omitempty"`        // context handed to Process (jgen.MkContext)
	ErrClass  int               `json:"err_class,omitempty"`  // which error value a failing predicate returns (jgen.InjectedError)
	PrevPreds []int             `json:"prev_preds,omitempty"` // the SAME node object first processed other events with its exported Predicate field set to these outcomes (0 = nil)
	Again     int               `json:"again,omitempty"`      // further Process calls on the SAME event (the caller clobbers the stored line in between)
	NilTab    bool              `json:"nil_table,omitempty"`
	Pre       []jgen.TableEntry `json:"pre,omitempty"`
	Ops       []TOp             `json:"ops,omitempty"`
}

type Obs struct {
	Err     bool              `json:"err"`
	ErrText string            `json:"err_text,omitempty"`
	Out     int               `json:"out"`
	Table   map[string]string `json:"table"`
	Frame   bool              `json:"frame"`
	Decode  int               `json:"decode"`
	Panic   string            `json:"panic,omitempty"`
}

func unhex(s string) []byte { return jgen.Unhex(s) }

// runProc executes one Process call on the real node and returns the Coq literal of the case plus the observation.
func runProc(c Case) (ret *retained, obs Obs, nontrivial bool) {
	gv, mv, ok := jgen.Build(c.Payload)
	ty := unhex(c.Type)
	tm := c.Time.Time()
	var formatted map[string][]byte
	if !c.NilTab {
		formatted = map[string][]byte{}
		for _, p := range c.Pre {
			formatted[p.F] = p.Value()
		}
	}
	pre := map[string][]byte{}
	for k, v := range formatted {
		pre[k] = append([]byte(nil), v...)
	}
	e := &el.Event{Type: el.EventType(ty), CreatedAt: tm, Payload: gv, Formatted: formatted}
	snapBefore := jgen.Snapshot(gv)
	errsBefore := jgen.ErrorsIn(gv) // error values must stay the very same values

	predErr := false
	predRes := func() (bool, error) {
		switch c.Pred {
		case 1:
			return true, nil
		case 2:
			return false, nil
		case 4:
			predErr = true
			return true, jgen.InjectedError(c.ErrClass) // an error is an error whatever the boolean says
		}
		predErr = true
		return false, jgen.InjectedError(c.ErrClass)
	}
	var node el.Node
	var nodeLit string
	switch c.Node {
	case "formatter":
		node = &el.JSONFormatter{}
		nodeLit = "NFormatter"
	case "jff":
		n := &el.JSONFormatterFilter{}
		// a history on ONE node object: the caller assigns the exported Predicate field between calls; the case's own event
		// is judged under the predicate in force at its call
		for i, pp := range c.PrevPreds {
			pp := pp
			n.Predicate = nil
			if pp != 0 {
				n.Predicate = func(interface{}) (bool, error) {
					return pp == 1 || pp == 4, map[bool]error{true: jgen.InjectedError(i)}[pp >= 3]
				}
			}
			func() {
				defer func() { _ = recover() }()
				_, _ = n.Process(context.Background(), &el.Event{Type: "earlier", CreatedAt: time.Unix(int64(i), 0).UTC(), Payload: i})
			}()
		}
		n.Predicate = nil
		if c.Pred != 0 {
			n.Predicate = func(interface{}) (bool, error) { return predRes() }
		}
		node = n
		nodeLit = fmt.Sprintf("(NFormatterFilter %d)", c.Pred)
	case "filter":
		n := &el.Filter{}
		for i, pp := range c.PrevPreds {
			pp := pp
			n.Predicate = func(*el.Event) (bool, error) {
				return pp == 1 || pp == 4, map[bool]error{true: jgen.InjectedError(i)}[pp >= 3]
			}
			func() {
				defer func() { _ = recover() }()
				_, _ = n.Process(context.Background(), &el.Event{Type: "earlier", CreatedAt: time.Unix(int64(i), 0).UTC(), Payload: i})
			}()
		}
		n.Predicate = func(*el.Event) (bool, error) { return predRes() }
		node = n
		nodeLit = fmt.Sprintf("(NFilter %d)", c.Pred)
	default:
		panic("bad node " + c.Node)
	}
	var out *el.Event
	var err error
	func() {
		defer func() {
			if p := recover(); p != nil {
				obs.Panic = fmt.Sprint(p)
			}
		}()
		ctx, release, _ := jgen.MkContext(c.Ctx)
		defer release()
		out, err = node.Process(ctx, e)
	}()
	for again := 0; again < c.Again && obs.Panic == ""; again++ {
		// the caller keeps the event, overwrites the stored line (when there is one from a successful encoding) and processes
		// the event again: the line must be rendered afresh from the event, whatever the table holds
		if _, has := e.Format("json"); has && c.Node != "filter" && (err == nil || predErr) {
			e.FormattedAs("json", []byte("clobbered by the caller"))
		}
		predErr = false
		func() {
			defer func() {
				if p := recover(); p != nil {
					obs.Panic = fmt.Sprint(p)
				}
			}()
			ctx, release, _ := jgen.MkContext(c.Ctx)
			defer release()
			out, err = node.Process(ctx, e)
		}()
	}
	obs.Err = err != nil
	if err != nil {
		obs.ErrText = err.Error()
	}
	switch {
	case out == nil:
		obs.Out = 0
	case out == e:
		obs.Out = 1
	default:
		obs.Out = 2
	}
	obs.Frame = string(e.Type) == string(ty) && e.CreatedAt.Equal(tm) && e.CreatedAt.Location() == tm.Location() && jgen.Snapshot(e.Payload) == snapBefore && jgen.SameErrors(errsBefore, jgen.ErrorsIn(e.Payload))
	obs.Table = map[string]string{}
	for k, v := range e.Formatted {
		obs.Table[k] = hex.EncodeToString(v)
	}
	// Go's own decode of what is stored under json now
	timeText := string(c.Time.Text())
	if line, has := e.Formatted["json"]; has && ok && c.Time.Encodable() && c.Node != "filter" {
		obs.Decode = 2
		dec := json.NewDecoder(bytes.NewReader(line))
		dec.UseNumber()
		var got interface{}
		if derr := dec.Decode(&got); derr == nil && !dec.More() {
			// exactly the three members; created_at read back with Go's time parser must be the event's instant,
			// event_type and payload must be the expected images
			if m, isObj := got.(map[string]interface{}); isObj && len(m) == 3 {
				ts, isStr := m["created_at"].(string)
				t2, perr := time.Parse(time.RFC3339Nano, ts)
				if isStr && perr == nil && t2.Equal(tm) && reflect.DeepEqual(m["event_type"], jgen.Sanitize(ty)) && reflect.DeepEqual(m["payload"], mv.Expect()) {
					if _, hasP := m["payload"]; hasP {
						obs.Decode = 1
					}
				}
			}
		}
	}
	extra := map[string]int{}
	preLit := jgen.TableLit(pre, extra)
	plLit := "None"
	if ok {
		plLit = "(Some " + mv.Lit() + ")"
	}
	prefix := fmt.Sprintf("CProc %d {| c_node := %s; c_type := %s; c_time := %s; c_payload := %s; c_pre := %s;\n   c_obs := {| o_err := %s; o_out := %d; o_table := %s; o_frame := %s; o_decode := %d; o_pred_err := %s",
		c.ID, nodeLit, jgen.Bytes(ty), jgen.OptBytes([]byte(timeText), c.Time.Encodable()), plLit, preLit,
		hc.B(obs.Err), obs.Out, jgen.TableLit(e.Formatted, extra), hc.B(obs.Frame), obs.Decode, hc.B(predErr))
	// keep the event together with a private copy of what is stored under json right now: it is re-read after later
	// Process calls on other events (the stored line must stay what was stored)
	ret = &retained{id: c.ID, prefix: prefix, ev: e, frame: frameOf(e), errs: jgen.ErrorsIn(gv)}
	if v, has := e.Format("json"); has {
		ret.has = true
		ret.copy = append([]byte{}, v...)
	}
	nontrivial = !ok || jgen.Depth(c.Payload) > 1 || string(jgen.Sanitize(ty)) != string(ty) || (mv != nil && mv.K == "str" && len(mv.S) > 0)
	return
}

// ---------------------------------------------------------------- retention: stored values must not change afterwards
type retained struct {
	id       int
	prefix   string // the case literal up to o_decode (complete literal when ev == nil)
	ev       *el.Event
	copy     []byte // private copy of Format("json") taken right after Process
	has      bool
	since    int // Process calls on other events since
	later    int // ... after which a change was first seen (0: none)
	final    []byte
	finalHas bool
	frame    string       // type, time, deep payload snapshot and every other entry of the table right after the call
	errs     []jgen.ErrAt // the error values in the payload
	moved    bool         // ... were found changed at a later re-read
}

// frameOf: everything of the event except the entry under json
func frameOf(e *el.Event) string {
	var sb strings.Builder
	fmt.Fprintf(&sb, "%x|%d|%s|%s|", string(e.Type), e.CreatedAt.UnixNano(), e.CreatedAt.Location(), jgen.Snapshot(e.Payload))
	names := make([]string, 0, len(e.Formatted))
	for k := range e.Formatted {
		if k != "json" {
			names = append(names, k)
		}
	}
	sort.Strings(names)
	for _, k := range names {
		fmt.Fprintf(&sb, "%q=%x nil=%v;", k, e.Formatted[k], e.Formatted[k] == nil)
	}
	return sb.String()
}

func (r *retained) recheck(calls int) {
	if r.ev == nil {
		return
	}
	if !r.moved && (frameOf(r.ev) != r.frame || !jgen.SameErrors(r.errs, jgen.ErrorsIn(r.ev.Payload))) {
		r.moved = true
	}
	r.since += calls
	if r.later != 0 {
		return
	}
	v, has := r.ev.Format("json")
	if has != r.has || !bytes.Equal(v, r.copy) {
		r.later = r.since
		r.final = append([]byte{}, v...)
		r.finalHas = has
	}
}
func (r *retained) lit() string {
	if r.ev == nil {
		return r.prefix
	}
	still := "; o_still := " + hc.B(!r.moved)
	if r.later == 0 {
		return r.prefix + still + "; o_final := None; o_later := 0 |} |}" // re-read and equal to the private copy every time
	}
	return r.prefix + still + fmt.Sprintf("; o_final := (Some %s); o_later := %d |} |}", jgen.OptBytes(r.final, r.finalHas), r.later)
}

var churnPayloads = []interface{}{"", "x", strings.Repeat("z", 700), map[string]interface{}{"k": []interface{}{1, "two", nil}}, strings.Repeat("<&>\n", 40), 12345}

// churnCall formats one more, unrelated event with a stock JSON formatter
func churnCall(i int) {
	e := &el.Event{Type: el.EventType(fmt.Sprintf("churn-%d", i)), CreatedAt: time.Unix(int64(i), 0).UTC(), Payload: churnPayloads[i%len(churnPayloads)]}
	var n el.Node = &el.JSONFormatter{}
	if i%2 == 1 {
		n = &el.JSONFormatterFilter{}
	}
	func() {
		defer func() { _ = recover() }()
		_, _ = n.Process(context.Background(), e)
	}()
}

// settle re-reads every retained event after each of a few further Process calls on this goroutine and after a round of
// Process calls from other goroutines
func settle(batch []*retained) {
	for i := 0; i < 8; i++ {
		churnCall(i)
		for _, r := range batch {
			r.recheck(1)
		}
	}
	var wg sync.WaitGroup
	const ng, per = 4, 8
	for g := 0; g < ng; g++ {
		wg.Add(1)
		go func(g int) {
			defer wg.Done()
			for i := 0; i < per; i++ {
				churnCall(100*g + i)
			}
		}(g)
	}
	wg.Wait()
	for _, r := range batch {
		r.recheck(ng * per)
	}
}

func runTable(c Case) (lit string, panicked string) {
	var formatted map[string][]byte
	if !c.NilTab {
		formatted = map[string][]byte{}
		for _, p := range c.Pre {
			formatted[p.F] = p.Value()
		}
	}
	pre := map[string][]byte{}
	for k, v := range formatted {
		pre[k] = v
	}
	e := &el.Event{Type: "tbl", CreatedAt: time.Unix(0, 0).UTC(), Formatted: formatted}
	ng := 1
	for _, o := range c.Ops {
		if o.G+1 > ng {
			ng = o.G + 1
		}
	}
	type req struct {
		op   TOp
		done chan string
	}
	chans := make([]chan req, ng)
	var wg sync.WaitGroup
	extra := map[string]int{}
	for g := 0; g < ng; g++ {
		chans[g] = make(chan req)
		wg.Add(1)
		go func(ch chan req) {
			defer wg.Done()
			for r := range ch {
				func() {
					defer func() {
						if p := recover(); p != nil {
							panicked = fmt.Sprint(p)
							r.done <- "None"
						}
					}()
					if r.op.Run {
						_, _ = (&el.JSONFormatter{}).Process(context.Background(), e)
						r.done <- "None"
					} else if r.op.Set {
						e.FormattedAs(r.op.F, r.op.value())
						r.done <- "None"
					} else {
						v, ok := e.Format(r.op.F)
						r.done <- "(Some " + jgen.OptBytes(v, ok) + ")"
					}
				}()
			}
		}(chans[g])
	}
	parts := make([]string, len(c.Ops))
	for i, o := range c.Ops {
		r := req{o, make(chan string, 1)}
		chans[o.G] <- r
		res := <-r.done
		id := jgen.FmtID(o.F, extra)
		if o.Run {
			parts[i] = fmt.Sprintf("(%d, TSet 1 %s, %s)", o.G, jgen.Bytes([]byte(tableLine)), res)
		} else if o.Set {
			parts[i] = fmt.Sprintf("(%d, TSet %d %s, %s)", o.G, id, jgen.Bytes(o.value()), res)
		} else {
			parts[i] = fmt.Sprintf("(%d, TGet %d, %s)", o.G, id, res)
		}
	}
	for _, ch := range chans {
		close(ch)
	}
	wg.Wait()
	// ids of the initial table must be assigned consistently with the operations: intern again in one order
	lit = fmt.Sprintf("CTable %d %s [%s] %s", c.ID, jgen.TableLit(pre, extra), strings.Join(parts, "; "), jgen.TableLit(e.Formatted, extra))
	return
}

// ---------------------------------------------------------------- emitter
type emitter struct {
	cf      *hc.CaseFile
	side    *os.File
	stats   map[string]int
	sigs    map[string]bool
	nontriv int
	panics  []string
	next    int
	batch   []*retained
	mutated int
}

const batchSize = 40

// flush closes a batch: further Process calls, the re-reads, then the case literals are written
func (em *emitter) flush() {
	settle(em.batch)
	for _, r := range em.batch {
		if r.later != 0 {
			em.mutated++
		}
		em.cf.Add(r.lit())
	}
	em.batch = nil
}

// watchdog: a call that does not return is a finding, with the case as replay
var watch struct {
	sync.Mutex
	js    []byte
	since time.Time
	out   string
}

func watchCase(js []byte) {
	watch.Lock()
	watch.js, watch.since = js, time.Now()
	watch.Unlock()
}
func startWatchdog(out string) {
	watch.out = out
	go func() {
		for {
			time.Sleep(time.Second)
			watch.Lock()
			js, since := watch.js, watch.since
			watch.Unlock()
			if js != nil && time.Since(since) > 30*time.Second {
				os.WriteFile(watch.out+"/hang.json", js, 0o644)
				fmt.Printf("HANG: a call did not return within 30 s; case: %s\n", js)
				os.Exit(4)
			}
		}
	}()
}

func (em *emitter) emit(c Case) {
	c.ID = em.next
	em.next++
	js, _ := json.Marshal(c)
	watchCase(js)
	defer watchCase(nil)
	if c.Kind == "table" {
		lit, p := runTable(c)
		if p != "" {
			em.panics = append(em.panics, fmt.Sprintf("case %d: %s", c.ID, p))
		}
		em.batch = append(em.batch, &retained{id: c.ID, prefix: lit})
		em.stats["table-cases"]++
		em.stats["table-ops"] += len(c.Ops)
		sig := string(js[strings.Index(string(js), `"gen"`):])
		if !em.sigs[sig] && len(c.Ops) > 1 {
			em.sigs[sig] = true
			em.nontriv++
		}
	} else {
		ret, obs, nt := runProc(c)
		if obs.Panic != "" {
			em.panics = append(em.panics, fmt.Sprintf("case %d: %s", c.ID, obs.Panic))
		}
		// this was one more Process call for every event retained so far
		for _, r := range em.batch {
			r.recheck(1)
		}
		em.batch = append(em.batch, ret)
		em.stats["proc:"+c.Node]++
		em.stats[fmt.Sprintf("pred:%d", c.Pred)]++
		if obs.Err {
			em.stats["outcome:error"]++
		} else if obs.Out == 1 {
			em.stats["outcome:forwarded"]++
		} else {
			em.stats["outcome:dropped"]++
		}
		if !c.Time.Encodable() {
			em.stats["time:out-of-range"]++
		}
		em.stats[fmt.Sprintf("payload-depth:%d", jgen.Depth(c.Payload))]++
		sig := string(js[strings.Index(string(js), `"kind"`):])
		if nt && !em.sigs[sig] {
			em.sigs[sig] = true
			em.nontriv++
		}
	}
	em.side.Write(js)
	em.side.Write([]byte("\n"))
	em.stats["cases"]++
	if len(em.batch) >= batchSize {
		em.flush()
	}
}

// ---------------------------------------------------------------- generators
func genProc(em *emitter, r *hc.Rand, n, depth int, unencPermille int) {
	g := &jgen.Gen{R: r, Stats: em.stats}
	for i := 0; i < n; i++ {
		c := Case{Gen: "random", Kind: "proc"}
		switch x := r.Intn(10); {
		case x < 4:
			c.Node = "formatter"
		case x < 8:
			c.Node = "jff"
			c.Pred = r.Intn(5)
		default:
			c.Node = "filter"
			c.Pred = 1 + r.Intn(4)
		}
		c.Type = hex.EncodeToString(g.String(5))
		c.Time = jgen.GenTime(r)
		c.Payload = g.Payload(depth, unencPermille)
		c.Ctx = jgen.GenCtx(r)
		c.ErrClass = r.Intn(jgen.ErrClasses)
		if r.Chance(1, 6) {
			c.Again = 1 + r.Intn(2)
		}
		c.NilTab, c.Pre = jgen.GenPre(r, g)
		em.emit(c)
	}
}

// every node x predicate outcome x {encodable, unencodable payload, unencodable time} x {nil, empty, populated table}
func genGrid(em *emitter) {
	payloads := []*jgen.Recipe{
		{K: "map", Ks: []string{hex.EncodeToString([]byte("a"))}, E: []*jgen.Recipe{{K: "int", T: "int", V: "1"}}},
		{K: "unenc", V: "nan"}, {K: "unenc", V: "chan"}, {K: "nil"}, {K: "str", V: hex.EncodeToString([]byte("x\n<\"\xff"))},
	}
	for _, node := range []string{"formatter", "jff", "filter"} {
		for pred := 0; pred < 5; pred++ {
			if node == "formatter" && pred != 0 || node == "filter" && pred == 0 {
				continue
			}
			for _, p := range payloads {
				for _, t := range []jgen.TimeSpec{jgen.Times[2], jgen.BadTimes[0]} {
					for tab := 0; tab < 3; tab++ {
						c := Case{Gen: "grid", Kind: "proc", Node: node, Pred: pred, Type: hex.EncodeToString([]byte("t&1")), Time: t, Payload: p, Ctx: (pred + tab) % jgen.CtxKinds}
						switch tab {
						case 0:
							c.NilTab = true
						case 2:
							c.Pre = []jgen.TableEntry{{F: "json", V: hex.EncodeToString([]byte("stale\n"))}, {F: "text", V: hex.EncodeToString([]byte("T"))}}
						}
						em.emit(c)
					}
				}
			}
		}
	}
}

// every value encoding/json renders specially (errors of every flavour, Stringer, time.Time, Duration, RawMessage, big.Int,
// pointer to pointer, typed nils, extreme floats): as the payload itself, as a top-level value of a map payload, nested in a
// slice inside a map, in a struct field (interface-typed and concretely typed), for both formatters
func genSpecials(em *emitter) {
	hexs := func(s string) string { return hex.EncodeToString([]byte(s)) }
	for i, k := range jgen.SpecialKinds {
		sp := &jgen.Recipe{K: "special", V: k}
		shapes := []*jgen.Recipe{
			sp,
			{K: "map", Ks: []string{hexs("err"), hexs("n")}, E: []*jgen.Recipe{sp, {K: "int", T: "int", V: "1"}}},
			{K: "map", Ks: []string{hexs("l")}, E: []*jgen.Recipe{{K: "arr", E: []*jgen.Recipe{{K: "str", V: hexs("x")}, sp}}}},
			{K: "map", T: "named", Ks: []string{hexs("inner")}, E: []*jgen.Recipe{{K: "map", Ks: []string{hexs("e")}, E: []*jgen.Recipe{sp}}}},
			{K: "struct", Ks: []string{"v", "w"}, Opt: []string{"", "typed"}, E: []*jgen.Recipe{sp, sp}},
			{K: "arr", T: "ptr", E: []*jgen.Recipe{sp, sp}},
		}
		for j, pl := range shapes {
			em.emit(Case{Gen: "specials", Kind: "proc", Node: []string{"formatter", "jff"}[(i+j)%2], Pred: 0, Type: hexs("t"), Time: jgen.Times[2], Payload: pl,
				NilTab: j%2 == 0})
		}
	}
}

// the remaining input classes of notes/value_classes.md that C14's statement speaks about
func genAudit(em *emitter) {
	hexs := func(s string) string { return hex.EncodeToString([]byte(s)) }
	small := &jgen.Recipe{K: "map", Ks: []string{hexs("a")}, E: []*jgen.Recipe{{K: "int", T: "int", V: "1"}}}
	// predicate errors of every class x (false, err) / (true, err), for JSONFormatterFilter and Filter
	for ec := 0; ec < jgen.ErrClasses; ec++ {
		for _, node := range []string{"jff", "filter"} {
			for _, pred := range []int{3, 4} {
				em.emit(Case{Gen: "audit-errors", Kind: "proc", Node: node, Pred: pred, ErrClass: ec, Type: hexs("t"), Time: jgen.Times[1], Payload: small, Ctx: (ec + pred) % jgen.CtxKinds})
			}
		}
	}
	// a container type first rejected (a channel inside), then the same type with encodable content must be accepted — and
	// the reverse order; for every container type
	ch := &jgen.Recipe{K: "unenc", V: "chan"}
	one := &jgen.Recipe{K: "int", T: "int", V: "1"}
	for _, mk := range []func(inner *jgen.Recipe) *jgen.Recipe{
		func(in *jgen.Recipe) *jgen.Recipe {
			return &jgen.Recipe{K: "map", Ks: []string{hexs("k")}, E: []*jgen.Recipe{in}}
		},
		func(in *jgen.Recipe) *jgen.Recipe {
			return &jgen.Recipe{K: "map", T: "named", Ks: []string{hexs("k")}, E: []*jgen.Recipe{in}}
		},
		func(in *jgen.Recipe) *jgen.Recipe {
			return &jgen.Recipe{K: "map", T: "ptr", Ks: []string{hexs("k")}, E: []*jgen.Recipe{in}}
		},
		func(in *jgen.Recipe) *jgen.Recipe { return &jgen.Recipe{K: "arr", E: []*jgen.Recipe{in}} },
		func(in *jgen.Recipe) *jgen.Recipe { return &jgen.Recipe{K: "arr", T: "array", E: []*jgen.Recipe{in}} },
		func(in *jgen.Recipe) *jgen.Recipe { return &jgen.Recipe{K: "arr", T: "ptr", E: []*jgen.Recipe{in}} },
		func(in *jgen.Recipe) *jgen.Recipe {
			return &jgen.Recipe{K: "struct", Ks: []string{"f"}, Opt: []string{""}, E: []*jgen.Recipe{in}}
		},
		func(in *jgen.Recipe) *jgen.Recipe {
			return &jgen.Recipe{K: "struct", T: "ptr", Ks: []string{"f"}, Opt: []string{""}, E: []*jgen.Recipe{in}}
		},
		func(in *jgen.Recipe) *jgen.Recipe {
			return &jgen.Recipe{K: "map", Ks: []string{hexs("o")}, E: []*jgen.Recipe{{K: "arr", E: []*jgen.Recipe{in}}}}
		},
	} {
		for _, node := range []string{"formatter", "jff"} {
			for _, order := range [][]*jgen.Recipe{{ch, one, ch, one}, {one, ch, one}} {
				for _, in := range order {
					em.emit(Case{Gen: "audit-reject-then-accept", Kind: "proc", Node: node, Type: hexs("t"), Time: jgen.Times[1], Payload: mk(in)})
				}
			}
		}
	}
	// string lengths around the block sizes, as payload, as map key and as event type
	for _, n := range []int{63, 64, 65, 127, 128, 129, 255, 256, 300, 1000} {
		str := strings.Repeat("a", n-1) + "<"
		em.emit(Case{Gen: "audit-lengths", Kind: "proc", Node: "formatter", Type: hexs(str), Time: jgen.Times[1],
			Payload: &jgen.Recipe{K: "map", Ks: []string{hexs(str)}, E: []*jgen.Recipe{{K: "str", V: hexs(str)}}}})
	}
	// histories on ONE node object: the exported Predicate field assigned between calls (every sequence of up to 2 earlier
	// outcomes, then every outcome for the case's own event)
	var prevs [][]int
	for _, a := range []int{0, 1, 2, 3, 4} {
		prevs = append(prevs, []int{a})
		for _, b := range []int{0, 1, 2, 3} {
			prevs = append(prevs, []int{a, b})
		}
	}
	for _, pv := range prevs {
		for pred := 0; pred < 5; pred++ {
			em.emit(Case{Gen: "audit-node-history", Kind: "proc", Node: "jff", Pred: pred, PrevPreds: pv, Type: hexs("t"), Time: jgen.Times[1], Payload: small})
			ok := pred != 0
			for _, x := range pv {
				if x == 0 {
					ok = false
				}
			}
			if ok {
				em.emit(Case{Gen: "audit-node-history", Kind: "proc", Node: "filter", Pred: pred, PrevPreds: pv, Type: hexs("t"), Time: jgen.Times[1], Payload: small})
			}
		}
	}
	// the same event processed again, the stored line clobbered by the caller in between
	for again := 1; again <= 2; again++ {
		for _, node := range []string{"formatter", "jff", "filter"} {
			for pred := 0; pred < 5; pred++ {
				if node == "formatter" && pred != 0 || node == "filter" && pred == 0 {
					continue
				}
				for _, pl := range []*jgen.Recipe{small, ch, {K: "special", V: "err-new"}} {
					em.emit(Case{Gen: "audit-again", Kind: "proc", Node: node, Pred: pred, Again: again, Type: hexs("t"), Time: jgen.Times[1], Payload: pl,
						Pre: []jgen.TableEntry{{F: "text", V: hexs("T")}}})
				}
			}
		}
	}
	// every creation time of the list (zero, epoch, far future, sub-second digits, zones, out of range) for both formatters
	for i, t := range append(append([]jgen.TimeSpec{}, jgen.Times...), jgen.BadTimes...) {
		em.emit(Case{Gen: "audit-times", Kind: "proc", Node: []string{"formatter", "jff"}[i%2], Type: hexs("t"), Time: t, Payload: small})
	}
	// non-UTF-8 strings inside map[string]interface{} / []interface{} payloads (values and keys): stored escaped, left untouched
	bad := hex.EncodeToString([]byte("a\xffb\xc3(\xed\xa0\x80"))
	em.emit(Case{Gen: "audit-nonutf8", Kind: "proc", Node: "formatter", Type: bad, Time: jgen.Times[1],
		Payload: &jgen.Recipe{K: "map", Ks: []string{bad, hexs("l")}, E: []*jgen.Recipe{{K: "str", V: bad}, {K: "arr", E: []*jgen.Recipe{{K: "str", V: bad}, {K: "map", Ks: []string{bad}, E: []*jgen.Recipe{{K: "str", V: bad}}}}}}}})
	em.emit(Case{Gen: "audit-nonutf8", Kind: "proc", Node: "jff", Type: hexs("t"), Time: jgen.Times[1],
		Payload: &jgen.Recipe{K: "arr", E: []*jgen.Recipe{{K: "str", V: bad}, {K: "str", T: "named", V: bad}}}})
}

// one string payload / event type per interesting byte and per UTF-8 boundary sequence
func genStrings(em *emitter) {
	var ss [][]byte
	for b := 0; b < 256; b++ {
		ss = append(ss, []byte{byte(b)}, []byte{'a', byte(b), 'b'})
	}
	for _, lead := range []byte{0xC1, 0xC2, 0xDF, 0xE0, 0xE1, 0xEC, 0xED, 0xEE, 0xEF, 0xF0, 0xF1, 0xF3, 0xF4, 0xF5} {
		for _, b1 := range []byte{0x7F, 0x80, 0x8F, 0x90, 0x9F, 0xA0, 0xBF, 0xC0} {
			ss = append(ss, []byte{lead, b1}, []byte{lead, b1, 0x80}, []byte{lead, b1, 0xBF, 0x80}, []byte{lead, b1, 0x80, 0x7F}, []byte{lead, b1, 0xA8}, []byte{lead, b1, 0xA9, 'x'})
		}
	}
	// literal escape look-alikes, alone, doubled, and next to the characters the real escapes stand for
	for _, a := range jgen.LookalikePieces() {
		ss = append(ss, a, append(append([]byte("x"), a...), 'y'))
		for _, b := range jgen.LookalikePieces() {
			ss = append(ss, append(append([]byte{}, a...), b...))
		}
	}
	for i, s := range ss {
		c := Case{Gen: "strings", Kind: "proc", Node: []string{"formatter", "jff"}[i%2], Time: jgen.Times[1], Payload: &jgen.Recipe{K: "str", V: hex.EncodeToString(s)}}
		if i%3 == 0 {
			c.Type = hex.EncodeToString(s)
		}
		if i%4 == 1 { // also as a map key
			c.Payload = &jgen.Recipe{K: "map", Ks: []string{hex.EncodeToString(s)}, E: []*jgen.Recipe{{K: "str", V: hex.EncodeToString(s)}}}
		}
		em.emit(c)
	}
}

func genTable(em *emitter, r *hc.Rand, n int) {
	g := &jgen.Gen{R: r, Stats: map[string]int{}}
	for i := 0; i < n; i++ {
		c := Case{Gen: "table", Kind: "table"}
		c.NilTab, c.Pre = jgen.GenPre(r, g)
		ng := 1 + r.Intn(4)
		names := append([]string{"k" + hex.EncodeToString(g.String(1))}, tableKeys...)
		if r.Bool() { // a few names only, so that writes and reads meet
			names = []string{"json", "", tableKeys[r.Intn(len(tableKeys))], tableKeys[r.Intn(len(tableKeys))]}
		}
		for j, m := 0, r.Intn(14); j < m; j++ {
			o := TOp{G: r.Intn(ng), Set: r.Chance(1, 2), F: names[r.Intn(len(names))]}
			if r.Chance(1, 8) {
				o = TOp{G: o.G, Run: true, F: "json"} // a formatter run in between
			} else if o.Set {
				switch r.Intn(6) {
				case 0:
					o.Nil = true // a nil value is still a written key
				case 1:
					o.V = "" // empty, not nil
				default:
					o.V = hex.EncodeToString(g.String(4))
				}
			}
			c.Ops = append(c.Ops, o)
		}
		for _, k := range tableKeys { // finally every name of the alphabet is looked up, written or not
			c.Ops = append(c.Ops, TOp{G: r.Intn(ng), F: k})
		}
		em.emit(c)
	}
}

// write under k1 (or run the formatter), then look up k2: for all pairs of the key alphabet — a lookup sees exactly what was
// stored under exactly that name, and nothing for a name never written
func genTableKeys(em *emitter) {
	for i, k1 := range tableKeys {
		c := Case{Gen: "table-keys", Kind: "table", NilTab: i%2 == 0}
		c.Ops = append(c.Ops, TOp{G: 0, Set: true, F: k1, V: hex.EncodeToString([]byte("v-" + fmt.Sprint(i)))})
		for _, k2 := range tableKeys {
			c.Ops = append(c.Ops, TOp{G: 1, F: k2})
		}
		c.Ops = append(c.Ops, TOp{G: 0, Set: true, F: k1, Nil: true})
		for _, k2 := range tableKeys {
			c.Ops = append(c.Ops, TOp{G: 1, F: k2})
		}
		em.emit(c)
	}
	c := Case{Gen: "table-keys", Kind: "table", NilTab: true, Ops: []TOp{{G: 0, Run: true, F: "json"}}}
	for _, k2 := range tableKeys {
		c.Ops = append(c.Ops, TOp{G: 1, F: k2})
	}
	em.emit(c)
}

// every short sequence over one name of: write nil / write empty / write bytes / read, on a nil, an empty and a populated
// table, the operations alternating between two goroutines (nil and empty values are where presence and value come apart)
func genTableEdge(em *emitter) {
	alphabet := []TOp{{Set: true, Nil: true}, {Set: true, V: ""}, {Set: true, V: "41"}, {Set: false}}
	var rec func(seq []TOp)
	rec = func(seq []TOp) {
		if len(seq) > 0 && !seq[len(seq)-1].Set {
			for tab := 0; tab < 4; tab++ {
				c := Case{Gen: "table-edge", Kind: "table"}
				switch tab {
				case 0:
					c.NilTab = true
				case 2:
					c.Pre = []jgen.TableEntry{{F: "json", V: "4a"}, {F: "text", N: true}}
				case 3:
					c.Pre = []jgen.TableEntry{{F: "json", N: true}, {F: "text", V: ""}}
				}
				for i, o := range seq {
					o.G = i % 2
					o.F = "json"
					c.Ops = append(c.Ops, o)
				}
				c.Ops = append(c.Ops, TOp{G: 0, F: "text"}, TOp{G: 1, F: "other"})
				em.emit(c)
			}
		}
		if len(seq) < 3 {
			for _, o := range alphabet {
				rec(append(append([]TOp{}, seq...), o))
			}
		}
	}
	rec(nil)
}

// free-running goroutines on one Event (run under -race in the stress binary): every Format result must be a value some
// FormattedAs call wrote under that name (or the initial one), a goroutine never reads back a value it has itself
// overwritten, and the final table holds, per name, the last value some goroutine wrote under it.
func stress(rounds, ng, per int, r *hc.Rand) []string {
	var bad []string
	for round := 0; round < rounds; round++ {
		e := &el.Event{}
		if round%2 == 1 {
			e.Formatted = map[string][]byte{"json": []byte("init")}
		}
		names := []string{"json", "text", "x", "n"} // "n" is only ever written with nil / empty values
		type wr struct{ name, val string }
		lastOf := make([]map[string]string, ng)
		var mu sync.Mutex
		var wg sync.WaitGroup
		seeds := make([]*hc.Rand, ng)
		for g := range seeds {
			seeds[g] = r.Fork()
		}
		for g := 0; g < ng; g++ {
			wg.Add(1)
			go func(g int) {
				defer wg.Done()
				rr := seeds[g]
				mine := map[string]string{}         // my current value per name
				old := map[string]map[string]bool{} // my overwritten values per name
				for i := 0; i < per; i++ {
					name := names[rr.Intn(len(names))]
					if name == "n" {
						// presence is separate from the value: once written (even with nil) the name stays present
						if rr.Bool() {
							if rr.Bool() {
								e.FormattedAs(name, nil)
							} else {
								e.FormattedAs(name, []byte{})
							}
							mine[name] = ""
						} else if v, ok := e.Format(name); (!ok && hasKey(mine, name)) || len(v) != 0 {
							mu.Lock()
							bad = append(bad, fmt.Sprintf("round %d: goroutine %d: name written with a nil/empty value read back as present=%v value=%q", round, g, ok, v))
							mu.Unlock()
						}
						continue
					}
					if rr.Bool() {
						val := fmt.Sprintf("g%d-%d", g, i)
						if cur, ok := mine[name]; ok {
							if old[name] == nil {
								old[name] = map[string]bool{}
							}
							old[name][cur] = true
						}
						mine[name] = val
						e.FormattedAs(name, []byte(val))
					} else {
						v, ok := e.Format(name)
						s := string(v)
						switch {
						case !ok:
							if _, wrote := mine[name]; wrote || (name == "json" && round%2 == 1) {
								mu.Lock()
								bad = append(bad, fmt.Sprintf("round %d: goroutine %d read %q as absent after it was written", round, g, name))
								mu.Unlock()
							}
						case s == "init" && name == "json" && round%2 == 1:
							if _, wrote := mine[name]; wrote {
								mu.Lock()
								bad = append(bad, fmt.Sprintf("round %d: goroutine %d read the initial value of %q after overwriting it", round, g, name))
								mu.Unlock()
							}
						case !strings.HasPrefix(s, "g"):
							mu.Lock()
							bad = append(bad, fmt.Sprintf("round %d: goroutine %d read a value nobody wrote: %q", round, g, s))
							mu.Unlock()
						case old[name][s]:
							mu.Lock()
							bad = append(bad, fmt.Sprintf("round %d: goroutine %d read back its own overwritten value %q", round, g, s))
							mu.Unlock()
						}
					}
				}
				mu.Lock()
				lastOf[g] = mine
				mu.Unlock()
			}(g)
		}
		wg.Wait()
		for _, name := range names {
			v, ok := e.Format(name)
			any := false
			match := false
			for g := 0; g < ng; g++ {
				if lv, wrote := lastOf[g][name]; wrote {
					any = true
					if ok && lv == string(v) {
						match = true
					}
				}
			}
			if any && !match {
				bad = append(bad, fmt.Sprintf("round %d: final value of %q (%q, present=%v) is no goroutine's last write", round, name, v, ok))
			}
			if !any && ok && !(name == "json" && round%2 == 1 && string(v) == "init") {
				bad = append(bad, fmt.Sprintf("round %d: %q present though never written", round, name))
			}
		}
	}
	return bad
}

func hasKey(m map[string]string, k string) bool { _, ok := m[k]; return ok }

func runCorpus(em *emitter, path string) {
	data, err := os.ReadFile(path)
	if err != nil {
		return
	}
	for _, line := range strings.Split(string(data), "\n") {
		line = strings.TrimSpace(line)
		if line == "" || strings.HasPrefix(line, "#") {
			continue
		}
		var c Case
		if err := json.Unmarshal([]byte(line), &c); err != nil {
			fmt.Fprintf(os.Stderr, "corpus: %v\n", err)
			continue
		}
		c.Gen = "corpus"
		em.emit(c)
	}
}

func main() {
	out := flag.String("out", ".", "output directory")
	prefix := flag.String("prefix", "cases", "case file prefix")
	modes := flag.String("modes", "grid,strings,random,table", "generators")
	nRandom := flag.Int("random", 600, "random Process cases")
	depth := flag.Int("depth", 3, "payload nesting depth")
	unenc := flag.Int("unenc", 25, "chance in 1000 that a payload node is of the unencodable class")
	nTable := flag.Int("table", 150, "forced FormattedAs/Format schedules")
	perShard := flag.Int("per-shard", 90, "cases per file")
	corpus := flag.String("corpus", "", "corpus file (JSON lines), run first")
	replay := flag.String("replay", "", "replay one JSON case and print its observations")
	stressRounds := flag.Int("stress", 0, "free-running FormattedAs/Format rounds (use the -race binary); no case files are written")
	flag.Parse()

	if *stressRounds > 0 {
		bad := stress(*stressRounds, 8, 300, hc.NewRand(hc.Seed()))
		for _, b := range bad {
			fmt.Println("LWW-VIOLATION", b)
		}
		fmt.Printf("fmth stress: %d rounds, %d findings\n", *stressRounds, len(bad))
		if len(bad) > 0 {
			os.Exit(3)
		}
		return
	}
	if *replay != "" {
		data, err := os.ReadFile(*replay)
		if err != nil {
			fmt.Fprintln(os.Stderr, err)
			os.Exit(2)
		}
		var wrapper struct {
			Case Case `json:"case"`
		}
		if err := json.Unmarshal(data, &wrapper); err != nil || wrapper.Case.Kind == "" {
			_ = json.Unmarshal(data, &wrapper.Case)
		}
		c := wrapper.Case
		if c.Kind == "table" {
			lit, p := runTable(c)
			fmt.Println(lit)
			if p != "" {
				fmt.Println("PANIC:", p)
			}
			return
		}
		ret, obs, _ := runProc(c)
		js, _ := json.MarshalIndent(obs, "", " ")
		fmt.Printf("observation: %s\n", js)
		for k, v := range obs.Table {
			fmt.Printf("stored %q = %q\n", k, unhex(v))
		}
		settle([]*retained{ret})
		if ret.later != 0 {
			fmt.Printf("STORED VALUE CHANGED after %d later Process calls on other events: json (present=%v) is now %q\n", ret.later, ret.finalHas, ret.final)
		} else {
			fmt.Printf("stored json unchanged after %d later Process calls on other events\n", ret.since)
		}
		fmt.Println(ret.lit())
		return
	}

	cf := &hc.CaseFile{Dir: *out, Prefix: *prefix, PerShard: *perShard, Type: "list fcase",
		Header: "From Coq Require Import List NArith.\nFrom Verif Require Import Json Formatters Run_Formatters.\nImport ListNotations.\nOpen Scope N_scope.",
		Footer: "Definition M := Eval vm_compute in mismatches cases.\nPrint M."}
	side, err := os.Create(*out + "/" + *prefix + ".jsonl")
	if err != nil {
		panic(err)
	}
	em := &emitter{cf: cf, side: side, stats: map[string]int{}, sigs: map[string]bool{}}
	startWatchdog(*out)
	r := hc.NewRand(hc.Seed())
	if *corpus != "" {
		runCorpus(em, *corpus)
	}
	for _, m := range strings.Split(*modes, ",") {
		switch m {
		case "grid":
			genGrid(em)
		case "strings":
			genStrings(em)
			genSpecials(em)
			genAudit(em)
		case "random":
			genProc(em, r.Fork(), *nRandom, *depth, *unenc)
		case "table":
			genTableEdge(em)
			genTableKeys(em)
			genTable(em, r.Fork(), *nTable)
		case "":
		default:
			fmt.Fprintf(os.Stderr, "unknown mode %s\n", m)
			os.Exit(2)
		}
	}
	em.flush()
	em.stats["stored-value-changed-later"] = em.mutated
	em.stats["later-process-calls-per-batch"] = 8 + 4*8
	cf.Close()
	side.Close()
	summary := map[string]interface{}{"stats": em.stats, "files": cf.Files, "cases": cf.Total, "distinct_nontrivial": em.nontriv,
		"panics": em.panics, "seed": hc.Seed()}
	js, _ := json.MarshalIndent(summary, "", " ")
	os.WriteFile(*out+"/"+*prefix+"_summary.json", js, 0o644)
	fmt.Printf("fmth: %d cases in %d files, %d panics\n", cf.Total, len(cf.Files), len(em.panics))
}
