// gatedh — correspondence driver for filters/gated (C11, C17).
// It generates histories of calls on a gated.Filter (events of 3..5 ids with and without the flush flag, events
// without an id, non-Gateable events, clock advances, FlushAll, Close) under every configuration of Broker set/unset,
// Expiration and fault oracle (ComposeFrom failing / returning a Gateable payload for groups of a given size, the
// n-th Broker.Send failing), runs them on the real filter built from the tree under test with -tags verif, observes
// after every call, and prints cases_*.v files for Run_Gated.mismatches.  Time is an input: the filter's NowFunc
// returns the harness clock.  In -modes conc several goroutines send concurrently (Run_Gated.conc_mismatches).
package main

import (
	"context"
	"encoding/json"
	"errors"
	"flag"
	"fmt"
	"io"
	"math/big"
	"os"
	"runtime"
	"strings"
	"sync"
	"sync/atomic"
	"syscall"
	"time"

	el "github.com/hashicorp/eventlogger"
	"github.com/hashicorp/eventlogger/filters/gated"
	"verifharness/hc"
)

// ---------- cases ----------
type Op struct {
	K     string `json:"k"` // ev plain adv flushall close | setbroker (Filter.Broker = nil / Sender 1 / Sender 2, D = 0 1 2) | setnow (a new NowFunc, D ns ahead of the harness clock) | setexp (Filter.Expiration = D, between calls) | reopen type now (the other exported methods)
	ID    int    `json:"id,omitempty"`
	Flush bool   `json:"flush,omitempty"`
	Done  bool   `json:"ctx_done,omitempty"` // the call is made with an already cancelled context (the model ignores the context)
	Ctx   string `json:"ctx,omitempty"`      // live cancelled past-deadline custom cause ("" = Background)
	// ev: Event.CreatedAt 0 zero time, 1 far ahead of the filter's clock, 2 far behind it (the filter must go by its own clock)
	Created int `json:"created,omitempty"`
	// ev: the payload is a typed nil *gp inside the interface (its GetID answers ""): no id
	NilPayload bool `json:"nil_payload,omitempty"`
	// ev: the concrete payload type: 0 the case default, 1 value-receiver struct by value, 2 *request struct embedding the implementation,
	// 3 response struct (by value) embedding a pointer to it, 4 pointer to the plain payload
	PType int   `json:"ptype,omitempty"`
	D     int64 `json:"d,omitempty"` // adv: clock advance in ns
}
type Cfg struct {
	Broker     bool   `json:"broker"`
	Exp        int64  `json:"exp"`                   // Filter.Expiration in ns (0 = unset -> 10 s default)
	CFailLen   int    `json:"cfail_len,omitempty"`   // ComposeFrom fails for groups of this size
	CGateLen   int    `json:"cgate_len,omitempty"`   // ComposeFrom returns a Gateable payload for groups of this size
	ErrKind    string `json:"err_kind,omitempty"`    // the error VALUE ComposeFrom / Send fail with (see faultErrors); "" = a private error
	CGateFlush bool   `json:"cgate_flush,omitempty"` // ... and that Gateable composite reports FlushEvent() == true
	SFail      int    `json:"sfail,omitempty"`       // the n-th Broker.Send fails
}
type Case struct {
	ID  int    `json:"id"`
	Gen string `json:"gen"`
	Cfg Cfg    `json:"cfg"`
	Ops []Op   `json:"ops"`
	// IDMap, when set, maps the id numbers of the ops to entries of the id value table (model id = the entry's number)
	IDMap []int `json:"id_map,omitempty"`
	// Base: the instant the case's clock starts from (see baseInstants; "" = the Unix epoch)
	Base string `json:"base,omitempty"`
	// AllDone: every call of the history is made with an already cancelled context
	AllDone bool `json:"all_ctx_done,omitempty"`
	// AllCtx: every call is made with this kind of context
	AllCtx string `json:"all_ctx,omitempty"`
	// ValuePayload: the events carry the value-receiver payload type held by value
	ValuePayload bool `json:"value_payload,omitempty"`
	// Twin: a second filter shares the Sender (and clock); it is driven between the calls of the history
	Twin bool `json:"twin,omitempty"`
	// NowNil: Filter.NowFunc is left unset (time.Now); only for the concurrent-style (observation-only) cases
	NowNil bool `json:"now_nil,omitempty"`
	// concurrent cases: one op list per goroutine, Ops unused
	Threads [][]Op `json:"threads,omitempty"`
	Ticker  int64  `json:"ticker,omitempty"` // a goroutine advances the clock by this much between yields
	// a second call arrives while the first call's Send through the Broker is parked
	Blocked *Blocked `json:"blocked,omitempty"`
	// several calls enter together while groups are already expired; the filter's own clock reads are the rendezvous point
	Rendez *Rendez `json:"rendezvous,omitempty"`
}

const defaultExp = int64(10 * time.Second)

func (c Cfg) effExp() int64 {
	if c.Exp == 0 {
		return defaultExp
	}
	return c.Exp
}

// ---------- harness payloads ----------
type pair [2]int // (id, number)

type world struct {
	cfg          Cfg
	mu           sync.Mutex
	composeArgs  [][]pair
	sent         [][]pair
	sends        int
	sentGateable bool
	sentStale    bool
	curSender    int         // tag of the Sender currently assigned to Filter.Broker (0 = none)
	nowOffset    int64       // the NowFunc currently assigned returns now + nowOffset
	baseIsZero   bool        // base really is the zero time.Time
	base         time.Time   // the instant the harness clock starts from is base + 1000 ns (default: the Unix epoch)
	now          int64       // atomic
	inputs       []inputEv   // every event handed to Process, with what it looked like then
	kept         []keptSlice // every slice handed to ComposeFrom: the very slice (no copy) and what it held at that moment
	nowNil       bool        // Filter.NowFunc left unset
	sameType     bool        // reentry scenarios: the composite keeps the event type of the group, so it is routed into the same pipeline
}

var cur *world // the world of the case being executed (ComposeFrom may be called on a nil receiver)

// the id values: plain tokens, ids with leading / trailing / inner white space (6..10: distinct ids that differ from "a" only by
// white space), a very long id, a non-ASCII id, an id made of white space only (not empty: gated like any other id), and more look-alike
// twins of "a": other case, a trailing NUL, "a" as a proper prefix
var idName = []string{"", "a", "b", "c", "d", "e", " a", "a ", " a ", "a b", "\ta\n", strings.Repeat("x", 300), "ä-日本-🔥", " ", "A", "a\x00", "ab"}

func idNum(s string) int {
	for i, n := range idName {
		if n == s {
			return i
		}
	}
	return 99
}

type gp struct {
	id    string
	flush bool
	n     int
}

func (g *gp) GetID() string {
	if g == nil {
		return "" // a typed nil payload: no id
	}
	return g.id
}
func (g *gp) FlushEvent() bool { return g != nil && g.flush }

// the same payload with value receivers, held by value in Event.Payload
type gpv struct {
	id    string
	flush bool
	n     int
}

// two more concrete Gateable types sharing the implementation by embedding: a "request" and a "response" struct
type gpReq struct {
	gp
	method string
}
type gpResp struct {
	*gp
	status int
}

func (g gpv) GetID() string                                                  { return g.id }
func (g gpv) FlushEvent() bool                                               { return g.flush }
func (g gpv) ComposeFrom(evs []*el.Event) (el.EventType, interface{}, error) { return composeFrom(evs) }

type composite struct{ evs []pair }

// a composite that is (wrongly) itself Gateable, as a flush event or not
type gcomposite struct {
	composite
	flush bool
}

func (g *gcomposite) GetID() string    { return "composite" }
func (g *gcomposite) FlushEvent() bool { return g.flush }
func (g *gcomposite) ComposeFrom(evs []*el.Event) (el.EventType, interface{}, error) {
	return composeFrom(evs)
}

// a composite is entitled to keep the slice ComposeFrom was given: the harness does, and re-reads it later
type keptSlice struct {
	raw  []*el.Event
	snap []pair
}

func readPairs(evs []*el.Event) []pair {
	arg := make([]pair, 0, len(evs))
	for _, x := range evs {
		if x == nil {
			arg = append(arg, pair{96, 0})
		} else if p, ok := x.Payload.(*gp); ok && p != nil {
			arg = append(arg, pair{idNum(p.id), p.n})
		} else if p, ok := x.Payload.(gpv); ok {
			arg = append(arg, pair{idNum(p.id), p.n})
		} else if p, ok := x.Payload.(*gpReq); ok {
			arg = append(arg, pair{idNum(p.id), p.n})
		} else if p, ok := x.Payload.(gpResp); ok && p.gp != nil {
			arg = append(arg, pair{idNum(p.id), p.n})
		} else {
			arg = append(arg, pair{98, 0}) // something that was never a gated event
		}
	}
	return arg
}

type inputEv struct {
	ev      *el.Event
	payload interface{}
	created time.Time
}

func (w *world) input(ev *el.Event) {
	w.mu.Lock()
	w.inputs = append(w.inputs, inputEv{ev, ev.Payload, ev.CreatedAt})
	w.mu.Unlock()
}

// mutated: does some slice handed to ComposeFrom earlier no longer hold the events it held then, or was an event handed to
// Process altered (type, payload, timestamp, formatted bytes)?
func (w *world) mutated() bool {
	w.mu.Lock()
	defer w.mu.Unlock()
	for _, in := range w.inputs {
		if in.ev.Type != "t" || in.ev.Payload != in.payload || !in.ev.CreatedAt.Equal(in.created) || len(in.ev.Formatted) != 0 {
			return true
		}
	}
	for _, k := range w.kept {
		now := readPairs(k.raw)
		for i := range now {
			if now[i] != k.snap[i] {
				return true
			}
		}
	}
	return false
}

type hErr struct{ s string }

func (e *hErr) Error() string {
	if e == nil {
		return "typed nil error"
	}
	return e.s
}

type timeoutErr struct{}

func (timeoutErr) Error() string   { return "harness: timed out" }
func (timeoutErr) Timeout() bool   { return true }
func (timeoutErr) Temporary() bool { return true }
func (timeoutErr) Is(t error) bool { return t == context.DeadlineExceeded }

// the error VALUES ComposeFrom / Sender.Send fail with; whatever the value the filter must report an error and give the group up
var faultErrors = map[string]error{
	"": &hErr{"fault"}, "eof": io.EOF, "wrap:eof": fmt.Errorf("harness: %w", io.EOF), "canceled": context.Canceled,
	"wrap:deadline": fmt.Errorf("harness: %w", context.DeadlineExceeded), "patherror:enospc": &os.PathError{Op: "send", Path: "/h", Err: syscall.ENOSPC},
	"custom-timeout": timeoutErr{}, "join": errors.Join(io.ErrClosedPipe, &hErr{"second"}), "typednil": (*hErr)(nil), "invalid-parameter": el.ErrInvalidParameter,
}
var faultErrNames = []string{"", "eof", "wrap:eof", "canceled", "wrap:deadline", "patherror:enospc", "custom-timeout", "join", "typednil", "invalid-parameter"}

func (w *world) fault() error {
	if e, ok := faultErrors[w.cfg.ErrKind]; ok {
		return e
	}
	return faultErrors[""]
}

func composeFrom(evs []*el.Event) (el.EventType, interface{}, error) {
	w := cur
	arg := readPairs(evs)
	w.mu.Lock()
	w.composeArgs = append(w.composeArgs, arg)
	w.kept = append(w.kept, keptSlice{evs, arg})
	w.mu.Unlock()
	if w.cfg.CFailLen != 0 && len(arg) == w.cfg.CFailLen {
		return "", nil, w.fault()
	}
	if w.sameType && len(evs) > 0 {
		if w.cfg.CGateLen != 0 && len(arg) == w.cfg.CGateLen {
			return evs[0].Type, &gcomposite{composite{arg}, w.cfg.CGateFlush}, nil
		}
		return evs[0].Type, &composite{arg}, nil
	}
	if w.cfg.CGateLen != 0 && len(arg) == w.cfg.CGateLen {
		return "composed", &gcomposite{composite{arg}, w.cfg.CGateFlush}, nil
	}
	return "composed", &composite{arg}, nil
}
func (g *gp) ComposeFrom(evs []*el.Event) (el.EventType, interface{}, error) { return composeFrom(evs) }

type plain struct{ n int }

type sender struct {
	w   *world
	tag int // which of the harness' Senders this is (the Broker field of the Filter may be re-assigned between calls)
}

func (s *sender) Send(ctx context.Context, t el.EventType, p interface{}) (el.Status, error) {
	w := s.w
	w.mu.Lock()
	defer w.mu.Unlock()
	if s.tag != w.curSender {
		w.sentStale = true // a payload for a Broker the Filter does not have at the time of this call
	}
	w.sends++
	var evs []pair
	switch c := p.(type) {
	case *composite:
		evs = c.evs
	case *gcomposite:
		evs = c.evs
	default:
		evs = []pair{{97, 0}}
	}
	if _, isG := p.(gated.Gateable); isG {
		w.sentGateable = true
	}
	w.sent = append(w.sent, evs)
	if w.cfg.SFail != 0 && w.sends == w.cfg.SFail {
		return el.Status{}, w.fault()
	}
	return el.Status{}, nil
}

// ---------- observations ----------
type Grp struct {
	ID  int       `json:"id"`
	N   int       `json:"n"`
	Exp int64     `json:"exp"` // nanoseconds since 1970 (display only: wraps outside 1678..2262)
	T   time.Time `json:"exp_time"`
}
type Obs struct {
	Now          int64     `json:"now"` // harness clock in ns relative to the case's base instant
	NowT         time.Time `json:"now_time"`
	Exp          int64     `json:"exp"`    // Filter.Expiration as last set by the harness
	Broker       bool      `json:"broker"` // Filter.Broker set at the time of the call
	SentStale    bool      `json:"sent_stale,omitempty"`
	Res          int       `json:"res"`
	Comp         []pair    `json:"comp,omitempty"`
	Compose      [][]pair  `json:"compose,omitempty"`
	Sent         [][]pair  `json:"sent,omitempty"`
	SentGateable bool      `json:"sent_gateable,omitempty"`
	Gated        []Grp     `json:"gated,omitempty"`
	IndexOK      bool      `json:"index_ok"`
	Mutated      bool      `json:"composite_mutated,omitempty"`
}

// the named instants a case's clock can start from: the zero time.Time, year 1, the edges of what fits into int64 nanoseconds since 1970
// (1677-09-21 .. 2262-04-11), and the far future
var baseInstants = map[string]time.Time{
	"":      time.Unix(0, 0),
	"zero":  {},
	"y1":    time.Date(1, 6, 1, 0, 0, 0, 0, time.UTC),
	"y1677": time.Date(1677, 1, 1, 0, 0, 0, 0, time.UTC),
	"y1678": time.Date(1678, 1, 1, 0, 0, 0, 0, time.UTC),
	"y2261": time.Date(2261, 12, 31, 0, 0, 0, 0, time.UTC),
	"y2263": time.Date(2263, 1, 1, 0, 0, 0, 0, time.UTC),
	"y9999": time.Date(9999, 12, 31, 23, 0, 0, 0, time.UTC),
}

// clock: the harness clock as an instant (never through int64 nanoseconds since 1970, which cannot hold most of these)
func (w *world) clock(off int64) time.Time {
	b := w.base
	if b.IsZero() && !w.baseIsZero {
		b = time.Unix(0, 0)
	}
	return b.Add(time.Duration(atomic.LoadInt64(&w.now) + off))
}

// zTime prints an instant as a Z literal: nanoseconds since the Unix epoch, exactly (Z has no overflow)
func zTime(t time.Time) string {
	z := new(big.Int).Mul(big.NewInt(t.Unix()), big.NewInt(1000000000))
	z.Add(z, big.NewInt(int64(t.Nanosecond())))
	if z.Sign() < 0 {
		return "(" + z.String() + ")%Z"
	}
	return z.String() + "%Z"
}

func newFilter(w *world) *gated.Filter {
	f := &gated.Filter{Expiration: time.Duration(w.cfg.Exp), NowFunc: func() time.Time { return w.clock(0) }}
	if w.nowNil {
		f.NowFunc = nil
	}
	if w.cfg.Broker {
		f.Broker = &sender{w, 1}
		w.curSender = 1
	}
	return f
}

func snapshot(f *gated.Filter) ([]Grp, bool) {
	gs, idx := f.VerifGated()
	ok := idx == len(gs)
	out := make([]Grp, 0, len(gs))
	for _, g := range gs {
		out = append(out, Grp{ID: idNum(g.ID), N: g.Events, Exp: g.Exp.UnixNano(), T: g.Exp})
		if !g.Indexed {
			ok = false
		}
	}
	return out, ok
}

// classify what Process returned
func classify(ev *el.Event, out *el.Event, err error, isPlain bool, n int) (int, []pair) {
	switch {
	case err != nil:
		if out != nil {
			return 9, nil
		}
		return 3, nil
	case out == nil:
		return 1, nil
	case out == ev:
		if isPlain {
			if p, ok := ev.Payload.(plain); !ok || p.n != n || ev.Type != "t" {
				return 9, nil
			}
		}
		return 0, nil
	}
	switch c := out.Payload.(type) {
	case *composite:
		return 2, c.evs
	case *gcomposite:
		return 2, c.evs
	}
	return 2, nil
}

// Hang records a history one of whose calls did not return within the watchdog
type Hang struct {
	Case   Case   `json:"case"`
	Call   int    `json:"call"` // index among the calls of the history
	Op     string `json:"op"`
	Dump   string `json:"goroutine_dump,omitempty"`
	Millis int64  `json:"watchdog_ms"`
}

var historyWatchdog = 3 * time.Second

// execCase runs a history on its own goroutine under a watchdog: a call that never returns (a spin or a deadlock inside the
// filter) must not take the harness with it.  On a hang the filter and the goroutine are abandoned.
func execCase(c Case) (calls []Op, nums []int, obs []Obs, panicked interface{}, hung *Hang) {
	type result struct {
		calls []Op
		nums  []int
		obs   []Obs
		p     interface{}
	}
	var at int32 = -1
	done := make(chan result, 1)
	go func() {
		var r result
		r.calls, r.nums, r.obs, r.p = execCaseInner(c, &at)
		done <- r
	}()
	select {
	case r := <-done:
		return r.calls, r.nums, r.obs, r.p, nil
	case <-time.After(historyWatchdog):
		buf := make([]byte, 1<<16)
		buf = buf[:runtime.Stack(buf, true)]
		k, i := int(atomic.LoadInt32(&at)), 0
		h := &Hang{Case: c, Call: k, Dump: string(buf), Millis: historyWatchdog.Milliseconds()}
		for _, op := range c.Ops {
			if op.K == "adv" {
				continue
			}
			if i == k {
				js, _ := json.Marshal(op)
				h.Op = string(js)
			}
			i++
		}
		return nil, nil, nil, nil, h
	}
}

type ownCtx struct {
	context.Context
	done chan struct{}
	err  error
}

func (c *ownCtx) Done() <-chan struct{} { return c.done }
func (c *ownCtx) Err() error            { return c.err }

// the contexts a caller may hand to Process / FlushAll / Close; the filter only passes it on to the Sender
func makeCtx(kind string) (context.Context, context.CancelFunc) {
	switch kind {
	case "live":
		return context.WithCancel(context.Background())
	case "cancelled":
		ctx, cancel := context.WithCancel(context.Background())
		cancel()
		return ctx, cancel
	case "past-deadline":
		return context.WithDeadline(context.Background(), time.Now().Add(-time.Hour))
	case "custom":
		done := make(chan struct{})
		close(done)
		return &ownCtx{Context: context.Background(), done: done, err: &hErr{"ctx gone"}}, func() {}
	case "cause":
		ctx, cancel := context.WithCancelCause(context.Background())
		cancel(io.EOF)
		child, c2 := context.WithCancel(ctx)
		return child, c2
	}
	return context.Background(), func() {}
}

var ctxKinds = []string{"", "live", "cancelled", "past-deadline", "custom", "cause"}

// twinStep drives the second filter that shares the Sender: its own ids, its own events (numbers 9000+), now and then a FlushAll
func twinStep(f2 *gated.Filter, w *world, n int) {
	ctx := context.Background()
	ev := &el.Event{Type: "t", Payload: &gp{id: []string{"a", "b"}[n%2], flush: n%3 == 0, n: 9000 + n}}
	w.input(ev)
	_, _ = f2.Process(ctx, ev)
	if n%5 == 0 {
		_ = f2.FlushAll(ctx)
	}
}

func execCaseInner(c Case, at *int32) (calls []Op, nums []int, obs []Obs, panicked interface{}) {
	w := &world{cfg: c.Cfg, now: 1000, base: baseInstants[c.Base], baseIsZero: c.Base == "zero"}
	cur = w
	f := newFilter(w)
	var f2 *gated.Filter
	if c.Twin {
		f2 = newFilter(w)
	}
	defer func() {
		if r := recover(); r != nil {
			panicked = r
		}
	}()
	n := 0
	curExp := c.Cfg.Exp
	for _, op := range c.Ops {
		if op.K == "adv" {
			atomic.AddInt64(&w.now, op.D)
			continue
		}
		if op.K == "setbroker" {
			// Broker is an exported field: nil -> set, set -> another Sender, set -> nil between calls
			w.mu.Lock()
			w.curSender = int(op.D)
			w.mu.Unlock()
			if op.D == 0 {
				f.Broker = nil
			} else {
				f.Broker = &sender{w, int(op.D)}
			}
			continue
		}
		if op.K == "setnow" {
			// NowFunc is an exported field: a new function, op.D ns ahead of the harness clock
			off := op.D
			w.nowOffset = off
			f.NowFunc = func() time.Time { return w.clock(off) }
			continue
		}
		if op.K == "setexp" {
			// Expiration is an exported field: a caller may change it between calls; groups keep the expiry fixed when they were opened
			f.Expiration = time.Duration(op.D)
			curExp = op.D
			continue
		}
		n++
		atomic.StoreInt32(at, int32(n-1))
		if c.Twin {
			twinStep(f2, w, n) // outside the observation window of the call below
		}
		w.mu.Lock()
		c0, s0 := len(w.composeArgs), len(w.sent)
		w.sentGateable = false
		w.mu.Unlock()
		w.mu.Lock()
		w.sentStale = false
		brokerSet := w.curSender != 0
		w.mu.Unlock()
		o := Obs{Now: atomic.LoadInt64(&w.now) + w.nowOffset, NowT: w.clock(w.nowOffset), Exp: curExp, Broker: brokerSet}
		if op.K == "ev" && c.IDMap != nil && op.ID < len(c.IDMap) {
			op.ID = c.IDMap[op.ID]
		}
		kind := op.Ctx
		if kind == "" {
			kind = c.AllCtx
		}
		if kind == "" && (op.Done || c.AllDone) {
			kind = "cancelled"
		}
		ctx, cancel := makeCtx(kind)
		if op.K == "ev" && op.NilPayload {
			op.ID = 0
		}
		switch op.K {
		case "ev":
			ev := &el.Event{Type: "t", Payload: &gp{id: idName[op.ID], flush: op.Flush, n: n}}
			if c.ValuePayload {
				ev.Payload = gpv{id: idName[op.ID], flush: op.Flush, n: n}
			}
			switch op.PType {
			case 1:
				ev.Payload = gpv{id: idName[op.ID], flush: op.Flush, n: n}
			case 2:
				ev.Payload = &gpReq{gp: gp{id: idName[op.ID], flush: op.Flush, n: n}, method: "GET"}
			case 3:
				ev.Payload = gpResp{gp: &gp{id: idName[op.ID], flush: op.Flush, n: n}, status: 200}
			case 4:
				ev.Payload = &gp{id: idName[op.ID], flush: op.Flush, n: n}
			}
			if op.NilPayload {
				ev.Payload = (*gp)(nil)
			}
			switch op.Created {
			case 1:
				ev.CreatedAt = w.clock(0).Add(1000 * time.Hour)
			case 2:
				ev.CreatedAt = w.clock(0).Add(-1000 * time.Hour)
			}
			w.input(ev)
			out, err := f.Process(ctx, ev)
			o.Res, o.Comp = classify(ev, out, err, false, n)
		case "plain":
			ev := &el.Event{Type: "t", Payload: plain{n}}
			w.input(ev)
			out, err := f.Process(ctx, ev)
			o.Res, o.Comp = classify(ev, out, err, true, n)
		case "flushall", "close":
			var err error
			if op.K == "close" {
				err = f.Close(ctx)
			} else {
				err = f.FlushAll(ctx)
			}
			o.Res = 4
			if err != nil {
				o.Res = 3
			}
		case "reopen", "type", "now":
			// the other exported methods of the Filter: they have no business touching what is gated
			o.Res = 4
			switch op.K {
			case "reopen":
				if err := f.Reopen(); err != nil {
					o.Res = 3
				}
			case "type":
				if f.Type() != el.NodeTypeFilter {
					o.Res = 3
				}
			default:
				if got := f.Now(); !got.Equal(w.clock(w.nowOffset)) {
					o.Res = 3
				}
			}
		default:
			panic("unknown op " + op.K)
		}
		w.mu.Lock()
		o.Compose = append([][]pair(nil), w.composeArgs[c0:]...)
		o.Sent = append([][]pair(nil), w.sent[s0:]...)
		o.SentGateable = w.sentGateable
		o.SentStale = w.sentStale
		w.mu.Unlock()
		cancel()
		o.Gated, o.IndexOK = snapshot(f)
		o.Mutated = w.mutated()
		calls = append(calls, op)
		nums = append(nums, n)
		obs = append(obs, o)
	}
	return
}

// ---------- concurrent cases ----------
type CEvent struct {
	ID   int    `json:"id"`
	N    int    `json:"n"`
	Res  int    `json:"res"`
	Comp []pair `json:"comp,omitempty"`
}
type CObs struct {
	Events       []CEvent `json:"events"`
	Compose      [][]pair `json:"compose"`
	Sent         [][]pair `json:"sent"`
	CallsOK      bool     `json:"calls_ok"`
	FinalRes     int      `json:"final_res"`
	FinalGated   []Grp    `json:"final_gated,omitempty"`
	SentGateable bool     `json:"sent_gateable,omitempty"`
	Mutated      bool     `json:"composite_mutated,omitempty"`
}

func execConc(c Case) (o CObs, panicked interface{}) {
	w := &world{cfg: c.Cfg, now: 1000, nowNil: c.NowNil}
	cur = w
	f := newFilter(w)
	ctx := context.Background()
	var wg sync.WaitGroup
	var pmu sync.Mutex
	results := make([][]CEvent, len(c.Threads))
	stop := make(chan struct{})
	var twg sync.WaitGroup
	if c.Ticker > 0 {
		twg.Add(1)
		go func() {
			defer twg.Done()
			for {
				select {
				case <-stop:
					return
				default:
				}
				atomic.AddInt64(&w.now, c.Ticker)
				time.Sleep(20 * time.Microsecond)
			}
		}()
	}
	start := make(chan struct{})
	for t := range c.Threads {
		wg.Add(1)
		go func(t int) {
			defer wg.Done()
			defer func() {
				if r := recover(); r != nil {
					pmu.Lock()
					panicked = r
					pmu.Unlock()
				}
			}()
			<-start
			for k, op := range c.Threads[t] {
				n := (t+1)*1000 + k + 1
				ev := &el.Event{Type: "t", Payload: &gp{id: idName[op.ID], flush: op.Flush, n: n}}
				out, err := f.Process(ctx, ev)
				res, comp := classify(ev, out, err, false, n)
				results[t] = append(results[t], CEvent{op.ID, n, res, comp})
			}
		}(t)
	}
	close(start)
	wg.Wait()
	close(stop)
	twg.Wait()
	err := f.FlushAll(ctx)
	o.FinalRes = 4
	if err != nil {
		o.FinalRes = 3
	}
	o.FinalGated, _ = snapshot(f)
	for _, r := range results {
		o.Events = append(o.Events, r...)
	}
	w.mu.Lock()
	o.Compose = w.composeArgs
	o.Sent = w.sent
	o.CallsOK = true
	o.SentGateable = w.sentGateable
	w.mu.Unlock()
	o.Mutated = w.mutated()
	return
}

// ---------- a second call arriving while a Send through the Broker is in flight ----------
// The harness Sender parks the FIRST Send it receives until released.  The first call (a Process whose sweep finds expired
// groups, a FlushAll or a Close) is started and reaches that Send; then the second call is started on the same filter and
// given a moment; then the Send is released.  The filter holds its mutex across the Send, so the second call can only run
// afterwards and every group is composed and sent exactly once whatever the second call is.
type Blocked struct {
	First   string `json:"first"`           // process flushall close
	Second  string `json:"second"`          // process process-flush flushall close
	Groups  int    `json:"groups"`          // open groups (ids 1..Groups) before the first call
	Expired bool   `json:"expired"`         // the clock is advanced past their expiry before the first call
	Third   string `json:"third,omitempty"` // a third party calling in as well: process flushall
}

type blockSender struct {
	inner   *sender
	once    sync.Once
	entered chan struct{}
	release chan struct{}
}

func (b *blockSender) Send(ctx context.Context, t el.EventType, p interface{}) (el.Status, error) {
	st, err := b.inner.Send(ctx, t, p)
	b.once.Do(func() {
		close(b.entered)
		<-b.release
	})
	return st, err
}

func execBlocked(c Case) (o CObs, panicked interface{}) {
	sp := c.Blocked
	w := &world{cfg: c.Cfg, now: 1000}
	cur = w
	bs := &blockSender{inner: &sender{w, 0}, entered: make(chan struct{}), release: make(chan struct{})}
	f := &gated.Filter{Expiration: time.Duration(w.cfg.Exp), Broker: bs, NowFunc: func() time.Time { return w.clock(0) }}
	ctx := context.Background()
	var emu sync.Mutex
	callsOK := true
	process := func(id int, flush bool, n int) {
		defer func() {
			if r := recover(); r != nil {
				emu.Lock()
				panicked = r
				emu.Unlock()
			}
		}()
		ev := &el.Event{Type: "t", Payload: &gp{id: idName[id], flush: flush, n: n}}
		out, err := f.Process(ctx, ev)
		res, comp := classify(ev, out, err, false, n)
		emu.Lock()
		o.Events = append(o.Events, CEvent{id, n, res, comp})
		emu.Unlock()
	}
	call := func(kind string, n int) func() {
		return func() {
			var err error
			switch kind {
			case "process":
				process(sp.Groups+n/1000-1, false, n) // a new id: 1st call Groups+1, 2nd call Groups+2, 3rd call Groups+3
				return
			case "process-flush":
				process(1, true, n)
				return
			case "flushall":
				err = f.FlushAll(ctx)
			case "close":
				err = f.Close(ctx)
			}
			if err != nil {
				emu.Lock()
				callsOK = false
				emu.Unlock()
			}
		}
	}
	for i := 1; i <= sp.Groups; i++ {
		process(i, false, 1000+i)
		atomic.AddInt64(&w.now, 1)
	}
	if sp.Expired {
		atomic.AddInt64(&w.now, 100)
	}
	done1, done2 := make(chan struct{}), make(chan struct{})
	go func() { defer close(done1); call(sp.First, 2001)() }()
	select {
	case <-bs.entered:
	case <-done1: // the first call sent nothing: nothing to overlap with
	}
	go func() { defer close(done2); call(sp.Second, 3001)() }()
	done3 := make(chan struct{})
	if sp.Third != "" {
		go func() { defer close(done3); call(sp.Third, 4001)() }()
	} else {
		close(done3)
	}
	select {
	case <-done2:
	case <-time.After(30 * time.Millisecond):
	}
	close(bs.release)
	<-done1
	<-done2
	<-done3
	err := f.FlushAll(ctx)
	o.FinalRes = 4
	if err != nil {
		o.FinalRes = 3
	}
	o.FinalGated, _ = snapshot(f)
	w.mu.Lock()
	o.Compose = w.composeArgs
	o.Sent = w.sent
	o.SentGateable = w.sentGateable
	w.mu.Unlock()
	o.CallsOK = callsOK
	o.Mutated = w.mutated()
	return
}

// ---------- several callers meeting an already expired group ----------
// Groups 1..G are open and expired.  The callers (Process of a new id, a flush event for group 1, FlushAll) enter together; the filter's
// NowFunc — called inside Process while it decides what has expired — waits (at most 10 ms per read) until every caller has entered, so
// the callers are inside together however the scheduler behaves.  The filter's mutex serialises them: every group is composed and sent
// exactly once, whichever caller gets to it.
type Rendez struct {
	Groups  int      `json:"groups"`
	Callers []string `json:"callers"` // process process-flush flushall
}

func execRendez(c Case) (o CObs, panicked interface{}) {
	sp := c.Rendez
	w := &world{cfg: c.Cfg, now: 1000}
	cur = w
	var entered, want int32
	f := newFilter(w)
	f.NowFunc = func() time.Time {
		if n := atomic.LoadInt32(&want); n > 0 {
			deadline := time.Now().Add(10 * time.Millisecond)
			for atomic.LoadInt32(&entered) < n && time.Now().Before(deadline) {
				runtime.Gosched()
			}
		}
		return w.clock(0)
	}
	ctx := context.Background()
	var emu sync.Mutex
	callsOK := true
	process := func(id int, flush bool, n int) {
		defer func() {
			if r := recover(); r != nil {
				emu.Lock()
				panicked = r
				emu.Unlock()
			}
		}()
		ev := &el.Event{Type: "t", Payload: &gp{id: idName[id], flush: flush, n: n}}
		w.input(ev)
		out, err := f.Process(ctx, ev)
		res, comp := classify(ev, out, err, false, n)
		emu.Lock()
		o.Events = append(o.Events, CEvent{id, n, res, comp})
		emu.Unlock()
	}
	for i := 1; i <= sp.Groups; i++ {
		process(i, false, 1000+i)
		atomic.AddInt64(&w.now, 1)
	}
	atomic.AddInt64(&w.now, 100) // every group has expired
	atomic.StoreInt32(&want, int32(len(sp.Callers)))
	var wg sync.WaitGroup
	for k, kind := range sp.Callers {
		wg.Add(1)
		go func(k int, kind string) {
			defer wg.Done()
			atomic.AddInt32(&entered, 1)
			switch kind {
			case "process":
				process(sp.Groups+1+k, false, (k+2)*1000+1) // its own new id
			case "process-flush":
				process(1, true, (k+2)*1000+1)
			default:
				if err := f.FlushAll(ctx); err != nil {
					emu.Lock()
					callsOK = false
					emu.Unlock()
				}
			}
		}(k, kind)
	}
	wg.Wait()
	atomic.StoreInt32(&want, 0)
	err := f.FlushAll(ctx)
	o.FinalRes = 4
	if err != nil {
		o.FinalRes = 3
	}
	o.FinalGated, _ = snapshot(f)
	w.mu.Lock()
	o.Compose = w.composeArgs
	o.Sent = w.sent
	o.SentGateable = w.sentGateable
	w.mu.Unlock()
	o.CallsOK = callsOK
	o.Mutated = w.mutated()
	return
}

func genRendez(e *emitter, repeat int) {
	sets := [][]string{{"process", "process"}, {"process", "process", "process"}, {"process", "process-flush"}, {"process", "flushall"}, {"process-flush", "flushall", "process"}, {"process", "process", "flushall", "process"}}
	for rep := 0; rep < repeat; rep++ {
		for _, groups := range []int{1, 2, 3} {
			for _, callers := range sets {
				if groups+len(callers) > 5 {
					continue // ids 1..5
				}
				e.emitConc(Case{Gen: "rendezvous", Cfg: Cfg{Broker: true, Exp: 10}, Rendez: &Rendez{groups, callers}})
			}
		}
	}
}

func genBlocked(e *emitter) {
	for _, groups := range []int{1, 2, 3} {
		for _, first := range []string{"process", "flushall", "close"} {
			for _, second := range []string{"process", "process-flush", "flushall", "close"} {
				for _, expired := range []bool{true, false} {
					if first == "process" && !expired {
						continue // no sweep, no Send to park
					}
					e.emitConc(Case{Gen: "blocked-send", Cfg: Cfg{Broker: true, Exp: 10}, Blocked: &Blocked{First: first, Second: second, Groups: groups, Expired: expired}})
					if groups == 2 {
						third := map[string]string{"process": "flushall", "process-flush": "process", "flushall": "process", "close": "process"}[second]
						e.emitConc(Case{Gen: "blocked-send", Cfg: Cfg{Broker: true, Exp: 10}, Blocked: &Blocked{First: first, Second: second, Groups: groups, Expired: expired, Third: third}})
					}
				}
			}
		}
	}
}

// ---------- re-entry scenarios (gated part of C12, and C11's "composites through the Broker are never Gateable") ----------
// The filter is wired to the very Broker whose pipeline contains it, so every composite it sends while holding its mutex
// comes back into its own Process.  A non-Gateable composite returns before the first Lock; a Gateable one would park on
// the mutex held by the flush that sent it.  Every call runs under a watchdog; a hang is reported with a goroutine dump.
type passNode struct {
	typ      el.NodeType
	mu       sync.Mutex
	gateable int // Gateable composites seen (tap in front of the filter)
	plain    int // non-Gateable composites seen
	seen     int
}

func (n *passNode) Process(ctx context.Context, e *el.Event) (*el.Event, error) {
	n.mu.Lock()
	n.seen++
	if _, ok := e.Payload.(*gcomposite); ok {
		n.gateable++
	}
	if _, ok := e.Payload.(*composite); ok {
		n.plain++
	}
	n.mu.Unlock()
	if n.typ == el.NodeTypeSink {
		return nil, nil
	}
	return e, nil
}
func (n *passNode) Reopen() error     { return nil }
func (n *passNode) Type() el.NodeType { return n.typ }

type ReentryResult struct {
	Scenario        string   `json:"scenario"`
	Composite       string   `json:"composite"` // plain gateable gateable-flush
	Steps           []string `json:"steps"`
	Hang            bool     `json:"hang"`
	HungAt          string   `json:"hung_at,omitempty"`
	ReopenKept      bool     `json:"groups_kept_across_broker_reopen"`
	GateableThrough int      `json:"gateable_composites_routed_by_the_broker"`
	PlainThrough    int      `json:"plain_composites_routed_back_into_the_filter"`
	Dump            string   `json:"goroutine_dump,omitempty"`
}

func within(d time.Duration, f func()) (ok bool, dump string) {
	done := make(chan struct{})
	go func() { defer close(done); f() }()
	select {
	case <-done:
		return true, ""
	case <-time.After(d):
		buf := make([]byte, 1<<16)
		buf = buf[:runtime.Stack(buf, true)]
		return false, string(buf)
	}
}

func runReentry(watchdog time.Duration) []ReentryResult {
	var out []ReentryResult
	kinds := []struct {
		name string
		cfg  Cfg
	}{
		{"plain", Cfg{Broker: true, Exp: 10}},
		{"gateable", Cfg{Broker: true, Exp: 10, CGateLen: 1}},
		{"gateable-flush", Cfg{Broker: true, Exp: 10, CGateLen: 1, CGateFlush: true}},
	}
	for _, k := range kinds {
		for _, sc := range []string{"expiry-during-process", "sweep-oldest-expired-next-not", "flushall", "close-by-remove-pipeline-and-nodes", "broker-reopen"} {
			w := &world{cfg: k.cfg, now: 1000, sameType: true}
			cur = w
			b, err := el.NewBroker()
			if err != nil {
				panic(err)
			}
			f := &gated.Filter{Broker: b, Expiration: time.Duration(w.cfg.Exp), NowFunc: func() time.Time { return w.clock(0) }}
			tap := &passNode{typ: el.NodeTypeFilter}
			nodes := map[el.NodeID]el.Node{"tap": tap, "gate": f, "fmt": &passNode{typ: el.NodeTypeFormatter}, "sink": &passNode{typ: el.NodeTypeSink}}
			for id, n := range nodes {
				if err := b.RegisterNode(id, n); err != nil {
					panic(err)
				}
			}
			if err := b.RegisterPipeline(el.Pipeline{PipelineID: "p", EventType: "t", NodeIDs: []el.NodeID{"tap", "gate", "fmt", "sink"}}); err != nil {
				panic(err)
			}
			ctx := context.Background()
			r := ReentryResult{Scenario: sc, Composite: k.name}
			n := 0
			send := func(id string) func() {
				return func() {
					n++
					_, _ = b.Send(ctx, "t", &gp{id: id, n: n})
				}
			}
			type step struct {
				name string
				f    func()
			}
			steps := []step{{"Send(a)", send("a")}}
			switch sc {
			case "expiry-during-process":
				steps = append(steps, step{"advance clock past expiry", func() { atomic.AddInt64(&w.now, 11) }}, step{"Send(b) flushes expired a", send("b")}, step{"Send(c)", send("c")})
			case "sweep-oldest-expired-next-not":
				// a opened at 1000 (expires after 1010), b at 1005 (expires after 1015); at 1011 the sweep meets an expired group followed by one that is not
				steps = append(steps, step{"advance clock by 5", func() { atomic.AddInt64(&w.now, 5) }}, step{"Send(b)", send("b")},
					step{"advance clock by 6: a expired, b not", func() { atomic.AddInt64(&w.now, 6) }}, step{"Send(c) sweeps a, must step over b", send("c")}, step{"Send(d)", send("d")})
			case "broker-reopen":
				// Broker.Reopen (SIGHUP, log rotation) reaches the filter's Reopen: what is gated must stay gated
				steps = append(steps, step{"Send(b)", send("b")}, step{"Broker.Reopen", func() { _ = b.Reopen(ctx) }})
			case "flushall":
				steps = append(steps, step{"FlushAll", func() { _ = f.FlushAll(ctx) }}, step{"Send(c)", send("c")})
			default:
				steps = append(steps, step{"RemovePipelineAndNodes", func() { _, _ = b.RemovePipelineAndNodes(ctx, "t", "p") }})
			}
			for _, st := range steps {
				ok, dump := within(watchdog, st.f)
				r.Steps = append(r.Steps, st.name)
				if !ok {
					r.Hang, r.HungAt, r.Dump = true, st.name, dump
					break
				}
			}
			tap.mu.Lock()
			r.ReopenKept = true
			if sc == "broker-reopen" && !r.Hang {
				gs, _ := snapshot(f)
				r.ReopenKept = len(gs) == 2 && gs[0].N == 1 && gs[1].N == 1
			}
			r.GateableThrough = tap.gateable
			r.PlainThrough = tap.plain
			tap.mu.Unlock()
			out = append(out, r)
		}
	}
	return out
}

// ---------- Gallina literals ----------
func pairsLit(ps []pair) string {
	s := make([]string, len(ps))
	for i, p := range ps {
		s[i] = fmt.Sprintf("(%d,%d)", p[0], p[1])
	}
	return "[" + strings.Join(s, ";") + "]%N"
}
func pairssLit(pss [][]pair) string {
	s := make([]string, len(pss))
	for i, ps := range pss {
		s[i] = pairsLit(ps)
	}
	return hc.List(s)
}
func gatedLit(gs []Grp) string {
	s := make([]string, len(gs))
	for i, g := range gs {
		t := g.T
		if t.IsZero() && g.Exp != 0 {
			t = time.Unix(0, g.Exp)
		}
		s[i] = fmt.Sprintf("(%s,(%s,%s))", hc.N(g.ID), hc.N(g.N), zTime(t))
	}
	return hc.List(s)
}
func hopLit(op Op, n int) string {
	switch op.K {
	case "ev":
		return fmt.Sprintf("HEv %s %s %s", hc.N(op.ID), hc.B(op.Flush), hc.N(n))
	case "plain":
		return fmt.Sprintf("HPlain %s", hc.N(n))
	case "flushall":
		return "HFlushAll"
	case "reopen":
		return "HOther 1%N"
	case "type":
		return "HOther 2%N"
	case "now":
		return "HOther 3%N"
	}
	return "HClose"
}
func obsLit(o Obs) string {
	return fmt.Sprintf("Build_gobs %s %s %s %s %s %s %s %s %s %s %s %s", zTime(o.NowT), hc.Z(o.Exp), hc.B(o.Broker), hc.N(o.Res), pairsLit(o.Comp), pairssLit(o.Compose), pairssLit(o.Sent),
		hc.B(o.SentGateable), gatedLit(o.Gated), hc.B(o.IndexOK), hc.B(o.SentStale), hc.B(o.Mutated))
}
func cfgLit(c Cfg) string {
	return fmt.Sprintf("(Build_gcfg %s %s %s %s %s)", hc.B(c.Broker), hc.Z(c.Exp), hc.N(c.CFailLen), hc.N(c.CGateLen), hc.N(c.SFail))
}
func caseLit(c Case, calls []Op, nums []int, obs []Obs) string {
	steps := make([]string, len(calls))
	for i := range calls {
		steps[i] = hc.Pair(hopLit(calls[i], nums[i]), obsLit(obs[i]))
	}
	return fmt.Sprintf("Build_gcase %s %s\n  %s", hc.N(c.ID), cfgLit(c.Cfg), hc.List(steps))
}
func concLit(c Case, o CObs) string {
	evs := make([]string, len(o.Events))
	for i, e := range o.Events {
		evs[i] = fmt.Sprintf("(%s,%s,%s,%s)", hc.N(e.ID), hc.N(e.N), hc.N(e.Res), pairsLit(e.Comp))
	}
	return fmt.Sprintf("Build_ccase %s (Build_cobs %s\n  %s %s %s %s %s %s %s)", hc.N(c.ID), hc.List(evs), pairssLit(o.Compose), pairssLit(o.Sent), hc.B(o.CallsOK), hc.N(o.FinalRes), gatedLit(o.FinalGated), hc.B(o.SentGateable), hc.B(o.Mutated))
}

// ---------- emitter ----------
type emitter struct {
	cf, ccf   *hc.CaseFile
	side      *os.File
	next      int
	stats     map[string]int
	panics    []string
	sigs      map[string]bool
	nontriv   int
	maxGroups int
	hangs     []Hang
	aborted   bool // two histories hung: every abandoned goroutine may be spinning, stop generating
}

func (e *emitter) noteHang(h *Hang) {
	if len(e.hangs) > 0 {
		h.Dump = "" // one goroutine dump is enough
	}
	e.hangs = append(e.hangs, *h)
	if len(e.hangs) >= 2 {
		e.aborted = true
	}
}

func (e *emitter) emit(c Case) []Obs {
	if e.aborted {
		return nil
	}
	e.next++
	c.ID = e.next
	js, _ := json.Marshal(c)
	fmt.Fprintf(e.side, "%s\n", js)
	calls, nums, obs, p, hung := execCase(c)
	if hung != nil {
		e.noteHang(hung)
		return nil
	}
	if p != nil {
		e.panics = append(e.panics, fmt.Sprintf("case %d: panic: %v", c.ID, p))
		return nil
	}
	if err := e.cf.Add(caseLit(c, calls, nums, obs)); err != nil {
		panic(err)
	}
	e.stats["cases"]++
	e.stats["gen:"+c.Gen]++
	e.stats["calls"] += len(calls)
	nontrivial := false
	for i, op := range calls {
		o := obs[i]
		k := op.K
		if op.K == "ev" && op.Flush {
			k = "ev-flush"
		}
		if op.K == "ev" && op.ID == 0 {
			k = "ev-noid"
		}
		e.stats[fmt.Sprintf("op:%s:res%d", k, o.Res)]++
		if len(o.Compose) > 0 {
			nontrivial = true
			e.stats["calls_composing"]++
			if op.K == "ev" && (len(o.Compose) > 1 || !op.Flush || o.Res == 3) {
				e.stats["process_calls_expiring_groups"]++
			}
			if op.K == "ev" && len(o.Compose) > 2 {
				e.stats["process_calls_expiring_2plus_groups"]++
			}
		}
		if (op.K == "flushall" || op.K == "close") && i > 0 && len(obs[i-1].Gated) > 1 {
			e.stats["flushall_with_2plus_groups"]++
			nontrivial = true
		}
		if len(o.Sent) > 0 {
			e.stats["calls_sending"]++
		}
		if len(o.Gated) > e.maxGroups {
			e.maxGroups = len(o.Gated)
		}
		e.stats[fmt.Sprintf("open_groups_after_call:%d", len(o.Gated))]++
	}
	if c.Cfg.CFailLen != 0 {
		e.stats["cfg:compose_fail"]++
	}
	if c.Cfg.CGateLen != 0 {
		e.stats["cfg:compose_gateable"]++
		if c.Cfg.CGateFlush {
			e.stats["cfg:compose_gateable_flush"]++
		}
	}
	if c.Cfg.SFail != 0 {
		e.stats["cfg:send_fail"]++
	}
	if c.Cfg.Broker {
		e.stats["cfg:broker_set"]++
	} else {
		e.stats["cfg:broker_unset"]++
	}
	if c.Cfg.Exp == 0 {
		e.stats["cfg:default_expiration"]++
	}
	sig := string(js[strings.Index(string(js), `"cfg"`):])
	if !e.sigs[sig] {
		e.sigs[sig] = true
		if nontrivial {
			e.nontriv++
		}
	}
	return obs
}

func (e *emitter) emitConc(c Case) {
	e.next++
	c.ID = e.next
	js, _ := json.Marshal(c)
	fmt.Fprintf(e.side, "%s\n", js)
	if e.aborted {
		return
	}
	var o CObs
	var p interface{}
	type cres struct {
		o CObs
		p interface{}
	}
	done := make(chan cres, 1)
	go func() {
		var r cres
		if c.Rendez != nil {
			r.o, r.p = execRendez(c)
		} else if c.Blocked != nil {
			r.o, r.p = execBlocked(c)
		} else {
			r.o, r.p = execConc(c)
		}
		done <- r
	}()
	select {
	case r := <-done:
		o, p = r.o, r.p
	case <-time.After(5 * historyWatchdog):
		buf := make([]byte, 1<<16)
		buf = buf[:runtime.Stack(buf, true)]
		e.noteHang(&Hang{Case: c, Call: -1, Op: "concurrent calls", Dump: string(buf), Millis: 5 * historyWatchdog.Milliseconds()})
		e.aborted = true
		return
	}
	if c.Blocked != nil {
		e.stats["blocked_send_cases"]++
	}
	if p != nil {
		e.panics = append(e.panics, fmt.Sprintf("case %d: panic: %v", c.ID, p))
		return
	}
	if err := e.ccf.Add(concLit(c, o)); err != nil {
		panic(err)
	}
	e.stats["conc_cases"]++
	e.stats["conc_process_calls"] += len(o.Events)
	e.stats["conc_compose_calls"] += len(o.Compose)
	sig := string(js[strings.Index(string(js), `"cfg"`):])
	if !e.sigs[sig] {
		e.sigs[sig] = true
		if len(o.Compose) > 0 {
			e.nontriv++
		}
	}
}

// ---------- generators ----------
func alphabet(cfg Cfg, ids int) []Op {
	E := cfg.effExp()
	var a []Op
	for id := 1; id <= ids; id++ {
		a = append(a, Op{K: "ev", ID: id}, Op{K: "ev", ID: id, Flush: true})
	}
	a = append(a, Op{K: "ev", ID: 0}, Op{K: "plain"},
		Op{K: "adv", D: 1}, Op{K: "adv", D: E - 1}, Op{K: "adv", D: E}, Op{K: "adv", D: E + 1},
		Op{K: "flushall"}, Op{K: "close"}, Op{K: "reopen"})
	return a
}

func configs(full bool) []Cfg {
	var cs []Cfg
	for _, broker := range []bool{true, false} {
		cs = append(cs, Cfg{Broker: broker, Exp: 10})
		cs = append(cs, Cfg{Broker: broker, Exp: 10, CFailLen: 1}, Cfg{Broker: broker, Exp: 10, CFailLen: 2})
		cs = append(cs, Cfg{Broker: broker, Exp: 10, CGateLen: 1})
		if broker {
			cs = append(cs, Cfg{Broker: true, Exp: 10, CGateLen: 1, CGateFlush: true})
		}
		if full {
			cs = append(cs, Cfg{Broker: broker, Exp: 10, CGateLen: 2}, Cfg{Broker: broker, Exp: 0})
		}
		if broker {
			cs = append(cs, Cfg{Broker: true, Exp: 10, SFail: 1}, Cfg{Broker: true, Exp: 10, SFail: 2})
			if full {
				cs = append(cs, Cfg{Broker: true, Exp: 10, SFail: 3})
			}
		}
	}
	return cs
}

// state key of the implementation after a history: everything its future behaviour depends on
func stateKey(c Case, obs []Obs, calls int) string {
	if len(obs) == 0 {
		return "empty"
	}
	last := obs[len(obs)-1]
	var sb strings.Builder
	// the clock may have been advanced after the last call
	now := int64(1000)
	sends := 0
	for _, op := range c.Ops {
		if op.K == "adv" {
			now += op.D
		}
	}
	for _, o := range obs {
		sends += len(o.Sent)
	}
	for _, g := range last.Gated {
		d := g.Exp - now
		// all that matters about an expiry is how it compares with the clock advances of the alphabet; keep it exact
		fmt.Fprintf(&sb, "%d:%d:%d|", g.ID, g.N, d)
	}
	if c.Cfg.SFail != 0 && sends < c.Cfg.SFail {
		fmt.Fprintf(&sb, "s%d", sends)
	}
	return sb.String()
}

// genBFS: every history up to maxDepth over the alphabet, up to equality of the implementation state reached
// (a history is extended only if it reached a state not seen before; every transition out of every such state is emitted)
func genBFS(e *emitter, cfg Cfg, ids, maxDepth, budget int, sym bool) (states int, exhaustive bool) {
	return genBFSv(e, cfg, ids, maxDepth, budget, sym, nil, false)
}

// genBFSv: the same enumeration with the ids drawn from idMap and / or every call made with a cancelled context
func genBFSv(e *emitter, cfg Cfg, ids, maxDepth, budget int, sym bool, idMap []int, allDone bool) (states int, exhaustive bool) {
	alpha := alphabet(cfg, ids)
	seen := map[string]bool{"empty": true}
	frontier := [][]Op{nil}
	exhaustive = true
	emitted := 0
	for depth := 1; depth <= maxDepth; depth++ {
		var next [][]Op
		for _, h := range frontier {
			for _, a := range alpha {
				if e.aborted || (budget > 0 && emitted >= budget) {
					return len(seen), false
				}
				if sym && a.K == "ev" && a.ID > maxID(h)+1 {
					// the filter treats ids as opaque keys: histories that differ by a renaming of the ids are represented
					// by the one that introduces ids in increasing order
					continue
				}
				ops := append(append([]Op(nil), h...), a)
				c := Case{Gen: "bfs", Cfg: cfg, Ops: ops, IDMap: idMap, AllDone: allDone}
				if idMap != nil {
					c.Gen = "bfs-ids"
				}
				if allDone {
					c.Gen = "bfs-ctx-done"
				}
				var obs []Obs
				if a.K == "adv" {
					// a clock advance is not a call: nothing to observe yet, extend without emitting
					var hung *Hang
					_, _, obs, _, hung = execCase(c)
					if hung != nil {
						e.noteHang(hung)
					}
				} else {
					obs = e.emit(c)
					emitted++
				}
				key := stateKey(c, obs, 0)
				if !seen[key] {
					seen[key] = true
					next = append(next, ops)
				}
			}
		}
		frontier = next
	}
	return len(seen), exhaustive
}

// genFaults: a fault (ComposeFrom fails / returns a Gateable payload for exactly one group, the p-th Send fails) on the oldest, a
// middle or the youngest of 3..4 open groups, met by FlushAll, Close or the expiry sweep of a Process, each error class in turn,
// followed by a retry (FlushAll / Close / Process again) and a final FlushAll: the faulty group is given up, every other group
// is still emitted exactly once.  Also every kind of context on every call of a few fixed histories.
func genFaults(e *emitter) {
	k := 0
	for _, groups := range []int{3, 4} {
		for p := 1; p <= groups; p++ {
			for _, fault := range []string{"cfail", "cgate", "cgate-flush", "sfail"} {
				for _, trigger := range []string{"flushall", "close", "expire"} {
					for _, retry := range []string{"flushall", "close", "process"} {
						for _, broker := range []bool{true, false} {
							if !broker && (fault == "sfail" || trigger != "expire") {
								continue
							}
							cfg := Cfg{Broker: broker, Exp: 10, ErrKind: faultErrNames[k%len(faultErrNames)]}
							k++
							var ops []Op
							for g := 1; g <= groups; g++ {
								ops = append(ops, Op{K: "ev", ID: g})
								if g == p && fault != "sfail" {
									ops = append(ops, Op{K: "ev", ID: g}) // the only group of two events
								}
							}
							switch fault {
							case "cfail":
								cfg.CFailLen = 2
							case "cgate":
								cfg.CGateLen = 2
							case "cgate-flush":
								cfg.CGateLen, cfg.CGateFlush = 2, true
							default:
								cfg.SFail = p
							}
							if trigger == "expire" {
								ops = append(ops, Op{K: "adv", D: 11}, Op{K: "ev", ID: 5})
							} else {
								ops = append(ops, Op{K: trigger})
							}
							switch retry {
							case "process":
								ops = append(ops, Op{K: "ev", ID: 5}, Op{K: "ev", ID: 1})
							default:
								ops = append(ops, Op{K: retry})
							}
							ops = append(ops, Op{K: "flushall"}, Op{K: "close"})
							e.emit(Case{Gen: "faults", Cfg: cfg, Ops: ops})
						}
					}
				}
			}
		}
	}
	for _, ck := range ctxKinds[1:] {
		for _, broker := range []bool{true, false} {
			for _, vp := range []bool{false, true} {
				base := []Op{{K: "ev", ID: 1}, {K: "ev", ID: 2}, {K: "ev", ID: 1, Flush: true}, {K: "adv", D: 11}, {K: "ev", ID: 3}, {K: "ev", ID: 1}, {K: "flushall"}, {K: "ev", ID: 2}, {K: "close"}, {K: "plain"}}
				e.emit(Case{Gen: "contexts", Cfg: Cfg{Broker: broker, Exp: 10}, Ops: base, AllCtx: ck, ValuePayload: vp})
			}
		}
	}
}

// genOrder: open groups whose EXPIRY order differs from their ARRIVAL order — Filter.Expiration changed between the openings, or
// the clock stepped back — then a Process / FlushAll at every instant around the expiries: after a successful Process at T no
// group with expiry < T remains, wherever it sits in the list (C17), and the other exported methods interleaved do nothing.
func genOrder(e *emitter) {
	perms := [][]int64{{9, 6, 3}, {9, 3, 6}, {6, 9, 3}, {6, 3, 9}, {3, 9, 6}, {3, 6, 9}, {9, 3}, {3, 9}, {6, 6, 2}}
	for _, broker := range []bool{true, false} {
		for _, exps := range perms {
			for T := int64(2); T <= 11; T++ {
				for _, last := range []Op{{K: "ev", ID: 5}, {K: "ev", ID: 1}, {K: "ev", ID: 2, Flush: true}} {
					var ops []Op
					for g, x := range exps {
						ops = append(ops, Op{K: "setexp", D: x}, Op{K: "ev", ID: g + 1})
					}
					ops = append(ops, Op{K: "reopen"}, Op{K: "adv", D: T}, last, Op{K: "type"}, Op{K: "adv", D: 12}, Op{K: "ev", ID: 4}, Op{K: "flushall"})
					e.emit(Case{Gen: "expiry-order", Cfg: Cfg{Broker: broker, Exp: 10}, Ops: ops})
				}
			}
		}
		// the same by a clock that steps back between the openings (constant Expiration 10)
		for _, back := range []int64{1, 5, 9, 10, 11} {
			for T := back - 1; T <= back+12; T += 2 {
				ops := []Op{{K: "ev", ID: 1}, {K: "adv", D: -back}, {K: "ev", ID: 2}, {K: "now"}, {K: "adv", D: T}, {K: "ev", ID: 3}, {K: "adv", D: 12}, {K: "ev", ID: 3}, {K: "close"}}
				e.emit(Case{Gen: "expiry-order", Cfg: Cfg{Broker: broker, Exp: 10}, Ops: ops})
			}
		}
	}
}

// genFields: every exported field of the Filter re-assigned between calls — Broker (nil -> set, set -> another, set -> nil), NowFunc
// (a new function ahead of / behind the old clock), Expiration — with open groups, followed by each way a group leaves the gate; every
// call is judged under the field values in force at that call (what was fixed when a group was opened stays fixed: only its expiry).
func genFields(e *emitter) {
	for _, start := range []bool{false, true} {
		for _, b1 := range []int64{0, 1, 2} {
			for _, b2 := range []int64{0, 1, 2} {
				for _, trigger := range []string{"flushall", "close", "expire", "flush"} {
					ops := []Op{{K: "ev", ID: 1}, {K: "ev", ID: 2}, {K: "setbroker", D: b1}}
					switch trigger {
					case "expire":
						ops = append(ops, Op{K: "adv", D: 11}, Op{K: "ev", ID: 3})
					case "flush":
						ops = append(ops, Op{K: "ev", ID: 1, Flush: true}, Op{K: "adv", D: 11}, Op{K: "ev", ID: 3})
					default:
						ops = append(ops, Op{K: trigger})
					}
					ops = append(ops, Op{K: "ev", ID: 4}, Op{K: "setbroker", D: b2}, Op{K: "ev", ID: 4}, Op{K: "adv", D: 11}, Op{K: "ev", ID: 5}, Op{K: "flushall"})
					e.emit(Case{Gen: "fields", Cfg: Cfg{Broker: start, Exp: 10}, Ops: ops})
				}
			}
		}
		for _, off := range []int64{1, 5, 11, -5} {
			ops := []Op{{K: "ev", ID: 1}, {K: "setnow", D: off}, {K: "ev", ID: 2}, {K: "adv", D: 6}, {K: "ev", ID: 3}, {K: "setnow", D: 0}, {K: "adv", D: 5}, {K: "ev", ID: 1}, {K: "setexp", D: 3}, {K: "ev", ID: 4},
				{K: "adv", D: 4}, {K: "ev", ID: 5}, {K: "close"}}
			e.emit(Case{Gen: "fields", Cfg: Cfg{Broker: start, Exp: 10}, Ops: ops})
		}
	}
}

// genExtremes: extreme durations and instants.  Expiration 1 ns, 100 years, 290 years, MaxInt64/2, MaxInt64 (the "never expire" idiom) and a
// clock starting at the zero time, year 1, either edge of what int64 nanoseconds since 1970 can hold (1677/1678, 2261/2263) and year 9999,
// moving in small steps: a group's expiry is the instant Now() + Expiration exactly (time.Time.Add is exact over this range; the model's
// time is Z), so nothing expires early however far the instants are from 1970.
func genExtremes(e *emitter) {
	const maxI = int64(^uint64(0) >> 1)
	year := int64(365 * 24 * time.Hour)
	for _, base := range []string{"", "zero", "y1", "y1677", "y1678", "y2261", "y2263", "y9999"} {
		for _, exp := range []int64{1, 10, 100 * year, 290 * year, maxI / 2, maxI - 1, maxI, 0} {
			for _, broker := range []bool{true, false} {
				ops := []Op{{K: "ev", ID: 1}, {K: "adv", D: 1}, {K: "ev", ID: 2}, {K: "ev", ID: 1}, {K: "adv", D: 1}, {K: "ev", ID: 3}, {K: "adv", D: 9}, {K: "ev", ID: 1, Flush: true},
					{K: "adv", D: int64(time.Hour)}, {K: "ev", ID: 2}, {K: "now"}, {K: "adv", D: year}, {K: "ev", ID: 4}, {K: "flushall"}, {K: "ev", ID: 5}, {K: "close"}}
				e.emit(Case{Gen: "extremes", Cfg: Cfg{Broker: broker, Exp: exp}, Ops: ops, Base: base})
			}
		}
	}
}

// genTypes: several concrete Gateable payload types through one filter — a value-receiver struct by value, a pointer to the plain payload, a
// pointer to a "request" struct and a "response" struct by value that embed the same implementation — mixed within one id's group and across
// ids, the first event of the filter being of each type in turn: every one of them is a Gateable event like any other.
func genTypes(e *emitter) {
	types := []int{1, 2, 3, 4}
	for _, broker := range []bool{true, false} {
		for _, a := range types {
			for _, b := range types {
				for _, c := range types {
					if a == b && b == c {
						continue
					}
					ops := []Op{{K: "ev", ID: 1, PType: a}, {K: "ev", ID: 1, PType: b}, {K: "ev", ID: 2, PType: c}, {K: "ev", ID: 2, PType: a}, {K: "ev", ID: 1, Flush: true, PType: c},
						{K: "adv", D: 11}, {K: "ev", ID: 3, PType: b}, {K: "ev", ID: 3, Flush: true, PType: a}, {K: "ev", ID: 1, PType: c}, {K: "flushall"}}
					e.emit(Case{Gen: "payload-types", Cfg: Cfg{Broker: broker, Exp: 10}, Ops: ops})
				}
			}
		}
	}
}

// genLong: LONG runs on one filter — 70 / 130 / 200 / 300 group closures by a rotating mix of flush events, expiry and FlushAll over three ids,
// so that an id is used again right after its group was closed; the full oracle runs after every call.  (Counters and thresholds inside the
// implementation — caches rebuilt every n removals, pools — only show after that many operations.)
func genLong(e *emitter, r *hc.Rand) {
	for _, closures := range []int{70, 130, 200, 300} {
		for _, broker := range []bool{true, false} {
			var ops []Op
			closed := 0
			for k := 0; closed < closures; k++ {
				id := 1 + k%3
				ops = append(ops, Op{K: "ev", ID: id})
				if r.Chance(1, 3) {
					ops = append(ops, Op{K: "ev", ID: id})
				}
				switch k % 5 {
				case 0, 3:
					ops = append(ops, Op{K: "ev", ID: id, Flush: true})
					closed++
				case 1:
					ops = append(ops, Op{K: "adv", D: 11}, Op{K: "ev", ID: 1 + (k+1)%3}) // the sweep closes what is open
					closed++
				case 2:
					ops = append(ops, Op{K: "ev", ID: 1 + (k+1)%3}, Op{K: "flushall"})
					closed += 2
				default:
					ops = append(ops, Op{K: "close"})
					closed++
				}
				ops = append(ops, Op{K: "ev", ID: id}) // the same id again right after its group was closed
			}
			ops = append(ops, Op{K: "ev", ID: 1, Flush: true}, Op{K: "ev", ID: 2, Flush: true}, Op{K: "ev", ID: 3, Flush: true}, Op{K: "flushall"})
			e.emit(Case{Gen: "long", Cfg: Cfg{Broker: broker, Exp: 10}, Ops: ops})
		}
	}
}

func maxID(h []Op) int {
	m := 0
	for _, o := range h {
		if o.K == "ev" && o.ID > m {
			m = o.ID
		}
	}
	return m
}

func genRandom(e *emitter, r *hc.Rand, n, maxLen, ids int) {
	for i := 0; i < n; i++ {
		cfg := Cfg{Broker: r.Chance(3, 4), Exp: 10}
		switch r.Intn(8) {
		case 0:
			cfg.Exp = 0
		case 1:
			cfg.Exp = 1
		case 2:
			cfg.Exp = 1000
		}
		switch r.Intn(6) {
		case 0:
			cfg.CFailLen = 1 + r.Intn(4)
		case 1:
			cfg.CGateLen = 1 + r.Intn(3)
			cfg.CGateFlush = r.Bool()
		case 2:
			if cfg.Broker {
				cfg.SFail = 1 + r.Intn(5)
			}
		case 3:
			cfg.CFailLen = 1 + r.Intn(3)
			cfg.CGateLen = 1 + r.Intn(3)
			cfg.CGateFlush = r.Bool()
		}
		E := cfg.effExp()
		advs := []int64{1, 1, 2, E - 1, E, E + 1, E / 2, 2*E + 1}
		ln := 1 + r.Intn(maxLen)
		if r.Chance(1, 4) {
			ln = maxLen
		}
		nids := 1 + r.Intn(ids)
		flushP := 1 + r.Intn(4) // of 10
		var idMap []int
		switch r.Intn(4) {
		case 0:
			idMap = []int{0, 6, 1, 7, 8, 10}
		case 1:
			idMap = []int{0, 13, 11, 12, 9, 2}
		}
		doneP := 0
		if r.Chance(1, 3) {
			doneP = 1 + r.Intn(3) // of 6
		}
		if r.Chance(1, 4) {
			idMap = []int{0, 1, 14, 15, 16, 6}
		}
		if cfg.CFailLen != 0 || cfg.SFail != 0 {
			cfg.ErrKind = faultErrNames[r.Intn(len(faultErrNames))]
		}
		valuePayload, twin := r.Chance(1, 5), r.Chance(1, 5) && cfg.SFail == 0
		mixed := r.Chance(1, 3)
		randCtx := func() string {
			if r.Chance(doneP, 6) {
				return ctxKinds[1+r.Intn(len(ctxKinds)-1)]
			}
			return ""
		}
		var ops []Op
		for len(ops) < ln {
			switch k := r.Intn(20); {
			case k < 11:
				id := 1 + r.Intn(nids)
				if r.Chance(1, 25) {
					id = 0
				}
				ops = append(ops, Op{K: "ev", ID: id, Flush: r.Chance(flushP, 10), Ctx: randCtx(), Created: []int{0, 0, 1, 2}[r.Intn(4)], NilPayload: !valuePayload && r.Chance(1, 40),
					PType: map[bool]int{true: 1 + r.Intn(4), false: 0}[mixed]})
			case k < 12:
				ops = append(ops, Op{K: "plain"})
			case k < 17:
				d := advs[r.Intn(len(advs))]
				if r.Chance(1, 12) {
					d = -[]int64{1, E / 2, E - 1, E + 1}[r.Intn(4)] // the clock steps back
				}
				ops = append(ops, Op{K: "adv", D: d})
				if r.Chance(1, 6) {
					ops = append(ops, Op{K: "setexp", D: []int64{1, E / 2, E, 2 * E, 3, 0}[r.Intn(6)]})
				}
				if r.Chance(1, 6) {
					ops = append(ops, Op{K: []string{"reopen", "type", "now"}[r.Intn(3)]})
				}
				if !twin && r.Chance(1, 8) {
					ops = append(ops, Op{K: "setbroker", D: int64(r.Intn(3))})
				}
				if r.Chance(1, 12) {
					ops = append(ops, Op{K: "setnow", D: []int64{0, 1, E / 2, -3, E + 1}[r.Intn(5)]})
				}
			case k < 19:
				ops = append(ops, Op{K: "flushall", Ctx: randCtx()})
			default:
				ops = append(ops, Op{K: "close", Ctx: randCtx()})
			}
		}
		e.emit(Case{Gen: "random", Cfg: cfg, Ops: ops, IDMap: idMap, ValuePayload: valuePayload, Twin: twin})
	}
}

func genConc(e *emitter, r *hc.Rand, n int) {
	for i := 0; i < n; i++ {
		cfg := Cfg{Broker: true, Exp: 1000}
		c := Case{Gen: "conc", Cfg: cfg}
		if r.Chance(2, 3) {
			c.Ticker = []int64{1, 100, 400, 1001}[r.Intn(4)]
		}
		if r.Chance(1, 4) {
			// NowFunc left unset (time.Now) with the default Expiration or a long one: nothing expires within the case
			c.NowNil, c.Ticker = true, 0
			c.Cfg.Exp = []int64{0, int64(time.Hour)}[r.Intn(2)]
		}
		nt := 2 + r.Intn(4)
		nids := 1 + r.Intn(3)
		for t := 0; t < nt; t++ {
			var ops []Op
			ln := 5 + r.Intn(60)
			for k := 0; k < ln; k++ {
				id := 1 + r.Intn(nids)
				if r.Chance(1, 40) {
					id = 0
				}
				ops = append(ops, Op{K: "ev", ID: id, Flush: r.Chance(1, 6)})
			}
			c.Threads = append(c.Threads, ops)
		}
		e.emitConc(c)
	}
}

func runCorpus(e *emitter, path string) {
	data, err := os.ReadFile(path)
	if err != nil {
		return
	}
	for _, line := range strings.Split(string(data), "\n") {
		line = strings.TrimSpace(line)
		if line == "" || strings.HasPrefix(line, "#") {
			continue
		}
		var c Case
		if err := json.Unmarshal([]byte(line), &c); err != nil {
			fmt.Fprintf(os.Stderr, "corpus: %v\n", err)
			continue
		}
		c.Gen = "corpus"
		if len(c.Threads) > 0 || c.Blocked != nil || c.Rendez != nil {
			e.emitConc(c)
		} else {
			e.emit(c)
		}
	}
}

func main() {
	out := flag.String("out", ".", "output directory")
	prefix := flag.String("prefix", "cases", "case file prefix")
	modes := flag.String("modes", "bfs,random", "generators: bfs,random,conc")
	bfsDepth := flag.Int("bfs-depth", 5, "BFS depth (calls and clock advances)")
	bfsBudget := flag.Int("bfs-budget", 0, "max BFS cases per configuration (0 = unlimited)")
	bfsIDs := flag.Int("bfs-ids", 3, "ids in the BFS alphabet")
	bfsSym := flag.Bool("bfs-sym", false, "enumerate histories up to renaming of ids (ids introduced in increasing order)")
	bfsNoSymDepth := flag.Int("bfs-nosym-depth", 0, "with -bfs-sym: an additional pass without the id symmetry reduction to this depth")
	bfsFull := flag.Bool("bfs-full-configs", false, "all configurations (default: the core ones)")
	nRandom := flag.Int("random", 300, "random histories")
	randLen := flag.Int("random-len", 60, "max random history length")
	randIDs := flag.Int("random-ids", 5, "ids in random histories")
	nConc := flag.Int("conc", 50, "concurrent cases")
	perShard := flag.Int("per-shard", 250, "cases per file")
	corpus := flag.String("corpus", "", "corpus file (JSON lines), run first")
	replay := flag.String("replay", "", "replay one JSON case and print its observations")
	reentry := flag.Bool("reentry", false, "run only the wired-to-the-same-broker watchdog scenarios and write reentry.json")
	watchdog := flag.Duration("watchdog", 3*time.Second, "watchdog of the reentry scenarios")
	flag.Parse()

	if *reentry {
		res := runReentry(*watchdog)
		js, _ := json.MarshalIndent(res, "", " ")
		if err := os.WriteFile(*out+"/reentry.json", js, 0o644); err != nil {
			panic(err)
		}
		hangs := 0
		for _, r := range res {
			if r.Hang {
				hangs++
			}
		}
		fmt.Printf("gatedh: %d reentry scenarios, %d hung\n", len(res), hangs)
		return
	}

	if *replay != "" {
		data, err := os.ReadFile(*replay)
		if err != nil {
			fmt.Fprintln(os.Stderr, err)
			os.Exit(2)
		}
		var wrapper struct {
			Case Case `json:"case"`
		}
		if err := json.Unmarshal(data, &wrapper); err != nil || (len(wrapper.Case.Ops) == 0 && len(wrapper.Case.Threads) == 0 && wrapper.Case.Blocked == nil && wrapper.Case.Rendez == nil) {
			_ = json.Unmarshal(data, &wrapper.Case)
		}
		c := wrapper.Case
		js, _ := json.Marshal(c.Cfg)
		fmt.Printf("configuration %s\n", js)
		if c.Rendez != nil {
			o, p := execRendez(c)
			bj, _ := json.Marshal(c.Rendez)
			js, _ := json.Marshal(o)
			fmt.Printf("callers meeting expired groups %s\n  -> %s\n", bj, js)
			if p != nil {
				fmt.Printf("PANIC: %v\n", p)
			}
			return
		}
		if c.Blocked != nil {
			o, p := execBlocked(c)
			bj, _ := json.Marshal(c.Blocked)
			js, _ := json.Marshal(o)
			fmt.Printf("second call while the first call's Send is parked %s\n  -> %s\n", bj, js)
			if p != nil {
				fmt.Printf("PANIC: %v\n", p)
			}
			return
		}
		if len(c.Threads) > 0 {
			o, p := execConc(c)
			js, _ := json.Marshal(o)
			fmt.Printf("concurrent case -> %s\n", js)
			if p != nil {
				fmt.Printf("PANIC: %v\n", p)
			}
			return
		}
		calls, nums, obs, p, hung := execCase(c)
		if hung != nil {
			fmt.Printf("HUNG: call %d %s of this history did not return within %d ms; goroutine dump:\n%s\n", hung.Call, hung.Op, hung.Millis, hung.Dump)
			os.Exit(3)
		}
		for i, o := range obs {
			js, _ := json.Marshal(o)
			fmt.Printf("call %d %s\n  -> %s\n", i, hopLit(calls[i], nums[i]), js)
		}
		if p != nil {
			fmt.Printf("PANIC: %v\n", p)
		}
		return
	}

	hdr := "From Coq Require Import List NArith ZArith.\nFrom Verif Require Import Gated Run_Gated.\nImport ListNotations."
	cf := &hc.CaseFile{Dir: *out, Prefix: *prefix, PerShard: *perShard, Type: "list gcase", Header: hdr,
		Footer: "Definition M := Eval vm_compute in mismatches cases.\nPrint M."}
	ccf := &hc.CaseFile{Dir: *out, Prefix: *prefix + "_conc", PerShard: 20, Type: "list ccase", Header: hdr,
		Footer: "Definition M := Eval vm_compute in conc_mismatches cases.\nPrint M."}
	side, err := os.Create(*out + "/" + *prefix + ".jsonl")
	if err != nil {
		panic(err)
	}
	e := &emitter{cf: cf, ccf: ccf, side: side, stats: map[string]int{}, sigs: map[string]bool{}}
	r := hc.NewRand(hc.Seed())
	if *corpus != "" {
		runCorpus(e, *corpus)
	}
	summary := map[string]interface{}{}
	for _, m := range strings.Split(*modes, ",") {
		switch m {
		case "bfs":
			all := true
			states := 0
			for _, cfg := range configs(*bfsFull) {
				s, ex := genBFS(e, cfg, *bfsIDs, *bfsDepth, *bfsBudget, *bfsSym)
				states += s
				all = all && ex
				if cfg.CFailLen == 0 && cfg.CGateLen == 0 && cfg.SFail == 0 && cfg.Exp != 0 {
					// value classes of ids (white space around / inside, long, non-ASCII, white space only) and calls made with a cancelled context
					d := *bfsDepth
					if d > 5 {
						d = 5
					}
					for _, m := range [][]int{{0, 6, 1, 7}, {0, 13, 11, 12}, {0, 8, 10, 9}, {0, 1, 14, 16}, {0, 15, 1, 14}} {
						s, _ = genBFSv(e, cfg, *bfsIDs, d-1, *bfsBudget, true, m, false)
						states += s
					}
					s, _ = genBFSv(e, cfg, *bfsIDs, d, *bfsBudget, true, nil, true)
					states += s
					// Expiration left unset (10 s default): the clock advances of the alphabet are then default-1 / default / default+1
					dcfg := cfg
					dcfg.Exp = 0
					s, _ = genBFS(e, dcfg, *bfsIDs, d-1, *bfsBudget, true)
					states += s
				}
				if *bfsSym && *bfsNoSymDepth > 0 {
					s, ex = genBFS(e, cfg, *bfsIDs, *bfsNoSymDepth, *bfsBudget, false)
					states += s
					all = all && ex
				}
			}
			summary["bfs_depth"] = *bfsDepth
			summary["bfs_up_to_id_renaming"] = *bfsSym
			summary["bfs_depth_without_id_renaming"] = *bfsNoSymDepth
			summary["bfs_states"] = states
			summary["bfs_configurations"] = len(configs(*bfsFull))
			summary["bfs_exhaustive_to_requested_depth"] = all
		case "random":
			genRandom(e, r.Fork(), *nRandom, *randLen, *randIDs)
		case "conc":
			genConc(e, r.Fork(), *nConc)
		case "blocked":
			genBlocked(e)
			genRendez(e, 4)
		case "faults":
			genFaults(e)
			genOrder(e)
			genFields(e)
			genExtremes(e)
			genTypes(e)
			genLong(e, r.Fork())
		case "":
		default:
			fmt.Fprintf(os.Stderr, "unknown mode %s\n", m)
			os.Exit(2)
		}
	}
	cf.Close()
	ccf.Close()
	side.Close()
	e.stats["max_simultaneously_open_groups"] = e.maxGroups
	summary["stats"] = e.stats
	summary["files"] = append(append([]string(nil), cf.Files...), ccf.Files...)
	summary["cases"] = cf.Total + ccf.Total
	summary["distinct_nontrivial"] = e.nontriv
	summary["panics"] = e.panics
	summary["hangs"] = e.hangs
	summary["aborted_after_hangs"] = e.aborted
	summary["seed"] = hc.Seed()
	js, _ := json.MarshalIndent(summary, "", " ")
	os.WriteFile(*out+"/"+*prefix+"_summary.json", js, 0o644)
	fmt.Printf("gatedh: %d cases in %d files, %d panics\n", cf.Total+ccf.Total, len(cf.Files)+len(ccf.Files), len(e.panics))
}
