// lockh — re-entrancy / termination search for C12: every Broker operation, with nodes that call back into the same
// Broker from Process / Close / Reopen, with a gated.Filter holding 0..3 pending groups wired to the same Broker, with
// and without a writer parked on Broker.lock; every call runs under a watchdog.  A call that does not return within
// the watchdog is a finding: the scenario (which is its own replay) and a goroutine dump are written out.
//
// Output: <out>/scenarios.jsonl (one result per scenario), <out>/summary.json.
package main

import (
	"context"
	"encoding/json"
	"errors"
	"flag"
	"fmt"
	"os"
	"runtime"
	"sort"
	"strings"
	"sync"
	"sync/atomic"
	"time"

	el "github.com/hashicorp/eventlogger"
	"github.com/hashicorp/eventlogger/filters/gated"
	"verifharness/hc"
)

// ---------- scenario description (also the replay format) ----------
type Scenario struct {
	ID      int    `json:"id"`
	Kind    string `json:"kind"`    // reenter-process reenter-close reenter-reopen gated-close gated-expire gated-flushall concurrent-op
	Op      string `json:"op"`      // the broker operation under the watchdog
	Groups  int    `json:"groups"`  // pending gated groups (gated-* kinds)
	Target  string `json:"target"`  // where the re-entrant Send goes: other (a plain pipeline), self (the same pipeline / filter), none (no pipeline)
	Parked  bool   `json:"parked"`  // a writer is started while the callback runs and the callback waits for it to be parked
	Depth   int    `json:"depth"`   // recursion depth of re-entrant Sends from Process
	Types   int    `json:"types,omitempty"` // failing-nodes: event types (1..3)
	Pipes   int    `json:"pipes,omitempty"` // failing-nodes: pipelines per type (1..2)
	// failing-nodes: what the failing nodes return: 0 a plain error, 1 a sentinel wrapped with %w, 2 context.Canceled, 3 a type of
	// its own with Is / Timeout / Temporary, 4 errors.Join of two errors, 5 one shared error value returned by every failing
	// node, 6 a typed nil pointer (non-nil as an error), 7 an error whose text is empty
	ErrClass int `json:"err_class,omitempty"`
	// the context of the removal / Reopen call: 0 Background, 1 already cancelled, 2 deadline in the past, 3 a type of our own that is done,
	// 4 cancelled while the call runs
	Ctx     int    `json:"ctx,omitempty"`
	InStmt  bool   `json:"in_statement"` // false: outside C12's statement -- observed only (no scenario is any more)
	Comment string `json:"comment,omitempty"`
}

type Result struct {
	Scenario  Scenario `json:"scenario"`
	Steps     []Step   `json:"steps"`
	TimedOut  bool     `json:"timed_out"`
	Reentries int      `json:"reentries"` // how many times a callback actually re-entered the Broker
	Panic     string   `json:"panic,omitempty"`
	Wrong     string   `json:"wrong_result,omitempty"` // a call returned, but with an error although nothing failed / without one although something did
	Dump      string   `json:"goroutine_dump,omitempty"`
	FailedOp  string   `json:"failed_op,omitempty"`
}
type Step struct {
	Op       string  `json:"op"`
	Returned bool    `json:"returned"`
	Ms       float64 `json:"ms"`
	Err      string  `json:"err,omitempty"`
}

// Everything handed to the Broker stays the CALLER's: the NodeIDs slice of a pipeline definition and the option list are scribbled
// over as soon as RegisterPipeline has returned (a caller that builds its definitions in one reused buffer does just that); what
// the Broker needs later it must have copied.
func regPipe(b *el.Broker, def el.Pipeline, opts ...el.Option) error {
	ids := append(make([]el.NodeID, 0, len(def.NodeIDs)+2), def.NodeIDs...)
	def.NodeIDs = ids
	err := b.RegisterPipeline(def, opts...)
	for i := range ids {
		ids[i] = el.NodeID(fmt.Sprintf("reused-buffer-%d", i))
	}
	for i := range opts {
		opts[i] = nil
	}
	return err
}

// ---------- nodes ----------
type world struct {
	b         *el.Broker
	reentries int64
	parkDelay time.Duration
	parked    bool
	writerN   int64
	wg        sync.WaitGroup
}

// a writer that needs Broker.lock in write mode; started from inside a callback
func (w *world) park() {
	if !w.parked {
		return
	}
	n := atomic.AddInt64(&w.writerN, 1)
	started := make(chan struct{})
	w.wg.Add(1)
	go func() {
		defer w.wg.Done()
		close(started)
		_ = w.b.RegisterNode(el.NodeID(fmt.Sprintf("parked-%d", n)), &plain{typ: el.NodeTypeFilter})
	}()
	// a second writer, on the per-graph threshold lock (taken under Broker.lock by the setters)
	w.wg.Add(1)
	go func() {
		defer w.wg.Done()
		_ = w.b.SetSuccessThreshold("outer", 0)
		_ = w.b.SetSuccessThresholdSinks("inner", 0)
	}()
	<-started
	// give the writer time to reach Lock(): if the lock is held by the caller of this callback the writer is now
	// queued and every new reader blocks behind it (sync.RWMutex writer preference)
	time.Sleep(w.parkDelay)
}

type plain struct {
	typ   el.NodeType
	calls int64
}

func (p *plain) Process(ctx context.Context, e *el.Event) (*el.Event, error) {
	atomic.AddInt64(&p.calls, 1)
	if p.typ == el.NodeTypeSink {
		return nil, nil
	}
	return e, nil
}
func (p *plain) Reopen() error     { return nil }
func (p *plain) Type() el.NodeType { return p.typ }

// a node whose Reopen / Close fails
type failing struct {
	plain
	reopenErr, closeErr bool
	class               int
}

var errSentinel = errors.New("sentinel")
var errShared = errors.New("shared failure value")

type ownErr struct{ what string }

func (e *ownErr) Error() string {
	if e == nil {
		return "typed nil error"
	}
	return e.what
}
func (e *ownErr) Is(target error) bool { return target == errSentinel }
func (e *ownErr) Timeout() bool        { return true }
func (e *ownErr) Temporary() bool      { return true }

type emptyErr struct{}

func (emptyErr) Error() string { return "" }

func errOfClass(class int, what string) error {
	switch class {
	case 1:
		return fmt.Errorf("%s: %w", what, errSentinel)
	case 2:
		return context.Canceled
	case 3:
		return &ownErr{what: what}
	case 4:
		return errors.Join(fmt.Errorf("%s (first)", what), context.DeadlineExceeded)
	case 5:
		return errShared
	case 6:
		var e *ownErr
		return e
	case 7:
		return emptyErr{}
	}
	return fmt.Errorf("%s", what)
}

func (f *failing) Reopen() error {
	if f.reopenErr {
		return errOfClass(f.class, "reopen failed")
	}
	return nil
}
func (f *failing) Close(ctx context.Context) error {
	if f.closeErr {
		return errOfClass(f.class, "close failed")
	}
	return nil
}

type ownCtx struct {
	context.Context
	done chan struct{}
}

func (c ownCtx) Done() <-chan struct{} { return c.done }
func (c ownCtx) Err() error            { return errShared }

func callerCtx(kind int) (context.Context, func()) {
	switch kind {
	case 1:
		c, cancel := context.WithCancel(context.Background())
		cancel()
		return c, func() {}
	case 2:
		return context.WithDeadline(context.Background(), time.Now().Add(-time.Hour))
	case 3:
		ch := make(chan struct{})
		close(ch)
		return ownCtx{Context: context.Background(), done: ch}, func() {}
	case 4:
		c, cancel := context.WithCancel(context.Background())
		go func() { runtime.Gosched(); cancel() }()
		return c, func() {}
	}
	return context.Background(), func() {}
}

// re-enters Send from Process / Close / Reopen
type reent struct {
	w                            *world
	typ                          el.NodeType
	fromProcess, fromClose, fromReopen bool
	target                       el.EventType
	maxDepth                     int
	// parked-process: the outermost Process announces itself on entered and waits for gate before it re-enters Send
	entered, gate chan struct{}
}
type depthKey struct{}

func (r *reent) reenter(ctx context.Context) {
	d, _ := ctx.Value(depthKey{}).(int)
	if d >= r.maxDepth {
		return
	}
	atomic.AddInt64(&r.w.reentries, 1)
	r.w.park()
	_, _ = r.w.b.Send(context.WithValue(ctx, depthKey{}, d+1), r.target, "reentrant")
}
func (r *reent) Process(ctx context.Context, e *el.Event) (*el.Event, error) {
	if d, _ := ctx.Value(depthKey{}).(int); d == 0 && r.gate != nil {
		select {
		case r.entered <- struct{}{}:
		default:
		}
		<-r.gate
	}
	if r.fromProcess {
		r.reenter(ctx)
	}
	if r.typ == el.NodeTypeSink {
		return nil, nil
	}
	return e, nil
}
func (r *reent) Reopen() error {
	if r.fromReopen {
		r.reenter(context.Background())
	}
	return nil
}
func (r *reent) Type() el.NodeType { return r.typ }
func (r *reent) Close(ctx context.Context) error {
	if r.fromClose {
		r.reenter(ctx)
	}
	return nil
}

// Sender wrapper handed to the gated filter: counts flushes and parks a writer before forwarding to the Broker
type sender struct{ w *world }

func (s *sender) Send(ctx context.Context, t el.EventType, p interface{}) (el.Status, error) {
	atomic.AddInt64(&s.w.reentries, 1)
	s.w.park()
	return s.w.b.Send(ctx, t, p)
}

type gp struct {
	id    string
	flush bool
}

func (g *gp) GetID() string    { return g.id }
func (g *gp) FlushEvent() bool { return g.flush }
func (g *gp) ComposeFrom(ev []*el.Event) (el.EventType, interface{}, error) {
	ids := []string{}
	for _, e := range ev {
		ids = append(ids, e.Payload.(*gp).id)
	}
	return "composed", ids, nil
}

// ---------- running one scenario ----------
type runner struct {
	watchdog time.Duration
	res      *Result
	ptr      string // address of this scenario's Broker: selects its goroutines in the dump
}

// run f under the watchdog; false = did not return
func (r *runner) step(name string, f func() error) bool {
	done := make(chan error, 1)
	t0 := time.Now()
	go func() {
		defer func() {
			if p := recover(); p != nil {
				done <- fmt.Errorf("panic: %v", p)
			}
		}()
		done <- f()
	}()
	select {
	case err := <-done:
		st := Step{Op: name, Returned: true, Ms: float64(time.Since(t0).Microseconds()) / 1000}
		if err != nil {
			st.Err = err.Error()
			if strings.HasPrefix(st.Err, "panic:") {
				r.res.Panic = st.Err
			}
		}
		r.res.Steps = append(r.res.Steps, st)
		return true
	case <-time.After(r.watchdog):
		r.res.Steps = append(r.res.Steps, Step{Op: name, Returned: false, Ms: float64(time.Since(t0).Microseconds()) / 1000})
		r.res.TimedOut = true
		r.res.FailedOp = name
		buf := make([]byte, 1<<20)
		n := runtime.Stack(buf, true)
		r.res.Dump = filterDump(string(buf[:n]), r.ptr)
		return false
	}
}

// keep only the goroutines that are inside the library or blocked on a mutex
func filterDump(d, ptr string) string {
	var keep []string
	for _, g := range strings.Split(d, "\n\n") {
		if ptr != "" && !strings.Contains(g, ptr) {
			continue
		}
		if strings.Contains(g, "hashicorp/eventlogger") || strings.Contains(g, "sync.(*RWMutex)") || strings.Contains(g, "sync.(*Mutex)") {
			if len(g) > 3000 {
				g = g[:3000] + "\n\t..."
			}
			keep = append(keep, g)
		}
	}
	if len(keep) > 12 {
		keep = keep[:12]
	}
	return strings.Join(keep, "\n\n")
}

func must(err error) {
	if err != nil {
		panic(err)
	}
}

func runScenario(sc Scenario, watchdog, parkDelay time.Duration) Result {
	res := Result{Scenario: sc}
	b, _ := el.NewBroker()
	r := &runner{watchdog: watchdog, res: &res, ptr: fmt.Sprintf("%p", b)}
	w := &world{b: b, parkDelay: parkDelay, parked: sc.Parked}
	ctx := context.Background()
	// the caller's context of the calls that close / reopen nodes
	cctx, release := callerCtx(sc.Ctx)
	defer release()

	// a plain pipeline for the re-entrant Sends to land in
	fmtN, sinkN := &plain{typ: el.NodeTypeFormatter}, &plain{typ: el.NodeTypeSink}
	must(b.RegisterNode("fmt", fmtN))
	must(b.RegisterNode("sink", sinkN))
	must(regPipe(b, el.Pipeline{PipelineID: "inner", EventType: "inner", NodeIDs: []el.NodeID{"fmt", "sink"}}))

	depth := sc.Depth
	if depth == 0 {
		depth = 1
	}
	target := el.EventType("inner")
	switch sc.Target {
	case "self":
		target = "outer"
	case "none":
		target = "nowhere"
	}

	ok := true
	switch sc.Kind {
	case "reenter-process", "reenter-close", "reenter-reopen", "concurrent-op":
		re := &reent{w: w, typ: el.NodeTypeFilter, target: target, maxDepth: depth,
			fromProcess: sc.Kind == "reenter-process" || sc.Kind == "concurrent-op", fromClose: sc.Kind == "reenter-close", fromReopen: sc.Kind == "reenter-reopen"}
		must(b.RegisterNode("re", re))
		must(b.RegisterNode("fmt2", &plain{typ: el.NodeTypeFormatter}))
		must(b.RegisterNode("sink2", &plain{typ: el.NodeTypeSink}))
		must(regPipe(b, el.Pipeline{PipelineID: "outer", EventType: "outer", NodeIDs: []el.NodeID{"re", "fmt2", "sink2"}}))
		switch sc.Op {
		case "Send":
			ok = r.step("Send(outer)", func() error { _, err := b.Send(ctx, "outer", "x"); return err })
		case "Reopen":
			ok = r.step("Reopen", func() error { return b.Reopen(cctx) })
		case "RemovePipelineAndNodes":
			ok = r.step("RemovePipelineAndNodes(outer)", func() error { _, err := b.RemovePipelineAndNodes(cctx, "outer", "outer"); return err })
		case "RemoveNode":
			ok = r.step("RemovePipeline(outer)", func() error { return b.RemovePipeline("outer", "outer") })
			if ok {
				ok = r.step("RemoveNode(re)", func() error { return b.RemoveNode(cctx, "re") })
			}
		default:
			// any other operation, issued while a re-entrant Send is in flight
			inflight := make(chan struct{})
			go func() { defer close(inflight); _, _ = b.Send(ctx, "outer", "x") }()
			ok = r.step(sc.Op, func() error { return otherOp(b, sc.Op) })
			if ok {
				ok = r.step("Send(outer) in flight returns", func() error { <-inflight; return nil })
			}
		}
	case "failing-nodes":
		// k failing nodes (sc.Groups) spread over sc.Types event types with sc.Pipes pipelines each: Reopen, and the calls that
		// close nodes, must return whatever the nodes answer, with an error iff a node involved in the call failed
		type pl struct {
			t    el.EventType
			id   el.PipelineID
			fail bool
			node el.NodeID
		}
		var pls []pl
		for ti := 0; ti < sc.Types; ti++ {
			for pi := 0; pi < sc.Pipes; pi++ {
				pls = append(pls, pl{t: el.EventType(fmt.Sprintf("ft%d", ti)), id: el.PipelineID(fmt.Sprintf("fp%d", pi))})
			}
		}
		// failing nodes go to different event types first
		placed := 0
		for pi := 0; pi < sc.Pipes && placed < sc.Groups; pi++ {
			for ti := 0; ti < sc.Types && placed < sc.Groups; ti++ {
				pls[ti*sc.Pipes+pi].fail = true
				placed++
			}
		}
		for i := range pls {
			n := el.NodeID(fmt.Sprintf("fn%d", i))
			pls[i].node = n
			must(b.RegisterNode(n, &failing{plain: plain{typ: el.NodeTypeFilter}, reopenErr: pls[i].fail && sc.Op == "Reopen", closeErr: pls[i].fail && sc.Op != "Reopen", class: sc.ErrClass}))
			must(b.RegisterNode(n+"-fmt", &plain{typ: el.NodeTypeFormatter}))
			must(b.RegisterNode(n+"-sink", &plain{typ: el.NodeTypeSink}))
			must(regPipe(b, el.Pipeline{PipelineID: pls[i].id, EventType: pls[i].t, NodeIDs: []el.NodeID{n, n + "-fmt", n + "-sink"}}))
		}
		expect := func(what string, err error, want bool) error {
			if (err != nil) != want && res.Wrong == "" {
				res.Wrong = fmt.Sprintf("%s: error = %v, but %d node(s) involved failed", what, err, map[bool]int{true: 1, false: 0}[want])
			}
			return nil
		}
		switch sc.Op {
		case "Reopen":
			ok = r.step("Reopen", func() error { return expect("Reopen", b.Reopen(cctx), placed > 0) })
			if ok {
				ok = r.step("Reopen (again)", func() error { return expect("Reopen", b.Reopen(cctx), placed > 0) })
			}
		case "RemovePipelineAndNodes":
			for i := range pls {
				if !ok {
					break
				}
				p := pls[i]
				ok = r.step(fmt.Sprintf("RemovePipelineAndNodes(%s,%s)", p.t, p.id), func() error {
					_, err := b.RemovePipelineAndNodes(cctx, p.t, p.id)
					return expect("RemovePipelineAndNodes", err, p.fail)
				})
			}
		case "RemoveNode":
			for i := range pls {
				if !ok {
					break
				}
				p := pls[i]
				ok = r.step(fmt.Sprintf("RemovePipeline(%s,%s)", p.t, p.id), func() error { return b.RemovePipeline(p.t, p.id) })
				if ok {
					ok = r.step(fmt.Sprintf("RemoveNode(%s)", p.node), func() error { return expect("RemoveNode", b.RemoveNode(cctx, p.node), p.fail) })
				}
			}
		}
	case "parked-process":
		// a Send is in flight, its node parked inside Process; a registry call is STARTED (and given time to block, should it
		// want to wait for the Send); only then the node calls Send again.  The registry call must complete without waiting
		// for in-flight Sends, the re-entrant Send must get through.
		re := &reent{w: w, typ: el.NodeTypeFilter, target: target, maxDepth: 1, fromProcess: true, entered: make(chan struct{}, 1), gate: make(chan struct{})}
		must(b.RegisterNode("re", re))
		must(b.RegisterNode("fmt2", &plain{typ: el.NodeTypeFormatter}))
		must(b.RegisterNode("sink2", &plain{typ: el.NodeTypeSink}))
		must(b.RegisterNode("fmt3", &plain{typ: el.NodeTypeFormatter}))
		must(b.RegisterNode("sink3", &plain{typ: el.NodeTypeSink}))
		must(b.RegisterNode("unused", &plain{typ: el.NodeTypeFilter}))
		must(regPipe(b, el.Pipeline{PipelineID: "outer", EventType: "outer", NodeIDs: []el.NodeID{"re", "fmt2", "sink2"}}))
		must(regPipe(b, el.Pipeline{PipelineID: "outer2", EventType: "outer", NodeIDs: []el.NodeID{"fmt3", "sink3"}}))
		inflight := make(chan struct{})
		go func() { defer close(inflight); _, _ = b.Send(ctx, "outer", "x") }()
		ok = r.step("Send(outer) reaches the node", func() error { <-re.entered; return nil })
		if ok {
			opDone := make(chan struct{})
			go func() {
				defer close(opDone)
				switch sc.Op {
				case "RemovePipelineAndNodes(other pipeline)":
					_, _ = b.RemovePipelineAndNodes(cctx, "outer", "outer2")
				case "RemovePipelineAndNodes(in-flight pipeline)":
					_, _ = b.RemovePipelineAndNodes(cctx, "outer", "outer")
				case "RemovePipeline":
					_ = b.RemovePipeline("outer", "outer2")
				case "RegisterPipeline":
					_ = regPipe(b, el.Pipeline{PipelineID: "outer3", EventType: "outer", NodeIDs: []el.NodeID{"fmt3", "sink3"}})
				case "RemoveNode":
					_ = b.RemoveNode(cctx, "unused")
				case "RegisterNode":
					_ = b.RegisterNode("extra", &plain{typ: el.NodeTypeFilter})
				case "SetSuccessThreshold":
					_ = b.SetSuccessThreshold("outer", 0)
				case "SetSuccessThresholdSinks":
					_ = b.SetSuccessThresholdSinks("outer", 0)
				case "Reopen":
					_ = b.Reopen(cctx)
				default:
					panic("unknown op " + sc.Op)
				}
			}()
			time.Sleep(parkDelay) // started: the call has had time to take the lock and to block, should it wait for Sends
			close(re.gate)        // now the node calls Send re-entrantly
			ok = r.step(sc.Op+" returns", func() error { <-opDone; return nil })
			if ok {
				ok = r.step("Send(outer) in flight returns", func() error { <-inflight; return nil })
			}
		}
	case "concurrent-pair":
		// two operations hammered against each other (lock-order inversions between Broker.lock and a graph's threshold lock,
		// or between a call and the dispatch, show up as a loop that never finishes)
		must(b.RegisterNode("fmt2", &plain{typ: el.NodeTypeFormatter}))
		must(b.RegisterNode("sink2", &plain{typ: el.NodeTypeSink}))
		must(regPipe(b, el.Pipeline{PipelineID: "outer", EventType: "outer", NodeIDs: []el.NodeID{"fmt2", "sink2"}}))
		ops := strings.Split(sc.Op, "|")
		ok = r.step("loop("+sc.Op+")", func() error {
			var pw sync.WaitGroup
			for _, op := range append(ops, ops...) {
				pw.Add(1)
				go func(op string) {
					defer pw.Done()
					for i := 0; i < 20000; i++ {
						if op == "Send" {
							_, _ = b.Send(ctx, "outer", i)
						} else {
							_ = otherOp(b, op)
						}
					}
				}(op)
			}
			pw.Wait()
			return nil
		})
	case "gated-close", "gated-expire", "gated-expire-partial", "gated-flushall":
		now := time.Unix(1000, 0)
		var mu sync.Mutex
		gf := &gated.Filter{Broker: &sender{w: w}, Expiration: time.Second, NowFunc: func() time.Time { mu.Lock(); defer mu.Unlock(); return now }}
		must(b.RegisterNode("g", gf))
		must(b.RegisterNode("fmt2", &plain{typ: el.NodeTypeFormatter}))
		must(b.RegisterNode("sink2", &plain{typ: el.NodeTypeSink}))
		must(regPipe(b, el.Pipeline{PipelineID: "outer", EventType: "outer", NodeIDs: []el.NodeID{"g", "fmt2", "sink2"}}))
		switch sc.Target {
		case "self":
			// the composed event goes through the same gated filter again
			must(regPipe(b, el.Pipeline{PipelineID: "c", EventType: "composed", NodeIDs: []el.NodeID{"g", "fmt2", "sink2"}}))
		case "other":
			must(regPipe(b, el.Pipeline{PipelineID: "c", EventType: "composed", NodeIDs: []el.NodeID{"fmt", "sink"}}))
		}
		for i := 0; i < sc.Groups && ok; i++ {
			id := fmt.Sprintf("grp%d", i)
			ok = r.step("Send(gateable "+id+")", func() error { _, err := b.Send(ctx, "outer", &gp{id: id}); return err })
			if sc.Kind == "gated-expire-partial" {
				// the groups are created 0.4 s apart (expiration 1 s), so that later only the oldest ones have expired
				mu.Lock()
				now = now.Add(400 * time.Millisecond)
				mu.Unlock()
			}
		}
		if ok {
			switch sc.Kind {
			case "gated-close":
				switch sc.Op {
				case "RemovePipelineAndNodes":
					ok = r.step("RemovePipelineAndNodes(outer)", func() error { _, err := b.RemovePipelineAndNodes(cctx, "outer", "outer"); return err })
				case "RemoveNode":
					ok = r.step("RemovePipeline(outer)", func() error { return b.RemovePipeline("outer", "outer") })
					if ok && sc.Target == "self" {
						ok = r.step("RemovePipeline(composed)", func() error { return b.RemovePipeline("composed", "c") })
					}
					if ok {
						ok = r.step("RemoveNode(g)", func() error { return b.RemoveNode(cctx, "g") })
					}
				}
			case "gated-expire":
				mu.Lock()
				now = now.Add(10 * time.Second)
				mu.Unlock()
				ok = r.step("Send(gateable after expiry)", func() error { _, err := b.Send(ctx, "outer", &gp{id: "late"}); return err })
			case "gated-expire-partial":
				// oldest group expired, the next one not yet: the expiry loop has to stop at the first live group
				mu.Lock()
				now = time.Unix(1000, 0).Add(1200 * time.Millisecond)
				mu.Unlock()
				ok = r.step("Send(gateable, oldest group expired)", func() error { _, err := b.Send(ctx, "outer", &gp{id: "late"}); return err })
				if ok {
					ok = r.step("Send(gateable again)", func() error { _, err := b.Send(ctx, "outer", &gp{id: "late2"}); return err })
				}
			case "gated-flushall":
				ok = r.step("FlushAll", func() error { return gf.FlushAll(ctx) })
			}
		}
	default:
		panic("unknown scenario kind " + sc.Kind)
	}
	// the broker must still be usable afterwards: nothing may be left locked
	if ok {
		ok = r.step("RegisterNode(after)", func() error { return b.RegisterNode("after", &plain{typ: el.NodeTypeFilter}) })
	}
	if ok {
		r.step("parked writers return", func() error { w.wg.Wait(); return nil })
	}
	res.Reentries = int(atomic.LoadInt64(&w.reentries))
	return res
}

func otherOp(b *el.Broker, op string) error {
	ctx := context.Background()
	switch op {
	case "RegisterNode":
		return b.RegisterNode("extra", &plain{typ: el.NodeTypeFilter})
	case "RegisterPipeline":
		return regPipe(b, el.Pipeline{PipelineID: "extra", EventType: "extra", NodeIDs: []el.NodeID{"fmt", "sink"}})
	case "RemovePipeline":
		return b.RemovePipeline("inner", "nosuch")
	case "SetSuccessThreshold":
		return b.SetSuccessThreshold("outer", 0)
	case "SetSuccessThresholdSinks":
		return b.SetSuccessThresholdSinks("outer", 0)
	case "SuccessThreshold":
		b.SuccessThreshold("outer")
		return nil
	case "SuccessThresholdSinks":
		b.SuccessThresholdSinks("outer")
		return nil
	case "IsAnyPipelineRegistered":
		b.IsAnyPipelineRegistered("outer")
		return nil
	case "Reopen":
		return b.Reopen(ctx)
	case "RemoveNodeUnknown":
		_ = b.RemoveNode(ctx, "nosuch")
		return nil
	case "FailingCalls":
		// calls that fail in every validation branch: none of them may leave the Broker locked
		_ = b.RemovePipeline("nosuchtype", "p")
		_ = b.RemovePipeline("", "p")
		_, _ = b.RemovePipelineAndNodes(ctx, "nosuchtype", "p")
		_, _ = b.RemovePipelineAndNodes(ctx, "inner", "nosuch")
		_ = regPipe(b, el.Pipeline{PipelineID: "bad", EventType: "inner", NodeIDs: []el.NodeID{"nosuch"}})
		_ = regPipe(b, el.Pipeline{PipelineID: "bad", EventType: "inner", NodeIDs: []el.NodeID{"sink", "fmt"}})
		_ = regPipe(b, el.Pipeline{PipelineID: "inner", EventType: "inner", NodeIDs: []el.NodeID{"fmt", "sink"}}, el.WithPipelineRegistrationPolicy(el.DenyOverwrite))
		_ = regPipe(b, el.Pipeline{PipelineID: "inner", EventType: "inner", NodeIDs: []el.NodeID{"fmt", "sink"}})
		_ = b.RegisterNode("", &plain{typ: el.NodeTypeFilter})
		_ = b.RegisterNode("deny", &plain{typ: el.NodeTypeFilter}, el.WithNodeRegistrationPolicy(el.DenyOverwrite))
		_ = b.RegisterNode("deny", &plain{typ: el.NodeTypeFilter})
		_ = b.RemoveNode(ctx, "fmt")
		_ = b.RemoveNode(ctx, "")
		_ = b.SetSuccessThreshold("", 1)
		_ = b.SetSuccessThreshold("inner", -1)
		_ = b.SetSuccessThresholdSinks("inner", -1)
		return nil
	}
	panic("unknown op " + op)
}

// ---------- the scenario space ----------
func allScenarios(r *hc.Rand, repeat int) []Scenario {
	var out []Scenario
	add := func(s Scenario) { s.InStmt = true; out = append(out, s) }
	for rep := 0; rep < repeat; rep++ {
		for _, parked := range []bool{false, true} {
			// a node re-entering Send from Process: depth 1..3, into another pipeline or into its own
			for _, tgt := range []string{"other", "self", "none"} {
				for _, d := range []int{1, 2, 3} {
					add(Scenario{Kind: "reenter-process", Op: "Send", Target: tgt, Depth: d, Parked: parked})
				}
			}
			// a node re-entering Send from Close, closed by either removal operation
			for _, op := range []string{"RemovePipelineAndNodes", "RemoveNode"} {
				for _, tgt := range []string{"other", "none"} {
					add(Scenario{Kind: "reenter-close", Op: op, Target: tgt, Parked: parked})
				}
			}
			for c := 1; c <= 4; c++ {
				add(Scenario{Kind: "reenter-close", Op: []string{"RemovePipelineAndNodes", "RemoveNode"}[c%2], Target: "other", Parked: parked, Ctx: c})
				add(Scenario{Kind: "gated-close", Op: []string{"RemovePipelineAndNodes", "RemoveNode"}[c%2], Groups: 2, Target: "other", Parked: parked, Ctx: c})
				add(Scenario{Kind: "reenter-reopen", Op: "Reopen", Target: "other", Parked: parked, Ctx: c})
			}
			// a node re-entering Send from Reopen, with and without a writer parked on the lock
			add(Scenario{Kind: "reenter-reopen", Op: "Reopen", Target: "other", Parked: parked})
			// every other operation issued while a re-entrant Send is in flight
			for _, op := range []string{"RegisterNode", "RegisterPipeline", "RemovePipeline", "SetSuccessThreshold", "SetSuccessThresholdSinks",
				"SuccessThreshold", "SuccessThresholdSinks", "IsAnyPipelineRegistered", "Reopen", "RemoveNodeUnknown", "FailingCalls"} {
				add(Scenario{Kind: "concurrent-op", Op: op, Target: "other", Depth: 2, Parked: parked})
			}
			// a registry call started while a Send is in flight whose node then re-enters Send
			if !parked {
				for _, op := range []string{"RemovePipelineAndNodes(other pipeline)", "RemovePipelineAndNodes(in-flight pipeline)", "RemovePipeline", "RegisterPipeline",
					"RemoveNode", "RegisterNode", "SetSuccessThreshold", "SetSuccessThresholdSinks", "Reopen"} {
					for _, tgt := range []string{"other", "self"} {
						add(Scenario{Kind: "parked-process", Op: op, Target: tgt})
					}
				}
			}
			// failing nodes: 0..3 of them over 1..3 event types x 1..2 pipelines per type, for Reopen and for the calls that close nodes
			if !parked {
				for _, op := range []string{"Reopen", "RemovePipelineAndNodes", "RemoveNode"} {
					for types := 1; types <= 3; types++ {
						for pipes := 1; pipes <= 2; pipes++ {
							for k := 0; k <= 3 && k <= types*pipes; k++ {
								add(Scenario{Kind: "failing-nodes", Op: op, Groups: k, Types: types, Pipes: pipes, Target: "other"})
							}
						}
					}
					// what the failing nodes return, and the caller's context: the call returns an error iff a node failed, whatever
					// the kind of error value and whether or not the context is done
					for class := 1; class <= 7; class++ {
						add(Scenario{Kind: "failing-nodes", Op: op, Groups: 2, Types: 2, Pipes: 1, Target: "other", ErrClass: class, Ctx: class % 5})
					}
					for c := 1; c <= 4; c++ {
						add(Scenario{Kind: "failing-nodes", Op: op, Groups: 1, Types: 1, Pipes: 2, Target: "other", Ctx: c})
						add(Scenario{Kind: "failing-nodes", Op: op, Groups: 0, Types: 2, Pipes: 1, Target: "other", Ctx: c})
					}
				}
			}
			// pairs of operations against each other
			if !parked {
				for _, pr := range []string{"SetSuccessThreshold|SuccessThreshold", "SetSuccessThresholdSinks|SuccessThresholdSinks", "Send|SetSuccessThreshold",
					"Send|SetSuccessThresholdSinks|SuccessThreshold", "Send|RegisterPipeline|IsAnyPipelineRegistered", "Reopen|RegisterNode|Send"} {
					add(Scenario{Kind: "concurrent-pair", Op: pr, Target: "other"})
				}
			}
			// the gated filter wired to the same broker with 0..3 pending groups
			for g := 0; g <= 3; g++ {
				for _, tgt := range []string{"other", "self", "none"} {
					for _, op := range []string{"RemovePipelineAndNodes", "RemoveNode"} {
						add(Scenario{Kind: "gated-close", Op: op, Groups: g, Target: tgt, Parked: parked})
					}
					add(Scenario{Kind: "gated-expire", Op: "Send", Groups: g, Target: tgt, Parked: parked})
					if g >= 2 && !parked {
						add(Scenario{Kind: "gated-expire-partial", Op: "Send", Groups: g, Target: tgt})
					}
					add(Scenario{Kind: "gated-flushall", Op: "FlushAll", Groups: g, Target: tgt, Parked: parked})
				}
			}
		}
	}
	// order shuffled by the seed (the scenarios are independent; the set is fixed)
	for i := len(out) - 1; i > 0; i-- {
		j := r.Intn(i + 1)
		out[i], out[j] = out[j], out[i]
	}
	for i := range out {
		out[i].ID = i + 1
	}
	return out
}

func main() {
	out := flag.String("out", ".", "output directory")
	watchdog := flag.Duration("watchdog", 2*time.Second, "per-call watchdog")
	parkDelay := flag.Duration("park-delay", 15*time.Millisecond, "time given to a parked writer to reach Lock()")
	par := flag.Int("parallel", 8, "scenarios run concurrently (each on its own Broker)")
	repeat := flag.Int("repeat", 1, "repetitions of the scenario set")
	replay := flag.String("replay", "", "re-run the scenario of a replay file")
	corpus := flag.String("corpus", "", "JSON-lines file of scenarios run first")
	flag.Parse()

	if *replay != "" {
		data, err := os.ReadFile(*replay)
		if err != nil {
			fmt.Fprintln(os.Stderr, err)
			os.Exit(2)
		}
		var rec struct {
			Case Scenario `json:"case"`
		}
		if err := json.Unmarshal(data, &rec); err != nil || rec.Case.Kind == "" {
			_ = json.Unmarshal(data, &rec.Case)
		}
		res := runScenario(rec.Case, *watchdog, *parkDelay)
		js, _ := json.MarshalIndent(res, "", " ")
		fmt.Println(string(js))
		if res.TimedOut || res.Panic != "" {
			os.Exit(1)
		}
		return
	}

	r := hc.NewRand(hc.Seed())
	var scs []Scenario
	if *corpus != "" {
		if data, err := os.ReadFile(*corpus); err == nil {
			for _, line := range strings.Split(string(data), "\n") {
				line = strings.TrimSpace(line)
				if line == "" || strings.HasPrefix(line, "#") {
					continue
				}
				var s Scenario
				if json.Unmarshal([]byte(line), &s) == nil && s.Kind != "" {
					s.Comment = "corpus"
					scs = append(scs, s)
				}
			}
		}
	}
	ncorpus := len(scs)
	gen := allScenarios(r, *repeat)
	for i := range gen {
		gen[i].ID += ncorpus
	}
	for i := range scs {
		scs[i].ID = i + 1
	}
	scs = append(scs, gen...)

	results := make([]Result, len(scs))
	sem := make(chan struct{}, *par)
	var wg sync.WaitGroup
	for i := range scs {
		wg.Add(1)
		sem <- struct{}{}
		go func(i int) {
			defer wg.Done()
			defer func() { <-sem }()
			results[i] = runScenario(scs[i], *watchdog, *parkDelay)
		}(i)
	}
	wg.Wait()

	f, err := os.Create(*out + "/scenarios.jsonl")
	if err != nil {
		panic(err)
	}
	stats := map[string]int{}
	nontriv := map[string]bool{}
	timeouts, panics := 0, 0
	for _, res := range results {
		js, _ := json.Marshal(res)
		fmt.Fprintf(f, "%s\n", js)
		stats["kind:"+res.Scenario.Kind]++
		stats["op:"+res.Scenario.Op]++
		if res.Scenario.Parked {
			stats["parked"]++
		}
		stats[fmt.Sprintf("groups:%d", res.Scenario.Groups)]++
		stats["steps"] += len(res.Steps)
		if res.Reentries > 0 {
			sig := fmt.Sprintf("%s|%s|%d|%s|%v|%d", res.Scenario.Kind, res.Scenario.Op, res.Scenario.Groups, res.Scenario.Target, res.Scenario.Parked, res.Scenario.Depth)
			nontriv[sig] = true
			stats["with_reentry"]++
		}
		if res.TimedOut {
			timeouts++
			if !res.Scenario.InStmt {
				stats["timeouts_outside_statement"]++
			}
		}
		if res.Panic != "" {
			panics++
		}
		if res.Wrong != "" {
			stats["wrong_results"]++
		}
	}
	f.Close()
	keys := make([]string, 0, len(stats))
	for k := range stats {
		keys = append(keys, k)
	}
	sort.Strings(keys)
	summary := map[string]interface{}{"scenarios": len(results), "distinct_nontrivial": len(nontriv), "timeouts": timeouts, "panics": panics,
		"stats": stats, "seed": hc.Seed(), "watchdog_ms": watchdog.Milliseconds(), "corpus": ncorpus}
	js, _ := json.MarshalIndent(summary, "", " ")
	os.WriteFile(*out+"/summary.json", js, 0o644)
	fmt.Printf("lockh: %d scenarios, %d with re-entry, %d timeouts, %d panics\n", len(results), stats["with_reentry"], timeouts, panics)
}
