// sinksh — correspondence driver for C13 (writer.Sink, FileSink's format selection and special paths, ChannelSink).
// It runs, on the real sinks built from the tree under test:
//
//	w  every format table of 0..3 formats (each stored value empty / one byte / several bytes) x configured format
//	   (unset, json, x, y, an absent one) x writer behaviour (accepts, fails, fails after half, short, writes nothing,
//	   claims too much), plus nil writer / nil event / nil Formatted map;
//	c  1..16 goroutines calling Process concurrently on one writer.Sink whose destination records the byte stream
//	   (one byte at a time, yielding, and noticing overlapping Write calls); the stream is split back into whole values;
//	f  FileSink.Process on a regular file, /dev/null, /dev/stdout, /dev/stderr, a file whose writes fail (symlink to
//	   /dev/full) and a directory that cannot be created;
//	h  ChannelSink.Process in timed scenarios: channel empty / receiver waiting / full / drained late x context never,
//	   already done, cancelled or expiring early or late x timeout short or long.  Competing arms are either a few ms
//	   or seconds apart, so the arm that must win is certain; arms within the slack are both accepted.
//
// and prints cases_*.v for Run_Sinks.mismatches.
package main

import (
	"context"
	"encoding/json"
	"errors"
	"flag"
	"fmt"
	"io"
	"os"
	"os/exec"
	"os/signal"
	"path/filepath"
	"runtime"
	"sort"
	"strings"
	"sync"
	"sync/atomic"
	"syscall"
	"time"

	el "github.com/hashicorp/eventlogger"
	"github.com/hashicorp/eventlogger/sinks/channel"
	"github.com/hashicorp/eventlogger/sinks/writer"
	"verifharness/hc"
)

// 0 unset, 1 the JSON format, 2 3 two more, 4 one no event carries; 5.. look-alike twins of "json" (case, surrounding white space, a proper
// prefix, "json" as a proper prefix, a trailing NUL), a 300-byte name, a non-ASCII twin
var fmtName = []string{"", el.JSONFormat, "x", "y", "z", "JSON", "json ", " json", "jso", "jsonx", "json\x00", strings.Repeat("f", 300), "ĵson"}

// ---------- cases ----------
type Entry struct {
	F int   `json:"f"` // format number
	V []int `json:"v"` // bytes
}
type Call struct {
	N int   `json:"n"` // thread*1000 + k
	V []int `json:"v"` // nil = the event lacks the configured format
	A bool  `json:"absent,omitempty"`
}
type Case struct {
	ID   int    `json:"id"`
	Kind string `json:"kind"` // w c f h
	Gen  string `json:"gen,omitempty"`
	// w, f
	Fmt       int      `json:"fmt"`
	Table     []Entry  `json:"table,omitempty"`
	TabNil    bool     `json:"table_nil,omitempty"` // Event.Formatted == nil
	WNil      bool     `json:"writer_nil,omitempty"`
	ENil      bool     `json:"event_nil,omitempty"`
	Beh       string   `json:"beh,omitempty"`           // ok fail0 failhalf failfull shorthalf short0 over
	WFunc     bool     `json:"writer_func,omitempty"`   // the accepting writer is a func value (value receiver) instead of a pointer
	Redirect  bool     `json:"redirect,omitempty"`      // f (stdout / stderr kinds): an earlier call on the same sink went to another stream; os.Stdout / os.Stderr was re-pointed in between
	Seq       []string `json:"seq,omitempty"`           // w: this call is the last of a sequence on ONE sink; behaviours of the earlier calls
	Stagger   int      `json:"stagger_ms,omitempty"`    // g: caller i enters Process i*stagger ms after the barrier (overlapping, not simultaneous)
	TimeoutNs int64    `json:"timeout_ns,omitempty"`    // h g: the configured timeout in nanoseconds when it is not a whole number of ms (overrides timeout)
	CallerCtx int      `json:"caller_ctx_ms,omitempty"` // g: every caller's own context expires this many ms after its entry (0 = Background)
	CtxFrom   int      `json:"ctx_from,omitempty"`      // g: only the callers with index >= this have the context (the earlier ones use Background)
	SlackMs   int      `json:"slack_ms,omitempty"`      // g: a return later than min(timeout, ctx) + this is a violation (0 = the generous 50x bound)
	CtxKind   string   `json:"ctx_kind,omitempty"`      // w c f: the context handed to Process: "" background, live, cancelled, past-deadline, custom (Err() != nil)
	Err       string   `json:"err,omitempty"`           // which error VALUE a failing writer returns (see writerErrors); "" = a private error
	// c
	Calls []Call `json:"calls,omitempty"`
	// f: 0 /dev/null 1 stdout 2 stderr 3 file 4 failing file 5 no directory 6/7 stdout/stderr on /dev/full 8/9 stdout/stderr closed
	FKind int `json:"fkind,omitempty"`
	// h (ms; -1 = never; ctx 0 = already done)
	Timeout int    `json:"timeout,omitempty"`
	Chan    string `json:"chan,omitempty"` // empty waiting full nobody drained arrives
	ChanAt  int    `json:"chan_at,omitempty"`
	Ctx     string `json:"ctx,omitempty"` // none done cancel deadline
	CtxAt   int    `json:"ctx_at,omitempty"`
	Slack   int    `json:"slack,omitempty"`
	// p: FileSink with writes failing part-way: RLIMIT_FSIZE = Limit bytes per file (set in a child process);
	// RotMode 0 no rotation, 1 rotation with time-stamped names (reopen opens a fresh file), 2 TimestampOnlyOnRotate; Lens = record sizes
	Limit   int   `json:"limit,omitempty"`
	RotMode int   `json:"rot_mode,omitempty"`
	Lens    []int `json:"lens,omitempty"`
	// g: N simultaneous ChannelSink.Process calls on a buffered channel with Free free slots (capacity Free+1, one slot prefilled), nobody draining
	Free   int `json:"free,omitempty"`
	N      int `json:"n,omitempty"`
	Rounds int `json:"rounds,omitempty"`
}

func bytesOf(v []int) []byte {
	b := make([]byte, len(v))
	for i, x := range v {
		b[i] = byte(x)
	}
	return b
}
func intsOf(b []byte) []int {
	v := make([]int, len(b))
	for i, x := range b {
		v[i] = int(x)
	}
	return v
}
func nlist(v []int) string {
	s := make([]string, len(v))
	for i, x := range v {
		s[i] = fmt.Sprint(x)
	}
	return "[" + strings.Join(s, ";") + "]%N"
}
func tableLit(t []Entry) string {
	s := make([]string, len(t))
	for i, e := range t {
		s[i] = fmt.Sprintf("(%s,%s)", hc.N(e.F), nlist(e.V))
	}
	return hc.List(s)
}
func formatted(c Case) map[string][]byte {
	if c.TabNil {
		return nil
	}
	m := map[string][]byte{}
	for _, e := range c.Table {
		m[fmtName[e.F]] = bytesOf(e.V)
	}
	return m
}

// ---------- w ----------
type wcall struct {
	buf []int
	n   int
}
type hwriter struct {
	beh     string
	err     error
	calls   []wcall
	seq     []string // behaviour of the k-th Write when the sink is reused over several calls
	onWrite func()
}

// the same accepting writer as a function value (a value receiver, no pointer identity)
type writerFunc func([]byte) (int, error)

func (f writerFunc) Write(b []byte) (int, error) { return f(b) }

// the contexts a caller may hand to Process; writer.Sink and FileSink have no business looking at it (C13 does not make writing
// depend on the caller's context: nil => exactly the stored bytes were written)
var ctxKinds = []string{"", "live", "cancelled", "past-deadline", "custom", "cause", "cancel-in-write"}

func makeCtx(kind string) (context.Context, context.CancelFunc) {
	switch kind {
	case "live":
		return context.WithCancel(context.Background())
	case "cancelled":
		ctx, cancel := context.WithCancel(context.Background())
		cancel()
		return ctx, cancel
	case "past-deadline":
		return context.WithDeadline(context.Background(), time.Now().Add(-time.Hour))
	case "custom":
		done := make(chan struct{})
		close(done)
		return &customCtx{Context: context.Background(), done: done, err: &privateErr{"ctx gone"}}, func() {}
	case "cause":
		ctx, cancel := context.WithCancelCause(context.Background())
		cancel(io.EOF)
		return context.WithCancel(ctx) // a child of a context cancelled with a custom cause
	case "cancel-in-write":
		return context.WithCancel(context.Background()) // the harness writer cancels it when Write is entered
	}
	return context.Background(), func() {}
}

type privateErr struct{ s string }

func (e *privateErr) Error() string {
	if e == nil {
		return "typed nil error"
	}
	return e.s
}

type timeoutErr struct{}

func (timeoutErr) Error() string   { return "harness: timed out" }
func (timeoutErr) Timeout() bool   { return true }
func (timeoutErr) Temporary() bool { return true }
func (timeoutErr) Is(t error) bool { return t == io.EOF || t == context.DeadlineExceeded }

// the error VALUES a failing writer / a done context hands back: the sentinel errors code could plausibly special-case, each also
// wrapped with %w, and a private error.  Whatever the value, C13 wants a non-nil error from the sink.
var writerErrors = func() map[string]error {
	base := map[string]error{
		"eof": io.EOF, "unexpectedeof": io.ErrUnexpectedEOF, "shortwrite": io.ErrShortWrite, "closedpipe": io.ErrClosedPipe, "osclosed": os.ErrClosed,
		"canceled": context.Canceled, "deadline": context.DeadlineExceeded, "enospc": syscall.ENOSPC, "eagain": syscall.EAGAIN, "eintr": syscall.EINTR,
		"epipe": syscall.EPIPE, "osdeadline": os.ErrDeadlineExceeded, "nomoreprogress": io.ErrNoProgress,
	}
	m := map[string]error{"private": &privateErr{"write failed"}, "custom-timeout-temporary-is-eof": timeoutErr{}, "typednil": (*privateErr)(nil),
		"join:eof+private": errors.Join(io.EOF, &privateErr{"second"}), "join:one": errors.Join(io.ErrShortWrite)}
	for k, v := range base {
		m[k] = v
		m["wrap:"+k] = fmt.Errorf("harness writer: %w", v)
		m["patherror:"+k] = &os.PathError{Op: "write", Path: "/harness", Err: v}
	}
	return m
}()

func errNames() []string {
	var ns []string
	for k := range writerErrors {
		ns = append(ns, k)
	}
	sort.Strings(ns)
	return ns
}

func (w *hwriter) Write(b []byte) (int, error) {
	var n int
	var err error
	if w.onWrite != nil {
		w.onWrite()
	}
	beh := w.beh
	if len(w.seq) > 0 {
		beh, w.seq = w.seq[0], w.seq[1:]
	}
	switch beh {
	case "ok":
		n = len(b)
	case "fail0":
		n, err = 0, w.err
	case "failhalf":
		n, err = len(b)/2, w.err
	case "failfull":
		n, err = len(b), w.err
	case "shorthalf":
		n = len(b) / 2
	case "short0":
		n = 0
	case "over":
		n = len(b) + 1
	}
	w.calls = append(w.calls, wcall{intsOf(b), n})
	return n, err
}

func classify(out *el.Event, err error, panicked bool) int {
	switch {
	case panicked:
		return 2
	case err != nil && out == nil:
		return 1
	case err == nil && out == nil:
		return 0
	}
	return 3
}

func execW(c Case) (res int, calls []wcall) {
	hw := &hwriter{beh: c.Beh, err: writerErrors["private"]}
	if e, ok := writerErrors[c.Err]; ok {
		hw.err = e
	}
	s := &writer.Sink{Format: fmtName[c.Fmt]}
	if !c.WNil {
		s.Writer = hw
		if c.WFunc {
			s.Writer = writerFunc(hw.Write)
		}
	}
	for i, b := range c.Seq {
		// earlier calls on the same sink (values of their own); only the last call is the case compared with the model
		pre := c
		pre.Beh, pre.Seq, pre.Table = b, nil, []Entry{{1, []int{200 + i, 201 + i, 202 + i, 203 + i}}, {2, []int{210 + i, 211 + i}}}
		hw.beh = b
		processOn(s, pre, hw)
	}
	hw.beh, hw.calls = c.Beh, nil
	res, _ = processOn(s, c, hw)
	return res, hw.calls
}

// processOn makes one Process call on a writer.Sink / FileSink with the case's event and context, and re-reads the event afterwards:
// the sink must leave the stored bytes and the event alone
func processOn(s el.Node, c Case, hw *hwriter) (res int, e *el.Event) {
	if !c.ENil {
		e = &el.Event{Type: "t", Formatted: formatted(c)}
	}
	var out *el.Event
	var err error
	panicked := false
	func() {
		defer func() {
			if r := recover(); r != nil {
				panicked = true
			}
		}()
		ctx, cancel := makeCtx(c.CtxKind)
		defer cancel()
		if hw != nil && c.CtxKind == "cancel-in-write" {
			hw.onWrite = cancel
		}
		out, err = s.Process(ctx, e)
	}()
	res = classify(out, err, panicked)
	if e != nil {
		want := formatted(c)
		same := e.Type == "t" && len(e.Formatted) == len(want) && (e.Formatted == nil) == (want == nil)
		for k, v := range want {
			if got, ok := e.Formatted[k]; !ok || string(got) != string(v) || (got == nil) != (v == nil) {
				same = false
			}
		}
		if !same {
			res = 3 // the event or its stored bytes were altered
		}
	}
	return res, e
}

func behLit(b string) string {
	return map[string]string{"ok": "WOk", "fail0": "WFail0", "failhalf": "WFailHalf", "failfull": "WFailFull", "shorthalf": "WShortHalf", "short0": "WShort0", "over": "WOver"}[b]
}
func callsLit(cs []wcall) string {
	s := make([]string, len(cs))
	for i, c := range cs {
		s[i] = fmt.Sprintf("(%s,%s)", nlist(c.buf), hc.N(c.n))
	}
	return hc.List(s)
}
func litW(c Case, res int, calls []wcall) string {
	ev := "None"
	if !c.ENil {
		ev = "(Some " + tableLit(c.Table) + ")"
	}
	return fmt.Sprintf("(%s, CW (Build_wcase %s %s %s %s (Build_wobs %s %s)))", hc.N(c.ID), hc.N(c.Fmt), hc.B(c.WNil), ev, behLit(c.Beh), hc.N(res), callsLit(calls))
}

// ---------- c ----------
type cwriter struct {
	mu      sync.Mutex
	stream  []byte
	inWrite int32
	overlap int32
}

func (w *cwriter) Write(b []byte) (int, error) {
	if !atomic.CompareAndSwapInt32(&w.inWrite, 0, 1) {
		atomic.StoreInt32(&w.overlap, 1)
	}
	for _, x := range b {
		w.mu.Lock()
		w.stream = append(w.stream, x)
		w.mu.Unlock()
		runtime.Gosched()
	}
	atomic.StoreInt32(&w.inWrite, 0)
	return len(b), nil
}

type cres struct{ n, res int }

func execC(c Case, scratch string) (results []cres, stream []int, order []int, overlap bool) {
	cw := &cwriter{}
	var s el.Node = &writer.Sink{Format: fmtName[c.Fmt], Writer: cw}
	var fsPath string
	if c.FKind == 3 {
		// the same concurrent calls on a FileSink writing a regular file (its own mutex, one write(2) per value)
		dir, err := os.MkdirTemp(scratch, "fsc")
		if err != nil {
			panic(err)
		}
		defer os.RemoveAll(dir)
		fsPath = filepath.Join(dir, "f.log")
		s = &el.FileSink{Format: fmtName[c.Fmt], Path: dir, FileName: "f.log"}
	}
	byThread := map[int][]Call{}
	var threads []int
	for _, cl := range c.Calls {
		t := cl.N / 1000
		if _, ok := byThread[t]; !ok {
			threads = append(threads, t)
		}
		byThread[t] = append(byThread[t], cl)
	}
	var wg sync.WaitGroup
	var rmu sync.Mutex
	start := make(chan struct{})
	want := fmtName[c.Fmt]
	if want == "" {
		want = el.JSONFormat
	}
	for _, t := range threads {
		wg.Add(1)
		go func(calls []Call) {
			defer wg.Done()
			<-start
			for _, cl := range calls {
				e := &el.Event{Type: "t", Formatted: map[string][]byte{"other": []byte("never written")}}
				if !cl.A {
					e.Formatted[want] = bytesOf(cl.V)
				}
				var out *el.Event
				var err error
				panicked := false
				func() {
					defer func() {
						if r := recover(); r != nil {
							panicked = true
						}
					}()
					ctx, cancel := makeCtx(c.CtxKind)
					defer cancel()
					out, err = s.Process(ctx, e)
				}()
				rmu.Lock()
				results = append(results, cres{cl.N, classify(out, err, panicked)})
				rmu.Unlock()
			}
		}(byThread[t])
	}
	close(start)
	wg.Wait()
	sort.Slice(results, func(i, j int) bool { return results[i].n < results[j].n })
	stream = intsOf(cw.stream)
	if fsPath != "" {
		b, _ := os.ReadFile(fsPath)
		stream = intsOf(b)
	}
	// split the stream back into whole values: every value starts with 60, thread, k
	vals := map[int][]int{}
	for _, cl := range c.Calls {
		if !cl.A {
			vals[cl.N] = cl.V
		}
	}
	pos := 0
	for pos+2 < len(stream) && stream[pos] == 60 {
		n := stream[pos+1]*1000 + stream[pos+2]
		v, ok := vals[n]
		if !ok || pos+len(v) > len(stream) {
			break
		}
		match := true
		for i := range v {
			if stream[pos+i] != v[i] {
				match = false
				break
			}
		}
		if !match {
			break
		}
		order = append(order, n)
		pos += len(v)
	}
	return results, stream, order, atomic.LoadInt32(&cw.overlap) == 1
}

func litC(c Case, results []cres, stream, order []int, overlap bool) string {
	calls := make([]string, len(c.Calls))
	for i, cl := range c.Calls {
		v := "None"
		if !cl.A {
			v = "Some " + nlist(cl.V)
		}
		calls[i] = fmt.Sprintf("(%s, %s)", hc.N(cl.N), v)
	}
	rs := make([]string, len(results))
	for i, r := range results {
		rs[i] = fmt.Sprintf("(%s,%s)", hc.N(r.n), hc.N(r.res))
	}
	return fmt.Sprintf("(%s, CC (Build_ccase %s %s\n (Build_cobs %s %s %s %s)))", hc.N(c.ID), hc.N(c.Fmt), hc.List(calls), hc.List(rs), nlist(stream), nlist(order), hc.B(overlap))
}

// ---------- f ----------
var stdMu sync.Mutex

func execF(c Case, scratch string) (res int, got []int, skipped bool) {
	dir, err := os.MkdirTemp(scratch, "fs")
	if err != nil {
		panic(err)
	}
	defer os.RemoveAll(dir)
	fs := &el.FileSink{Format: fmtName[c.Fmt], FileName: "f.log"}
	var readBack func() []byte
	switch c.FKind {
	case 0:
		fs.Path = "/dev/null"
		readBack = func() []byte { return nil }
	case 1, 2, 6, 7, 8, 9:
		// the special paths write to whatever os.Stdout / os.Stderr is at the time of the call: a temp file (healthy), an fd
		// on /dev/full (every write fails with ENOSPC) or a file that has been closed (every write fails)
		var tmp *os.File
		var err error
		switch c.FKind {
		case 6, 7:
			tmp, err = os.OpenFile("/dev/full", os.O_WRONLY, 0)
			if err != nil {
				return 0, nil, true
			}
		default:
			tmp, err = os.Create(filepath.Join(dir, "std"))
			if err != nil {
				panic(err)
			}
			if c.FKind >= 8 {
				tmp.Close()
			}
		}
		stdMu.Lock()
		defer stdMu.Unlock()
		isOut := c.FKind == 1 || c.FKind == 6 || c.FKind == 8
		point := func(f *os.File) {
			if isOut {
				os.Stdout = f
			} else {
				os.Stderr = f
			}
		}
		if isOut {
			fs.Path = "/dev/stdout"
			old := os.Stdout
			defer func() { os.Stdout = old }()
		} else {
			fs.Path = "/dev/stderr"
			old := os.Stderr
			defer func() { os.Stderr = old }()
		}
		if c.Redirect {
			// the stream is re-pointed (output capture / redirection) BETWEEN two calls on the same sink: an earlier call went to another
			// file; the call under observation must reach the stream that is current when it is made, and the earlier file must hold
			// exactly the earlier value
			first, err := os.Create(filepath.Join(dir, "std-before"))
			if err != nil {
				panic(err)
			}
			point(first)
			pre := c
			pre.Table, pre.Fmt = []Entry{{1, []int{80, 82, 69, 10}}}, 0
			keepFmt := fs.Format
			fs.Format = ""
			preRes, _ := processOn(fs, pre, nil)
			fs.Format = keepFmt
			first.Sync()
			got, _ := os.ReadFile(filepath.Join(dir, "std-before"))
			defer func() {
				after, _ := os.ReadFile(filepath.Join(dir, "std-before"))
				first.Close()
				if preRes != 0 || string(got) != "PRE\n" || string(after) != "PRE\n" {
					res = 3 // the earlier call failed, or bytes of the later call went to the earlier stream
				}
			}()
		}
		point(tmp)
		readBack = func() []byte {
			tmp.Sync()
			b, _ := os.ReadFile(filepath.Join(dir, "std"))
			tmp.Close()
			return b
		}
	case 3:
		fs.Path = filepath.Join(dir, "logs")
		readBack = func() []byte { b, _ := os.ReadFile(filepath.Join(dir, "logs", "f.log")); return b }
	case 4:
		if _, err := os.Stat("/dev/full"); err != nil {
			return 0, nil, true
		}
		fs.Path = filepath.Join(dir, "logs")
		os.MkdirAll(fs.Path, 0o700)
		if err := os.Symlink("/dev/full", filepath.Join(fs.Path, "f.log")); err != nil {
			return 0, nil, true
		}
		readBack = func() []byte { return nil }
	case 5:
		os.WriteFile(filepath.Join(dir, "notadir"), []byte("x"), 0o600)
		fs.Path = filepath.Join(dir, "notadir", "logs")
		readBack = func() []byte { return nil }
	}
	res, _ = processOn(fs, c, nil)
	return res, intsOf(readBack()), false
}
func litF(c Case, res int, got []int) string {
	return fmt.Sprintf("(%s, CF (Build_fcase %s %s %s (Build_fobs %s %s)))", hc.N(c.ID), hc.N(c.FKind), hc.N(c.Fmt), tableLit(c.Table), hc.N(res), nlist(got))
}

// ---------- h ----------
type hobs struct {
	Arm       int   `json:"arm"`
	Delivered bool  `json:"delivered"`
	Same      bool  `json:"same"`
	Latency   int64 `json:"latency_us"`
}

// the configured timeout, and its value in the model's unit (microseconds, rounded down: "returned a timeout error before that" stays certain)
func (c Case) timeoutDur() time.Duration {
	if c.TimeoutNs > 0 {
		return time.Duration(c.TimeoutNs)
	}
	return time.Duration(c.Timeout) * time.Millisecond
}
func (c Case) timeoutUs() int64 { return int64(c.timeoutDur() / time.Microsecond) }

func execH(c Case) hobs {
	prefill := &el.Event{Type: "prefill"}
	e := &el.Event{Type: "t"}
	var ch chan *el.Event
	var got []*el.Event
	var gmu sync.Mutex
	stop := make(chan struct{})
	var wg sync.WaitGroup
	recv := func(after time.Duration, n int) {
		wg.Add(1)
		ready := make(chan struct{})
		go func() {
			defer wg.Done()
			close(ready)
			if after > 0 {
				select {
				case <-time.After(after):
				case <-stop:
					return
				}
			}
			for i := 0; i < n; i++ {
				select {
				case x := <-ch:
					gmu.Lock()
					got = append(got, x)
					gmu.Unlock()
				case <-stop:
					return
				}
			}
		}()
		<-ready
	}
	at := time.Duration(c.ChanAt) * time.Millisecond
	switch c.Chan {
	case "empty":
		ch = make(chan *el.Event, 1)
	case "waiting":
		ch = make(chan *el.Event)
		recv(0, 1)
		time.Sleep(5 * time.Millisecond) // let the receiver park on the channel
	case "full":
		ch = make(chan *el.Event, 1)
		ch <- prefill
	case "nobody":
		ch = make(chan *el.Event)
	case "drained":
		ch = make(chan *el.Event, 1)
		ch <- prefill
		recv(at, 1)
	case "arrives":
		ch = make(chan *el.Event)
		recv(at, 1)
	}
	cs, err := channel.NewChannelSink(ch, c.timeoutDur())
	if err != nil {
		panic(err)
	}
	ctx := context.Background()
	var cancel context.CancelFunc = func() {}
	switch c.Ctx {
	case "done":
		ctx, cancel = context.WithCancel(ctx)
		cancel()
	case "live":
		ctx, cancel = context.WithCancel(ctx)
	case "done-past-deadline":
		ctx, cancel = context.WithDeadline(ctx, time.Now().Add(-time.Hour))
	case "done-eof", "done-private", "done-wrapped-deadline":
		// a context implementation that is done and whose Err() is not one of the two context sentinels
		done := make(chan struct{})
		close(done)
		ctx = &customCtx{Context: ctx, done: done, err: map[string]error{"done-eof": io.EOF, "done-private": &privateErr{"ctx gone"},
			"done-wrapped-deadline": fmt.Errorf("budget: %w", context.DeadlineExceeded)}[c.Ctx]}
	case "cancel":
		ctx, cancel = context.WithCancel(ctx)
		tm := time.AfterFunc(time.Duration(c.CtxAt)*time.Millisecond, cancel)
		defer tm.Stop()
	case "deadline":
		ctx, cancel = context.WithTimeout(ctx, time.Duration(c.CtxAt)*time.Millisecond)
	}
	defer cancel()
	t0 := time.Now()
	out, perr := cs.Process(ctx, e)
	lat := time.Since(t0)
	close(stop)
	wg.Wait()
	// whatever is still buffered
	for {
		select {
		case x := <-ch:
			got = append(got, x)
			continue
		default:
		}
		break
	}
	o := hobs{Latency: lat.Microseconds(), Arm: 3}
	switch {
	case perr == nil && out == nil:
		o.Arm = 0
	case perr != nil && out == nil && ctx.Err() != nil && errors.Is(perr, ctx.Err()):
		o.Arm = 1
	case perr != nil && out == nil && strings.Contains(perr.Error(), "chan write timeout"):
		o.Arm = 2
	}
	n := 0
	for _, x := range got {
		if x != prefill {
			n++
			o.Delivered = true
			o.Same = x == e
		}
	}
	if n > 1 {
		o.Same = false
	}
	return o
}

type customCtx struct {
	context.Context
	done chan struct{}
	err  error
}

func (c *customCtx) Done() <-chan struct{} { return c.done }
func (c *customCtx) Err() error            { return c.err }

func optZus(v int) string {
	if v < 0 {
		return "None"
	}
	return "(Some " + hc.Z(int64(v)*1000) + ")"
}
func optZ(v int) string {
	if v < 0 {
		return "None"
	}
	return "(Some " + hc.Z(int64(v)) + ")"
}
func hParams(c Case) (chanAt, ctxAt int) {
	switch c.Chan {
	case "empty", "waiting":
		chanAt = 0
	case "full", "nobody":
		chanAt = -1
	default:
		chanAt = c.ChanAt
	}
	switch c.Ctx {
	case "none", "live":
		ctxAt = -1
	case "done", "done-past-deadline", "done-eof", "done-private", "done-wrapped-deadline":
		ctxAt = 0
	default:
		ctxAt = c.CtxAt
	}
	return
}
func litH(c Case, o hobs) string {
	ca, xa := hParams(c)
	return fmt.Sprintf("(%s, CH (Build_hcase %s %s %s %s (Build_hobs %s %s %s %s)))", hc.N(c.ID), hc.Z(c.timeoutUs()), optZus(ca), optZus(xa), hc.Z(int64(c.Slack)*1000),
		hc.N(o.Arm), hc.B(o.Delivered), hc.B(o.Same), hc.Z(o.Latency))
}

// ---------- p: FileSink under RLIMIT_FSIZE (executed in a child process; results come back over a pipe) ----------
type PStep struct {
	Res    int     `json:"res"`
	Deltas [][]int `json:"deltas"`
}
type PReq struct {
	Scratch string `json:"scratch"`
	Cases   []Case `json:"cases"`
}
type PResp struct {
	Steps [][]PStep `json:"steps"` // per case
	Err   string    `json:"err,omitempty"`
}

func recordValue(i, n int) []int {
	v := make([]int, n)
	for j := range v {
		v[j] = 97 + (i*7+j)%26
	}
	if n > 0 {
		v[n-1] = 10
	}
	return v
}

func snapshotDir(dir string) map[string][]byte {
	m := map[string][]byte{}
	ents, _ := os.ReadDir(dir)
	for _, e := range ents {
		if e.IsDir() {
			continue
		}
		b, _ := os.ReadFile(filepath.Join(dir, e.Name()))
		m[e.Name()] = b
	}
	return m
}

// fsizeChild runs in the re-executed child: it alone lives under the lowered RLIMIT_FSIZE
func fsizeChild() {
	var req PReq
	if err := json.NewDecoder(os.Stdin).Decode(&req); err != nil {
		fmt.Fprintln(os.Stderr, err)
		os.Exit(2)
	}
	signal.Ignore(syscall.SIGXFSZ) // EFBIG comes with SIGXFSZ, which would kill the process
	var old syscall.Rlimit
	resp := PResp{}
	if err := syscall.Getrlimit(syscall.RLIMIT_FSIZE, &old); err != nil {
		resp.Err = err.Error()
	}
	for ci, c := range req.Cases {
		if resp.Err != "" {
			break
		}
		dir := filepath.Join(req.Scratch, fmt.Sprintf("p%04d", ci))
		if err := os.MkdirAll(dir, 0o700); err != nil {
			resp.Err = err.Error()
			break
		}
		fs := &el.FileSink{Path: dir, FileName: "f.log"}
		if c.RotMode >= 1 {
			fs.MaxBytes = 1 << 20
		}
		if c.RotMode == 2 {
			fs.TimestampOnlyOnRotate = true
		}
		if err := syscall.Setrlimit(syscall.RLIMIT_FSIZE, &syscall.Rlimit{Cur: uint64(c.Limit), Max: old.Max}); err != nil {
			resp.Err = err.Error()
			break
		}
		var steps []PStep
		prev := snapshotDir(dir)
		for i, n := range c.Lens {
			e := &el.Event{Type: "t", Formatted: map[string][]byte{el.JSONFormat: bytesOf(recordValue(i, n))}}
			var out *el.Event
			var err error
			panicked := false
			func() {
				defer func() {
					if r := recover(); r != nil {
						panicked = true
					}
				}()
				out, err = fs.Process(context.Background(), e)
			}()
			st := PStep{Res: classify(out, err, panicked), Deltas: [][]int{}}
			now := snapshotDir(dir)
			var names []string
			for k := range now {
				names = append(names, k)
			}
			sort.Strings(names)
			for _, k := range names {
				d := now[k]
				if p, ok := prev[k]; ok && len(p) <= len(d) {
					d = d[len(p):]
				}
				if len(d) > 0 {
					st.Deltas = append(st.Deltas, intsOf(d))
				}
			}
			prev = now
			steps = append(steps, st)
		}
		resp.Steps = append(resp.Steps, steps)
	}
	_ = syscall.Setrlimit(syscall.RLIMIT_FSIZE, &old)
	json.NewEncoder(os.Stdout).Encode(resp)
}

func execP(cases []Case, scratch string) ([][]PStep, error) {
	dir, err := os.MkdirTemp(scratch, "fsize")
	if err != nil {
		return nil, err
	}
	defer os.RemoveAll(dir)
	req, _ := json.Marshal(PReq{Scratch: dir, Cases: cases})
	cmd := exec.Command(os.Args[0], "-fsize-child")
	cmd.Stdin = strings.NewReader(string(req))
	cmd.Stderr = os.Stderr
	outb, err := cmd.Output()
	if err != nil {
		return nil, fmt.Errorf("child: %v", err)
	}
	var resp PResp
	if err := json.Unmarshal(outb, &resp); err != nil {
		return nil, err
	}
	if resp.Err != "" {
		return nil, errors.New(resp.Err)
	}
	return resp.Steps, nil
}

func litP(c Case, steps []PStep) string {
	s := make([]string, len(steps))
	for i, st := range steps {
		ds := make([]string, len(st.Deltas))
		for j, d := range st.Deltas {
			ds[j] = nlist(d)
		}
		s[i] = fmt.Sprintf("(%s, Build_pobs %s %s)", nlist(recordValue(i, c.Lens[i])), hc.N(st.Res), hc.List(ds))
	}
	return fmt.Sprintf("(%s, CP (Build_pcase %s %s\n %s))", hc.N(c.ID), hc.N(c.Limit), hc.B(c.RotMode == 1), hc.List(s))
}

func genP(e *emitter, r *hc.Rand, nRandom int) {
	var cases []Case
	lens := []int{8, 10, 16, 24, 30}
	var rec func(cur []int)
	rec = func(cur []int) {
		if len(cur) > 0 {
			for mode := 0; mode <= 2; mode++ {
				cases = append(cases, Case{Kind: "p", Gen: "exhaustive", Limit: 24, RotMode: mode, Lens: append([]int(nil), cur...)})
			}
		}
		if len(cur) == 3 {
			return
		}
		for _, l := range lens {
			rec(append(cur, l))
		}
	}
	rec(nil)
	for i := 0; i < nRandom; i++ {
		c := Case{Kind: "p", Gen: "random", Limit: 20 + r.Intn(60), RotMode: r.Intn(3)}
		for k := 1 + r.Intn(6); k > 0; k-- {
			c.Lens = append(c.Lens, 1+r.Intn(c.Limit+10))
		}
		cases = append(cases, c)
	}
	e.runP(cases)
}

func (e *emitter) runP(cases []Case) {
	if len(cases) == 0 {
		return
	}
	for i := range cases {
		if cases[i].ID == 0 {
			cases[i].ID = e.id()
		}
	}
	steps, err := execP(cases, e.scratch)
	if err != nil {
		fmt.Fprintf(os.Stderr, "sinksh: the RLIMIT_FSIZE child could not run: %v\n", err)
		e.mu.Lock()
		e.stats["p:skipped(child failed: "+err.Error()+")"] += len(cases)
		e.mu.Unlock()
		return
	}
	for i, c := range cases {
		retried, partialOK := false, false
		for _, st := range steps[i] {
			if len(st.Deltas) > 1 {
				retried = true
				if st.Res == 0 {
					partialOK = true
				}
			}
		}
		stat := fmt.Sprintf("p:mode%d", c.RotMode)
		if partialOK {
			stat += ":success-after-partial-write"
		} else if retried {
			stat += ":retried-into-fresh-file"
		}
		e.record(c, litP(c, steps[i]), stat, true)
	}
}

// ---------- g: simultaneous ChannelSink.Process calls, fewer free slots than callers, nobody draining ----------
type gobs struct {
	Arms        []int   `json:"arms"`         // per caller (index = caller), -1 = never returned
	Lats        []int64 `json:"latencies_us"` // per caller, from its own entry
	Hung        int     `json:"hung"`
	DeliveredOK bool    `json:"delivered_ok"`
	Early       bool    `json:"early"`
	Latency     int64   `json:"latency_us"`
	Dump        string  `json:"goroutine_dump,omitempty"`
}

// execG repeats the round until one shows an anomaly (a caller that never returned, a wrong arm, a wrong channel content) or Rounds
// rounds have passed; the callers are released through a spin barrier so that they enter Process within nanoseconds of each other
func execG(c Case) (o gobs, rounds int) {
	n := c.Rounds
	if n <= 0 {
		n = 1
	}
	if c.SlackMs > 0 {
		// certain-direction latency cases: a late return caused by the machine (not by the sink) does not repeat; up to three attempts,
		// the first one in which every caller is back within its bound + slack is the observation
		for rounds = 1; rounds <= 3; rounds++ {
			o = execGRound(c)
			late := o.Hung > 0
			for i, l := range o.Lats {
				bound := c.timeoutUs()
				if c.CallerCtx > 0 && i >= c.CtxFrom && int64(c.CallerCtx)*1000 < bound {
					bound = int64(c.CallerCtx) * 1000
				}
				if l > bound+int64(c.SlackMs)*1000 {
					late = true
				}
			}
			if !late {
				return o, rounds
			}
		}
		return o, 3
	}
	for rounds = 1; rounds <= n; rounds++ {
		o = execGRound(c)
		oks := 0
		for _, a := range o.Arms {
			if a == 0 {
				oks++
			}
		}
		lim := c.Free
		if c.N < lim {
			lim = c.N
		}
		if o.Hung > 0 || !o.DeliveredOK || o.Early || oks > lim {
			return
		}
	}
	rounds = n
	return
}

func execGRound(c Case) gobs {
	prefill := &el.Event{Type: "prefill"}
	ch := make(chan *el.Event, c.Free+1)
	ch <- prefill
	cs, err := channel.NewChannelSink(ch, c.timeoutDur())
	if err != nil {
		panic(err)
	}
	type ret struct {
		i   int
		arm int
		lat time.Duration
	}
	evs := make([]*el.Event, c.N)
	rets := make(chan ret, c.N)
	var arrived int32
	var ready sync.WaitGroup
	for i := 0; i < c.N; i++ {
		evs[i] = &el.Event{Type: "t"}
		ready.Add(1)
		go func(i int) {
			ready.Done()
			atomic.AddInt32(&arrived, 1)
			for atomic.LoadInt32(&arrived) < int32(c.N) {
				runtime.Gosched()
			}
			if c.Stagger > 0 {
				time.Sleep(time.Duration(i*c.Stagger) * time.Millisecond)
			}
			t0 := time.Now()
			ctx, cancel := context.Background(), context.CancelFunc(func() {})
			if c.CallerCtx > 0 && i >= c.CtxFrom {
				ctx, cancel = context.WithTimeout(ctx, time.Duration(c.CallerCtx)*time.Millisecond)
			}
			out, perr := cs.Process(ctx, evs[i])
			cancel()
			lat := time.Since(t0)
			arm := 3
			switch {
			case perr == nil && out == nil:
				arm = 0
			case perr != nil && out == nil && errors.Is(perr, context.DeadlineExceeded):
				arm = 1
			case perr != nil && out == nil && strings.Contains(perr.Error(), "chan write timeout"):
				arm = 2
			}
			rets <- ret{i, arm, lat}
		}(i)
	}
	ready.Wait()
	o := gobs{Arms: make([]int, c.N), Lats: make([]int64, c.N), DeliveredOK: true}
	for i := range o.Arms {
		o.Arms[i] = -1
	}
	okCaller := map[int]bool{}
	watchdog := time.After(50*(c.timeoutDur()+20*time.Millisecond) + time.Second + time.Duration(c.N*c.Stagger)*time.Millisecond)
collect:
	for got := 0; got < c.N; got++ {
		select {
		case r := <-rets:
			o.Arms[r.i], o.Lats[r.i] = r.arm, r.lat.Microseconds()
			if r.arm == 0 {
				okCaller[r.i] = true
			}
			if r.arm == 2 && r.lat < c.timeoutDur() {
				o.Early = true
			}
			if r.lat.Microseconds() > o.Latency {
				o.Latency = r.lat.Microseconds()
			}
		case <-watchdog:
			o.Hung = c.N - got
			buf := make([]byte, 1<<15)
			o.Dump = string(buf[:runtime.Stack(buf, true)])
			break collect
		}
	}
	// what the channel holds: the prefill and exactly the events of the callers that reported success
	seen := map[*el.Event]bool{}
	for {
		select {
		case x := <-ch:
			if x == prefill {
				continue
			}
			idx := -1
			for i, e := range evs {
				if e == x {
					idx = i
				}
			}
			if idx < 0 || seen[x] || (o.Hung == 0 && !okCaller[idx]) {
				o.DeliveredOK = false
			}
			seen[x] = true
			continue
		default:
		}
		break
	}
	if o.Hung == 0 && len(seen) != len(okCaller) {
		o.DeliveredOK = false
	}
	return o
}
func litG(c Case, o gobs) string {
	ctxs := make([]string, c.N)
	for i := range ctxs {
		ctxs[i] = "None"
		if c.CallerCtx > 0 && i >= c.CtxFrom {
			ctxs[i] = "Some " + hc.Z(int64(c.CallerCtx)*1000)
		}
	}
	slack := 50*(c.timeoutUs()+20000) - c.timeoutUs() // the generous bound of the rounds that only look for hangs
	if c.SlackMs > 0 {
		slack = int64(c.SlackMs) * 1000
	}
	var calls []string
	for i, a := range o.Arms {
		if a >= 0 {
			calls = append(calls, fmt.Sprintf("(%s,%s)", hc.N(a), hc.Z(o.Lats[i])))
		}
	}
	return fmt.Sprintf("(%s, CG (Build_gcase %s %s %s %s (Build_gobs %s %s %s %s)))", hc.N(c.ID), hc.N(c.Free), hc.Z(c.timeoutUs()), hc.List(ctxs), hc.Z(slack),
		hc.List(calls), hc.N(o.Hung), hc.B(o.DeliveredOK), hc.B(o.Early))
}

func genG(e *emitter, rounds int) {
	for _, free := range []int{0, 1, 2, 3} {
		for _, n := range []int{4, 8} {
			e.run(Case{Kind: "g", Gen: "scenarios", Free: free, N: n, Timeout: 5, Rounds: rounds})
		}
	}
	// overlapping (not simultaneous) callers on one shared sink: caller i enters i*stagger ms after the first; every caller's timeout runs
	// from its own entry (an early timeout error = a timer shared between calls)
	for _, free := range []int{0, 1} {
		for _, tmo := range []int{1, 20} {
			e.run(Case{Kind: "g", Gen: "staggered", Free: free, N: 4, Timeout: tmo, Stagger: 4, Rounds: 3})
		}
	}
	// a stalled consumer: the channel is full, nobody reads, 2..4 callers enter (almost) together.  They wait CONCURRENTLY: every one of
	// them is back with the timeout error (or its own context's error) within the shorter of the two + slack of ITS OWN entry.  A caller
	// that needs 2 x, 3 x that was queued behind the others (certain direction: slack = max(100 ms, 0.6 x bound), the bound is large
	// against scheduler noise).  The cases mostly sleep: run them side by side.
	var stalled []Case
	for _, n := range []int{2, 3, 4} {
		for _, stagger := range []int{0, 5} {
			stalled = append(stalled,
				// timeout 400 ms: flagged only when a caller is back later than 720 ms after ITS entry (queued callers need 800, 1200, ...)
				Case{Kind: "g", Gen: "stalled-consumer", Free: 0, N: n, Timeout: 400, Stagger: stagger, SlackMs: 320},
				// every caller's own context ends after 50 ms (timeout 400 ms): flagged when later than 250 ms
				Case{Kind: "g", Gen: "stalled-consumer", Free: 0, N: n, Timeout: 400, CallerCtx: 50, Stagger: stagger, SlackMs: 200},
				// the first caller has no context of its own and waits for the timeout; the others' contexts end at 50 ms: they must not wait for it
				Case{Kind: "g", Gen: "stalled-consumer", Free: 0, N: n, Timeout: 400, CallerCtx: 50, CtxFrom: 1, Stagger: stagger, SlackMs: 200})
		}
	}
	var wg sync.WaitGroup
	for _, c := range stalled {
		c.ID = e.id()
		wg.Add(1)
		go func(c Case) { defer wg.Done(); e.run(c) }(c)
	}
	wg.Wait()
}

// ---------- emitter ----------
type emitter struct {
	cf      *hc.CaseFile
	side    *os.File
	mu      sync.Mutex
	next    int
	stats   map[string]int
	sigs    map[string]bool
	nontriv int
	scratch string
}

func (e *emitter) id() int {
	e.mu.Lock()
	defer e.mu.Unlock()
	e.next++
	return e.next
}
func (e *emitter) record(c Case, lit string, stat string, nontrivial bool) {
	e.mu.Lock()
	defer e.mu.Unlock()
	js, _ := json.Marshal(c)
	fmt.Fprintf(e.side, "%s\n", js)
	if err := e.cf.Add(lit); err != nil {
		panic(err)
	}
	e.stats["cases"]++
	e.stats["kind:"+c.Kind]++
	e.stats[stat]++
	c.ID = 0
	sig, _ := json.Marshal(c)
	if !e.sigs[string(sig)] {
		e.sigs[string(sig)] = true
		if nontrivial {
			e.nontriv++
		}
	}
}
func (e *emitter) run(c Case) {
	if c.ID == 0 {
		c.ID = e.id()
	}
	switch c.Kind {
	case "w":
		res, calls := execW(c)
		e.record(c, litW(c, res, calls), fmt.Sprintf("w:%s:res%d:calls%d", c.Beh, res, len(calls))+map[bool]string{true: ":error-values", false: ""}[c.Err != ""], len(calls) > 0)
	case "c":
		results, stream, order, overlap := execC(c, e.scratch)
		dest := "c"
		if c.FKind == 3 {
			dest = "c(FileSink)"
		}
		e.record(c, litC(c, results, stream, order, overlap), fmt.Sprintf("%s:threads%02d", dest, threadsOf(c)), len(order) > 1)
	case "f":
		res, got, skipped := execF(c, e.scratch)
		if skipped {
			e.mu.Lock()
			e.stats["f:skipped(no /dev/full)"]++
			e.mu.Unlock()
			return
		}
		e.record(c, litF(c, res, got), fmt.Sprintf("f:kind%d:res%d", c.FKind, res)+map[bool]string{true: ":ctx-" + c.CtxKind, false: ""}[c.CtxKind != ""], len(got) > 0 || res != 0)
	case "g":
		o, rounds := execG(c)
		e.mu.Lock()
		e.stats["g:rounds"] += rounds
		e.mu.Unlock()
		stat := fmt.Sprintf("g:free%d:n%02d", c.Free, c.N)
		if c.SlackMs > 0 {
			stat = fmt.Sprintf("g:stalled-consumer:n%d:slowest-caller-%dms-of-%dms", c.N, o.Latency/1000/50*50, c.Timeout)
		}
		if o.Hung > 0 {
			stat += ":HUNG"
		}
		e.record(c, litG(c, o), stat, true)
	case "h":
		o := execH(c)
		ca, xa := hParams(c)
		amb := ""
		if ambiguous(int(c.timeoutUs()/1000), ca, xa, c.Slack) {
			amb = ":ambiguous"
		}
		e.record(c, litH(c, o), fmt.Sprintf("h:arm%d%s", o.Arm, amb), true)
	}
}
func threadsOf(c Case) int {
	m := map[int]bool{}
	for _, cl := range c.Calls {
		m[cl.N/1000] = true
	}
	return len(m)
}

// more than one arm within the slack of the earliest
func ambiguous(timeout, chanAt, ctxAt, slack int) bool {
	ts := []int{timeout}
	if chanAt >= 0 {
		ts = append(ts, chanAt)
	}
	if ctxAt >= 0 {
		ts = append(ts, ctxAt)
	}
	sort.Ints(ts)
	return len(ts) > 1 && ts[1] <= ts[0]+slack
}

// ---------- generators ----------
func valueVariants(f int) [][]int {
	return [][]int{{}, {f*10 + 1}, {f*10 + 1, f*10 + 2, f*10 + 3, 10}}
}

func genW(e *emitter) {
	behs := []string{"ok", "fail0", "failhalf", "failfull", "shorthalf", "short0", "over"}
	var tables [][]Entry
	var rec func(f int, cur []Entry)
	rec = func(f int, cur []Entry) {
		if f > 3 {
			tables = append(tables, append([]Entry(nil), cur...))
			return
		}
		rec(f+1, cur)
		for _, v := range valueVariants(f) {
			rec(f+1, append(cur, Entry{f, v}))
		}
	}
	rec(1, nil)
	for _, t := range tables {
		for fm := 0; fm <= 4; fm++ {
			for _, b := range behs {
				e.run(Case{Kind: "w", Gen: "exhaustive", Fmt: fm, Table: t, Beh: b})
			}
		}
	}
	full := []Entry{{1, []int{11, 12}}, {2, []int{21, 22}}}
	for fm := 0; fm <= 2; fm++ {
		e.run(Case{Kind: "w", Gen: "special", Fmt: fm, Table: full, Beh: "ok", WNil: true})
		e.run(Case{Kind: "w", Gen: "special", Fmt: fm, Table: full, Beh: "ok", ENil: true})
		e.run(Case{Kind: "w", Gen: "special", Fmt: fm, TabNil: true, Beh: "ok"})
		e.run(Case{Kind: "w", Gen: "special", Fmt: fm, Table: full, Beh: "ok", WNil: true, ENil: true})
	}
	// the identity of the writer's error: every error value x {nothing, part, all of the bytes written before it} x format unset / named
	for _, name := range errNames() {
		for _, b := range []string{"fail0", "failhalf", "failfull"} {
			for _, t := range [][]Entry{{{1, []int{11, 12, 13, 10}}, {2, []int{21, 22, 23, 24, 25}}}, {{1, []int{11}}, {2, []int{21}}}} {
				for _, fm := range []int{0, 2} {
					e.run(Case{Kind: "w", Gen: "error-values", Fmt: fm, Table: t, Beh: b, Err: name})
				}
			}
		}
	}
	// the caller's context: none of it may change what is written or reported
	for _, ck := range ctxKinds[1:] {
		for _, b := range []string{"ok", "fail0", "shorthalf"} {
			for _, t := range [][]Entry{nil, {{1, []int{11, 12, 13, 10}}, {2, []int{21, 22}}}, {{1, []int{}}, {2, []int{21}}}} {
				for _, fm := range []int{0, 2, 4} {
					e.run(Case{Kind: "w", Gen: "contexts", Fmt: fm, Table: t, Beh: b, CtxKind: ck})
				}
			}
		}
	}
	// look-alike twins of the format name: each twin carries its own bytes; exactly the configured one is written, and a table that
	// carries only the twins does not satisfy a sink configured for the original
	var twins []Entry
	for f := 1; f < len(fmtName); f++ {
		if f == 4 {
			continue
		}
		twins = append(twins, Entry{f, []int{100 + f, 50 + f, 10}})
	}
	for fm := 0; fm < len(fmtName); fm++ {
		e.run(Case{Kind: "w", Gen: "format-twins", Fmt: fm, Table: twins, Beh: "ok"})
		var without []Entry
		for _, t := range twins {
			if t.F != fm && !(fm == 0 && t.F == 1) {
				without = append(without, t)
			}
		}
		e.run(Case{Kind: "w", Gen: "format-twins", Fmt: fm, Table: without, Beh: "ok"})
		e.run(Case{Kind: "f", Gen: "format-twins", FKind: 3, Fmt: fm, Table: twins})
		e.run(Case{Kind: "f", Gen: "format-twins", FKind: 3, Fmt: fm, Table: without})
	}
	// value sizes around 64 / 128 and 1000+, and two values sharing a 64-byte prefix
	mk := func(n, salt int) []int {
		v := make([]int, n)
		for i := range v {
			v[i] = 33 + (i*7)%90
		}
		if n > 0 {
			v[n-1] = salt
		}
		return v
	}
	for _, n := range []int{63, 64, 65, 127, 128, 129, 1000} {
		for _, b := range []string{"ok", "shorthalf", "failhalf", "failfull"} {
			if n == 1000 && b != "ok" && b != "failhalf" {
				continue
			}
			e.run(Case{Kind: "w", Gen: "sizes", Fmt: 0, Table: []Entry{{1, mk(n, 10)}, {2, mk(n, 11)}}, Beh: b, WFunc: b == "ok" && n%2 == 1})
			e.run(Case{Kind: "w", Gen: "sizes", Fmt: 2, Table: []Entry{{1, mk(n, 10)}, {2, mk(n, 11)}}, Beh: b})
		}
	}
	// one sink used again after a call whose Write took a prefix and failed / was short / panicked / failed after taking everything:
	// the later call writes exactly its own value (a sink must not carry anything over)
	for _, seq := range [][]string{{"failhalf"}, {"shorthalf"}, {"fail0", "ok"}, {"failfull"}, {"over"}, {"failhalf", "failhalf", "ok"}} {
		for _, b := range []string{"ok", "failhalf"} {
			for _, name := range []string{"", "eof", "wrap:eagain"} {
				e.run(Case{Kind: "w", Gen: "sequence", Fmt: 0, Table: []Entry{{1, []int{11, 12, 13, 10}}, {2, []int{21}}}, Beh: b, Seq: seq, Err: name})
			}
		}
	}
	// a long value (one Write call whatever the size)
	long := make([]int, 5000)
	for i := range long {
		long[i] = 32 + i%90
	}
	for _, b := range []string{"ok", "failhalf", "shorthalf"} {
		e.run(Case{Kind: "w", Gen: "special", Fmt: 0, Table: []Entry{{1, long}}, Beh: b})
	}
}

func concValue(t, k int, r *hc.Rand) []int {
	v := []int{60, t, k}
	for i := r.Intn(12); i > 0; i-- {
		v = append(v, 97+r.Intn(26))
	}
	return append(v, 62)
}

func genC(e *emitter, r *hc.Rand, rounds int) {
	for round := 0; round < rounds; round++ {
		for nt := 1; nt <= 16; nt++ {
			c := Case{Kind: "c", Gen: "conc", Fmt: []int{0, 0, 1, 2}[r.Intn(4)], CtxKind: ctxKinds[r.Intn(len(ctxKinds))]}
			for t := 1; t <= nt; t++ {
				calls := 1 + r.Intn(6)
				for k := 1; k <= calls; k++ {
					cl := Call{N: t*1000 + k}
					if r.Chance(1, 8) {
						cl.A = true
					} else {
						cl.V = concValue(t, k, r)
					}
					c.Calls = append(c.Calls, cl)
				}
			}
			e.run(c)
			if nt%3 == 1 {
				fc := c
				fc.FKind = 3
				e.run(fc)
			}
		}
	}
}

func genF(e *emitter) {
	tables := [][]Entry{
		nil,
		{{1, []int{11, 12, 10}}},
		{{2, []int{21, 22, 23}}},
		{{1, []int{11, 12, 10}}, {2, []int{21, 22, 23}}},
		{{1, []int{}}, {2, []int{21}}},
		{{1, []int{11}}, {2, []int{}}, {3, []int{31, 32}}},
	}
	for kind := 0; kind <= 9; kind++ {
		for _, fm := range []int{0, 1, 2, 4} {
			for _, t := range tables {
				e.run(Case{Kind: "f", Gen: "exhaustive", FKind: kind, Fmt: fm, Table: t})
			}
		}
	}
	// os.Stdout / os.Stderr re-pointed between two calls on one sink (healthy, /dev/full and closed destinations for the second call)
	for _, kind := range []int{1, 2, 6, 7, 8, 9} {
		for _, fm := range []int{0, 1, 2, 4} {
			for _, t := range tables {
				e.run(Case{Kind: "f", Gen: "redirected", FKind: kind, Fmt: fm, Table: t, Redirect: true})
			}
		}
	}
	for _, ck := range ctxKinds[1:] {
		for kind := 0; kind <= 9; kind++ {
			for _, fm := range []int{0, 2} {
				for _, t := range [][]Entry{tables[3], tables[4]} {
					e.run(Case{Kind: "f", Gen: "contexts", FKind: kind, Fmt: fm, Table: t, CtxKind: ck})
				}
			}
		}
	}
}

var subMilliRepeat = 12

func genH(e *emitter, repeat int) {
	const short, long = 30, 5000
	type ch struct {
		k  string
		at int
	}
	chans := []ch{{"empty", 0}, {"waiting", 0}, {"full", -1}, {"nobody", -1}, {"drained", short}, {"arrives", short}, {"drained", long}, {"arrives", long}}
	type cx struct {
		k  string
		at int
	}
	ctxs := []cx{{"none", -1}, {"live", -1}, {"done", 0}, {"done-past-deadline", 0}, {"done-eof", 0}, {"done-private", 0}, {"done-wrapped-deadline", 0}, {"cancel", short}, {"deadline", short}, {"cancel", long}, {"deadline", long}}
	var cases []Case
	for rep := 0; rep < repeat; rep++ {
		for _, c := range chans {
			for _, x := range ctxs {
				for _, to := range []int{short, long} {
					min := to
					if c.at >= 0 && c.at < min {
						min = c.at
					}
					if x.at >= 0 && x.at < min {
						min = x.at
					}
					if min > short {
						continue // nothing would happen for seconds
					}
					cases = append(cases, Case{Kind: "h", Gen: "scenarios", Timeout: to, Chan: c.k, ChanAt: c.at, Ctx: x.k, CtxAt: x.at, Slack: 1000})
				}
			}
		}
	}
	// a tiny timeout (1 ms): the timeout arm still waits for it; a ready channel is still taken when it is ready first by a margin
	for _, k := range []string{"full", "nobody", "drained", "arrives"} {
		at := -1
		if k == "drained" || k == "arrives" {
			at = long
		}
		for _, x := range []cx{{"none", -1}, {"live", -1}, {"cancel", long}} {
			cases = append(cases, Case{Kind: "h", Gen: "tiny-timeout", Timeout: 1, Chan: k, ChanAt: at, Ctx: x.k, CtxAt: x.at, Slack: 1000})
		}
	}
	// sub-millisecond and non-integral timeouts: 1 ns, 500 us, 999 us, 1.5 ms.  A timeout error may never come back before the configured
	// timeout has elapsed (measured around the call: certain); with room in the channel the hand-over is what happens
	for rep := 0; rep < subMilliRepeat; rep++ {
		for _, ns := range []int64{1, 500_000, 999_000, 1_500_000} {
			for _, k := range []string{"empty", "waiting", "full", "nobody"} {
				for _, x := range []string{"none", "live"} {
					if rep > 2 && (k == "full" || k == "nobody") {
						continue
					}
					cases = append(cases, Case{Kind: "h", Gen: "sub-millisecond", TimeoutNs: ns, Chan: k, ChanAt: -1, Ctx: x, CtxAt: -1, Slack: 1000})
				}
			}
		}
	}
	// the largest timeout there is (time.Duration(math.MaxInt64), "wait for ever") and a 100-year one: the timer arm is simply never ready
	for _, ns := range []int64{int64(^uint64(0) >> 1), int64(^uint64(0)>>1) - 1, int64(100 * 365 * 24 * time.Hour)} {
		for _, sc := range []Case{{Chan: "empty", ChanAt: -1, Ctx: "none", CtxAt: -1}, {Chan: "waiting", ChanAt: -1, Ctx: "live", CtxAt: -1},
			{Chan: "full", ChanAt: -1, Ctx: "cancel", CtxAt: short}, {Chan: "nobody", ChanAt: -1, Ctx: "deadline", CtxAt: short},
			{Chan: "drained", ChanAt: short, Ctx: "none", CtxAt: -1}, {Chan: "arrives", ChanAt: short, Ctx: "cancel", CtxAt: long}, {Chan: "full", ChanAt: -1, Ctx: "done", CtxAt: 0}} {
			sc.Kind, sc.Gen, sc.TimeoutNs, sc.Slack = "h", "extreme-timeout", ns, 1000
			cases = append(cases, sc)
		}
	}
	// the constructor refuses what Process could not honour: no channel, a timeout of 0 or less
	if _, err := channel.NewChannelSink(nil, time.Second); err == nil {
		fmt.Fprintln(os.Stderr, "sinksh: NewChannelSink accepted a nil channel")
		os.Exit(1)
	}
	for _, d := range []time.Duration{0, -time.Second} {
		if _, err := channel.NewChannelSink(make(chan *el.Event, 1), d); err == nil {
			fmt.Fprintf(os.Stderr, "sinksh: NewChannelSink accepted the timeout %v\n", d)
			os.Exit(1)
		}
	}
	// a few at a time: each scenario sleeps for up to ~30 ms
	sem := make(chan struct{}, 6)
	var wg sync.WaitGroup
	for _, c := range cases {
		c.ID = e.id()
		wg.Add(1)
		sem <- struct{}{}
		go func(c Case) {
			defer wg.Done()
			defer func() { <-sem }()
			e.run(c)
		}(c)
	}
	wg.Wait()
}

func runCorpus(e *emitter, path string) {
	data, err := os.ReadFile(path)
	if err != nil {
		return
	}
	for _, line := range strings.Split(string(data), "\n") {
		line = strings.TrimSpace(line)
		if line == "" || strings.HasPrefix(line, "#") {
			continue
		}
		var c Case
		if err := json.Unmarshal([]byte(line), &c); err != nil {
			fmt.Fprintf(os.Stderr, "corpus: %v\n", err)
			continue
		}
		c.Gen = "corpus"
		c.ID = 0
		if c.Kind == "p" {
			e.runP([]Case{c})
			continue
		}
		e.run(c)
	}
}

func main() {
	out := flag.String("out", ".", "output directory")
	prefix := flag.String("prefix", "cases", "case file prefix")
	modes := flag.String("modes", "w,c,f,h,p,g", "generators")
	concRounds := flag.Int("conc-rounds", 2, "rounds of 1..16 concurrent threads")
	chanRepeat := flag.Int("chan-repeat", 1, "repetitions of the channel scenarios")
	chanRounds := flag.Int("chan-rounds", 120, "rounds per concurrent ChannelSink configuration")
	perShard := flag.Int("per-shard", 250, "cases per file")
	corpus := flag.String("corpus", "", "corpus file (JSON lines), run first")
	replay := flag.String("replay", "", "replay one JSON case and print its observations")
	partialRandom := flag.Int("partial-random", 60, "random record-size sequences for the part-way failing write cases")
	child := flag.Bool("fsize-child", false, "internal: run FileSink cases read from stdin under RLIMIT_FSIZE")
	flag.Parse()
	if *child {
		fsizeChild()
		return
	}

	scratch, err := os.MkdirTemp(*out, "scratch")
	if err != nil {
		panic(err)
	}
	defer os.RemoveAll(scratch)

	if *replay != "" {
		data, err := os.ReadFile(*replay)
		if err != nil {
			fmt.Fprintln(os.Stderr, err)
			os.Exit(2)
		}
		var wrapper struct {
			Case Case `json:"case"`
		}
		if err := json.Unmarshal(data, &wrapper); err != nil || wrapper.Case.Kind == "" {
			_ = json.Unmarshal(data, &wrapper.Case)
		}
		c := wrapper.Case
		js, _ := json.Marshal(c)
		fmt.Printf("case %s\n", js)
		switch c.Kind {
		case "w":
			res, calls := execW(c)
			fmt.Printf("  -> result %d (0 ok, 1 error, 2 panic), Write calls: %v\n", res, calls)
		case "c":
			results, stream, order, overlap := execC(c, scratch)
			fmt.Printf("  -> results %v\n  stream %v\n  whole values in stream order %v, overlapping Write calls: %v\n", results, stream, order, overlap)
		case "f":
			res, got, skipped := execF(c, scratch)
			fmt.Printf("  -> result %d, bytes at the destination %v (skipped: %v)\n", res, got, skipped)
		case "h":
			o := execH(c)
			js, _ := json.Marshal(o)
			fmt.Printf("  -> %s (arm 0 sent, 1 context error, 2 timeout error)\n", js)
		case "g":
			o, rounds := execG(c)
			fmt.Printf("  rounds run: %d\n", rounds)
			d := o.Dump
			o.Dump = ""
			js, _ := json.Marshal(o)
			fmt.Printf("  -> %s (arms per caller: 0 sent, 2 timeout error; hung = callers that never returned)\n%s\n", js, d)
		case "p":
			steps, err := execP([]Case{c}, scratch)
			if err != nil {
				fmt.Printf("  child failed: %v\n", err)
				break
			}
			for i, st := range steps[0] {
				fmt.Printf("  record %d %q -> result %d (0 ok, 1 error); bytes added per file in creation order:", i, string(bytesOf(recordValue(i, c.Lens[i]))), st.Res)
				for _, d := range st.Deltas {
					fmt.Printf(" %q", string(bytesOf(d)))
				}
				fmt.Println()
			}
		}
		return
	}

	cf := &hc.CaseFile{Dir: *out, Prefix: *prefix, PerShard: *perShard, Type: "list (N * scase)",
		Header: "From Coq Require Import List NArith ZArith.\nFrom Verif Require Import Sinks Run_Sinks.\nImport ListNotations.",
		Footer: "Definition M := Eval vm_compute in mismatches cases.\nPrint M."}
	side, err := os.Create(*out + "/" + *prefix + ".jsonl")
	if err != nil {
		panic(err)
	}
	e := &emitter{cf: cf, side: side, stats: map[string]int{}, sigs: map[string]bool{}, scratch: scratch}
	r := hc.NewRand(hc.Seed())
	if *corpus != "" {
		runCorpus(e, *corpus)
	}
	for _, m := range strings.Split(*modes, ",") {
		switch m {
		case "w":
			genW(e)
		case "c":
			genC(e, r.Fork(), *concRounds)
		case "f":
			genF(e)
		case "h":
			genH(e, *chanRepeat)
		case "p":
			genP(e, r.Fork(), *partialRandom)
		case "g":
			genG(e, *chanRounds)
		case "":
		default:
			fmt.Fprintf(os.Stderr, "unknown mode %s\n", m)
			os.Exit(2)
		}
	}
	cf.Close()
	side.Close()
	summary := map[string]interface{}{"stats": e.stats, "files": cf.Files, "cases": cf.Total, "distinct_nontrivial": e.nontriv, "panics": []string{}, "seed": hc.Seed(),
		"writer_tables_exhaustive": strings.Contains(*modes, "w")}
	js, _ := json.MarshalIndent(summary, "", " ")
	os.WriteFile(*out+"/"+*prefix+"_summary.json", js, 0o644)
	fmt.Printf("sinksh: %d cases in %d files\n", cf.Total, len(cf.Files))
}
