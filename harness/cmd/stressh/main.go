// stressh — C19 search driver: pipelines composed of the library's own nodes (Filter, JSON formatters, cloudevents
// formatter, encrypt and gated filters, file / writer / channel sinks), nodes shared by several pipelines, several
// pipelines per event type, 2..8 concurrent senders, and concurrent control calls (Broker.Reopen, FileSink rotation and
// Reopen, encrypt.Filter.Rotate, cloudevents Rotate, gated FlushAll).  Built with -race by the engine: the race
// detector's reports are the findings; this program checks output integrity (every sink's output is a sequence of
// complete JSON documents) and that nothing panics.
//
// Output: <out>/stress_summary.json.  All randomness derives from VERIF_SEED.
package main

import (
	"bytes"
	"context"
	"crypto/rand"
	"encoding/base64"
	"encoding/json"
	"flag"
	"fmt"
	"net/url"
	"os"
	"path/filepath"
	"runtime"
	"sort"
	"strings"
	"sync"
	"sync/atomic"
	"time"

	el "github.com/hashicorp/eventlogger"
	"github.com/hashicorp/eventlogger/filters/encrypt"
	"github.com/hashicorp/eventlogger/filters/gated"
	"github.com/hashicorp/eventlogger/formatter_filters/cloudevents"
	"github.com/hashicorp/eventlogger/sinks/channel"
	"github.com/hashicorp/eventlogger/sinks/writer"
	wrapping "github.com/hashicorp/go-kms-wrapping/v2"
	"github.com/hashicorp/go-kms-wrapping/v2/aead"
	"verifharness/hc"
)

// ---------- payloads ----------
type P struct {
	Pub  string `class:"public"`
	Sec  string `class:"secret"`
	Sens string `class:"sensitive"`
	Hm   string `class:"sensitive,hmac-sha256"`
	N    int
}

// gateable payload with classified fields
type GP struct {
	Id    string `class:"public"`
	Flush bool
	Sec   string `class:"secret"`
}

func (g *GP) GetID() string    { return g.Id }
func (g *GP) FlushEvent() bool { return g.Flush }
func (g *GP) ComposeFrom(ev []*el.Event) (el.EventType, interface{}, error) {
	ids := []string{}
	for _, e := range ev {
		if p, ok := e.Payload.(*GP); ok {
			ids = append(ids, p.Id)
		}
	}
	return "composed", map[string]interface{}{"ids": ids}, nil
}

// payload that carries per-event wrapper info (encrypt derives an event wrapper under its read lock)
type EP struct {
	Sens string `class:"sensitive"`
	id   string
}

func (e *EP) EventId() string  { return e.id }
func (e *EP) HmacSalt() []byte { return []byte("salt") }
func (e *EP) HmacInfo() []byte { return []byte("info") }

// payload that rotates the encrypt filter's wrapper from inside the pipeline
type RP struct{ w wrapping.Wrapper }

func (r *RP) Wrapper() wrapping.Wrapper { return r.w }
func (r *RP) HmacSalt() []byte          { return []byte("salt2") }
func (r *RP) HmacInfo() []byte          { return []byte("info2") }

func newWrapper() wrapping.Wrapper {
	key := make([]byte, 32)
	if _, err := rand.Read(key); err != nil {
		panic(err)
	}
	w := aead.NewWrapper()
	if _, err := w.SetConfig(context.Background(), wrapping.WithKeyId(base64.StdEncoding.EncodeToString(key))); err != nil {
		panic(err)
	}
	if err := w.SetAesGcmKeyBytes(key); err != nil {
		panic(err)
	}
	return w
}

// ---------- an io.Writer that detects interleaved writes ----------
type checkedWriter struct {
	mu     sync.Mutex
	buf    bytes.Buffer
	inside int32
	torn   int32
}

func (c *checkedWriter) Write(p []byte) (int, error) {
	if atomic.AddInt32(&c.inside, 1) != 1 {
		atomic.AddInt32(&c.torn, 1)
	}
	c.mu.Lock()
	c.buf.Write(p)
	c.mu.Unlock()
	atomic.AddInt32(&c.inside, -1)
	return len(p), nil
}

// every output must be a sequence of complete JSON documents
func jsonDocs(data []byte) (int, error) {
	dec := json.NewDecoder(bytes.NewReader(data))
	n := 0
	for dec.More() {
		var v interface{}
		if err := dec.Decode(&v); err != nil {
			return n, err
		}
		n++
	}
	return n, nil
}

// ---------- node catalogue ----------
type kind string

const (
	kFilter kind = "Filter"
	kEnc    kind = "encrypt.Filter"
	kGated  kind = "gated.Filter"
	kJSON   kind = "JSONFormatter"
	kJSONFF kind = "JSONFormatterFilter"
	kCEJ    kind = "cloudevents(json)"
	// SignEventTypes set, no Signer: signing is switched on later through Rotate
	kCEJLate kind = "cloudevents(json, signer installed later)"
	kCET     kind = "cloudevents(text)"
	kFile    kind = "FileSink"
	kWriter  kind = "writer.Sink"
	kChan    kind = "ChannelSink"
	// two distinct FileSink nodes configured with the same Path and FileName (no rotation): not part of the random catalogue
	kFileSame kind = "FileSink(same file)"
	// FileSinks that rotate every one to three events (MaxBytes 150): the active file keeps its plain name and is renamed on
	// rotation (TimestampOnlyOnRotate), or every file is stamped when created; nothing pruned (MaxFiles 0 / far above the count)
	kFileRotTS      kind = "FileSink(rotating, stamp on rotate)"
	kFileRotTSKeep  kind = "FileSink(rotating, stamp on rotate, MaxFiles 100000)"
	kFileRotStamped kind = "FileSink(rotating, stamped)"
	// a formatter filter whose predicate rejects every event (only in the per-pipeline scenarios)
	kJSONFFReject kind = "JSONFormatterFilter(reject)"
)

var filterKinds = []kind{kFilter, kEnc, kGated}
var fmtKinds = []kind{kJSON, kJSONFF, kCEJ, kCET}
var sinkKinds = []kind{kFile, kWriter, kChan}

func formatOf(k kind) string {
	switch k {
	case kCEJ, kCEJLate:
		return string(cloudevents.FormatJSON)
	case kCET:
		return string(cloudevents.FormatText)
	}
	return el.JSONFormat
}

type world struct {
	b        *el.Broker
	dir      string
	nodes    map[string]el.Node
	encs     []*encrypt.Filter
	ces      []*cloudevents.FormatterFilter
	gateds   []*gated.Filter
	files    []*el.FileSink
	writers  map[string]*checkedWriter
	chans    []chan *el.Event
	chanGot  int64
	stop     chan struct{}
	wg       sync.WaitGroup
	panics   []string
	pmu      sync.Mutex
	sent     int64
	sendErrs int64
	// per sink: for every pipeline that ends in it, whether an encrypt.Filter sits ahead of the formatter
	sinkFeeds map[string][]bool
	fileSinks map[string]*el.FileSink
	amu       sync.Mutex
	acked     map[int]bool
	// per-pipeline view: which sink a pipeline ends in, whether it rejects every event; acknowledged events per type
	signerOn    int32
	mustSign    map[int]bool
	pipes       []pipeInfo
	ackedByType map[string]map[int]bool
	notComplete []string
}

type pipeInfo struct {
	typ, sink string
	rejects   bool
	fmtKind   kind // the pipeline's formatter
	enc       bool // an encrypt.Filter ahead of the formatter
}

func newWorld(dir string) *world {
	b, _ := el.NewBroker()
	return &world{b: b, dir: dir, nodes: map[string]el.Node{}, writers: map[string]*checkedWriter{}, stop: make(chan struct{}),
		sinkFeeds: map[string][]bool{}, fileSinks: map[string]*el.FileSink{}, acked: map[int]bool{}, ackedByType: map[string]map[int]bool{}}
}

func signer(tag string) cloudevents.Signer {
	return func(_ context.Context, b []byte) (string, error) { return tag + fmt.Sprint(len(b)), nil }
}

// instance name -> node (created once, shared by every pipeline that names it)
func (w *world) node(k kind, inst int, fmtFor string) (el.NodeID, el.Node) {
	name := fmt.Sprintf("%s#%d", k, inst)
	if k == kFile || k == kWriter || k == kFileSame || k == kFileRotTS || k == kFileRotTSKeep || k == kFileRotStamped {
		name += "/" + fmtFor
	}
	if n, ok := w.nodes[name]; ok {
		return el.NodeID(name), n
	}
	var n el.Node
	switch k {
	case kFilter:
		n = &el.Filter{Predicate: func(e *el.Event) (bool, error) { return true, nil }}
	case kEnc:
		f := &encrypt.Filter{Wrapper: newWrapper(), HmacSalt: []byte("s"), HmacInfo: []byte("i")}
		w.encs = append(w.encs, f)
		n = f
	case kGated:
		f := &gated.Filter{Broker: w.b, Expiration: 2 * time.Millisecond}
		if inst%2 == 1 {
			// the documented defaults, spelled out
			f.Expiration, f.NowFunc = gated.DefaultEventTimeout, time.Now
		}
		w.gateds = append(w.gateds, f)
		n = f
	case kJSON:
		n = &el.JSONFormatter{}
	case kJSONFF:
		n = &el.JSONFormatterFilter{Predicate: func(interface{}) (bool, error) { return true, nil }}
	case kJSONFFReject:
		n = &el.JSONFormatterFilter{Predicate: func(interface{}) (bool, error) { return false, nil }}
	case kCEJLate:
		u, _ := url.Parse("https://verif.example/late")
		f := &cloudevents.FormatterFilter{Source: u, Format: cloudevents.FormatJSON, SignEventTypes: []string{"t1", "t2"}}
		w.ces = append(w.ces, f)
		n = f
	case kCEJ, kCET:
		u, _ := url.Parse("https://verif.example/src")
		f := &cloudevents.FormatterFilter{Source: u, Format: cloudevents.Format(formatOf(k)), Signer: signer("a"), SignEventTypes: []string{"t1", "t2", "composed"},
			Predicate: func(context.Context, interface{}) (bool, error) { return true, nil }}
		w.ces = append(w.ces, f)
		n = f
	case kFile:
		f := &el.FileSink{Path: filepath.Join(w.dir, fmt.Sprintf("fs%d-%s", inst, fmtFor)), FileName: "ev.log", MaxBytes: 600, MaxFiles: 3, Format: fmtFor}
		if inst%2 == 1 {
			f.Mode = 0o600 // the documented default, spelled out
		} else if fmtFor == el.JSONFormat {
			f.Format = "" // left to the default
		}
		w.files = append(w.files, f)
		n = f
	case kFileSame:
		f := &el.FileSink{Path: filepath.Join(w.dir, "same-file"), FileName: "ev.log", Format: fmtFor}
		w.files = append(w.files, f)
		n = f
	case kFileRotTS, kFileRotTSKeep, kFileRotStamped:
		f := &el.FileSink{Path: filepath.Join(w.dir, fmt.Sprintf("rot%d-%d", len(w.files), inst)), FileName: "ev.log", Format: fmtFor, MaxBytes: 150,
			TimestampOnlyOnRotate: k != kFileRotStamped}
		if k == kFileRotTSKeep {
			f.MaxFiles = 100000
		}
		w.files = append(w.files, f)
		n = f
	case kWriter:
		cw := &checkedWriter{}
		w.writers[name] = cw
		ws := &writer.Sink{Format: fmtFor, Writer: cw}
		if inst%2 == 0 && fmtFor == el.JSONFormat {
			ws.Format = "" // left to the default
		}
		n = ws
	case kChan:
		c := make(chan *el.Event, 16)
		w.chans = append(w.chans, c)
		timeout := 50 * time.Millisecond
		if inst%2 == 1 {
			timeout = 300 * time.Microsecond // a sub-millisecond timeout: Process gives up while the consumer is busy
		}
		s, err := channel.NewChannelSink(c, timeout)
		if err != nil {
			panic(err)
		}
		w.wg.Add(1)
		go func() {
			defer w.wg.Done()
			for {
				select {
				case <-c:
					atomic.AddInt64(&w.chanGot, 1)
				case <-w.stop:
					return
				}
			}
		}()
		n = s
	}
	w.nodes[name] = n
	if err := w.b.RegisterNode(el.NodeID(name), n); err != nil {
		panic(err)
	}
	return el.NodeID(name), n
}

type pipeSpec struct {
	Type  string   `json:"type"`
	Kinds []string `json:"kinds"`
	Insts []int    `json:"insts"`
}

func (w *world) addPipeline(id string, ps pipeSpec) {
	var ids []el.NodeID
	fmtFor := el.JSONFormat
	for _, k := range ps.Kinds {
		switch kind(k) {
		case kCEJ, kCEJLate, kCET, kJSON, kJSONFF, kJSONFFReject:
			fmtFor = formatOf(kind(k))
		}
	}
	encAhead, seenFmt, rejects := false, false, false
	var fmtKind kind
	for i, k := range ps.Kinds {
		nid, n := w.node(kind(k), ps.Insts[i], fmtFor)
		ids = append(ids, nid)
		switch kind(k) {
		case kEnc:
			if !seenFmt {
				encAhead = true
			}
		case kJSON, kJSONFF, kJSONFFReject, kCEJ, kCEJLate, kCET:
			seenFmt = true
			fmtKind = kind(k)
			if kind(k) == kJSONFFReject {
				rejects = true
			}
		case kFile, kFileSame, kWriter, kFileRotTS, kFileRotTSKeep, kFileRotStamped:
			w.sinkFeeds[string(nid)] = append(w.sinkFeeds[string(nid)], encAhead)
			w.pipes = append(w.pipes, pipeInfo{typ: ps.Type, sink: string(nid), rejects: rejects, fmtKind: fmtKind, enc: encAhead})
			if f, ok := n.(*el.FileSink); ok {
				w.fileSinks[string(nid)] = f
			}
		}
	}
	if err := w.b.RegisterPipeline(el.Pipeline{PipelineID: el.PipelineID(id), EventType: el.EventType(ps.Type), NodeIDs: ids}); err != nil {
		panic(fmt.Sprintf("pipeline %s %v: %v", id, ps, err))
	}
}

func (w *world) guard(name string, f func()) {
	defer func() {
		if r := recover(); r != nil {
			w.pmu.Lock()
			w.panics = append(w.panics, fmt.Sprintf("%s: %v", name, r))
			w.pmu.Unlock()
		}
	}()
	f()
}

func (w *world) payload(r *hc.Rand, i int, gate bool) interface{} {
	switch x := r.Intn(20); {
	case gate && x < 8:
		return &GP{Id: fmt.Sprintf("g%d", i/3), Flush: i%3 == 2, Sec: fmt.Sprintf("CANARY-SEC-%d", i)}
	case x < 11:
		return &EP{Sens: fmt.Sprintf("CANARY-SENS-%d", i), id: fmt.Sprintf("ev-%d", i)}
	case x == 11 && len(w.encs) > 0:
		return &RP{w: newWrapper()}
	default:
		return plainP(i)
	}
}

// every protected field of every event carries a canary that names the event
func plainP(i int) *P {
	// the public field carries what encoding/json treats specially: the HTML characters, U+2028 / U+2029, invalid UTF-8, a quote
	return &P{Pub: fmt.Sprintf("pub-%d <a href=\"x\">R&D</a> \u2028\u2029 \xff\xfe end", i), Sec: fmt.Sprintf("CANARY-SEC-%d", i), Sens: fmt.Sprintf("CANARY-SENS-%d", i), Hm: fmt.Sprintf("CANARY-HM-%d", i), N: i}
}

type hangRec struct {
	Scenario scenario `json:"scenario"`
	Dump     string   `json:"goroutine_dump"`
}

type scenario struct {
	Name     string     `json:"name"`
	Pipes    []pipeSpec `json:"pipelines"`
	Senders  int        `json:"senders"`
	PerSend  int        `json:"events_per_sender"`
	Controls []string   `json:"controls"`
	// ExactOnce: only plain payloads, every acknowledged event must be in the file sinks' file exactly once and whole
	ExactOnce bool `json:"exact_once,omitempty"`
	// PlainOnly: only plain payloads with canaries (no gateable / rotation / per-event-wrapper payloads)
	PlainOnly bool `json:"plain_only,omitempty"`
	// Alternate: that many rounds of strictly sequential Sends, one per event type in turn (Broker.Reopen every 7th), first
	Alternate int `json:"alternate,omitempty"`
	// NeedPlain: the sinks not behind an encrypt filter must show the plaintext canaries (each sink renders ITS pipeline's view)
	NeedPlain bool `json:"need_plain,omitempty"`
	// PerPipeline: every pipeline has its own sink; a pipeline that does not reject must show every acknowledged event of its
	// type exactly once in ITS sink and Send must report that sink complete, whatever the other pipelines of the type do
	PerPipeline bool `json:"per_pipeline,omitempty"`
	// LateSigner: the cloudevents nodes start WITHOUT a signer; the control "ce-install-signer" installs one through Rotate once a
	// quarter of the events is out (and keeps rotating): an event of a listed type whose Send started after that first Rotate
	// returned must be signed, by one of the signers installed
	LateSigner bool `json:"late_signer,omitempty"`
	// RebindReopen: the hand-written logrotate scenario (two FileSinks registered successively under one node id)
	RebindReopen bool `json:"rebind_reopen,omitempty"`
	// LogrotateCreate: the hand-written external-rotation scenario on ONE non-rotating FileSink shared by two pipelines
	LogrotateCreate bool `json:"logrotate_create,omitempty"`
}

type result struct {
	Scenario  scenario `json:"scenario"`
	Sent      int64    `json:"sent"`
	SendErrs  int64    `json:"send_errors"`
	Docs      int      `json:"documents_in_sinks"`
	ChanGot   int64    `json:"channel_events"`
	Integrity []string `json:"integrity_failures"`
	Panics    []string `json:"panics"`
	Pairs     []string `json:"neighbour_pairs"`
}

// logrotate with a rebound node id: RegisterNode(id, A); RegisterPipeline(p1); RegisterNode(id, B); RegisterPipeline(p2) -- two
// FileSink objects live under ONE node id.  Events, then both files are renamed away externally, Broker.Reopen, more events
// (with senders running throughout): both paths must exist again and hold every event acknowledged after Reopen returned.
func runRebindReopen(sc scenario, dir string) result {
	res := result{Scenario: sc}
	os.MkdirAll(dir, 0o755)
	b, _ := el.NewBroker()
	ctx := context.Background()
	fsA := &el.FileSink{Path: filepath.Join(dir, "a"), FileName: "ev.log"}
	fsB := &el.FileSink{Path: filepath.Join(dir, "b"), FileName: "ev.log"}
	chk := func(err error) {
		if err != nil {
			panic(err)
		}
	}
	chk(b.RegisterNode("json", &el.JSONFormatter{}))
	chk(b.RegisterNode("file", fsA))
	chk(b.RegisterPipeline(el.Pipeline{PipelineID: "p1", EventType: "t1", NodeIDs: []el.NodeID{"json", "file"}}))
	chk(b.RegisterNode("file", fsB))
	chk(b.RegisterPipeline(el.Pipeline{PipelineID: "p2", EventType: "t2", NodeIDs: []el.NodeID{"json", "file"}}))
	var sent int64
	send := func(t string, idx int) bool {
		_, err := b.Send(ctx, el.EventType(t), plainP(idx))
		atomic.AddInt64(&sent, 1)
		return err == nil
	}
	// background traffic on both types for the whole scenario
	stop := make(chan struct{})
	var bg sync.WaitGroup
	for g := 0; g < 2; g++ {
		bg.Add(1)
		go func(g int) {
			defer bg.Done()
			for i := 0; ; i++ {
				select {
				case <-stop:
					return
				default:
				}
				send([]string{"t1", "t2"}[(g+i)%2], 5000000+g*1000000+i)
			}
		}(g)
	}
	for i := 0; i < 20; i++ {
		send("t1", i)
		send("t2", 1000+i)
	}
	for _, d := range []string{"a", "b"} {
		if err := os.Rename(filepath.Join(dir, d, "ev.log"), filepath.Join(dir, d, "ev.log.1")); err != nil {
			res.Integrity = append(res.Integrity, fmt.Sprintf("rebind-reopen: cannot rotate %s/ev.log away: %v", d, err))
		}
	}
	if err := b.Reopen(ctx); err != nil {
		res.Integrity = append(res.Integrity, fmt.Sprintf("rebind-reopen: Broker.Reopen: %v", err))
	}
	post := map[string][]int{}
	for i := 0; i < 30; i++ {
		if send("t1", 2000+i) {
			post["a"] = append(post["a"], 2000+i)
		}
		if send("t2", 3000+i) {
			post["b"] = append(post["b"], 3000+i)
		}
	}
	close(stop)
	bg.Wait()
	for _, d := range []string{"a", "b"} {
		data, err := os.ReadFile(filepath.Join(dir, d, "ev.log"))
		if err != nil {
			res.Integrity = append(res.Integrity, fmt.Sprintf("rebind-reopen: after the external rename and Broker.Reopen the FileSink on %s/ev.log did not create its file again (it is still writing to the renamed file): %v", d, err))
			continue
		}
		n, err := jsonDocs(data)
		res.Docs += n
		if err != nil {
			res.Integrity = append(res.Integrity, fmt.Sprintf("rebind-reopen: %s/ev.log is not a sequence of JSON documents: %v", d, err))
		}
		missing := 0
		for _, idx := range post[d] {
			if !bytes.Contains(data, []byte(fmt.Sprintf("\"N\":%d}", idx))) {
				missing++
			}
		}
		if missing > 0 {
			res.Integrity = append(res.Integrity, fmt.Sprintf("rebind-reopen: %d of the %d events acknowledged after Broker.Reopen returned are not in the new %s/ev.log", missing, len(post[d]), d))
		}
	}
	res.Sent = sent
	return res
}

// External rotation of a FileSink that does not rotate itself (MaxBytes 0, MaxDuration 0), shared by two pipelines, senders running
// throughout.  Six rounds over three ways of rotating: (0) logrotate "create": rename ev.log away, create a new empty ev.log, then
// Broker.Reopen; (1) rename away, ANOTHER process writes a file with content at the path, then FileSink.Reopen; (2) plain rename,
// Broker.Reopen.  Every event acknowledged after Reopen returned is in the file that is AT the path, none of them in a moved-away file.
func runLogrotateCreate(sc scenario, dir string) result {
	res := result{Scenario: sc}
	d := filepath.Join(dir, "audit")
	os.MkdirAll(d, 0o755)
	b, _ := el.NewBroker()
	ctx := context.Background()
	fs := &el.FileSink{Path: d, FileName: "audit.log"}
	chk := func(err error) {
		if err != nil {
			panic(err)
		}
	}
	chk(b.RegisterNode("pass", &el.Filter{Predicate: func(e *el.Event) (bool, error) { return true, nil }}))
	chk(b.RegisterNode("json", &el.JSONFormatter{}))
	chk(b.RegisterNode("file", fs))
	chk(b.RegisterPipeline(el.Pipeline{PipelineID: "p1", EventType: "t1", NodeIDs: []el.NodeID{"json", "file"}}))
	chk(b.RegisterPipeline(el.Pipeline{PipelineID: "p2", EventType: "t2", NodeIDs: []el.NodeID{"pass", "json", "file"}}))
	var sent int64
	send := func(t string, idx int) bool {
		_, err := b.Send(ctx, el.EventType(t), plainP(idx))
		atomic.AddInt64(&sent, 1)
		return err == nil
	}
	stop := make(chan struct{})
	var bg sync.WaitGroup
	for g := 0; g < 2; g++ {
		bg.Add(1)
		go func(g int) {
			defer bg.Done()
			for i := 0; ; i++ {
				select {
				case <-stop:
					return
				default:
				}
				send([]string{"t1", "t2"}[(g+i)%2], 5000000+g*1000000+i)
			}
		}(g)
	}
	for i := 0; i < 10; i++ {
		send("t1", i)
		send("t2", 500+i)
	}
	path := filepath.Join(d, "audit.log")
	has := func(data []byte, idx int) bool { return bytes.Contains(data, []byte(fmt.Sprintf("\"N\":%d}", idx))) }
	var moved []string
	for round := 0; round < 6; round++ {
		away := filepath.Join(d, fmt.Sprintf("audit.log.%d", round+1))
		how := []string{"rename away + create an empty file at the path (logrotate create), Broker.Reopen",
			"rename away + another process's file with content at the path, FileSink.Reopen", "rename away, Broker.Reopen"}[round%3]
		if err := os.Rename(path, away); err != nil {
			res.Integrity = append(res.Integrity, fmt.Sprintf("logrotate-create: round %d: cannot rename the log away: %v", round, err))
			break
		}
		moved = append(moved, away)
		var rerr error
		switch round % 3 {
		case 0:
			chk(os.WriteFile(path, nil, 0o600))
			rerr = b.Reopen(ctx)
		case 1:
			chk(os.WriteFile(path, []byte("{\"foreign\":true}\n"), 0o600))
			rerr = fs.Reopen()
		default:
			rerr = b.Reopen(ctx)
		}
		if rerr != nil {
			res.Integrity = append(res.Integrity, fmt.Sprintf("logrotate-create: round %d (%s): Reopen: %v", round, how, rerr))
		}
		var post []int
		for i := 0; i < 12; i++ {
			for ti, t := range []string{"t1", "t2"} {
				idx := 10000*(round+1) + 100*ti + i
				if send(t, idx) {
					post = append(post, idx)
				}
			}
		}
		// the file AT the path now (before the next round moves it away) and every file moved away so far
		data, err := os.ReadFile(path)
		if err != nil {
			res.Integrity = append(res.Integrity, fmt.Sprintf("logrotate-create: round %d (%s): no file at the sink's path after Reopen: %v", round, how, err))
			continue
		}
		missing, inOld := 0, 0
		for _, idx := range post {
			if !has(data, idx) {
				missing++
			}
		}
		for _, m := range moved {
			old, _ := os.ReadFile(m)
			for _, idx := range post {
				if has(old, idx) {
					inOld++
				}
			}
		}
		if missing+inOld > 0 && len(res.Integrity) < 4 {
			res.Integrity = append(res.Integrity, fmt.Sprintf("logrotate-create: round %d (%s): of the %d events acknowledged after Reopen returned %d are not in the file at the sink's path and %d are in a file that was moved away (the sink kept the old descriptor)", round, how, len(post), missing, inOld))
		}
	}
	close(stop)
	bg.Wait()
	for _, m := range append(moved, path) {
		data, err := os.ReadFile(m)
		if err != nil {
			continue
		}
		n, err := jsonDocs(data)
		res.Docs += n
		if err != nil {
			res.Integrity = append(res.Integrity, fmt.Sprintf("%s: file is not a sequence of JSON documents: %v", m, err))
		}
	}
	res.Sent = sent
	return res
}

func runScenario(sc scenario, seed uint64, dir string) result {
	if sc.RebindReopen {
		return runRebindReopen(sc, dir)
	}
	if sc.LogrotateCreate {
		return runLogrotateCreate(sc, dir)
	}
	r := hc.NewRand(seed)
	os.MkdirAll(dir, 0o755)
	w := newWorld(dir)
	res := result{Scenario: sc}
	types := map[string]bool{}
	hasGated := false
	pairs := map[string]bool{}
	for i, p := range sc.Pipes {
		w.addPipeline(fmt.Sprintf("p%d", i), p)
		types[p.Type] = true
		for j, k := range p.Kinds {
			if kind(k) == kGated {
				hasGated = true
			}
			if j > 0 {
				pairs[p.Kinds[j-1]+">"+k] = true
			}
		}
	}
	if hasGated && !types["composed"] {
		w.addPipeline("pc", pipeSpec{Type: "composed", Kinds: []string{string(kJSON), string(kWriter)}, Insts: []int{9, 9}})
	}
	var tlist []string
	for t := range types {
		if t != "composed" {
			tlist = append(tlist, t)
		}
	}
	sort.Strings(tlist)
	ctx := context.Background()
	send := func(rs *hc.Rand, t string, idx int) {
		var pl interface{}
		must := sc.LateSigner && atomic.LoadInt32(&w.signerOn) == 1
		if sc.ExactOnce || sc.PlainOnly || sc.PerPipeline || sc.LateSigner {
			pl = plainP(idx)
		} else {
			pl = w.payload(rs, idx, hasGated)
		}
		sctx := ctx
		if !(sc.ExactOnce || sc.PerPipeline || sc.NeedPlain || sc.LateSigner) && idx%8 == 7 {
			// a caller whose context is (or becomes) done: such a Send may reach any subset of the sinks, each line whole
			var cancel context.CancelFunc
			switch (idx / 8) % 4 {
			case 0:
				sctx, cancel = context.WithCancel(ctx)
				cancel()
			case 1:
				sctx, cancel = context.WithDeadline(ctx, time.Now().Add(-time.Second))
			case 2:
				sctx, cancel = context.WithTimeout(ctx, 30*time.Microsecond)
			default:
				var cc context.CancelCauseFunc
				sctx, cc = context.WithCancelCause(ctx)
				cancel = func() {}
				go func() { runtime.Gosched(); cc(fmt.Errorf("caller gave up")) }()
			}
			defer cancel()
		}
		st, err := w.b.Send(sctx, el.EventType(t), pl)
		atomic.AddInt64(&w.sent, 1)
		if must {
			w.amu.Lock()
			if w.mustSign == nil {
				w.mustSign = map[int]bool{}
			}
			w.mustSign[idx] = true
			w.amu.Unlock()
		}
		if err != nil {
			atomic.AddInt64(&w.sendErrs, 1)
		} else if sc.ExactOnce {
			w.amu.Lock()
			w.acked[idx] = true
			w.amu.Unlock()
		}
		if sc.PerPipeline && err == nil {
			done := map[string]bool{}
			for _, id := range st.CompleteSinks() {
				done[string(id)] = true
			}
			w.amu.Lock()
			if w.ackedByType[t] == nil {
				w.ackedByType[t] = map[int]bool{}
			}
			w.ackedByType[t][idx] = true
			for _, p := range w.pipes {
				if p.typ == t && !p.rejects && !done[p.sink] && len(w.notComplete) < 5 {
					w.notComplete = append(w.notComplete, fmt.Sprintf("event %d of type %s: Send did not report sink %s complete (warnings: %v)", idx, t, p.sink, st.Warnings))
				}
			}
			w.amu.Unlock()
		}
	}
	w.guard("alternation", func() {
		for j := 0; j < sc.Alternate; j++ {
			for ti, t := range tlist {
				send(r, t, 1000000+j*len(tlist)+ti)
			}
			if j%7 == 6 {
				_ = w.b.Reopen(ctx)
			}
		}
	})
	var senders sync.WaitGroup
	for s := 0; s < sc.Senders; s++ {
		senders.Add(1)
		rs := r.Fork()
		go func(s int) {
			defer senders.Done()
			w.guard("sender", func() {
				for i := 0; i < sc.PerSend; i++ {
					send(rs, tlist[rs.Intn(len(tlist))], s*sc.PerSend+i)
				}
			})
		}(s)
	}
	done := make(chan struct{})
	var controls sync.WaitGroup
	ctl := func(name string, f func(i int)) {
		controls.Add(1)
		go func() {
			defer controls.Done()
			w.guard(name, func() {
				for i := 0; ; i++ {
					select {
					case <-done:
						return
					default:
					}
					f(i)
					time.Sleep(50 * time.Microsecond)
				}
			})
		}()
	}
	for _, c := range sc.Controls {
		switch c {
		case "broker-reopen":
			ctl(c, func(int) { _ = w.b.Reopen(ctx) })
		case "file-reopen":
			ctl(c, func(i int) {
				if len(w.files) > 0 {
					_ = w.files[i%len(w.files)].Reopen()
				}
			})
		case "enc-rotate":
			ctl(c, func(i int) {
				if len(w.encs) > 0 {
					w.encs[i%len(w.encs)].Rotate(encrypt.WithWrapper(newWrapper()), encrypt.WithSalt([]byte("s2")), encrypt.WithInfo([]byte("i2")))
				}
			})
		case "ce-rotate":
			ctl(c, func(i int) {
				if len(w.ces) > 0 {
					_ = w.ces[i%len(w.ces)].Rotate(signer(fmt.Sprintf("r%d-", i%7)))
				}
			})
		case "gated-flushall":
			ctl(c, func(i int) {
				if len(w.gateds) > 0 {
					_ = w.gateds[i%len(w.gateds)].FlushAll(ctx)
				}
			})
		case "ce-install-signer":
			total := int64(sc.Senders * sc.PerSend)
			ctl(c, func(i int) {
				if i == 0 {
					for atomic.LoadInt64(&w.sent) < total/4 {
						select {
						case <-done:
							return
						default:
							time.Sleep(20 * time.Microsecond)
						}
					}
				}
				for _, f := range w.ces {
					_ = f.Rotate(signer(fmt.Sprintf("late%d-", i%3)))
				}
				atomic.StoreInt32(&w.signerOn, 1) // only now: every Rotate above has returned
			})
		case "node-methods":
			// every exported method of every stock node, racing Process
			var ns []el.Node
			for _, n := range w.nodes {
				ns = append(ns, n)
			}
			ctl(c, func(i int) {
				n := ns[i%len(ns)]
				_ = n.Type()
				if nm, ok := n.(interface{ Name() string }); ok {
					_ = nm.Name()
				}
				if _, isFile := n.(*el.FileSink); !isFile || !sc.ExactOnce {
					_ = n.Reopen()
				}
				switch x := n.(type) {
				case *gated.Filter:
					_ = x.Now()
					if i%3 == 0 {
						_ = x.Close(ctx) // Close flushes; the filter stays in use
					} else {
						_ = x.FlushAll(ctx)
					}
				case *encrypt.Filter:
					x.Rotate()
					x.Rotate(encrypt.WithSalt([]byte("s3")), encrypt.WithInfo([]byte("i3")))
				case *cloudevents.FormatterFilter:
					_ = x.Rotate(signer("m"))
				}
			})
		case "file-interfere":
			// somebody else in the sinks' directories: the active file renamed away, its times changed, foreign files with
			// look-alike names (each a whole JSON document, so the integrity oracle reads them like the sink's own)
			ctl(c, func(i int) {
				if len(w.files) == 0 {
					return
				}
				f := w.files[i%len(w.files)]
				active := filepath.Join(f.Path, f.FileName)
				switch i % 4 {
				case 0:
					_ = os.Rename(active, filepath.Join(f.Path, "ev.log.moved"))
					_ = f.Reopen()
				case 1:
					_ = os.Chtimes(active, time.Now().Add(-48*time.Hour), time.Now().Add(-48*time.Hour))
				case 2:
					_ = os.Chtimes(active, time.Now().Add(48*time.Hour), time.Now().Add(48*time.Hour))
				case 3:
					for _, twin := range []string{"ev.log ", "EV.log", "ev-.log", "ev.log.1"} {
						_ = os.WriteFile(filepath.Join(f.Path, twin), []byte("{\"foreign\":true}\n"), 0o600)
					}
				}
				time.Sleep(500 * time.Microsecond)
			})
		case "thresholds":
			ctl(c, func(i int) {
				_ = w.b.SetSuccessThreshold(el.EventType(tlist[0]), i%2)
				w.b.SuccessThresholdSinks(el.EventType(tlist[0]))
			})
		}
	}
	senders.Wait()
	close(done)
	controls.Wait()
	for _, g := range w.gateds {
		_ = g.FlushAll(ctx)
	}
	close(w.stop)
	w.wg.Wait()

	// integrity: every sink output is a sequence of complete JSON documents, no write was interleaved
	for name, cw := range w.writers {
		n, err := jsonDocs(cw.buf.Bytes())
		res.Docs += n
		if err != nil {
			res.Integrity = append(res.Integrity, fmt.Sprintf("%s: output is not a sequence of JSON documents: %v", name, err))
		}
		if cw.torn > 0 {
			res.Integrity = append(res.Integrity, fmt.Sprintf("%s: %d concurrent Write calls on the sink's writer", name, cw.torn))
		}
	}
	for _, f := range w.files {
		matches, _ := filepath.Glob(filepath.Join(f.Path, "*"))
		sort.Strings(matches)
		for _, m := range matches {
			data, err := os.ReadFile(m)
			if err != nil {
				continue
			}
			n, err := jsonDocs(data)
			res.Docs += n
			if err != nil {
				res.Integrity = append(res.Integrity, fmt.Sprintf("%s: file is not a sequence of JSON documents: %v", m, err))
			}
		}
	}
	// each sink's lines are the rendering of ITS pipeline's view: behind an encrypt filter no protected canary, elsewhere plaintext
	outputs := map[string][]byte{}
	for name, cw := range w.writers {
		outputs[name] = cw.buf.Bytes()
	}
	for name, f := range w.fileSinks {
		matches, _ := filepath.Glob(filepath.Join(f.Path, "*"))
		var all []byte
		for _, m := range matches {
			data, _ := os.ReadFile(m)
			all = append(all, data...)
		}
		outputs[name] = all
	}
	for name, data := range outputs {
		feeds := w.sinkFeeds[name]
		allEnc, noneEnc := len(feeds) > 0, true
		for _, e := range feeds {
			allEnc = allEnc && e
			noneEnc = noneEnc && !e
		}
		if allEnc {
			for _, c := range []string{"CANARY-SEC-", "CANARY-SENS-", "CANARY-HM-"} {
				if i := bytes.Index(data, []byte(c)); i >= 0 {
					end := i + 24
					if end > len(data) {
						end = len(data)
					}
					res.Integrity = append(res.Integrity, fmt.Sprintf("%s: plaintext of a protected field (%q...) in the output of a sink that is only fed through an encrypt.Filter", name, data[i:end]))
					break
				}
			}
			if len(data) > 0 && sc.NeedPlain && !bytes.Contains(data, []byte("[REDACTED]")) {
				res.Integrity = append(res.Integrity, fmt.Sprintf("%s: no redaction marker in the output of a sink behind an encrypt.Filter", name))
			}
		}
		if noneEnc && sc.NeedPlain && len(feeds) > 0 && len(data) > 0 && !bytes.Contains(data, []byte("CANARY-SEC-")) {
			res.Integrity = append(res.Integrity, fmt.Sprintf("%s: the plain pipeline's sink does not show the plaintext", name))
		}
	}
	if sc.PerPipeline {
		res.Integrity = append(res.Integrity, w.notComplete...)
		for _, p := range w.pipes {
			data := outputs[p.sink]
			counts := map[int]int{}
			dec := json.NewDecoder(bytes.NewReader(data))
			for dec.More() {
				var doc struct {
					Payload *struct{ N int } `json:"payload"`
					Data    *struct{ N int } `json:"data"`
				}
				if err := dec.Decode(&doc); err != nil {
					break
				}
				switch {
				case doc.Payload != nil:
					counts[doc.Payload.N]++
				case doc.Data != nil:
					counts[doc.Data.N]++
				}
			}
			if p.rejects {
				if len(counts) > 0 {
					res.Integrity = append(res.Integrity, fmt.Sprintf("%s: the sink of a pipeline that rejects every event holds %d events", p.sink, len(counts)))
				}
				continue
			}
			missing, dup, ex := 0, 0, -1
			for idx := range w.ackedByType[p.typ] {
				switch c := counts[idx]; {
				case c == 0:
					missing++
					ex = idx
				case c > 1:
					dup++
					ex = idx
				}
			}
			if missing+dup > 0 {
				res.Integrity = append(res.Integrity, fmt.Sprintf("%s (pipeline of type %s, %d pipelines share the event): of %d acknowledged events %d are missing from this pipeline's sink and %d are in it more than once (e.g. event %d): a pipeline's outcome depends on what the other pipelines do with the shared event",
					p.sink, p.typ, pipesOfType(w.pipes, p.typ), len(w.ackedByType[p.typ]), missing, dup, ex))
			}
		}
	}
	if sc.PerPipeline {
		// each sink holds what ITS pipeline's formatter renders.  The stock JSON formatters (JSONFormatter, JSONFormatterFilter) render
		// one event identically, so for one Send the lines in the sinks of all their pipelines (no encrypt.Filter ahead) are the
		// same bytes, and a JSONFormatter pipeline's line carries the public field the way encoding/json.Marshal renders it
		lines := map[string]map[int][]byte{}
		for _, p := range w.pipes {
			if p.rejects || p.enc || !(p.fmtKind == kJSON || p.fmtKind == kJSONFF) {
				continue
			}
			m := map[int][]byte{}
			for _, ln := range bytes.Split(outputs[p.sink], []byte("\n")) {
				var doc struct {
					Payload *struct{ N int } `json:"payload"`
				}
				if len(ln) > 0 && json.Unmarshal(ln, &doc) == nil && doc.Payload != nil {
					m[doc.Payload.N] = ln
				}
			}
			lines[p.sink] = m
		}
		differ, wrong, ex := 0, 0, ""
		for _, p := range w.pipes {
			mine, ok := lines[p.sink]
			if !ok {
				continue
			}
			for idx := range w.ackedByType[p.typ] {
				ln, have := mine[idx]
				if !have {
					continue
				}
				if p.fmtKind == kJSON {
					want, _ := json.Marshal(plainP(idx).Pub)
					if !bytes.Contains(ln, want) {
						wrong++
						if ex == "" {
							ex = fmt.Sprintf("event %d in %s (JSONFormatter pipeline of type %s): %s", idx, p.sink, p.typ, ln)
						}
					}
				}
				for _, q := range w.pipes {
					other, ok := lines[q.sink]
					if !ok || q.typ != p.typ || q.sink <= p.sink {
						continue
					}
					if ol, have := other[idx]; have && !bytes.Equal(ol, ln) {
						differ++
						if ex == "" {
							ex = fmt.Sprintf("event %d of type %s: %s has %s but %s has %s", idx, p.typ, p.sink, ln, q.sink, ol)
						}
					}
				}
			}
		}
		if differ+wrong > 0 {
			res.Integrity = append(res.Integrity, fmt.Sprintf("formatting of the shared event: %d lines of JSONFormatter pipelines are not what JSONFormatter renders, %d pairs of sinks of stock JSON pipelines hold different bytes for one Send (e.g. %s)", wrong, differ, ex))
		}
	}
	if sc.LateSigner {
		unsigned, bad, checked, ex := 0, 0, 0, ""
		for name, cw := range w.writers {
			dec := json.NewDecoder(bytes.NewReader(cw.buf.Bytes()))
			for dec.More() {
				var doc struct {
					Type           string          `json:"type"`
					Data           struct{ N int } `json:"data"`
					Serialized     string          `json:"serialized"`
					SerializedHmac string          `json:"serialized_hmac"`
				}
				if err := dec.Decode(&doc); err != nil {
					break
				}
				if !w.mustSign[doc.Data.N] {
					continue
				}
				checked++
				if doc.Serialized == "" || doc.SerializedHmac == "" {
					unsigned++
					if ex == "" {
						ex = fmt.Sprintf("event %d of type %s in %s", doc.Data.N, doc.Type, name)
					}
					continue
				}
				raw, err := base64.RawURLEncoding.DecodeString(doc.Serialized)
				ok := false
				for t := 0; t < 3 && err == nil; t++ {
					ok = ok || doc.SerializedHmac == fmt.Sprintf("late%d-%d", t, len(raw))
				}
				if !ok {
					bad++
					if ex == "" {
						ex = fmt.Sprintf("event %d of type %s in %s: serialized_hmac %q", doc.Data.N, doc.Type, name, doc.SerializedHmac)
					}
				}
			}
		}
		if unsigned+bad > 0 {
			res.Integrity = append(res.Integrity, fmt.Sprintf("late signer: of %d events of listed types sent after Rotate(signer) had returned %d are unsigned and %d carry a signature of none of the installed signers (e.g. %s)", checked, unsigned, bad, ex))
		}
		if checked == 0 {
			res.Integrity = append(res.Integrity, "late signer: no event was sent after the signer had been installed (the scenario did not exercise anything)")
		}
	}
	if sc.ExactOnce {
		// every acknowledged event exactly once and whole in the file the FileSinks share
		counts := map[int]int{}
		seenPath := map[string]bool{}
		for _, f := range w.fileSinks {
			if seenPath[f.Path] {
				continue
			}
			seenPath[f.Path] = true
			matches, _ := filepath.Glob(filepath.Join(f.Path, "*"))
			for _, m := range matches {
				data, _ := os.ReadFile(m)
				dec := json.NewDecoder(bytes.NewReader(data))
				for dec.More() {
					var doc struct {
						Payload struct{ N int }
					}
					if err := dec.Decode(&doc); err != nil {
						break // reported above as "not a sequence of JSON documents"
					}
					counts[doc.Payload.N]++
				}
			}
		}
		missing, dup := 0, 0
		ex := -1
		for idx := range w.acked {
			switch c := counts[idx]; {
			case c == 0:
				missing++
				ex = idx
			case c > 1:
				dup++
				ex = idx
			}
		}
		if missing+dup > 0 {
			res.Integrity = append(res.Integrity, fmt.Sprintf("FileSink: of %d acknowledged events %d are missing from the files of the sink's directory and %d are in them more than once (e.g. event %d)", len(w.acked), missing, dup, ex))
		}
	}
	res.Sent, res.SendErrs, res.ChanGot, res.Panics = w.sent, w.sendErrs, w.chanGot, w.panics
	for p := range pairs {
		res.Pairs = append(res.Pairs, p)
	}
	sort.Strings(res.Pairs)
	return res
}

func pipesOfType(ps []pipeInfo, t string) int {
	n := 0
	for _, p := range ps {
		if p.typ == t {
			n++
		}
	}
	return n
}

// heads: the node kinds a pipeline may start with in the per-pipeline scenarios (followed by a formatter where the head is a filter)
var heads = [][]kind{{kJSON}, {kJSONFF}, {kJSONFFReject}, {kCEJ}, {kEnc, kJSON}, {kGated, kJSON}}

// every multiset of 2 heads (each in both "who gets a pass Filter in front" variants), plus seeded samples of 3 and 4 heads, each
// combination under its own event type, every pipeline with its own writer sink
func headScenarios(r *hc.Rand, per, triples, quads int) []scenario {
	var combos [][]int
	for a := 0; a < len(heads); a++ {
		for b := a; b < len(heads); b++ {
			combos = append(combos, []int{a, b}, []int{b, a})
		}
	}
	for i := 0; i < triples; i++ {
		combos = append(combos, []int{r.Intn(len(heads)), r.Intn(len(heads)), r.Intn(len(heads))})
	}
	for i := 0; i < quads; i++ {
		combos = append(combos, []int{r.Intn(len(heads)), r.Intn(len(heads)), r.Intn(len(heads)), r.Intn(len(heads))})
	}
	var out []scenario
	inst := 100
	for start := 0; start < len(combos); start += 8 {
		sc := scenario{Name: fmt.Sprintf("heads-%d", start/8), Senders: 4, PerSend: per / 2, PerPipeline: true, Controls: []string{"ce-rotate", "enc-rotate"}}
		for ci := start; ci < start+8 && ci < len(combos); ci++ {
			for pi, h := range combos[ci] {
				var kinds []string
				var insts []int
				// the LAST pipeline of a combination gets a pass Filter in front: its formatter is not the root and runs on a goroutine of its own
				if pi == len(combos[ci])-1 {
					kinds = append(kinds, string(kFilter))
					insts = append(insts, 0)
				}
				for _, k := range heads[h] {
					inst++
					kinds = append(kinds, string(k))
					insts = append(insts, inst)
				}
				inst++
				kinds = append(kinds, string(kWriter))
				insts = append(insts, inst)
				sc.Pipes = append(sc.Pipes, pipeSpec{Type: fmt.Sprintf("h%d", ci), Kinds: kinds, Insts: insts})
			}
		}
		out = append(out, sc)
	}
	return out
}

// ---------- the scenario space ----------
func focused(per int) []scenario {
	k := func(ks ...kind) []string {
		out := make([]string, len(ks))
		for i, x := range ks {
			out[i] = string(x)
		}
		return out
	}
	return []scenario{
		// cloudevents signer rotated while events are formatted (F4)
		{Name: "ce-rotate", Senders: 4, PerSend: per, Controls: []string{"ce-rotate"},
			Pipes: []pipeSpec{{Type: "t1", Kinds: k(kFilter, kCEJ, kWriter), Insts: []int{0, 0, 0}}, {Type: "t1", Kinds: k(kCET, kWriter), Insts: []int{1, 1}}}},
		// encrypt wrapper rotated (API and in-band) while events are filtered (F5)
		{Name: "enc-rotate", Senders: 4, PerSend: per, Controls: []string{"enc-rotate"},
			Pipes: []pipeSpec{{Type: "t1", Kinds: k(kEnc, kJSON, kWriter), Insts: []int{0, 0, 0}}}},
		// one pipeline copies the shared event while another formats it (F9)
		{Name: "copy-vs-format", Senders: 2, PerSend: per, Controls: nil,
			Pipes: []pipeSpec{{Type: "t1", Kinds: k(kFilter, kEnc, kJSON, kWriter), Insts: []int{0, 0, 0, 0}}, {Type: "t1", Kinds: k(kFilter, kJSON, kWriter), Insts: []int{0, 0, 1}}}},
		// a file sink shared by two pipelines, rotating, reopened from outside
		{Name: "filesink-shared", Senders: 6, PerSend: per, Controls: []string{"broker-reopen", "file-reopen", "node-methods", "file-interfere"},
			Pipes: []pipeSpec{{Type: "t1", Kinds: k(kJSON, kFile), Insts: []int{0, 0}}, {Type: "t2", Kinds: k(kFilter, kJSON, kFile), Insts: []int{0, 0, 0}}}},
		// a gated filter shared by two pipelines and wired to the same broker, flushed from outside
		{Name: "gated-shared", Senders: 4, PerSend: per, Controls: []string{"gated-flushall", "node-methods"},
			Pipes: []pipeSpec{{Type: "t1", Kinds: k(kGated, kJSON, kWriter), Insts: []int{0, 0, 0}}, {Type: "t2", Kinds: k(kGated, kJSONFF, kWriter), Insts: []int{0, 0, 0}}}},
		// the same event through a bare formatter and through encrypt -> formatter: each sink must render its own pipeline's view
		{Name: "enc-vs-plain", Senders: 4, PerSend: per, NeedPlain: true, PlainOnly: true,
			Pipes: []pipeSpec{{Type: "t1", Kinds: k(kJSON, kWriter), Insts: []int{0, 0}}, {Type: "t1", Kinds: k(kEnc, kJSON, kWriter), Insts: []int{0, 1, 1}},
				{Type: "t1", Kinds: k(kFilter, kEnc, kJSONFF, kFile), Insts: []int{0, 0, 0, 0}}}},
		// cloudevents nodes shared by two event types that START without a signer and get one through Rotate while the senders run
		{Name: "ce-late-signer", Senders: 4, PerSend: per, LateSigner: true, Controls: []string{"ce-install-signer"},
			Pipes: []pipeSpec{{Type: "t1", Kinds: k(kCEJLate, kWriter), Insts: []int{0, 0}}, {Type: "t2", Kinds: k(kFilter, kCEJLate, kWriter), Insts: []int{0, 0, 1}},
				{Type: "t2", Kinds: k(kCEJLate, kWriter), Insts: []int{1, 2}}}},
		// two distinct FileSink nodes on the same file: sequential alternation with Reopen in between, then concurrent senders
		{Name: "filesink-same-file", Senders: 4, PerSend: per / 2, Alternate: 40, ExactOnce: true, Controls: []string{"broker-reopen"},
			Pipes: []pipeSpec{{Type: "t1", Kinds: k(kJSON, kFileSame), Insts: []int{0, 0}}, {Type: "t2", Kinds: k(kFilter, kJSON, kFileSame), Insts: []int{0, 0, 1}}}},
		// FileSinks rotating every one to three events under 6..8 senders: every acknowledged event must be in exactly one of the
		// files of the directory (active + rotated), whole
		{Name: "filesink-rotate-on-rotate-stamp", Senders: 8, PerSend: per, ExactOnce: true,
			Pipes: []pipeSpec{{Type: "t1", Kinds: k(kJSON, kFileRotTS), Insts: []int{0, 0}}}},
		{Name: "filesink-rotate-on-rotate-stamp-keepall", Senders: 6, PerSend: per, ExactOnce: true, Controls: []string{"broker-reopen"},
			Pipes: []pipeSpec{{Type: "t1", Kinds: k(kJSON, kFileRotTSKeep), Insts: []int{0, 0}}, {Type: "t2", Kinds: k(kFilter, kJSON, kFileRotTSKeep), Insts: []int{0, 0, 0}}}},
		{Name: "filesink-rotate-stamped", Senders: 6, PerSend: per, ExactOnce: true, Controls: []string{"file-reopen"},
			Pipes: []pipeSpec{{Type: "t1", Kinds: k(kJSON, kFileRotStamped), Insts: []int{0, 0}}}},
		// one writer sink and one channel sink under 8 senders, two formatters for one type
		{Name: "sinks-shared", Senders: 8, PerSend: per, Controls: []string{"thresholds", "broker-reopen", "node-methods"},
			Pipes: []pipeSpec{{Type: "t1", Kinds: k(kJSON, kWriter), Insts: []int{0, 0}}, {Type: "t1", Kinds: k(kJSONFF, kWriter), Insts: []int{0, 0}}, {Type: "t1", Kinds: k(kCEJ, kChan), Insts: []int{0, 0}},
				{Type: "t1", Kinds: k(kFilter, kCET, kChan), Insts: []int{0, 0, 1}}}},
	}
}

// every ordered pair of node kinds the pipeline grammar allows occurs as neighbours in some pipeline: all (filter, filter),
// (filter, formatter) and (formatter, sink) pairs, three pipelines per scenario, instances shared across the pipelines
func pairScenarios(per int) []scenario {
	var pipes []pipeSpec
	i := 0
	for _, f1 := range filterKinds {
		for _, f2 := range filterKinds {
			for _, fm := range fmtKinds {
				sk := sinkKinds[i%len(sinkKinds)]
				pipes = append(pipes, pipeSpec{Type: fmt.Sprintf("t%d", 1+i%2), Kinds: []string{string(f1), string(f2), string(fm), string(sk)}, Insts: []int{0, 1, i % 2, i % 2}})
				i++
			}
		}
	}
	// (formatter, sink): 36 pipelines with the sink cycling every step cover the 12 pairs; filters directly before a formatter likewise
	var out []scenario
	for j := 0; j < len(pipes); j += 3 {
		out = append(out, scenario{Name: fmt.Sprintf("pairs-%d", j/3), Pipes: pipes[j : j+3], Senders: 3, PerSend: per / 2,
			Controls: []string{"broker-reopen", "enc-rotate", "ce-rotate", "file-reopen", "node-methods"}})
	}
	return out
}

func randomScenario(r *hc.Rand, i, per int) scenario {
	np := 1 + r.Intn(4)
	sc := scenario{Name: fmt.Sprintf("random-%d", i), Senders: 2 + r.Intn(7), PerSend: per}
	for p := 0; p < np; p++ {
		var kinds []string
		var insts []int
		nf := r.Intn(3)
		for f := 0; f < nf; f++ {
			kinds = append(kinds, string(filterKinds[r.Intn(len(filterKinds))]))
			insts = append(insts, r.Intn(2))
		}
		kinds = append(kinds, string(fmtKinds[r.Intn(len(fmtKinds))]))
		insts = append(insts, r.Intn(2))
		kinds = append(kinds, string(sinkKinds[r.Intn(len(sinkKinds))]))
		insts = append(insts, r.Intn(2))
		sc.Pipes = append(sc.Pipes, pipeSpec{Type: fmt.Sprintf("t%d", 1+r.Intn(2)), Kinds: kinds, Insts: insts})
	}
	all := []string{"broker-reopen", "file-reopen", "enc-rotate", "ce-rotate", "gated-flushall", "thresholds", "node-methods", "file-interfere"}
	for _, c := range all {
		if r.Chance(2, 3) {
			sc.Controls = append(sc.Controls, c)
		}
	}
	return sc
}

func main() {
	out := flag.String("out", ".", "output directory")
	nrandom := flag.Int("random", 6, "random compositions")
	per := flag.Int("events", 150, "events per sender")
	only := flag.String("only", "", "comma separated scenario names to run (focused search)")
	replay := flag.String("replay", "", "re-run the scenario of a replay file")
	list := flag.Bool("list", false, "print the scenarios (JSON lines) instead of running them")
	wd := flag.Duration("watchdog", 60*time.Second, "per-scenario watchdog")
	flag.Parse()

	r := hc.NewRand(hc.Seed())
	var scs []scenario
	if *replay != "" {
		data, err := os.ReadFile(*replay)
		if err != nil {
			fmt.Fprintln(os.Stderr, err)
			os.Exit(2)
		}
		var rec struct {
			Case scenario `json:"case"`
		}
		if err := json.Unmarshal(data, &rec); err != nil || rec.Case.Name == "" {
			_ = json.Unmarshal(data, &rec.Case)
		}
		scs = []scenario{rec.Case}
	} else {
		scs = focused(*per)
		scs = append(scs, pairScenarios(*per)...)
		scs = append(scs, scenario{Name: "filesink-rebind-reopen", RebindReopen: true})
		scs = append(scs, scenario{Name: "filesink-logrotate-create", LogrotateCreate: true})
		scs = append(scs, headScenarios(r.Fork(), *per, *nrandom, *nrandom/2)...)
		for i := 0; i < *nrandom; i++ {
			scs = append(scs, randomScenario(r.Fork(), i, *per))
		}
		if *only != "" {
			want := map[string]bool{}
			for _, n := range strings.Split(*only, ",") {
				want[n] = true
			}
			var f []scenario
			for _, s := range scs {
				if want[s.Name] {
					f = append(f, s)
				}
			}
			scs = f
		}
	}
	if *list {
		for _, sc := range scs {
			js, _ := json.Marshal(sc)
			fmt.Println(string(js))
		}
		return
	}
	var results []result
	var hung *hangRec
	pairs := map[string]bool{}
	var sent int64
	docs := 0
	var integrity, panics []string
	for i, sc := range scs {
		// per-scenario watchdog: a wedged library must not wedge the check
		var res result
		resCh := make(chan result, 1)
		go func() { resCh <- runScenario(sc, hc.Seed()*1000+uint64(i), filepath.Join(*out, "files", sc.Name)) }()
		select {
		case res = <-resCh:
		case <-time.After(*wd):
			buf := make([]byte, 4<<20)
			n := runtime.Stack(buf, true)
			var keep []string
			for _, g := range strings.Split(string(buf[:n]), "\n\n") {
				if strings.Contains(g, "hashicorp/eventlogger") && (strings.Contains(g, "sync.") || strings.Contains(g, "chan ") || strings.Contains(g, "select")) {
					if len(g) > 2500 {
						g = g[:2500] + "\n\t..."
					}
					keep = append(keep, g)
				}
			}
			if len(keep) > 10 {
				keep = keep[:10]
			}
			hung = &hangRec{Scenario: sc, Dump: strings.Join(keep, "\n\n")}
		}
		if hung != nil {
			break
		}
		results = append(results, res)
		for _, p := range res.Pairs {
			pairs[p] = true
		}
		sent += res.Sent
		docs += res.Docs
		for _, x := range res.Integrity {
			integrity = append(integrity, sc.Name+": "+x)
		}
		for _, x := range res.Panics {
			panics = append(panics, sc.Name+": "+x)
		}
	}
	os.RemoveAll(filepath.Join(*out, "files"))
	var pl []string
	for p := range pairs {
		pl = append(pl, p)
	}
	sort.Strings(pl)
	// all ordered neighbour pairs the pipeline grammar allows
	total := len(filterKinds)*len(filterKinds) + len(filterKinds)*len(fmtKinds) + len(fmtKinds)*len(sinkKinds)
	summary := map[string]interface{}{"scenarios": len(results), "results": results, "events_sent": sent, "documents_in_sinks": docs,
		"integrity_failures": integrity, "panics": panics, "neighbour_pairs_covered": pl, "neighbour_pairs_possible": total, "seed": hc.Seed(), "hung": hung}
	js, _ := json.MarshalIndent(summary, "", " ")
	os.WriteFile(filepath.Join(*out, "stress_summary.json"), js, 0o644)
	fmt.Printf("stressh: %d scenarios, %d events, %d documents, %d/%d neighbour pairs, %d integrity failures, %d panics\n",
		len(results), sent, docs, len(pl), total, len(integrity), len(panics))
}
