module verifharness

go 1.23

require (
	github.com/hashicorp/eventlogger v0.2.10
	github.com/hashicorp/eventlogger/filters/encrypt v0.0.0-00010101000000-000000000000
)

require (
	github.com/hashicorp/errwrap v1.1.0 // indirect
	github.com/hashicorp/go-multierror v1.1.1 // indirect
)

replace github.com/hashicorp/eventlogger => /repo

replace github.com/hashicorp/eventlogger/filters/encrypt => /repo/filters/encrypt
