module verifharness

go 1.23

require (
	github.com/hashicorp/eventlogger v0.2.10
	github.com/hashicorp/eventlogger/filters/encrypt v0.0.0-00010101000000-000000000000
	github.com/hashicorp/go-kms-wrapping/v2 v2.0.18
	google.golang.org/protobuf v1.36.4
)

require (
	github.com/davecgh/go-spew v1.1.1 // indirect
	github.com/hashicorp/errwrap v1.1.0 // indirect
	github.com/hashicorp/go-multierror v1.1.1 // indirect
	github.com/hashicorp/go-secure-stdlib/parseutil v0.1.9 // indirect
	github.com/hashicorp/go-secure-stdlib/strutil v0.1.2 // indirect
	github.com/hashicorp/go-sockaddr v1.0.7 // indirect
	github.com/hashicorp/go-uuid v1.0.3 // indirect
	github.com/mitchellh/copystructure v1.2.0 // indirect
	github.com/mitchellh/mapstructure v1.5.0 // indirect
	github.com/mitchellh/pointerstructure v1.2.1 // indirect
	github.com/mitchellh/reflectwalk v1.0.2 // indirect
	github.com/pmezard/go-difflib v1.0.0 // indirect
	github.com/ryanuber/go-glob v1.0.0 // indirect
	github.com/stretchr/testify v1.10.0 // indirect
	golang.org/x/crypto v0.32.0 // indirect
	gopkg.in/yaml.v3 v3.0.1 // indirect
)

replace github.com/hashicorp/eventlogger => /repo

replace github.com/hashicorp/eventlogger/filters/encrypt => /repo/filters/encrypt
