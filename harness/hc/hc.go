// Package hc holds what every correspondence driver shares: the PRNG, Gallina literal printing, case-file writing.
package hc

import (
	"bufio"
	"fmt"
	"os"
	"sort"
	"strconv"
	"strings"
)

// Rand is a splitmix64 generator: every random choice of a run derives from VERIF_SEED through it.
type Rand struct{ s uint64 }

func NewRand(seed uint64) *Rand { return &Rand{s: seed*0x9E3779B97F4A7C15 + 0x1234567} }
func (r *Rand) U64() uint64 {
	r.s += 0x9E3779B97F4A7C15
	z := r.s
	z = (z ^ (z >> 30)) * 0xBF58476D1CE4E5B9
	z = (z ^ (z >> 27)) * 0x94D049BB133111EB
	return z ^ (z >> 31)
}
func (r *Rand) Intn(n int) int {
	if n <= 0 {
		return 0
	}
	return int(r.U64() % uint64(n))
}
func (r *Rand) Bool() bool           { return r.U64()&1 == 1 }
func (r *Rand) Chance(p, q int) bool { return r.Intn(q) < p }
func (r *Rand) Fork() *Rand          { return NewRand(r.U64()) }

func Seed() uint64 {
	if s := os.Getenv("VERIF_SEED"); s != "" {
		if v, err := strconv.ParseUint(s, 10, 64); err == nil {
			return v
		}
		if v, err := strconv.ParseInt(s, 10, 64); err == nil {
			return uint64(v)
		}
	}
	return 1
}

// Gallina literals
func N(i int) string { return strconv.Itoa(i) + "%N" }
func Z(i int64) string {
	if i < 0 {
		return "(" + strconv.FormatInt(i, 10) + ")%Z"
	}
	return strconv.FormatInt(i, 10) + "%Z"
}
func B(b bool) string {
	if b {
		return "true"
	}
	return "false"
}
func List(items []string) string { return "[" + strings.Join(items, "; ") + "]" }
func NList(xs []int) string {
	s := make([]string, len(xs))
	for i, x := range xs {
		s[i] = N(x)
	}
	return List(s)
}
func SortedInts(xs []int) []int {
	c := append([]int(nil), xs...)
	sort.Ints(c)
	return c
}
func Pair(a, b string) string { return "(" + a + ", " + b + ")" }

// Bytes prints a byte slice as a list of N (theories that inspect bytes use list N with values below 256).
func Bytes(bs []byte) string {
	var sb strings.Builder
	sb.WriteString("[")
	for i, b := range bs {
		if i > 0 {
			sb.WriteString(";")
		}
		sb.WriteString(strconv.Itoa(int(b)))
	}
	sb.WriteString("]%N")
	return sb.String()
}

// CaseFile writes shards of a cases file: header, "Definition cases : T := [ ... ]." and the evaluation footer.
type CaseFile struct {
	Dir, Prefix, Header, Type, Footer string
	PerShard                          int
	shard, n                          int
	w                                 *bufio.Writer
	f                                 *os.File
	Files                             []string
	Total                             int
}

func (c *CaseFile) open() error {
	name := fmt.Sprintf("%s/%s_%03d.v", c.Dir, c.Prefix, c.shard)
	f, err := os.Create(name)
	if err != nil {
		return err
	}
	c.f = f
	c.w = bufio.NewWriterSize(f, 1<<20)
	c.Files = append(c.Files, name)
	fmt.Fprintf(c.w, "%s\nDefinition cases : %s := [\n", c.Header, c.Type)
	c.n = 0
	return nil
}
func (c *CaseFile) Add(lit string) error {
	if c.w == nil {
		if err := c.open(); err != nil {
			return err
		}
	}
	if c.n > 0 {
		c.w.WriteString(";\n")
	}
	c.w.WriteString(lit)
	c.n++
	c.Total++
	if c.PerShard > 0 && c.n >= c.PerShard {
		return c.closeShard()
	}
	return nil
}
func (c *CaseFile) closeShard() error {
	if c.w == nil {
		return nil
	}
	fmt.Fprintf(c.w, "\n].\n%s\n", c.Footer)
	if err := c.w.Flush(); err != nil {
		return err
	}
	err := c.f.Close()
	c.w, c.f = nil, nil
	c.shard++
	return err
}
func (c *CaseFile) Close() error { return c.closeShard() }
