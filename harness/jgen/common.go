package jgen

import (
	"context"
	"encoding/hex"
	"errors"
	"fmt"
	"io"
	"os"
	"sort"
	"strings"
	"syscall"
	"time"

	"verifharness/hc"
)

// TimeSpec describes an event creation time (an input of every case).
type TimeSpec struct {
	Sec  int64 `json:"sec"`
	Nsec int64 `json:"nsec"`
	Off  int   `json:"off"` // zone offset in minutes; 0 = UTC
}

func (t TimeSpec) Time() time.Time {
	loc := time.UTC
	if t.Off != 0 {
		loc = time.FixedZone("", t.Off*60)
	}
	return time.Unix(t.Sec, t.Nsec).In(loc)
}

// Encodable: time.Time.MarshalJSON accepts years 0..9999 only.
func (t TimeSpec) Encodable() bool { y := t.Time().Year(); return y >= 0 && y <= 9999 }

// Text is the RFC3339Nano token handed to the model.
func (t TimeSpec) Text() []byte { return []byte(t.Time().Format(time.RFC3339Nano)) }

var Times = []TimeSpec{{0, 0, 0}, {100, 5, 0}, {1700000000, 123456789, 0}, {1700000000, 120000000, 330}, {1700000000, 999999999, -480},
	{-62135596800, 0, 0} /* year 1 */, {253402300799, 999999999, 0} /* 9999-12-31T23:59:59.999999999Z */, {951782400, 500000000, 60}, {1, 1000, -1}, {-1, 0, 840}}

// out of range in every zone (a formatter that normalises the zone first must still fail)
var BadTimes = []TimeSpec{{253402300800 + 86400, 0, 0} /* year 10000 */, {-62198755200, 0, 0} /* year -1 */, {253402300800 + 86400, 5, -300}}

func GenTime(r *hc.Rand) TimeSpec {
	switch x := r.Intn(20); {
	case x == 0:
		return BadTimes[r.Intn(len(BadTimes))]
	case x < 10:
		return Times[r.Intn(len(Times))]
	}
	return TimeSpec{Sec: int64(r.Intn(4000000000)) - 1000000000, Nsec: []int64{0, 1, 10, 999999999, 500000000, int64(r.Intn(1000000000))}[r.Intn(6)], Off: []int{0, 0, 60, -300, 345, 840, -720}[r.Intn(7)]}
}

// format tables: names are interned (1 json, 2 cloudevents-json, 3 cloudevents-text, 4 text, 5 other, 6.. anything else)
type TableEntry struct {
	F string `json:"f"`             // format name
	V string `json:"v"`             // hex
	N bool   `json:"nil,omitempty"` // the entry holds a nil slice (a written key all the same)
}

// Value is the slice the entry holds: nil, empty-but-not-nil, or bytes.
func (t TableEntry) Value() []byte {
	if t.N {
		return nil
	}
	return Unhex(t.V)
}

var fmtIDs = map[string]int{"json": 1, "cloudevents-json": 2, "cloudevents-text": 3, "text": 4, "other": 5}

func FmtID(name string, extra map[string]int) int {
	if id, ok := fmtIDs[name]; ok {
		return id
	}
	if id, ok := extra[name]; ok {
		return id
	}
	id := 6 + len(extra)
	extra[name] = id
	return id
}

func TableLit(m map[string][]byte, extra map[string]int) string {
	type entry struct {
		id int
		v  []byte
	}
	var es []entry
	names := make([]string, 0, len(m))
	for k := range m {
		names = append(names, k)
	}
	sort.Strings(names)
	for _, k := range names {
		es = append(es, entry{FmtID(k, extra), m[k]})
	}
	sort.SliceStable(es, func(i, j int) bool { return es[i].id < es[j].id })
	parts := make([]string, len(es))
	for i, e := range es {
		parts[i] = fmt.Sprintf("(%d, %s)", e.id, Bytes(e.v))
	}
	return "[" + strings.Join(parts, "; ") + "]"
}

func GenPre(r *hc.Rand, g *Gen) (bool, []TableEntry) {
	switch r.Intn(6) {
	case 0:
		return true, nil
	case 1:
		return false, nil
	}
	var es []TableEntry
	for _, f := range []string{"json", "text", "cloudevents-json", "cloudevents-text", "other", "x-" + hex.EncodeToString(g.String(2))} {
		if r.Chance(1, 3) {
			switch r.Intn(8) {
			case 0:
				es = append(es, TableEntry{F: f, N: true}) // a nil value is still a written key
			case 1:
				es = append(es, TableEntry{F: f, V: ""}) // empty, not nil
			default:
				es = append(es, TableEntry{F: f, V: hex.EncodeToString(g.String(6))})
			}
		}
	}
	return false, es
}

func Unhex(s string) []byte {
	b, err := hex.DecodeString(s)
	if err != nil {
		panic(err)
	}
	return b
}

// Payload draws a payload recipe: containers are favoured at the top level.
func (g *Gen) Payload(depth, unencPermille int) *Recipe {
	for i := 0; i < 3; i++ {
		r := g.Value(depth, unencPermille)
		if len(r.E) > 0 || g.R.Chance(1, 3) {
			return r
		}
	}
	return g.Value(depth, unencPermille)
}

// contexts handed to Process: 0 Background, 1 live (cancellable, not cancelled), 2 already cancelled, 3 deadline in the past,
// 4 a custom Context type whose Err() is non-nil, 5 live with a far deadline, 6 cancelled with a custom cause
// (WithCancelCause), 7 the live-looking child of a cancelled parent, 8 live, cancelled while the call is in flight (the
// harness's signer / predicate calls InFlightCancel from inside the call)
const CtxKinds = 9

// InFlightCancel is set by MkContext(8): the hook a callback invokes from inside Process.
var InFlightCancel func()

type doneCtx struct{ ch chan struct{} }

func (doneCtx) Deadline() (time.Time, bool)       { return time.Time{}, false }
func (d doneCtx) Done() <-chan struct{}           { return d.ch }
func (doneCtx) Err() error                        { return errors.New("custom context is done") }
func (doneCtx) Value(key interface{}) interface{} { return nil }

// MkContext returns the context of that kind, its release function and whether it is already done.
func MkContext(kind int) (context.Context, func(), bool) {
	switch kind {
	case 1:
		ctx, cancel := context.WithCancel(context.Background())
		return ctx, cancel, false
	case 2:
		ctx, cancel := context.WithCancel(context.Background())
		cancel()
		return ctx, func() {}, true
	case 3:
		ctx, cancel := context.WithDeadline(context.Background(), time.Unix(1, 0))
		return ctx, cancel, true
	case 4:
		ch := make(chan struct{})
		close(ch)
		return doneCtx{ch}, func() {}, true
	case 5:
		ctx, cancel := context.WithTimeout(context.Background(), time.Hour)
		return ctx, cancel, false
	case 6:
		ctx, cancel := context.WithCancelCause(context.Background())
		cancel(errors.New("custom cause"))
		return ctx, func() {}, true
	case 7:
		parent, cancel := context.WithCancel(context.Background())
		cancel()
		ctx, cancel2 := context.WithTimeout(parent, time.Hour)
		return ctx, cancel2, true
	case 8:
		ctx, cancel := context.WithCancel(context.Background())
		InFlightCancel = cancel
		return ctx, func() { InFlightCancel = nil; cancel() }, false
	}
	return context.Background(), func() {}, false
}

// GenCtx draws a context kind: mostly Background, the done ones often enough.
func GenCtx(r *hc.Rand) int {
	if r.Chance(1, 2) {
		return 0
	}
	return r.Intn(CtxKinds)
}

// error values an injected dependency (signer, predicate) returns: 0 plain, 1 io.EOF wrapped with %w, 2 context.Canceled bare,
// 3 context.DeadlineExceeded wrapped, 4 errors.Join of two, 5 a custom type with Is / Timeout / Temporary, 6 a typed-nil
// error pointer (a non-nil error value all the same), 7 *os.PathError around a syscall errno, 8 one shared package-level value
const ErrClasses = 9

type richErr struct{ msg string }

func (e *richErr) Error() string {
	if e == nil {
		return "typed-nil error"
	}
	return e.msg
}
func (e *richErr) Is(target error) bool { return target == io.ErrUnexpectedEOF }
func (e *richErr) Timeout() bool        { return true }
func (e *richErr) Temporary() bool      { return true }

var sharedErr = errors.New("one shared error value")

func InjectedError(class int) error {
	switch class {
	case 1:
		return fmt.Errorf("reading: %w", io.EOF)
	case 2:
		return context.Canceled
	case 3:
		return fmt.Errorf("deadline: %w", context.DeadlineExceeded)
	case 4:
		return errors.Join(io.ErrShortWrite, os.ErrClosed)
	case 5:
		return &richErr{"rich"}
	case 6:
		var p *richErr
		return p
	case 7:
		return &os.PathError{Op: "write", Path: "/dev/full", Err: syscall.ENOSPC}
	case 8:
		return sharedErr
	}
	return errors.New("injected failure")
}
