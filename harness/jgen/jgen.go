// Package jgen is the JSON-value generator shared by the fmth (C14) and cloudh (C18) drivers.
//
// A Recipe is a serialisable description of a Go value (so that corpus and replay files can rebuild exactly the same
// payload); Build turns it into the Go value handed to the library and, independently of encoding/json, into the model
// value (MV, the jv of coq/Json.v: numbers as tokens, strings as raw bytes, members in emission order) or reports that
// the value belongs to the unencodable class.
package jgen

import (
	"encoding/base64"
	"encoding/hex"
	"errors"
	"fmt"
	"io"
	"math"
	"math/big"
	"reflect"
	"sort"
	"strconv"
	"strings"
	"time"
	"unicode/utf8"

	"encoding/json"

	"verifharness/hc"
)

// ---------------------------------------------------------------- model values
type MV struct {
	K string // null bool num str arr obj
	B bool
	S []byte // num token / string bytes
	A []*MV
	M []Member
}
type Member struct {
	Key []byte
	V   *MV
}

func Bytes(b []byte) string {
	var sb strings.Builder
	sb.WriteByte('[')
	for i, c := range b {
		if i > 0 {
			sb.WriteByte(';')
		}
		sb.WriteString(strconv.Itoa(int(c)))
	}
	sb.WriteByte(']')
	return sb.String()
}
func OptBytes(b []byte, ok bool) string {
	if !ok {
		return "None"
	}
	return "(Some " + Bytes(b) + ")"
}

// Lit prints the value as a Gallina term of type Json.jv (N_scope must be open).
func (m *MV) Lit() string {
	switch m.K {
	case "null":
		return "JNull"
	case "bool":
		if m.B {
			return "(JBool true)"
		}
		return "(JBool false)"
	case "num":
		return "(JNum " + Bytes(m.S) + ")"
	case "str":
		return "(JStr " + Bytes(m.S) + ")"
	case "arr":
		parts := make([]string, len(m.A))
		for i, x := range m.A {
			parts[i] = x.Lit()
		}
		return "(JArr [" + strings.Join(parts, "; ") + "])"
	case "obj":
		parts := make([]string, len(m.M))
		for i, x := range m.M {
			parts[i] = "(" + Bytes(x.Key) + ", " + x.V.Lit() + ")"
		}
		return "(JObj [" + strings.Join(parts, "; ") + "])"
	}
	panic("bad MV kind " + m.K)
}

// Sanitize is what a JSON reader gets back for a Go string: every byte that starts no valid UTF-8 sequence has become U+FFFD.
func Sanitize(s []byte) string {
	var sb strings.Builder
	for i := 0; i < len(s); {
		r, n := utf8.DecodeRune(s[i:])
		if r == utf8.RuneError && n == 1 {
			sb.WriteString("\uFFFD")
		} else {
			sb.Write(s[i : i+n])
		}
		i += n
	}
	return sb.String()
}

// Expect is the tree Go's own decoder (UseNumber) must produce for the encoding of the value.
func (m *MV) Expect() interface{} {
	switch m.K {
	case "null":
		return nil
	case "bool":
		return m.B
	case "num":
		return json.Number(string(m.S))
	case "str":
		return Sanitize(m.S)
	case "arr":
		out := make([]interface{}, len(m.A))
		for i, x := range m.A {
			out[i] = x.Expect()
		}
		return out
	case "obj":
		out := map[string]interface{}{}
		for _, x := range m.M {
			out[Sanitize(x.Key)] = x.V.Expect()
		}
		return out
	}
	panic("bad MV kind")
}

// ---------------------------------------------------------------- recipes
type Recipe struct {
	K   string    `json:"k"`             // nil bool int float num str bytes arr map struct unenc
	T   string    `json:"t,omitempty"`   // Go type variant
	V   string    `json:"v,omitempty"`   // scalar parameter (strings and keys in hex)
	Ks  []string  `json:"ks,omitempty"`  // map keys (hex) / struct tag names (plain)
	Opt []string  `json:"opt,omitempty"` // struct field options: "", "omitempty", "-", "untagged", "typed", "typed,omitempty"
	E   []*Recipe `json:"e,omitempty"`
}

type NamedMap map[string]interface{}
type NamedString string
type badMarshaler struct{ X int }

func (badMarshaler) MarshalJSON() ([]byte, error) { return nil, errors.New("cannot marshal") }

type invalidMarshaler struct{ X int }

func (invalidMarshaler) MarshalJSON() ([]byte, error) { return []byte(`{"x":`), nil }

type badText struct{ X int }

func (badText) MarshalText() ([]byte, error) { return nil, errors.New("cannot marshal text") }

// ---- values encoding/json renders specially (kind "special")
type fieldErr struct {
	Code int
	Msg  string
}

func (e fieldErr) Error() string { return e.Msg }

type jsonErr struct{ msg string }

func (e jsonErr) Error() string                { return e.msg }
func (e jsonErr) MarshalJSON() ([]byte, error) { return []byte(`{ "e" : "x" }`), nil }

type textErr struct{ msg string }

func (e textErr) Error() string                { return e.msg }
func (e textErr) MarshalText() ([]byte, error) { return []byte("text-err<"), nil }

type ptrMarshaler struct{ X int }

func (p *ptrMarshaler) MarshalJSON() ([]byte, error) { return []byte(`[1]`), nil }

type strg struct{ A int }

func (s strg) String() string { return "stringer-text" }

func num(tok string) *MV { return &MV{K: "num", S: []byte(tok)} }
func str(x string) *MV   { return &MV{K: "str", S: []byte(x)} }

// SpecialKinds lists the values of kind "special": errors of every flavour, Stringer, time, Duration, RawMessage, big ints,
// pointers to pointers, typed nils, floats at the extremes.  Their JSON images are written down here, not computed with
// encoding/json.
var SpecialKinds = []string{"err-new", "err-wrap", "err-eof", "err-fields", "err-fields-val", "err-marshaler", "err-text", "err-nil-typed",
	"stringer", "time", "duration", "rawmsg", "rawmsg-nil", "ptrptr", "bigint", "bigint-neg", "marshaler-ptr-nil", "marshaler-ptr",
	"maxfloat64", "minfloat64", "maxfloat32", "minfloat32"}

func buildSpecial(kind string) (interface{}, *MV) {
	empty := &MV{K: "obj", M: []Member{}}
	switch kind {
	case "err-new":
		return errors.New("boom"), empty
	case "err-wrap":
		return fmt.Errorf("reading: %w", io.EOF), empty
	case "err-eof":
		return io.EOF, empty
	case "err-fields":
		return &fieldErr{Code: 7, Msg: "m<"}, &MV{K: "obj", M: []Member{{[]byte("Code"), num("7")}, {[]byte("Msg"), str("m<")}}}
	case "err-fields-val":
		return fieldErr{Code: -1, Msg: ""}, &MV{K: "obj", M: []Member{{[]byte("Code"), num("-1")}, {[]byte("Msg"), str("")}}}
	case "err-marshaler":
		return jsonErr{"hidden"}, &MV{K: "obj", M: []Member{{[]byte("e"), str("x")}}}
	case "err-text":
		return textErr{"hidden"}, str("text-err<")
	case "err-nil-typed":
		return (*fieldErr)(nil), &MV{K: "null"}
	case "stringer":
		return strg{A: 1}, &MV{K: "obj", M: []Member{{[]byte("A"), num("1")}}}
	case "time":
		t := time.Unix(1700000000, 5).UTC()
		return t, str(t.Format(time.RFC3339Nano))
	case "duration":
		return 1500 * time.Millisecond, num("1500000000")
	case "rawmsg":
		return json.RawMessage("{\"a\": [1, 2 ],\n \"s\": \"<\"}"), &MV{K: "obj", M: []Member{{[]byte("a"), &MV{K: "arr", A: []*MV{num("1"), num("2")}}}, {[]byte("s"), str("<")}}}
	case "rawmsg-nil":
		return json.RawMessage(nil), &MV{K: "null"}
	case "ptrptr":
		i := 5
		p := &i
		return &p, num("5")
	case "bigint":
		b, _ := new(big.Int).SetString("123456789012345678901234567890", 10)
		return b, num("123456789012345678901234567890")
	case "bigint-neg":
		b, _ := new(big.Int).SetString("-340282366920938463463374607431768211456", 10)
		return b, num("-340282366920938463463374607431768211456")
	case "marshaler-ptr-nil":
		return (*ptrMarshaler)(nil), &MV{K: "null"}
	case "marshaler-ptr":
		return &ptrMarshaler{1}, &MV{K: "arr", A: []*MV{num("1")}}
	case "maxfloat64":
		return math.MaxFloat64, num("1.7976931348623157e+308")
	case "minfloat64":
		return math.SmallestNonzeroFloat64, num("5e-324")
	case "maxfloat32":
		return float32(math.MaxFloat32), num("3.4028235e+38")
	case "minfloat32":
		return float32(math.SmallestNonzeroFloat32), num("1e-45")
	}
	panic("bad special kind " + kind)
}

func unhex(s string) []byte {
	b, err := hex.DecodeString(s)
	if err != nil {
		panic(err)
	}
	return b
}

var ifaceType = reflect.TypeOf((*interface{})(nil)).Elem()

func isValidTag(s string) bool {
	if s == "" {
		return false
	}
	for _, c := range s {
		switch {
		case strings.ContainsRune("!#$%&()*+-./:;<=>?@[]^_{|}~ ", c):
		case c >= '0' && c <= '9', c >= 'a' && c <= 'z', c >= 'A' && c <= 'Z':
		case c > 127 && (isLetter(c)):
		default:
			return false
		}
	}
	return true
}
func isLetter(c rune) bool { return c == 'é' || c == 'ß' || c == 'λ' || c == '日' } // the only non-ASCII letters the generator uses

func emptyForOmit(v interface{}) bool {
	if v == nil {
		return true
	}
	rv := reflect.ValueOf(v)
	switch rv.Kind() {
	case reflect.Array, reflect.Map, reflect.Slice, reflect.String:
		return rv.Len() == 0
	case reflect.Bool, reflect.Int, reflect.Int8, reflect.Int16, reflect.Int32, reflect.Int64,
		reflect.Uint, reflect.Uint8, reflect.Uint16, reflect.Uint32, reflect.Uint64, reflect.Uintptr,
		reflect.Float32, reflect.Float64, reflect.Interface, reflect.Pointer:
		return rv.IsZero()
	}
	return false
}

// Build returns the Go value, its model value (nil when unencodable) and whether it can be encoded.
func Build(r *Recipe) (gv interface{}, mv *MV, ok bool) {
	switch r.K {
	case "nil":
		switch r.T {
		case "ptr":
			return (*int)(nil), &MV{K: "null"}, true
		case "map":
			return map[string]interface{}(nil), &MV{K: "null"}, true
		case "slice":
			return []interface{}(nil), &MV{K: "null"}, true
		case "bytes":
			return []byte(nil), &MV{K: "null"}, true
		}
		return nil, &MV{K: "null"}, true
	case "bool":
		b := r.V == "true"
		if r.T == "ptr" {
			return &b, &MV{K: "bool", B: b}, true
		}
		return b, &MV{K: "bool", B: b}, true
	case "int":
		mv = &MV{K: "num", S: []byte(r.V)}
		if strings.HasPrefix(r.T, "u") {
			u, err := strconv.ParseUint(r.V, 10, 64)
			if err != nil {
				panic(err)
			}
			switch r.T {
			case "uint8":
				return uint8(u), mv, true
			case "uint16":
				return uint16(u), mv, true
			case "uint32":
				return uint32(u), mv, true
			case "uint":
				return uint(u), mv, true
			}
			return u, mv, true
		}
		i, err := strconv.ParseInt(r.V, 10, 64)
		if err != nil {
			panic(err)
		}
		switch r.T {
		case "int8":
			return int8(i), mv, true
		case "int16":
			return int16(i), mv, true
		case "int32":
			return int32(i), mv, true
		case "int":
			return int(i), mv, true
		case "ptr":
			return &i, mv, true
		}
		return i, mv, true
	case "float":
		mv = &MV{K: "num", S: []byte(r.V)}
		if r.T == "float32" {
			f, err := strconv.ParseFloat(r.V, 32)
			if err != nil {
				panic(err)
			}
			return float32(f), mv, true
		}
		f, err := strconv.ParseFloat(r.V, 64)
		if err != nil {
			panic(err)
		}
		return f, mv, true
	case "num":
		tok := r.V
		if tok == "" {
			tok = "0"
		}
		if !ValidNumber(tok) {
			return json.Number(r.V), nil, false
		}
		return json.Number(r.V), &MV{K: "num", S: []byte(tok)}, true
	case "str":
		s := unhex(r.V)
		if r.T == "named" {
			return NamedString(s), &MV{K: "str", S: s}, true
		}
		if r.T == "ptr" {
			x := string(s)
			return &x, &MV{K: "str", S: s}, true
		}
		return string(s), &MV{K: "str", S: s}, true
	case "bytes":
		s := unhex(r.V)
		return s, &MV{K: "str", S: []byte(base64.StdEncoding.EncodeToString(s))}, true
	case "arr":
		ok = true
		mv = &MV{K: "arr", A: []*MV{}}
		vals := make([]interface{}, len(r.E))
		for i, c := range r.E {
			g, m, o := Build(c)
			vals[i] = g
			if !o {
				ok = false
			} else {
				mv.A = append(mv.A, m)
			}
		}
		if !ok {
			mv = nil
		}
		switch r.T {
		case "array":
			av := reflect.New(reflect.ArrayOf(len(vals), ifaceType)).Elem()
			for i, g := range vals {
				if g != nil {
					av.Index(i).Set(reflect.ValueOf(g))
				}
			}
			return av.Interface(), mv, ok
		case "ptr":
			return &vals, mv, ok
		}
		return vals, mv, ok
	case "map":
		ok = true
		type kv struct {
			k []byte
			m *MV
		}
		var kvs []kv
		gm := map[string]interface{}{}
		gi := map[int]interface{}{}
		for i, c := range r.E {
			g, m, o := Build(c)
			if !o {
				ok = false
			}
			if r.T == "intkey" {
				n, err := strconv.Atoi(r.Ks[i])
				if err != nil {
					panic(err)
				}
				gi[n] = g
				kvs = append(kvs, kv{[]byte(strconv.Itoa(n)), m})
			} else {
				k := unhex(r.Ks[i])
				gm[string(k)] = g
				kvs = append(kvs, kv{k, m})
			}
		}
		if ok {
			sort.Slice(kvs, func(i, j int) bool { return string(kvs[i].k) < string(kvs[j].k) })
			mv = &MV{K: "obj", M: []Member{}}
			for _, x := range kvs {
				mv.M = append(mv.M, Member{x.k, x.m})
			}
		}
		switch r.T {
		case "intkey":
			return gi, mv, ok
		case "named":
			return NamedMap(gm), mv, ok
		case "ptr":
			return &gm, mv, ok
		}
		return gm, mv, ok
	case "struct":
		ok = true
		mv = &MV{K: "obj", M: []Member{}}
		fields := make([]reflect.StructField, len(r.E))
		vals := make([]interface{}, len(r.E))
		for i, c := range r.E {
			g, m, o := Build(c)
			vals[i] = g
			opt := ""
			if i < len(r.Opt) {
				opt = r.Opt[i]
			}
			typed := strings.HasPrefix(opt, "typed") && g != nil
			omit := strings.HasSuffix(opt, "omitempty")
			ft := ifaceType
			if typed {
				ft = reflect.TypeOf(g)
			}
			goName := fmt.Sprintf("F%d", i)
			name := r.Ks[i]
			var tag string
			switch {
			case opt == "-":
				tag = `json:"-"`
			case opt == "untagged":
				name = goName
			default:
				tag = `json:"` + name
				if omit {
					tag += ",omitempty"
				}
				tag += `"`
				if !isValidTag(name) {
					name = goName
				}
			}
			fields[i] = reflect.StructField{Name: goName, Type: ft, Tag: reflect.StructTag(tag)}
			if opt == "-" {
				continue // skipped whatever it holds
			}
			if omit && ((typed && emptyForOmit(g)) || (!typed && g == nil)) {
				continue
			}
			if !o {
				ok = false
				continue
			}
			mv.M = append(mv.M, Member{[]byte(name), m})
		}
		if !ok {
			mv = nil
		}
		sv := reflect.New(reflect.StructOf(fields)).Elem()
		for i, g := range vals {
			if g != nil {
				sv.Field(i).Set(reflect.ValueOf(g))
			}
		}
		if r.T == "ptr" {
			return sv.Addr().Interface(), mv, ok
		}
		return sv.Interface(), mv, ok
	case "special":
		g, m := buildSpecial(r.V)
		return g, m, true
	case "unenc":
		switch r.V {
		case "nan":
			return math.NaN(), nil, false
		case "inf":
			return math.Inf(1), nil, false
		case "-inf":
			return math.Inf(-1), nil, false
		case "nan32":
			return float32(math.NaN()), nil, false
		case "chan":
			return make(chan int), nil, false
		case "func":
			return func() {}, nil, false
		case "complex":
			return complex(1, 2), nil, false
		case "mapfloatkey":
			return map[float64]int{1.5: 1}, nil, false
		case "cycle":
			m := map[string]interface{}{}
			m["self"] = m
			return m, nil, false
		case "badmarshaler":
			return badMarshaler{1}, nil, false
		case "invalidmarshaler":
			return invalidMarshaler{1}, nil, false
		case "badtext":
			return badText{1}, nil, false
		}
	}
	panic("bad recipe " + r.K + "/" + r.V)
}

// ValidNumber: the JSON number grammar (written independently of encoding/json).
func ValidNumber(s string) bool {
	i := 0
	n := len(s)
	if i < n && s[i] == '-' {
		i++
	}
	if i >= n {
		return false
	}
	if s[i] == '0' {
		i++
	} else if s[i] >= '1' && s[i] <= '9' {
		for i < n && s[i] >= '0' && s[i] <= '9' {
			i++
		}
	} else {
		return false
	}
	if i < n && s[i] == '.' {
		i++
		j := i
		for i < n && s[i] >= '0' && s[i] <= '9' {
			i++
		}
		if i == j {
			return false
		}
	}
	if i < n && (s[i] == 'e' || s[i] == 'E') {
		i++
		if i < n && (s[i] == '+' || s[i] == '-') {
			i++
		}
		j := i
		for i < n && s[i] >= '0' && s[i] <= '9' {
			i++
		}
		if i == j {
			return false
		}
	}
	return i == n
}

// FloatToken: the ES6-style text encoding/json gives the float d1.d2..dn x 10^e (digits without leading or trailing zero).
func FloatToken(neg bool, digits string, e int) string {
	var sb strings.Builder
	if neg {
		sb.WriteByte('-')
	}
	n := len(digits)
	switch {
	case e < -6 || e >= 21:
		sb.WriteString(digits[:1])
		if n > 1 {
			sb.WriteByte('.')
			sb.WriteString(digits[1:])
		}
		sb.WriteByte('e')
		if e < 0 {
			sb.WriteByte('-')
			sb.WriteString(strconv.Itoa(-e))
		} else {
			sb.WriteByte('+')
			if e < 10 {
				sb.WriteByte('0')
			}
			sb.WriteString(strconv.Itoa(e))
		}
	case e >= n-1:
		sb.WriteString(digits)
		sb.WriteString(strings.Repeat("0", e-(n-1)))
	case e >= 0:
		sb.WriteString(digits[:e+1])
		sb.WriteByte('.')
		sb.WriteString(digits[e+1:])
	default:
		sb.WriteString("0.")
		sb.WriteString(strings.Repeat("0", -e-1))
		sb.WriteString(digits)
	}
	return sb.String()
}

// ---------------------------------------------------------------- generation
type Gen struct {
	R     *hc.Rand
	Stats map[string]int
}

func (g *Gen) count(k string) { g.Stats[k]++ }

// LookalikePieces is exported for the exhaustive string sweep of fmth.
func LookalikePieces() [][]byte { return lookalikePieces }

var utf8Pieces = [][]byte{
	{0xC2, 0x80}, {0xC3, 0xA9}, {0xDF, 0xBF}, // 2-byte boundaries
	{0xE0, 0xA0, 0x80}, {0xE2, 0x82, 0xAC}, {0xED, 0x9F, 0xBF}, {0xEE, 0x80, 0x80}, {0xEF, 0xBF, 0xBD}, {0xEF, 0xBF, 0xBF},
	{0xE2, 0x80, 0xA7}, {0xE2, 0x80, 0xAA}, {0xE2, 0x81, 0xA8}, // neighbours of U+2028/9
	{0xF0, 0x90, 0x80, 0x80}, {0xF0, 0x9F, 0x98, 0x80}, {0xF4, 0x8F, 0xBF, 0xBF}, {0xF1, 0x80, 0x80, 0x80},
}
var sepPieces = [][]byte{{0xE2, 0x80, 0xA8}, {0xE2, 0x80, 0xA9}}

// literal text that looks like the escapes the encoder produces (a backslash is data here), and the characters those
// escapes stand for: a formatter that edits its output textually confuses the two
var lookalikePieces = [][]byte{[]byte(`\u003c`), []byte(`\u003e`), []byte(`\u0026`), []byte(`\u2028`), []byte(`\u2029`), []byte(`\n`), []byte(`\"`), []byte(`\\`),
	[]byte(`\u00`), []byte(`\u`), []byte(`\ufffd`), []byte(`\\u003c`), []byte("<"), []byte(">"), []byte("&"), {0xE2, 0x80, 0xA8}, {0xE2, 0x80, 0xA9}, []byte(`u003c`), []byte(`\`)}
var badPieces = [][]byte{
	{0x80}, {0xBF}, {0xC0, 0x80}, {0xC1, 0xBF}, {0xC2}, {0xC2, 0x7F}, {0xC2, 0xC0}, {0xE0, 0x9F, 0xBF}, {0xE0, 0xA0}, {0xE0, 0xA0, 0x7F},
	{0xED, 0xA0, 0x80}, {0xED, 0xBF, 0xBF}, {0xEF, 0xBF}, {0xF0, 0x8F, 0xBF, 0xBF}, {0xF0, 0x90, 0x80}, {0xF0, 0x90, 0x80, 0xC0},
	{0xF4, 0x90, 0x80, 0x80}, {0xF5, 0x80, 0x80, 0x80}, {0xFF}, {0xFE}, {0xE2, 0x80}, {0xE2, 0x28, 0xA8}, {0xF8, 0x88, 0x80, 0x80, 0x80},
}

// String draws a byte string mixing the classes appendString distinguishes.
func (g *Gen) String(maxPieces int) []byte {
	var s []byte
	n := g.R.Intn(maxPieces + 1)
	for i := 0; i < n; i++ {
		switch x := g.R.Intn(100); {
		case x < 8:
			s = append(s, lookalikePieces[g.R.Intn(len(lookalikePieces))]...)
			g.count("str:escape-lookalike")
		case x < 30:
			s = append(s, byte(32+g.R.Intn(95)))
			g.count("str:printable")
		case x < 42:
			s = append(s, byte(g.R.Intn(32)))
			g.count("str:control")
		case x < 54:
			s = append(s, []byte{'"', '\\', '<', '>', '&', 0x7f, '/', '\'', 0x1f, 0x20}[g.R.Intn(10)])
			g.count("str:special")
		case x < 68:
			s = append(s, utf8Pieces[g.R.Intn(len(utf8Pieces))]...)
			g.count("str:utf8")
		case x < 76:
			s = append(s, sepPieces[g.R.Intn(2)]...)
			g.count("str:u2028/9")
		case x < 90:
			s = append(s, badPieces[g.R.Intn(len(badPieces))]...)
			g.count("str:invalid-utf8")
		default:
			s = append(s, byte(128+g.R.Intn(128)))
			g.count("str:random-high-byte")
		}
	}
	return s
}

var tagNames = []string{"a", "name", "Name", "x_1", "with space", "a&b", "<k>", "p.q", "k:v", "日", "λ", "é", "bad'q", "a`b", "", "z-9", "{~}", "F0"}

var intChoices = []struct{ t, v string }{
	{"int", "0"}, {"int", "-1"}, {"int", "1"}, {"int64", "9223372036854775807"}, {"int64", "-9223372036854775808"},
	{"uint64", "18446744073709551615"}, {"uint64", "9223372036854775808"}, {"int8", "-128"}, {"int8", "127"}, {"uint8", "255"},
	{"int16", "-32768"}, {"uint16", "65535"}, {"int32", "2147483647"}, {"int32", "-2147483648"}, {"uint32", "4294967295"},
	{"uint", "0"}, {"ptr", "42"}, {"int64", "9007199254740993"}, {"int64", "-9007199254740993"}, {"int", "1000000000000000000"},
}
var numTokens = []string{"0", "-0", "1", "1.50", "-1.5e3", "1E5", "1e+05", "0.0e-0", "123456789012345678901234567890", "1e400", "-0.000", "",
	"01", "1.", ".5", "+1", "1e", "1e+", "0x10", "NaN", " 1", "1 ", "--1", "1.5.2", "-"}
var unencKinds = []string{"nan", "inf", "-inf", "nan32", "chan", "func", "complex", "mapfloatkey", "cycle", "badmarshaler", "invalidmarshaler", "badtext"}

func (g *Gen) floatRecipe() *Recipe {
	bits32 := g.R.Chance(1, 4)
	maxd := 15
	if bits32 {
		maxd = 6
	}
	n := 1 + g.R.Intn(maxd)
	ds := make([]byte, n)
	for i := range ds {
		ds[i] = byte('0' + g.R.Intn(10))
	}
	if ds[0] == '0' {
		ds[0] = byte('1' + g.R.Intn(9))
	}
	if n > 1 && ds[n-1] == '0' {
		ds[n-1] = byte('1' + g.R.Intn(9))
	}
	var e int
	switch g.R.Intn(4) {
	case 0: // on the format cut-offs
		e = []int{-8, -7, -6, -5, 19, 20, 21, 22, n - 2, n - 1, n, -1, 0}[g.R.Intn(13)]
	default:
		e = g.R.Intn(50) - 25
	}
	if bits32 && (e > 30 || e < -30) {
		e = 3
	}
	t := "float64"
	if bits32 {
		t = "float32"
	}
	g.count("leaf:float")
	return &Recipe{K: "float", T: t, V: FloatToken(g.R.Chance(1, 3), string(ds), e)}
}

// Value draws a recipe. unencPermille is the chance (in 1000) that a node is drawn from the unencodable class.
func (g *Gen) Value(depth int, unencPermille int) *Recipe {
	if unencPermille > 0 && g.R.Intn(1000) < unencPermille {
		g.count("leaf:unencodable")
		k := unencKinds[g.R.Intn(len(unencKinds))]
		g.count("unenc:" + k)
		return &Recipe{K: "unenc", V: k}
	}
	if g.R.Chance(1, 12) {
		k := SpecialKinds[g.R.Intn(len(SpecialKinds))]
		g.count("leaf:special")
		g.count("special:" + k)
		return &Recipe{K: "special", V: k}
	}
	x := g.R.Intn(100)
	if depth <= 0 && x >= 62 {
		x = g.R.Intn(62)
	}
	switch {
	case x < 6:
		g.count("leaf:nil")
		return &Recipe{K: "nil", T: []string{"iface", "ptr", "map", "slice", "bytes"}[g.R.Intn(5)]}
	case x < 11:
		g.count("leaf:bool")
		return &Recipe{K: "bool", V: strconv.FormatBool(g.R.Bool()), T: []string{"", "ptr"}[g.R.Intn(2)]}
	case x < 20:
		g.count("leaf:int")
		if g.R.Bool() {
			c := intChoices[g.R.Intn(len(intChoices))]
			return &Recipe{K: "int", T: c.t, V: c.v}
		}
		return &Recipe{K: "int", T: "int64", V: strconv.FormatInt(int64(g.R.U64()>>uint(g.R.Intn(64)))*int64(1-2*g.R.Intn(2)), 10)}
	case x < 29:
		if g.R.Chance(1, 8) {
			g.count("leaf:float")
			return &Recipe{K: "float", T: "float64", V: []string{"0", "-0"}[g.R.Intn(2)]}
		}
		return g.floatRecipe()
	case x < 34:
		g.count("leaf:json.Number")
		return &Recipe{K: "num", V: numTokens[g.R.Intn(len(numTokens))]}
	case x < 58:
		g.count("leaf:string")
		return &Recipe{K: "str", V: hex.EncodeToString(g.String(8)), T: []string{"", "", "", "named", "ptr"}[g.R.Intn(5)]}
	case x < 62:
		g.count("leaf:[]byte")
		return &Recipe{K: "bytes", V: hex.EncodeToString(g.String(5))}
	case x < 74:
		g.count("node:slice/array")
		n := g.R.Intn(4)
		r := &Recipe{K: "arr", T: []string{"", "", "array", "ptr"}[g.R.Intn(4)]}
		for i := 0; i < n; i++ {
			r.E = append(r.E, g.Value(depth-1, unencPermille))
		}
		return r
	case x < 88:
		g.count("node:map")
		n := g.R.Intn(4)
		r := &Recipe{K: "map", T: []string{"", "", "named", "ptr", "intkey"}[g.R.Intn(5)]}
		seen := map[string]bool{}
		for i := 0; i < n; i++ {
			var k string
			if r.T == "intkey" {
				k = strconv.Itoa(g.R.Intn(30) - 10)
			} else {
				k = hex.EncodeToString(g.String(4))
			}
			if seen[k] {
				continue
			}
			seen[k] = true
			r.Ks = append(r.Ks, k)
			r.E = append(r.E, g.Value(depth-1, unencPermille))
		}
		return r
	default:
		g.count("node:struct")
		n := g.R.Intn(5)
		r := &Recipe{K: "struct", T: []string{"", "ptr"}[g.R.Intn(2)]}
		for i := 0; i < n; i++ {
			name := tagNames[g.R.Intn(len(tagNames))]
			opt := []string{"", "", "omitempty", "-", "untagged", "typed", "typed,omitempty"}[g.R.Intn(7)]
			var c *Recipe
			if opt == "-" {
				c = g.Value(depth-1, 300) // a skipped field may hold anything
			} else if strings.HasSuffix(opt, "omitempty") {
				c = g.emptyish(depth - 1)
			} else {
				c = g.Value(depth-1, unencPermille)
			}
			r.Ks = append(r.Ks, name)
			r.Opt = append(r.Opt, opt)
			r.E = append(r.E, c)
		}
		// names F<i> are positional: re-check after skipping
		return g.fixStruct(r)
	}
}

// fixStruct drops fields whose effective names collide after positions were assigned.
func (g *Gen) fixStruct(r *Recipe) *Recipe {
	for {
		seen := map[string]int{}
		bad := -1
		for i := range r.E {
			if r.Opt[i] == "-" {
				continue
			}
			eff := r.Ks[i]
			if r.Opt[i] == "untagged" || !isValidTag(eff) {
				eff = fmt.Sprintf("F%d", i)
			}
			if _, dup := seen[eff]; dup {
				bad = i
				break
			}
			seen[eff] = i
		}
		if bad < 0 {
			return r
		}
		r.Ks = append(r.Ks[:bad], r.Ks[bad+1:]...)
		r.Opt = append(r.Opt[:bad], r.Opt[bad+1:]...)
		r.E = append(r.E[:bad], r.E[bad+1:]...)
	}
}

// emptyish draws values on both sides of the omitempty test.
func (g *Gen) emptyish(depth int) *Recipe {
	switch g.R.Intn(10) {
	case 0:
		return &Recipe{K: "nil", T: []string{"iface", "ptr", "map", "slice"}[g.R.Intn(4)]}
	case 1:
		return &Recipe{K: "bool", V: "false"}
	case 2:
		return &Recipe{K: "int", T: "int", V: "0"}
	case 3:
		return &Recipe{K: "str", V: ""}
	case 4:
		return &Recipe{K: "arr"}
	case 5:
		return &Recipe{K: "map"}
	case 6:
		return &Recipe{K: "float", T: "float64", V: "0"}
	}
	return g.Value(depth, 0)
}

// Depth is the nesting depth of a recipe.
func Depth(r *Recipe) int {
	d := 0
	for _, c := range r.E {
		if x := Depth(c); x > d {
			d = x
		}
	}
	return d + 1
}

// ---------------------------------------------------------------- deep snapshot ("the payload itself is untouched")
func Snapshot(v interface{}) string {
	var sb strings.Builder
	snap(&sb, reflect.ValueOf(v), map[uintptr]bool{}, 0)
	return sb.String()
}
func snap(sb *strings.Builder, v reflect.Value, seen map[uintptr]bool, depth int) {
	if !v.IsValid() {
		sb.WriteString("<nil>")
		return
	}
	if depth > 50 {
		sb.WriteString("<deep>")
		return
	}
	fmt.Fprintf(sb, "%s:", v.Type().String())
	switch v.Kind() {
	case reflect.Bool:
		fmt.Fprintf(sb, "%v", v.Bool())
	case reflect.Int, reflect.Int8, reflect.Int16, reflect.Int32, reflect.Int64:
		fmt.Fprintf(sb, "%d", v.Int())
	case reflect.Uint, reflect.Uint8, reflect.Uint16, reflect.Uint32, reflect.Uint64, reflect.Uintptr:
		fmt.Fprintf(sb, "%d", v.Uint())
	case reflect.Float32, reflect.Float64:
		fmt.Fprintf(sb, "%x", math.Float64bits(v.Float()))
	case reflect.Complex64, reflect.Complex128:
		fmt.Fprintf(sb, "%v", v.Complex())
	case reflect.String:
		fmt.Fprintf(sb, "%x", v.String())
	case reflect.Chan, reflect.Func, reflect.UnsafePointer:
		fmt.Fprintf(sb, "nil=%v", v.IsNil())
	case reflect.Interface, reflect.Pointer:
		if v.IsNil() {
			sb.WriteString("nil")
			return
		}
		if v.Kind() == reflect.Pointer {
			if seen[v.Pointer()] {
				sb.WriteString("<cycle>")
				return
			}
			seen[v.Pointer()] = true
			defer delete(seen, v.Pointer())
		}
		sb.WriteString("&")
		snap(sb, v.Elem(), seen, depth+1)
	case reflect.Slice, reflect.Array:
		if v.Kind() == reflect.Slice && v.IsNil() {
			sb.WriteString("nil")
			return
		}
		sb.WriteString("[")
		for i := 0; i < v.Len(); i++ {
			snap(sb, v.Index(i), seen, depth+1)
			sb.WriteString(",")
		}
		sb.WriteString("]")
	case reflect.Map:
		if v.IsNil() {
			sb.WriteString("nil")
			return
		}
		if seen[v.Pointer()] {
			sb.WriteString("<cycle>")
			return
		}
		seen[v.Pointer()] = true
		defer delete(seen, v.Pointer())
		type ent struct{ k, v string }
		var ents []ent
		it := v.MapRange()
		for it.Next() {
			var kb, vb strings.Builder
			snap(&kb, it.Key(), seen, depth+1)
			snap(&vb, it.Value(), seen, depth+1)
			ents = append(ents, ent{kb.String(), vb.String()})
		}
		sort.Slice(ents, func(i, j int) bool { return ents[i].k < ents[j].k })
		sb.WriteString("{")
		for _, e := range ents {
			sb.WriteString(e.k + "=>" + e.v + ";")
		}
		sb.WriteString("}")
	case reflect.Struct:
		sb.WriteString("{")
		for i := 0; i < v.NumField(); i++ {
			sb.WriteString(v.Type().Field(i).Name + "=")
			snap(sb, v.Field(i), seen, depth+1)
			sb.WriteString(";")
		}
		sb.WriteString("}")
	}
}

// ErrorsIn lists, with their paths, the values implementing error reachable through maps, slices, arrays, pointers,
// interfaces and struct fields: after Process the same paths must hold the very same values.
type ErrAt struct {
	Path string
	V    interface{}
}

var errorType = reflect.TypeOf((*error)(nil)).Elem()

func ErrorsIn(v interface{}) []ErrAt {
	var out []ErrAt
	errorsIn(reflect.ValueOf(v), "$", map[uintptr]bool{}, &out, 0)
	sort.SliceStable(out, func(i, j int) bool { return out[i].Path < out[j].Path })
	return out
}
func errorsIn(v reflect.Value, path string, seen map[uintptr]bool, out *[]ErrAt, depth int) {
	if !v.IsValid() || depth > 30 {
		return
	}
	if v.Type().Implements(errorType) && v.CanInterface() && !(v.Kind() == reflect.Interface && v.IsNil()) {
		*out = append(*out, ErrAt{path, v.Interface()})
	}
	switch v.Kind() {
	case reflect.Interface:
		if !v.IsNil() {
			errorsIn(v.Elem(), path, seen, out, depth+1)
		}
	case reflect.Pointer:
		if !v.IsNil() && !seen[v.Pointer()] {
			seen[v.Pointer()] = true
			errorsIn(v.Elem(), path+"*", seen, out, depth+1)
		}
	case reflect.Slice, reflect.Array:
		for i := 0; i < v.Len(); i++ {
			errorsIn(v.Index(i), fmt.Sprintf("%s[%d]", path, i), seen, out, depth+1)
		}
	case reflect.Map:
		if v.IsNil() || seen[v.Pointer()] {
			return
		}
		seen[v.Pointer()] = true
		it := v.MapRange()
		for it.Next() {
			errorsIn(it.Value(), fmt.Sprintf("%s[%q]", path, fmt.Sprint(it.Key().Interface())), seen, out, depth+1)
		}
	case reflect.Struct:
		for i := 0; i < v.NumField(); i++ {
			if v.Type().Field(i).IsExported() {
				errorsIn(v.Field(i), path+"."+v.Type().Field(i).Name, seen, out, depth+1)
			}
		}
	}
}

// SameErrors: the same paths hold identical error values (same dynamic type; the same pointer for pointer errors, equal
// values otherwise) and each is still itself for errors.Is.
func SameErrors(before, after []ErrAt) bool {
	if len(before) != len(after) {
		return false
	}
	for i := range before {
		a, b := before[i], after[i]
		if a.Path != b.Path || reflect.TypeOf(a.V) != reflect.TypeOf(b.V) {
			return false
		}
		ra, rb := reflect.ValueOf(a.V), reflect.ValueOf(b.V)
		if ra.Kind() == reflect.Pointer {
			if ra.Pointer() != rb.Pointer() {
				return false
			}
		} else if !reflect.DeepEqual(a.V, b.V) {
			return false
		}
		if ea, ok := a.V.(error); ok && ra.Kind() == reflect.Pointer && !ra.IsNil() {
			if eb, ok2 := b.V.(error); !ok2 || !errors.Is(eb, ea) {
				return false
			}
		}
	}
	return true
}
