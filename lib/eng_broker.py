"""Broker registry engine: brokerh (Go, real Broker) vs Broker.v/Run_Broker.v (Coq), for C05 C06 C07 C20 (+ thresholds of C02)."""
import json
import os
import vcheck as V

OPK = {1: "RegisterNode", 2: "RemoveNode", 3: "RegisterPipeline", 4: "RemovePipeline", 5: "RemovePipelineAndNodes",
       6: "SetSuccessThreshold", 7: "SetSuccessThresholdSinks", 8: "Reopen"}

# which mismatch kinds (optionally restricted to operation kinds) speak about which property
RELEVANT = {
    "C05": lambda k, op: k in ("KFrame", "KIsAny", "KIsAnySpec") or (k in ("KOk", "KErr") and op == 3),
    "C06": lambda k, op: k in ("KInUse", "KClosed", "KDoubleClose", "KNodeSet") or (k in ("KOk", "KErr") and op in (2, 4, 5)),
    "C07": lambda k, op: k in ("KNodeObj", "KDeliv", "KPipes") or (k in ("KOk", "KErr") and op in (1, 3)),
    "C20": lambda k, op: k == "KReopen",
    "C02": lambda k, op: k == "KThr" or (k in ("KOk", "KErr") and op in (6, 7)),
}

ARGS = {
    ("C05", "quick"): ["-modes", "typeseq,bfs,random,rebind,policy", "-policy-len", "2", "-typeseq-len", "5", "-bfs-depth", "3", "-bfs-budget", "1500", "-random", "150"],
    ("C05", "thorough"): ["-modes", "typeseq,bfs,random,rebind,policy", "-policy-len", "3", "-typeseq-len", "5", "-bfs-depth", "4", "-bfs-budget", "40000", "-random", "2000", "-random-len", "60"],
    ("C06", "quick"): ["-modes", "bfs,random,rebind", "-bfs-depth", "4", "-bfs-budget", "3500", "-random", "500", "-random-len", "60"],
    ("C06", "thorough"): ["-modes", "bfs,random,rebind", "-bfs-depth", "5", "-bfs-budget", "60000", "-random", "5000", "-random-len", "60"],
    ("C07", "quick"): ["-modes", "policy,random,rebind", "-policy-len", "3", "-random", "300", "-overwrite-race-ms", "2500"],
    ("C07", "thorough"): ["-modes", "policy,bfs,random,rebind", "-policy-len", "4", "-bfs-depth", "4", "-bfs-budget", "20000", "-random", "3000", "-random-len", "60", "-overwrite-race-ms", "20000"],
    ("C20", "quick"): ["-modes", "rebind,bfs,random", "-bfs-reopen", "-bfs-small", "-bfs-depth", "3", "-bfs-budget", "3500", "-random", "300"],
    ("C20", "thorough"): ["-modes", "rebind,bfs,random", "-bfs-reopen", "-bfs-small", "-bfs-depth", "4", "-bfs-budget", "40000", "-random", "3000", "-random-len", "60"],
    ("C02", "quick"): ["-modes", "random", "-random", "400"],
    ("C02", "thorough"): ["-modes", "random", "-random", "4000", "-random-len", "60"],
}


def check(ctx):
    V.check_properties_file(ctx, "Properties_%s.v" % ctx.prop)
    if ctx.prop == "C07":
        # static tie of Conc.overwritten_exactly_one_version to the code: RegisterPipeline performs exactly one Store and no
        # Delete on the pipeline map (obligation over the file regenerated from the source by the translator)
        import eng_locks
        eng_locks.overwrite_atomic_obligation(ctx)
    run(ctx)
    ctx.assumptions += ASSUMPTIONS


ASSUMPTIONS = ["node Process/Close/Reopen outcomes are oracle parameters of the model (universally quantified in the theorems)",
               "sync.Map Store/Delete/Load/Range contract; Go mutex semantics",
               "the harness observes internal reference counts only as the boolean 'in use' through the verif-tagged snapshot hook"]
PROPS = {"C05": check, "C06": check, "C07": check, "C20": check}
_NOTE = ("Trusted: Coq 8.16.1 kernel + vm_compute; no axioms (Print Assumptions: closed under the global context); the Go correspondence "
         "harness brokerh and its projection of observables; node behaviour, sync.Map and mutex semantics are modelled (oracle parameters), not verified.")
_TECH = "Coq proof over executable model + differential correspondence (vm_compute on harness cases)"
MANIFEST = {
    "C05": {"text": "Broker.v registry model; theorems register_pipeline_ok_iff (acceptance <-> declarative wf_spec, all node lists, all states), refusal_frame, is_any_iff (all histories); tie: brokerh runs all node-type sequences <=5 with id faults/existing policies, BFS over the implementation's state space and random histories on the real Broker and Run_Broker.mismatches is evaluated by vm_compute on the same histories", "design_ref": "5.C05", "note": _NOTE, "technique": _TECH, "engine": "coq-broker"},
    "C06": {"text": "theorems rc_exact / in_use_iff / nothing_pinned / remove_in_use_refused / rpan_spec over every history and close-failure oracle (invariant binv by induction over the operation list); tie: BFS + random histories, in-use / closed objects / registry snapshot compared after every call, plus an observation-only double-close oracle", "design_ref": "5.C06", "note": _NOTE, "technique": _TECH, "engine": "coq-broker"},
    "C07": {"text": "theorems deny_sticky_node / deny_sticky_pipeline (over all histories), deny_*_refuses, allow_then_reregister, allow_node_reregister, invalid_policy_rejected_*, node_reregistration_local; tie: all policy sequences <=4 per id interleaved with removals + random histories, probe Send identifies the version linked", "design_ref": "5.C07", "note": _NOTE, "technique": _TECH, "engine": "coq-broker"},
    "C20": {"text": "theorems reopen_all / reopen_reaches_registered / reopen_error_carried / reopen_errors_are_real for every visiting order of graphs and pipelines; tie: BFS states x each single failing object, Reopen observations accepted by Run_Broker.reopen_accepts", "design_ref": "5.C20", "note": _NOTE, "technique": _TECH, "engine": "coq-broker"},
}
ENGINE = {"name": "coq-broker", "path": "coq/Broker.v coq/BrokerProofs.v coq/Run_Broker.v harness/cmd/brokerh lib/eng_broker.py",
          "serves_properties": ["C05", "C06", "C07", "C20"], "kind_free_text": "Coq model + proofs; Go differential driver; vm_compute comparison"}


def run(ctx, prop=None):
    prop = prop or ctx.prop
    part = {}
    ctx.coverage["parts"]["broker-correspondence"] = part
    binp, out = V.go_build(ctx, "./cmd/brokerh")
    if not binp:
        rp = V.write_replay(ctx, "harness-build", {"kind": "correspondence", "theorem_or_correspondence": "brokerh does not build against the tree", "output": out[-4000:]})
        ctx.violations.append({"match": "harness-build", "replay": rp, "what": "correspondence harness brokerh no longer builds against the tree", "no_input": True})
        return
    cdir = os.path.join(ctx.work, "broker")
    os.makedirs(cdir, exist_ok=True)
    args = [binp, "-out", cdir, "-prefix", "cases"] + ARGS[(prop, ctx.tier)]
    corpus = os.path.join(V.VERIF, "corpus", prop, "broker.jsonl")
    if os.path.exists(corpus):
        args += ["-corpus", corpus]
    env = dict(os.environ, VERIF_SEED=str(ctx.seed))
    rc, out = V.run(args, env=env, timeout=3000)
    ctx.log(out.strip()[-500:])
    if rc != 0:
        rp = V.write_replay(ctx, "harness-run", {"kind": "correspondence", "output": out[-4000:]})
        ctx.violations.append({"match": "harness-crash", "replay": rp, "what": "brokerh crashed", "no_input": True})
        return
    summ = json.load(open(os.path.join(cdir, "cases_summary.json")))
    cases = {}
    for line in open(os.path.join(cdir, "cases.jsonl")):
        c = json.loads(line)
        cases[c["id"]] = c
    for p in summ.get("panics") or []:
        cid = int(p.split()[1].rstrip(":"))
        rp = V.write_replay(ctx, "panic-%d" % cid, {"kind": "correspondence", "engine": "brokerh", "what": p, "case": cases.get(cid)})
        ctx.violations.append({"match": "broker:hang" if "HANG" in p else "panic", "replay": rp,
                               "what": ("a Broker call did not return: " if "HANG" in p else "Broker panicked: ") + p})
    race = summ.get("overwrite_race")
    if race:
        part["overwrite_race_search"] = {k: race[k] for k in race if k != "violations"}
        if race.get("violations"):
            rp = V.write_replay(ctx, "overwrite-race", {
                "kind": "search", "engine": "brokerh", "theorem_or_correspondence": "Conc: overwritten_exactly_one_version (each Send is processed by exactly one version)",
                "schedule": "6 sender goroutines against a loop of overwriting RegisterPipeline calls alternating two versions of (t,p)",
                "observed": race, "repro": "brokerh -modes '' -overwrite-race-ms 4000"})
            ctx.violations.append({"match": "broker:overwrite-race", "replay": rp,
                                   "what": "C07: a Send racing with an overwriting RegisterPipeline was not processed by exactly one version: " + race["violations"][0]})
    mism, failures = V.eval_shards(ctx, summ["files"])
    V.prune_shards(summ["files"], keep=[f for f, _ in failures])
    for f, o in failures:
        rp = V.write_replay(ctx, "coqc-" + os.path.basename(f), {"kind": "correspondence", "theorem_or_correspondence": "Run_Broker.mismatches on " + f, "output": o})
        ctx.violations.append({"match": "coqc-failure", "replay": rp, "what": "case file %s could not be evaluated" % f, "no_input": True})
    rel = RELEVANT[prop]
    by_case = {}
    others = 0
    for cid, step, opk, kind in mism:
        cid, step, opk = int(cid), int(step), int(opk)
        if rel(kind, opk):
            by_case.setdefault(cid, []).append((step, opk, kind))
        else:
            others += 1
    # report the smallest failing case per (kind, op) signature
    sigs = {}
    for cid, ms in by_case.items():
        ms.sort()
        step, opk, kind = ms[0]
        sig = "%s@%s" % (kind, OPK.get(opk, opk))
        n = len(cases[cid]["ops"])
        if sig not in sigs or n < sigs[sig][0]:
            sigs[sig] = (n, cid, ms)
    for sig, (n, cid, ms) in sorted(sigs.items()):
        c = cases[cid]
        rp = V.write_replay(ctx, "broker-%s" % sig, {
            "kind": "correspondence", "engine": "brokerh", "theorem_or_correspondence": "Run_Broker.mismatches (model Broker.v vs real Broker)",
            "signature": sig, "first_mismatch": {"step": ms[0][0], "op": OPK.get(ms[0][1]), "kind": ms[0][2]},
            "all_mismatches_of_case": [{"step": s, "op": OPK.get(o), "kind": k} for s, o, k in ms],
            "case": c, "cases_failing_with_any_relevant_kind": len(by_case),
            "repro": "bin/check replay %s" % "<this file>"})
        ctx.violations.append({"match": "broker:" + sig, "replay": rp,
                               "what": "%s: model and implementation disagree on %s at step %d of case %d (%d cases affected in total)" % (prop, sig, ms[0][0], cid, len(by_case))})
    ctx.coverage["evaluations"] += summ["cases"]
    ctx.coverage["distinct_nontrivial"] += summ["distinct_nontrivial"]
    ctx.coverage["traces_validated_against_impl"] = ctx.coverage.get("traces_validated_against_impl", 0) + summ["cases"]
    part.update({k: summ[k] for k in summ if k not in ("files", "panics")})
    part["mismatches_on_other_observables_ignored_for_this_property"] = others
    part["rule"] = ("histories of Broker calls run on the real Broker; after every call the harness observes result, closed objects, "
                    "registry snapshot (verif hook), IsAnyPipelineRegistered, thresholds and a probe Send per type; the Coq model is run on the "
                    "same history by vm_compute. distinct_nontrivial = distinct histories in which at least one RegisterPipeline succeeded.")
    ctx.coverage["rule"] = part["rule"]
    sample_ids = sorted(cases)[:1] + sorted(cases)[-1:]
    ctx.coverage["samples"] += [cases[i] for i in sample_ids]
    if summ.get("bfs_exhaustive_to_requested_depth") is not None:
        ctx.coverage["exhaustive"] = bool(summ.get("bfs_exhaustive_to_requested_depth"))


def handles_replay(rec):
    return rec.get("engine") == "brokerh"


def replay(ctx, rec, path):
    """re-run the recorded history on the real Broker and on the model, print both"""
    binp, out = V.go_build(ctx, "./cmd/brokerh")
    if not binp:
        print(out)
        return 1
    cdir = os.path.join(ctx.work, "broker")
    os.makedirs(cdir, exist_ok=True)
    corpus = os.path.join(cdir, "one.jsonl")
    open(corpus, "w").write(json.dumps(rec["case"]) + "\n")
    rc, out = V.run([binp, "-replay", path])
    print(out)
    rc, out = V.run([binp, "-out", cdir, "-modes", "", "-corpus", corpus])
    summ = json.load(open(os.path.join(cdir, "cases_summary.json")))
    race = summ.get("overwrite_race")
    if race:
        part["overwrite_race_search"] = {k: race[k] for k in race if k != "violations"}
        if race.get("violations"):
            rp = V.write_replay(ctx, "overwrite-race", {
                "kind": "search", "engine": "brokerh", "theorem_or_correspondence": "Conc: overwritten_exactly_one_version (each Send is processed by exactly one version)",
                "schedule": "6 sender goroutines against a loop of overwriting RegisterPipeline calls alternating two versions of (t,p)",
                "observed": race, "repro": "brokerh -modes '' -overwrite-race-ms 4000"})
            ctx.violations.append({"match": "broker:overwrite-race", "replay": rp,
                                   "what": "C07: a Send racing with an overwriting RegisterPipeline was not processed by exactly one version: " + race["violations"][0]})
    mism, failures = V.eval_shards(ctx, summ["files"])
    print("model vs implementation mismatches (case, step, op, kind):", mism, failures)
    return 1 if (mism or failures or summ.get("panics")) else 0


def hang_part(ctx):
    """for C12: random registry histories (wrapped / unclosable / nil-unwrap nodes, close failures) run under brokerh's
    per-history watchdog; only calls that do not return (or panic) are reported"""
    part = {}
    ctx.coverage["parts"]["broker-call-watchdog"] = part
    binp, out = V.go_build(ctx, "./cmd/brokerh")
    if not binp:
        part["error"] = "brokerh does not build"
        return
    cdir = os.path.join(ctx.work, "broker-hang")
    os.makedirs(cdir, exist_ok=True)
    n = "300" if ctx.tier == "quick" else "3000"
    rc, out = V.run([binp, "-out", cdir, "-prefix", "cases", "-modes", "random", "-random", n, "-random-len", "40"], env=dict(os.environ, VERIF_SEED=str(ctx.seed)), timeout=3000)
    summ = json.load(open(os.path.join(cdir, "cases_summary.json")))
    cases = {}
    for line in open(os.path.join(cdir, "cases.jsonl")):
        c = json.loads(line)
        cases[c["id"]] = c
    V.prune_shards(summ["files"])
    part.update({"histories": summ["cases"], "hangs_or_panics": len(summ.get("panics") or [])})
    ctx.coverage["evaluations"] += summ["cases"]
    for p in (summ.get("panics") or [])[:3]:
        cid = int(p.split()[1].rstrip(":"))
        rp = V.write_replay(ctx, "broker-call-%d" % cid, {"kind": "search", "engine": "brokerh", "what": p, "case": cases.get(cid)})
        ctx.violations.append({"match": "broker:hang" if "HANG" in p else "broker:panic", "replay": rp, "what": "C12: " + p})
