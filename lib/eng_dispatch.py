"""Dispatch engine: dispatchh (Go, real Broker.Send with verif hooks) vs Dispatch.v / Run_Dispatch.v (Coq), for C01 C02 C03.

The driver records the hook trace of every Send it runs (registries built through the public API, behaviours per node and
visit, cancellation forced at semantic hook positions, both hand-off orders); the Coq acceptor replays each trace through
the step function of the protocol model and compares the returned Status / error with the model's collector and get_error."""
import json
import os
import vcheck as V

EVK = {0: "end-of-trace", 1: "cancel", 2: "root.start", 3: "node.call", 4: "node.ret", 5: "send.delivered", 6: "send.aborted",
       7: "task.exit", 8: "wg.wait", 9: "chan.close", 10: "collector.ctxdone", 11: "collector.closed", 12: "collector.recv", 13: "send.returned"}

KIND_TEXT = {
    "KCall": "a root start / Process call / return the model does not allow here (registration order, at most once per traversal)",
    "KChain": "a node was given another event than the one its predecessor returned (or than the event Send built)",
    "KSkipped": "the Range loop ended with registered pipelines unstarted although the context was not done",
    "KCalls": "the harness nodes' own invocation log differs from the calls of the accepted trace (a node of another type's pipeline, or a second invocation)",
    "KEvent0": "the event given to a first node lacks the sent type / payload / creation time / empty format table (or is the payload *Event itself), or a node was given an event whose CONTENT is not what its predecessor returned",
    "KRegistry": "the pipelines the implementation dispatches to differ from those the registration history registered (registry model)",
    "KRecv": "the collector received a Status that is not the sender's own",
    "KAbortLive": "a status was dropped although the context was not done",
    "KStatus": "returned Status (complete ids, complete-sink ids, warnings as multisets) differs from what the pipelines handed over",
    "KErr": "Send's error nil/non-nil differs from get_error (completes < threshold or complete sinks < sink threshold)",
    "KErrCtx": "the returned error does / does not wrap the context's error",
    "KInvented": "more Status entries (completes + warnings) than registered pipelines, or, with a context never cancelled, not exactly one per pipeline",
    "KNoGraph": "Send for a type without graph must fail, return an empty Status and invoke nothing",
    "KProto": "a protocol event (hand-off, exit, wg.Wait, close, collector exit) that is not an enabled step of the model",
    "KLeak": "Send had returned and every node had returned, yet a goroutine created under that Send was still there (an invocation of doProcess that never exited, a status channel never closed, or — goroutine dump diff — a goroutine of the library / of a context derived from the caller's context)",
    "KHang": "Send did not return",
}
RELEVANT = {
    "C01": {"KCall", "KChain", "KSkipped", "KCalls", "KEvent0", "KRegistry"},
    "C02": {"KRecv", "KAbortLive", "KStatus", "KErr", "KErrCtx", "KNoGraph", "KInvented"},
    "C03": {"KProto", "KLeak", "KHang"},
}

ARGS = {
    ("C01", "quick"): ["-modes", "paths,classes,reentrant,twosend,sequence,shapes,random", "-twosend-reps", "1", "-sequence-random", "15", "-shape-pipelines", "3", "-random", "300"],
    ("C01", "thorough"): ["-modes", "paths,classes,reentrant,twosend,sequence,shapes,random,cancel", "-sequence-random", "200", "-shape-pipelines", "3", "-random", "4000", "-cancel-random", "10", "-cancel-reps", "2"],
    ("C02", "quick"): ["-modes", "paths,classes,unprintable,sequence,thresholds,cancel", "-sequence-random", "15", "-thr-pipelines", "3", "-cancel-random", "2"],
    ("C02", "thorough"): ["-modes", "paths,classes,reentrant,sequence,thresholds,cancel,random", "-sequence-random", "200", "-thr-pipelines", "4", "-cancel-random", "12", "-cancel-reps", "3", "-random", "1500"],
    ("C03", "quick"): ["-modes", "paths,classes,reentrant,unprintable,callbacks,stress,twosend,cancel,random", "-twosend-reps", "3", "-cancel-random", "6", "-random", "150"],
    ("C03", "thorough"): ["-modes", "paths,classes,reentrant,unprintable,callbacks,stress,twosend,sequence,cancel,random,shapes", "-stress-ms", "6000", "-twosend-reps", "8", "-twosend-gates", "4", "-sequence-random", "100", "-cancel-random", "40", "-cancel-reps", "4", "-random", "2500", "-shape-pipelines", "3"],
}

ASSUMPTIONS = [
    "node Process outcomes are an arbitrary oracle of the model (universally quantified in the theorems); the acceptor feeds the outcomes the harness nodes exhibited",
    "Go runtime semantics of unbuffered channels, select (any ready arm may fire), sync.WaitGroup, context cancellation and sync.Map.Range over a registry that does not change during the Send are modelled, not verified",
    "the steps of graph.process/doProcess are atomic at the granularity of the verif hook points; the recorded order is a linearization (cancellation is recorded before cancel() is called under the recorder lock; a rendezvous is recorded sender first)",
    "only linear pipelines (what the public API builds); fan-out graphs of the test-only linkNodesAndSinks are not modelled",
    "goroutine-leak oracle: goroutine dumps before the call and after Send and all nodes returned (settle time 250 ms) are compared; only new goroutines running or created by library / context-package code count; the caller's context (context.WithCancel or a context type of the harness's own) is still live at that moment unless the script cancelled it",
    "warnings are identified by the error VALUE the node returned (interface identity through a registry), not by what it wraps",
    "wall-clock promptness of Send's return after cancellation is measured (latency statistics in the evidence), not proved; only a Send that fails to return within 3 s is an alarm",
]


def check(ctx):
    V.check_properties_file(ctx, "Properties_%s.v" % ctx.prop)
    run(ctx)
    if ctx.prop == "C02":
        # thresholds through the registry engine: random registry histories, getters compared after every call (KThr)
        import eng_broker
        eng_broker.run(ctx, "C02")
    ctx.assumptions += ASSUMPTIONS


PROPS = {"C01": check, "C02": check, "C03": check}
_NOTE = ("Trusted: Coq 8.16.1 kernel + vm_compute; no axioms (Print Assumptions: closed under the global context); the Go correspondence harness "
         "dispatchh (hook callback, projection of the trace, interning of identities, Gallina printing) and the add-only verifPoint hooks in graph.go; "
         "channel / select / WaitGroup / context / sync.Map semantics are modelled as the transition system of Dispatch.v, not verified; node behaviour is an oracle.")
_TECH = "verdict proved equivalent to its declarative reading (RunDispatchSound.mismatches_nil_iff: mismatches = [] <-> every case is a model execution from the registry model's pipelines with the observed Status/error and oracles); Coq proof over a transition-system model (all schedules, all cancel points) + executable trace acceptor (vm_compute) on hook traces of the real Send under forced schedules"
MANIFEST = {
    "C01": {"text": "Dispatch.v (LTS of graph.process/doProcess at hook granularity, ghost call logs) + Broker.v; theorems traverse_prefix / traverse_chain / traverse_first, calls_are_traversal and call_log_sound (any schedule, any cancel point: calls = one traversal prefix per started pipeline, started is a sub-multiset, nothing skipped while the context is live), send_traverses_exactly (uncancelled terminal state: call multiset = traversals of all registered pipelines), roots_of_broker_spec (after every registration history Send dispatches to exactly the type's pipelines, ids in order), accepted_trace_is_execution; tie: dispatchh records hook traces of real Sends (all ending shapes for <=3 pipelines x <=3 nodes, random registries with shared nodes / overwrites / re-registered nodes over 3 types, random behaviours per visit, perturbed and cancelled schedules) and Run_Dispatch accepts them, comparing the nodes' own invocation log and event identities", "design_ref": "5.C01", "note": _NOTE, "technique": _TECH, "engine": "coq-dispatch"},
    "C02": {"text": "theorems status_never_invented (every reachable state, any cancel point: the report is exactly one final status per pipeline of a sub-multiset of the registered pipelines), final_status_spec, status_sound, status_complete_uncancelled / status_count_uncancelled, status_count_bound, complete_sinks_spec, send_error_iff, send_error_wraps_ctx, no_graph_no_roots, threshold_set_get / threshold_sinks_set_get / threshold_last_set (all histories) / threshold_rejects_negative / threshold_frame; tie: all outcome vectors x both thresholds 0..n+1 with shared sink ids, cancellation forced at every semantic hook position of reference runs in three hand-off orders, returned Status multisets / error nil / errors.Is(ctx.Err()) compared with the model's collector and get_error; threshold getters compared on random registry histories by the broker engine", "design_ref": "5.C02", "note": _NOTE, "technique": _TECH, "engine": "coq-dispatch"},
    "C03": {"text": "theorems dispatch_measure / executions_bounded (every execution finite), dispatch_progress (no deadlock: a non-terminal state waits only for a node inside Process), reaches_terminal, can_terminate, collector_returns_on_cancel (two own steps, tasks untouched), collector_returns_when_done, terminal_no_goroutine, no_send_after_close, wg_counts_live (no panic) for any pipelines / nodes / behaviours / schedules; tie: hook traces of forced-cancel runs (every hook position x collector-first / free / senders-first, gated nodes still running while Send returns) must be accepted and complete once all nodes returned (every invocation exited, channel closed), watchdog on Send, goroutine dump filtered to eventlogger.(*graph); partial: wall-clock promptness is measured only", "design_ref": "5.C03", "note": _NOTE, "technique": _TECH, "engine": "coq-dispatch"},
}
ENGINE = {"name": "coq-dispatch", "path": "coq/Dispatch.v coq/DispatchProofs.v coq/DispatchAcceptProofs.v coq/DispatchExamples.v coq/Run_Dispatch.v coq/RunDispatchSound.v harness/cmd/dispatchh lib/eng_dispatch.py",
          "serves_properties": ["C01", "C02", "C03"], "kind_free_text": "Coq LTS model + proofs; Go hook-trace driver with forced schedules; vm_compute trace acceptor"}


def _load_cases(cdir):
    cases = {}
    for line in open(os.path.join(cdir, "cases.jsonl")):
        c = json.loads(line)
        cases[c["id"]] = c
    return cases


def _size(c):
    then = c.get("then") or []
    return (len(then), len(c.get("hist") or []) + sum(len(t.get("ops") or []) for t in then), len((c.get("observed") or {}).get("trace") or []))


def _input_of(c):
    return {k: c[k] for k in ("id", "gen", "hist", "ety", "beh", "gate", "sched", "then", "send_index", "payload", "clock", "reent") if k in c}


def run(ctx, prop=None):
    prop = prop or ctx.prop
    part = {}
    ctx.coverage["parts"]["dispatch-correspondence"] = part
    binp, out = V.go_build(ctx, "./cmd/dispatchh")
    if not binp:
        rp = V.write_replay(ctx, "harness-build", {"kind": "correspondence", "theorem_or_correspondence": "dispatchh does not build against the tree (verif hooks of graph.go / verif_dispatch_on.go missing or changed)", "output": out[-4000:]})
        ctx.violations.append({"match": "harness-build", "replay": rp, "what": "correspondence harness dispatchh no longer builds against the tree", "no_input": True})
        return
    cdir = os.path.join(ctx.work, "dispatch")
    os.makedirs(cdir, exist_ok=True)
    args = [binp, "-out", cdir, "-prefix", "cases"] + ARGS[(prop, ctx.tier)]
    corpus = os.path.join(V.VERIF, "corpus", prop, "dispatch.jsonl")
    if os.path.exists(corpus):
        args += ["-corpus", corpus, "-corpus-repeat", "5" if ctx.tier == "quick" else "20"]
    env = dict(os.environ, VERIF_SEED=str(ctx.seed))
    rc, out = V.run(args, env=env, timeout=3000)
    ctx.log(out.strip()[-500:])
    if rc != 0:
        cur = os.path.join(cdir, "current_case.json")
        if os.path.exists(cur):
            # a panic in a goroutine of the library (negative WaitGroup counter, send on closed channel, ...) took the driver down
            c = json.load(open(cur))
            first = next((l for l in out.splitlines() if l.startswith("panic:") or l.startswith("fatal error:")), "driver died")
            rp = V.write_replay(ctx, "dispatch-panic", {"kind": "correspondence", "engine": "dispatchh", "signature": "panic", "what": first,
                                                       "case": _input_of(c), "output": out[-3000:], "repro": "bin/check replay <this file>"})
            ctx.violations.append({"match": "dispatch:panic", "replay": rp, "what": "%s: the process died while Send ran case %s (gen %s): %s" % (prop, c.get("id"), c.get("gen"), first)})
            return
        rp = V.write_replay(ctx, "harness-run", {"kind": "correspondence", "output": out[-4000:]})
        ctx.violations.append({"match": "harness-crash", "replay": rp, "what": "dispatchh crashed", "no_input": True})
        return
    summ = json.load(open(os.path.join(cdir, "cases_summary.json")))
    cases = _load_cases(cdir)
    if prop == "C03":
        for p in summ.get("panics") or []:
            cid = int(p.split()[1].rstrip(":"))
            rp = V.write_replay(ctx, "panic-%d" % cid, {"kind": "correspondence", "engine": "dispatchh", "what": p, "case": _input_of(cases.get(cid, {})), "observed": cases.get(cid, {}).get("observed")})
            ctx.violations.append({"match": "dispatch:panic", "replay": rp, "what": "Send panicked: " + p})
    mism, failures = V.eval_shards(ctx, summ["files"])
    V.prune_shards(summ["files"], keep=[f for f, _ in failures])
    for f, o in failures:
        rp = V.write_replay(ctx, "coqc-" + os.path.basename(f), {"kind": "correspondence", "theorem_or_correspondence": "Run_Dispatch.mismatches on " + f, "output": o})
        ctx.violations.append({"match": "coqc-failure", "replay": rp, "what": "case file %s could not be evaluated" % f, "no_input": True})
    rel = RELEVANT[prop]
    by_case = {}
    others = {}
    for cid, step, evk, kind in mism:
        cid, step, evk = int(cid), int(step), int(evk)
        # a hand-off the model does not allow is also a status entry from nowhere (C02)
        # ... and a status handed off where the model expects the traversal to go on to the next node means that node k+1 was
        # not invoked although node k passed the event on (C01)
        # ... and a Send for a type WITHOUT graph that nevertheless invoked nodes traversed another type's pipelines (C01)
        invoked = bool(((cases.get(cid) or {}).get("observed") or {}).get("nodecalls"))
        if (kind in rel or (prop == "C02" and kind == "KProto" and evk in (5, 12)) or (prop == "C01" and kind == "KProto" and evk in (5, 6))
                or (prop == "C01" and kind == "KNoGraph" and invoked)):
            by_case.setdefault(cid, []).append((step, evk, kind))
        else:
            others[kind] = others.get(kind, 0) + 1
    # one report per signature (kind at hook), with the smallest failing case as the replay
    sigs = {}
    for cid, ms in by_case.items():
        ms.sort()
        for step, evk, kind in ms:
            sig = "%s@%s" % (kind, EVK.get(evk, evk))
            sz = _size(cases[cid])
            if sig not in sigs or sz < sigs[sig][0]:
                sigs[sig] = (sz, cid, ms, (step, evk, kind))
    for sig, (sz, cid, ms, first) in sorted(sigs.items()):
        c = cases[cid]
        n_aff = sum(1 for x in by_case.values() if any("%s@%s" % (k, EVK.get(e, e)) == sig for _, e, k in x))
        rp = V.write_replay(ctx, "dispatch-%s" % sig, {
            "kind": "correspondence", "engine": "dispatchh",
            "theorem_or_correspondence": "Run_Dispatch.mismatches (trace acceptor over Dispatch.v vs hook trace of the real Send)",
            "signature": sig, "meaning": KIND_TEXT.get(first[2], ""),
            "first_mismatch": {"trace_index": first[0], "hook": EVK.get(first[1]), "kind": first[2]},
            "all_mismatches_of_case": [{"trace_index": s, "hook": EVK.get(e), "kind": k} for s, e, k in ms],
            "case": _input_of(c), "observed": c.get("observed"), "cases_failing_with_this_signature": n_aff,
            "repro": "bin/check replay <this file>   (re-runs the schedule script 20 times on the tree and replays the traces through the model)"})
        ctx.violations.append({"match": "dispatch:" + sig, "replay": rp,
                               "what": "%s: %s — %s at trace index %d of case %d (gen %s; %d cases affected)" % (
                                   prop, sig, KIND_TEXT.get(first[2], ""), first[0], cid, c.get("gen"), n_aff)})
    ctx.coverage["evaluations"] += summ["cases"]
    ctx.coverage["distinct_nontrivial"] += summ["distinct_nontrivial"]
    ctx.coverage["traces_validated_against_impl"] = ctx.coverage.get("traces_validated_against_impl", 0) + summ["cases"]
    part.update({k: summ[k] for k in summ if k not in ("files", "panics")})
    part["panics"] = len(summ.get("panics") or [])
    part["mismatches_on_other_observables_ignored_for_this_property"] = others
    part["ambiguous"] = ("timing-dependent observations are fed to the model as the oracle's answer: the value of ctx.Err() read at return "
                         "is taken from the returned error when there is one; which ready select arm fired is taken from the trace")
    part["rule"] = ("each case = one Broker.Send on a registry built through the public API by the recorded history; the hook trace, the nodes' own "
                    "invocation log, the returned Status and error are replayed through the model by vm_compute (Run_Dispatch.run_case): every event must "
                    "be an enabled step, the trace must be complete once all nodes returned, Status/error must equal the model's. "
                    "distinct_nontrivial = distinct (history, behaviours, schedule script) cases in which at least one node was invoked.")
    ctx.coverage["rule"] = part["rule"]
    ids = sorted(cases)
    for i in ids[:1] + ids[-1:]:
        c = cases[i]
        ctx.coverage["samples"].append({"case": _input_of(c), "trace": [t.get("e") for t in c.get("observed", {}).get("trace", [])][:60],
                                        "status": {k: c.get("observed", {}).get(k) for k in ("complete", "complete_sinks", "warnings", "err", "err_ctx")}})
    ex = [k for k in ("shapes_exhaustive_pipelines", "thresholds_exhaustive_pipelines") if k in summ]
    if ex:
        ctx.coverage["exhaustive"] = True
        part["exhaustive_over"] = {k: summ[k] for k in ex}


def handles_replay(rec):
    return rec.get("engine") == "dispatchh"


def replay(ctx, rec, path):
    """re-run the recorded case (history, behaviours, schedule script) 20 times on the tree, replay every trace through the model"""
    binp, out = V.go_build(ctx, "./cmd/dispatchh")
    if not binp:
        print(out)
        return 1
    cdir = os.path.join(ctx.work, "dispatch")
    os.makedirs(cdir, exist_ok=True)
    corpus = os.path.join(cdir, "one.jsonl")
    open(corpus, "w").write(json.dumps(rec["case"]) + "\n")
    rc, out = V.run([binp, "-out", cdir, "-modes", "", "-corpus", corpus, "-corpus-repeat", "20"])
    print(out.strip()[-3000:])
    if rc != 0:
        print("the driver died while running the case (panic inside the library)")
        return 1
    summ = json.load(open(os.path.join(cdir, "cases_summary.json")))
    cases = _load_cases(cdir)
    mism, failures = V.eval_shards(ctx, summ["files"])
    first = cases[min(cases)] if cases else {}
    print("schedule script:", json.dumps(rec["case"].get("sched")))
    print("trace of run 1:", " ".join(t.get("e", "") + (("(p%s,%s)" % (t.get("p", 0), t.get("k", 0))) if "p" in t else "") for t in first.get("observed", {}).get("trace", [])))
    print("status of run 1:", {k: first.get("observed", {}).get(k) for k in ("complete", "complete_sinks", "warnings", "err", "err_ctx", "returned", "trace_complete")})
    if first.get("observed", {}).get("goroutines_left_by_this_send"):
        print("goroutines created under this Send that were still there after it returned (dump diff):\n" + first["observed"]["goroutines_left_by_this_send"])
    if first.get("observed", {}).get("goroutines"):
        print("goroutines left in eventlogger.(*graph):\n" + first["observed"]["goroutines"])
    rows = [(int(c), int(s), EVK.get(int(e), e), k) for c, s, e, k in mism]
    print("model vs implementation mismatches (run, trace index, hook, kind): %s %s" % (rows, failures))
    print("runs with a mismatch: %d of %d; panics: %s" % (len({r[0] for r in rows}), summ["cases"], summ.get("panics")))
    return 1 if (mism or failures or summ.get("panics")) else 0
