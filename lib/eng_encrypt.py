"""encrypt.Filter engine: encrypth (Go, real filter) vs Tag.v / Encrypt.v / Crypto.v (Coq), for C09 C10 C16."""
import json
import os
import re
import vcheck as V

SHAPES = {0: "other", 1: "struct-by-value-in-map", 2: "toplevel-untagged-map", 3: "taggable-map-no-matching-tag", 4: "unexported-field", 5: "field-after-taggable-struct", 6: "nested-pointer-tag"}
CLASSES = {0: "other", 1: "ptr-struct", 2: "slice", 3: "string-slice", 4: "ptr-string", 5: "map", 6: "taggable-map", 7: "taggable-struct",
           8: "nil", 9: "rotation", 10: "event-wrapper-info", 11: "string-by-value", 13: "unexported-fields", 14: "struct-by-value"}

# which mismatch kinds speak about which property (Run_Encrypt.kind / Run_Crypto.kind)
RELEVANT = {
    "C09": {"KErrMissing", "KErrSpurious", "KConsumed", "KPanic", "KLeak", "KOp", "KCanary", "KSpecLeak"},
    "C10": {"KSame", "KOver", "KShape", "KNonStr", "KType", "KMeta", "KMutated", "KAliased", "KUnexp", "KSpecShape", "KPanic"},
    "C16": {"CKTriple", "CKFrame", "CKRoundTrip", "CKHmac", "CKDeterminism", "CKErr", "CKConsumed", "CKPanic", "CKState", "CKAtomic", "CKCallerSlice"},
}
WHAT = {
    "KErrMissing": "a step of the filter fails in the model (missing / failing wrapper, bad tag pointer, unsettable payload) but the implementation forwarded an event",
    "KErrSpurious": "Process returned an error where the model forwards a filtered event",
    "KConsumed": "a key-rotation payload was not consumed (or a data payload was)",
    "KPanic": "Process panicked",
    "KLeak": "a protected value is readable in the forwarded event",
    "KOp": "a protected value was not filtered by the operation / key its tag, the defaults and the overrides dictate",
    "KCanary": "protected plaintext occurs in the JSON rendering of the forwarded payload",
    "KSpecLeak": "the forwarded payload violates the no_leak specification evaluated on the observation alone",
    "KSame": "the 'same event is returned' outcome (nil / zero payload, all operations none) differs",
    "KOver": "a public or no-operation value was altered",
    "KShape": "structure of the forwarded payload differs from the input (constructor, length, key, field)",
    "KNonStr": "a non-string value was not preserved",
    "KType": "dynamic type of the forwarded payload differs from the input's",
    "KMeta": "event type / creation time / formatted data were not preserved, or no new event was made",
    "KMutated": "the event handed to Process was modified",
    "KAliased": "the forwarded event shares data with the event handed to Process: what a later node writes to it shows in the original",
    "KUnexp": "the value of an unexported struct field is not preserved in the forwarded copy",
    "KSpecShape": "the forwarded payload violates the shape_preserved specification evaluated on the observation alone",
    "CKTriple": "a value was produced under another (key, salt, info) than the key in force (or no candidate reproduces it)",
    "CKRoundTrip": "decrypting an encrypted value with the key in force does not give back the original bytes",
    "CKFrame": "an encrypted value is not \"encrypted:\" ++ base64url(blob) (Base64.v) or does not decode back",
    "CKHmac": "an HMAC-ed value is not \"hmac-sha256:\" ++ base64url(mac)",
    "CKDeterminism": "equal data under equal (key, salt, info) gave different digests",
    "CKErr": "error / no error differs from the model (missing wrapper, empty event id)",
    "CKConsumed": "a rotation payload was not consumed",
    "CKPanic": "the filter panicked",
    "CKCallerSlice": "a rotation wrote into a salt / info slice owned by the caller (the slice a filter was configured with): other filters built from it change too",
    "CKAtomic": "a value produced while the filter was rotated mixes components of different key generations",
}

ARGS = {
    ("C09", "quick"): ["-modes", "special,tagtable,history,ignore,random", "-random", "3000", "-depth", "4", "-histories", "250", "-ignore", "60"],
    ("C09", "thorough"): ["-modes", "special,tagtable-full,enum,history,ignore,random", "-enum-depth", "3", "-random", "30000", "-depth", "4", "-histories", "3000", "-ignore", "1000"],
    ("C10", "quick"): ["-modes", "special,tagtable,history,ignore,random", "-random", "3000", "-depth", "4", "-histories", "150", "-ignore", "150"],
    ("C10", "thorough"): ["-modes", "special,tagtable-full,enum,history,ignore,random", "-enum-depth", "3", "-random", "30000", "-depth", "4", "-histories", "2000", "-ignore", "2000"],
    ("C16", "quick"): ["-crypto", "-crypto-histories", "600"],
    ("C16", "thorough"): ["-crypto", "-crypto-histories", "12000"],
}

ASSUMPTIONS = {
    "C09": ["reflect addressability is one boolean of the model (validated by the correspondence); AEAD / HKDF / HMAC are symbolic (Enc k l, Hmac k l): "
            "'cannot be read without the key' means the output leaf is not Plain",
            "payloads range over the shape grammar G of DESIGN 5.C09 (Encrypt.v type v); IgnoreTypes, structpb.Struct payloads, struct payloads passed by value, "
            "named string types (json.Number, type T string) are not among the kinds the filter supports: it leaves them alone, also under a class tag; the model carries them as non-string values that must be preserved", "struct payloads passed by value are compared with the model (and snapshot-checked for C10) but are outside no_leak (their own strings cannot be set); []*string, arrays, strings held in interface{} fields / []interface{} elements, a payload behind a pointer to an interface, pointer tags that go through anything but maps are outside G (array, []interface{} and *interface{} payloads are run with the input-side oracles only; a payload that is a slice of slices is inside: the filter leaves the inner slices alone and the model says so); a Taggable map DIRECTLY as a value of an untagged map is swept as an untagged map (modelled; its tags are not honoured); Filter.IgnoreTypes is outside the model: where the rule applies only the input-side oracles are evaluated",
            "with every operation overridden to none Process returns the event untouched before looking at the payload kind, so a rotation payload is then forwarded (C10's clause wins over C09's)",
            "F19 (repair: patches/encrypt/0010): on a tree that does not filter a struct held by value in a []interface{} that is a map value, the cases with such an element are outside the model (the driver probes the tree once; input-side oracles and the container-type comparison only; counted in the evidence as outside-the-model:struct-by-value-in-interface-slice); once the tree filters them they run under the full model",
            "F18 (repair: patches/encrypt/0009): on a tree where a nil element of a []interface{} held by a map still makes Process panic, the cases containing such an element are held back (the driver probes the tree once; counted in the evidence as held-back:nil-element-F18)",
            "a wrapper that answers (nil, nil) or an empty BlobInfo is no failing wrapper (the filter then writes the bare text 'encrypted:'): outside the statements; failing wrappers return every kind of error value (plain, wrapped sentinels, custom type, joined, typed nil, shared) and fail KeyId; a dead context makes the failing wrapper fail every call, the calls so answered are the model's failure oracle"],
    "C10": ["'the original is untouched' is not expressible in the heap-free model: it is tied dynamically on every case - deep snapshot of the input event before / after Process (KMutated), and again after the forwarded event has been rewritten from top to bottom, Formatted included (KAliased: the copy shares nothing with the original) - partial",
            "copystructure (deep copy that zeroes unexported fields) is modelled by Encrypt.copyz, validated by the correspondence",
            "a zero / nil payload with a missing wrapper and an encrypting configuration yields an error, not the same event (the wrapper check comes first)",
            "the model classifies a struct by the class tags of ITS OWN type: distinct Go types that share package path and name (function-local `type payload struct`: main.payload x 3, main.record x 2, with opposite tags on the same field names) are different trees; all cases of a run execute in ONE process, as payloads, fields and slice elements, through fresh Filters and on one Filter, so anything the library remembers per type name shows"],
    "C16": ["AEAD (AES-GCM of go-kms-wrapping), wrapper derivation, HKDF and HMAC-SHA256 are Section functions with the hypotheses dec k (enc k n m) = Some m; determinism is functionality",
            "each encrypt()/hmacSha256() call, each Rotate / rotation payload and the head of Process of an event with per-event wrapper info (wrapper derivation + resolution of its salt / info) is one atomic step: they run under Filter.l",
            "a rotation made from a Taggable's Tags() callback (Rotate or a rotation payload through Process) is the deterministic stand-in for a rotation scheduled between two values of one event: the values of the fields before the Taggable are produced before it, the Taggable's own entries and the later fields after it (schedule AStart; AVal*; ARot; AVal* of Crypto.crun, theorem C16_callback_schedule)",
            "a rotation payload whose accessors start events on the same filter (another goroutine, bounded wait) is ONE atomic step: every such event is accepted as an execution of the model in the state before OR after the rotation (a plain event value by value), whichever the scheduling gave - never in a state in between",
            "events whose values carry their own class tags are turned into model events by Run_Crypto.tstep (Tag.v resolves each tag under the override table in force); the filter of a case with such events has a wrapper from the start (the class-level 'a wrapper is required' scan is C09's, Encrypt.v); PointerTags there use the three known classifications (an unknown one ends Process with an error: C09)",
            "a value is attributed among the candidates of ITS case: every wrapper's key, the per-event keys of the wrappers the case uses for every event id, the salts / infos the case uses (and empty, 1..3); a value no candidate reproduces is reported like a value under the wrong triple",
            "an HKDF salt is an HMAC key (zero-padded): nil = empty salt, trailing NUL bytes of a salt are immaterial, and event ids that differ only in trailing NUL bytes derive the same per-event key (NewEventWrapper uses the id as salt) - the model identifies them", "Filter.Rotate(WithSalt(s)) and the exported HmacSalt / HmacInfo fields keep the caller's slice (the unmutated library does; neither C16 nor C19 forbids it): only a write of the LIBRARY into such a slice is reported (CKCallerSlice), and filters configured from one slice are each judged against their own history", "the harness re-implements HKDF, HMAC framing, the per-event key derivation, the BlobInfo wire format and AES-GCM open independently of the library"],
}
_NOTE = ("Trusted: Coq 8.16.1 kernel + vm_compute; no axioms (Print Assumptions: closed under the global context); the Go correspondence harness encrypth: "
         "its Go type/value builder (reflect.StructOf/MapOf/SliceOf + hand-written Taggable / unexported-field / payload-interface types), its projection of Go values to "
         "trees and its independent decrypt / HMAC recomputation; reflect, copystructure, pointerstructure, AES-GCM, HKDF, HMAC are modelled, not verified.")
_TECH = "Coq proof over executable model + differential correspondence (vm_compute on harness cases); the verdict mismatches = [] is proved equivalent to a declarative acceptance of every case (Cxx_verdict_is_model_execution, RunEncryptSound.v / RunCryptoSound.v)"
MANIFEST = {
    "C09": {"text": "Tag.v (tag resolution on strings) + Encrypt.v (walker on payload trees with symbolic leaves, one addressability flag, failure = no event); theorems no_leak "
                    "(every exposed leaf of every forwarded payload sits at a position whose own tag resolves to public / no operation, every other position holds exactly what its tag, the defaults and the overrides dictate; all trees of G, all override tables, all wrapper-failure oracles), "
                    "secure_default, fails_closed (any failing AEAD/HMAC call, missing wrapper, malformed pointer, unsettable string payload => error and no event), rotation_payload_consumed; "
                    "tie: exhaustive tag-spelling x override table, random G-trees depth <= 4 with unique canaries, histories of events on ONE filter with the same payload types recurring under changing override tables and rotated wrappers (each event judged under the table and key in force), wrapper ok/absent/failing at the n-th call, payloads with every scalar 6 - 13 container levels below the root, a node's own forwarded event fed back into the same and into another Filter, heterogeneous []interface{} values of maps in every order of element kinds, output classified by independent decryption / HMAC recomputation, JSON canary search",
            "design_ref": "5.C09", "note": _NOTE, "technique": _TECH, "engine": "coq-encrypt"},
    "C10": {"category": "proof", "text": "theorems shape_preserved (forwarded payload = input up to leaf contents: constructors, lengths, keys, field names, every non-string value of exported fields), "
                    "public_kept (public / no-operation values unchanged), noop_identity (nil / zero payload, all operations none => the same event), unexported_zeroed_refuted (F10 witness); "
                    "PARTIAL: 'the original is untouched' is tied dynamically (deep snapshot before/after on every case), not proved; tie: same generator as C09 (by-value struct payloads with reference-typed fields included), structural diff output vs input",
            "design_ref": "5.C10", "note": _NOTE, "technique": _TECH, "engine": "coq-encrypt"},
    "C16": {"text": "Crypto.v (key state (wrapper, salt, info), Rotate / rotation payload / event operations, key_in_force with per-event derived wrapper and salt/info precedence, framing over Base64.v); theorems "
                    "b64url_roundtrip, decrypt_roundtrip (all byte strings), hmac_value, hmac_deterministic, rotation_takes_effect (all histories), value_atomic / value_atomic_plain / value_atomic_event (all interleavings of rotations, event starts and per-value steps: every value of every event kind is produced under ONE key generation), callback_schedule / callback_event_under_key_at_start (an event rotated part way through: an event with wrapper info stays under the key in force at its start, also when the filter had no salt / info of its own); "
                    "tie: encrypth -crypto runs histories of Rotate / rotation payloads / events (salt/info on filter and event absent / empty / set, event id present/absent, empty and non-UTF-8 values; salt, info, event id, key id and plaintext over the length alphabet 0, 1, 63, 64, 65, 127, 128, 129, 1100 bytes with shared 64- and 128-byte prefixes), events that rotate the filter from their own Tags() callback (three payload shapes, with and without wrapper info, both rotation routes), rotation payloads whose accessors start events on the same filter, events under every FilterOperationOverrides table whose values name their own operation in struct tags / PointerTags (with and without wrapper info), Reopen / Type / directly assigned fields / nil and repeated Rotate options between the events, every context kind, tagged leaf structs at the end of every container path (map / slice / struct / pointer, up to six containers deep) with and without wrapper info, pooled wrappers (extras/multi) of 1 - 3 keys with the encrypting key first / middle / last in key-id order, set at construction, by Rotate, by a rotation payload, by field assignment and in place (SetEncryptingWrapper), "
                    "an independent implementation reports which (key, salt, info) reproduces each output",
            "design_ref": "5.C16", "note": _NOTE, "technique": _TECH, "engine": "coq-encrypt"},
}
ENGINE = {"name": "coq-encrypt", "path": "coq/Tag.v coq/Encrypt.v coq/EncryptSpec.v coq/EncryptProofs.v coq/Run_Encrypt.v coq/RunEncryptSound.v coq/Crypto.v coq/CryptoProofs.v coq/Run_Crypto.v coq/RunCryptoSound.v harness/cmd/encrypth lib/eng_encrypt.py",
          "serves_properties": ["C09", "C10", "C16"], "kind_free_text": "Coq model + proofs; Go differential driver with independent crypto; vm_compute comparison"}

# known findings are read from KNOWN_FINDINGS.txt only (vcheck.load_known)


# mismatch items as Coq prints them, with or without the %N scope suffix
_ITEM = re.compile(r"\((\d+)(?:%N)?,\((\d+)(?:%N)?,(\d+)(?:%N)?,(\w+)\)\)")


def check(ctx):
    V.check_properties_file(ctx, "Properties_%s.v" % ctx.prop)
    try:
        run(ctx)
    except Exception as ex:  # a crash of the engine must not pass for a clean run
        import traceback
        rp = V.write_replay(ctx, "engine-crash", {"kind": "correspondence", "theorem_or_correspondence": "lib/eng_encrypt.py", "output": traceback.format_exc()[-4000:]})
        ctx.violations.append({"match": "engine-crash", "replay": rp, "what": "the encrypt engine crashed: %r" % (ex,), "no_input": True})
    if ctx.tier == "thorough":
        coqchk(ctx)
    ctx.assumptions += ASSUMPTIONS[ctx.prop]


def coqchk(ctx):
    """thorough tier: re-check the compiled property file and everything it depends on with the stand-alone checker"""
    mod = "Verif.Properties_%s" % ctx.prop
    rc, out = V.run(["coqchk", "-silent", "-o", "-R", V.COQ, "Verif", mod], cwd=ctx.work, timeout=1800)
    ok = rc == 0 and "Axioms: <none>" in out.replace("\n  \n", " ").replace("\n", " ").replace("  ", " ")
    if rc == 0 and not ok:
        ok = "* Axioms: <none>" in " ".join(out.split())
    ctx.obligations.append(("coqchk:" + mod, ok))
    ctx.trusted.add("coqchk (thorough tier): %s re-checked, axioms: %s" % (mod, "none" if ok else "SEE REPLAY"))
    if not ok:
        rp = V.write_replay(ctx, "coqchk", {"kind": "obligation", "theorem_or_correspondence": "coqchk " + mod, "output": out[-4000:]})
        ctx.violations.append({"match": "coqchk", "replay": rp, "what": "coqchk rejects %s or reports axioms" % mod, "no_input": True})


PROPS = {"C09": check, "C10": check, "C16": check}


def _build(ctx):
    binp, out = V.go_build(ctx, "./cmd/encrypth")
    if not binp:
        rp = V.write_replay(ctx, "harness-build", {"kind": "correspondence", "theorem_or_correspondence": "encrypth does not build against the tree", "output": out[-4000:]})
        ctx.violations.append({"match": "harness-build", "replay": rp, "what": "correspondence harness encrypth no longer builds against the tree", "no_input": True})
    return binp


def _size(v):
    if not isinstance(v, dict):
        return 0
    n = 1 + len(v.get("cs") or []) + len(v.get("tags") or [])
    for f in v.get("fields") or []:
        n += _size(f.get("v"))
    if v.get("k") in ("ptr", "iface"):
        n += _size(v.get("elem"))
    for e in (v.get("elems") or []) + (v.get("vals") or []):
        n += _size(e)
    return n


def case_size(c):
    if "ops" in c:
        return len(c.get("ops") or []) + (1000 if c.get("conc") else 0)
    if c.get("hist"):
        return sum(_size(h.get("v")) + 1 for h in c["hist"][:c.get("step", 0) + 1])
    return _size(c.get("v")) + sum(1 for o in c.get("cfg", {}).get("ov", []) if o) + (0 if c.get("cfg", {}).get("wrap") == "ok" else 1)


def run(ctx, prop=None):
    prop = prop or ctx.prop
    crypto = prop == "C16"
    part = {}
    ctx.coverage["parts"]["encrypt-correspondence"] = part
    binp = _build(ctx)
    if not binp:
        return
    cdir = os.path.join(ctx.work, "encrypt")
    os.makedirs(cdir, exist_ok=True)
    args = [binp, "-out", cdir, "-prefix", "cases"] + ARGS[(prop, ctx.tier)]
    corpus = os.path.join(V.VERIF, "corpus", prop, "encrypt.jsonl")
    if os.path.exists(corpus):
        args += ["-corpus", corpus]
    env = dict(os.environ, VERIF_SEED=str(ctx.seed))
    rc, out = V.run(args, env=env, timeout=3000)
    ctx.log(out.strip()[-500:])
    if rc != 0:
        rp = V.write_replay(ctx, "harness-run", {"kind": "correspondence", "output": out[-4000:]})
        ctx.violations.append({"match": "harness-crash", "replay": rp, "what": "encrypth crashed", "no_input": True})
        return
    summ = json.load(open(os.path.join(cdir, "cases_summary.json")))
    cases = {}
    for line in open(os.path.join(cdir, "cases.jsonl")):
        c = json.loads(line)
        cases[c["id"]] = c
    mism, failures = V.eval_shards(ctx, summ["files"], parse=_ITEM)
    V.prune_shards(summ["files"], keep=[f for f, _ in failures])
    for f, o in failures:
        rp = V.write_replay(ctx, "coqc-" + os.path.basename(f), {"kind": "correspondence", "theorem_or_correspondence": "Run_%s.mismatches on %s" % ("Crypto" if crypto else "Encrypt", f), "output": o})
        ctx.violations.append({"match": "coqc-failure", "replay": rp, "what": "case file %s could not be evaluated" % f, "no_input": True})
    rel = RELEVANT[prop]
    sigs = {}
    affected = {}
    others = 0
    for cid, w, cl, kind in mism:
        cid, w, cl = int(cid), int(w), int(cl)
        if kind not in rel:
            others += 1
            continue
        sig = "%s@%s" % (kind, ({0: "step", 1: "concurrent-rotation", 2: "event-fallback-rotation", 3: "rotation-payload-accessors"}.get(cl, "step") if crypto else SHAPES.get(w, str(w))))
        affected.setdefault(sig, set()).add(cid)
        sz = case_size(cases[cid])
        if sig not in sigs or (sz, cid) < sigs[sig][:2]:
            sigs[sig] = (sz, cid, w, cl)
    for sig, (sz, cid, w, cl) in sorted(sigs.items()):
        c = cases[cid]
        kind = sig.split("@")[0]
        rec = {"kind": "correspondence", "engine": "encrypth", "mode": "crypto" if crypto else "walker",
               "theorem_or_correspondence": "Run_%s.mismatches (model vs real encrypt.Filter)" % ("Crypto" if crypto else "Encrypt"),
               "signature": sig, "what": WHAT.get(kind, kind), "case": c, "cases_failing_with_this_signature": len(affected[sig]),
               "repro": "bin/check replay <this file>"}
        if crypto:
            rec["first_mismatch_step"] = w
        else:
            rec["payload_class"] = CLASSES.get(cl, str(cl))
            rec["defect_shape_of_position"] = SHAPES.get(w, str(w))
        rp = V.write_replay(ctx, "encrypt-%s" % sig, rec)
        ctx.violations.append({"match": "encrypt:" + sig, "replay": rp,
                               "what": "%s: %s [%s; smallest of %d cases: case %d]" % (prop, WHAT.get(kind, kind), sig, len(affected[sig]), cid)})
    ctx.coverage["evaluations"] += summ["cases"]
    ctx.coverage["distinct_nontrivial"] += summ["distinct_nontrivial"]
    ctx.coverage["traces_validated_against_impl"] = ctx.coverage.get("traces_validated_against_impl", 0) + summ["cases"]
    part.update({k: summ[k] for k in summ if k not in ("files", "panics")})
    part["mismatches_on_other_observables_ignored_for_this_property"] = others
    if crypto:
        part["rule"] = ("histories of Rotate / rotation payload / event operations run on one real encrypt.Filter; every produced value is unframed and decrypted / recomputed by an "
                        "independent implementation over all candidate (key, salt, info) triples, the reproducing triple is compared with Crypto.key_in_force by vm_compute. "
                        "distinct_nontrivial = distinct histories containing at least one rotation followed by an event.")
    else:
        part["rule"] = ("payload trees of the grammar G built as Go values and run through the real encrypt.Filter.Process; the forwarded payload is projected back to a tree with symbolic leaves "
                        "(independent decryption / HMAC recomputation), compared with Encrypt.process by vm_compute together with error / consumed / same-event outcome, input snapshot and JSON canary search. "
                        "distinct_nontrivial = distinct (tree, configuration) pairs for which an event with a changed payload was forwarded.")
    ctx.coverage["rule"] = part["rule"]
    ids = sorted(cases)
    ctx.coverage["samples"] += [cases[i] for i in (ids[:1] + ids[len(ids) // 2:len(ids) // 2 + 1] + ids[-1:])]
    if summ.get("tagtable_exhaustive") or summ.get("enum_complete"):
        ctx.coverage["exhaustive"] = bool(summ.get("tagtable_exhaustive")) and summ.get("enum_complete", True) is not False
        part["exhaustive_parts"] = {k: summ[k] for k in ("tagtable_exhaustive", "enum_depth", "enum_cases", "enum_complete") if k in summ}


def concurrent_rotation_part(ctx):
    """Only the concurrent-rotation search of encrypth -crypto (a few seconds): four goroutines process events on one
    encrypt.Filter while a fifth rotates wrapper, salt and info TOGETHER; every HMAC value must be reproduced by one
    rotation's (wrapper, salt, info), never by a mixture (Run_Crypto kind CKAtomic).  Appends a violation with match
    "encrypt:CKAtomic@concurrent-rotation" to ctx.violations and its counts to ctx.coverage["parts"]; used by C19."""
    part = {}
    ctx.coverage["parts"]["encrypt-concurrent-rotation"] = part
    # with the race detector when the toolchain can build it (cgo): a rotation that writes into a salt / info slice shared
    # with another filter is then also reported as a data race with that filter's reads
    binp, bout = V.go_build(ctx, "./cmd/encrypth", race=True)
    part["race_detector"] = bool(binp)
    if not binp:
        binp = _build(ctx)
        if not binp:
            return
    cdir = os.path.join(ctx.work, "encrypt-conc")
    os.makedirs(cdir, exist_ok=True)
    rc, out = V.run([binp, "-crypto", "-crypto-conc-only", "-crypto-histories", "0", "-out", cdir, "-prefix", "cases"],
                    env=dict(os.environ, VERIF_SEED=str(ctx.seed), GORACE="exitcode=0 halt_on_error=0"), timeout=900)
    ctx.log(out.strip()[-300:])
    if "WARNING: DATA RACE" in out:
        report = out[out.index("WARNING: DATA RACE"):][:3500]
        rp = V.write_replay(ctx, "encrypt-race@concurrent-rotation", {
            "kind": "search", "engine": "encrypth", "mode": "crypto", "signature": "race@concurrent-rotation",
            "what": "the race detector reports a data race while encrypt.Filter values are rotated and used concurrently", "race_report": report,
            "repro": "go build -race ./cmd/encrypth && encrypth -crypto -crypto-conc-only"})
        ctx.violations.append({"match": "encrypt:race@concurrent-rotation", "replay": rp,
                               "what": "%s: data race under concurrent rotation of encrypt.Filter (first report: %s)" % (ctx.prop, " ".join(report.split()[:24]))})
        part["data_races_reported"] = out.count("WARNING: DATA RACE")
    if rc != 0:
        rp = V.write_replay(ctx, "harness-run-conc", {"kind": "correspondence", "output": out[-4000:]})
        ctx.violations.append({"match": "harness-crash", "replay": rp, "what": "encrypth -crypto-conc-only crashed", "no_input": True})
        return
    summ = json.load(open(os.path.join(cdir, "cases_summary.json")))
    cases = [json.loads(l) for l in open(os.path.join(cdir, "cases.jsonl"))]
    mism, failures = V.eval_shards(ctx, summ["files"], parse=_ITEM)
    V.prune_shards(summ["files"], keep=[f for f, _ in failures])
    for f, o in failures:
        rp = V.write_replay(ctx, "coqc-" + os.path.basename(f), {"kind": "correspondence", "theorem_or_correspondence": "Run_Crypto.mismatches on " + f, "output": o})
        ctx.violations.append({"match": "coqc-failure", "replay": rp, "what": "case file %s could not be evaluated" % f, "no_input": True})
    bad = [m for m in mism if m[3] == "CKAtomic"]
    if bad:
        rp = V.write_replay(ctx, "encrypt-CKAtomic@concurrent-rotation", {
            "kind": "search", "engine": "encrypth", "mode": "crypto", "signature": "CKAtomic@concurrent-rotation", "what": WHAT["CKAtomic"],
            "theorem_or_correspondence": "Run_Crypto.conc_ok on values produced under concurrent Rotate (CryptoProofs.value_atomic_plain)",
            "case": cases[0] if cases else None, "repro": "bin/check replay <this file> (a search: re-runs the concurrent part)"})
        ctx.violations.append({"match": "encrypt:CKAtomic@concurrent-rotation", "replay": rp,
                               "what": "%s: %s [CKAtomic@concurrent-rotation]" % (ctx.prop, WHAT["CKAtomic"])})
    part.update({"values_attributed": summ.get("values_under_concurrent_rotation", 0), "mixtures_found": len(bad), "goroutines": 5,
                 "rule": "events processed by 4 goroutines while a 5th rotates (wrapper j, salt j, info j) together; each HMAC value is attributed by independent recomputation"})
    ctx.coverage["evaluations"] += summ.get("values_under_concurrent_rotation", 0)


def handles_replay(rec):
    return rec.get("engine") == "encrypth"


def replay(ctx, rec, path):
    """re-run the recorded case on the real filter and on the model, print both"""
    binp = _build(ctx)
    if not binp:
        return 1
    crypto = rec.get("mode") == "crypto"
    cdir = os.path.join(ctx.work, "encrypt")
    os.makedirs(cdir, exist_ok=True)
    corpus = os.path.join(cdir, "one.jsonl")
    open(corpus, "w").write(json.dumps(rec["case"]) + "\n")
    extra = ["-crypto"] if crypto else []
    # bin/check replay builds a Ctx for the property, which clears replays/<Cxx>/ - the very file being replayed included:
    # work from a copy and put the record back
    rpath = os.path.join(cdir, "replay.json")
    json.dump(rec, open(rpath, "w"), indent=1)
    if not os.path.exists(path):
        try:
            os.makedirs(os.path.dirname(path), exist_ok=True)
            json.dump(rec, open(path, "w"), indent=1)
        except OSError:
            pass
    rc, out = V.run([binp] + extra + ["-replay", rpath])
    print(out)
    rc, out = V.run([binp, "-out", cdir, "-corpus", corpus] + (["-crypto", "-crypto-histories", "0"] if crypto else ["-modes", ""]))
    summ = json.load(open(os.path.join(cdir, "cases_summary.json")))
    mism, failures = V.eval_shards(ctx, summ["files"], parse=_ITEM)
    print("model vs implementation mismatches (case, position/step, class, kind):", mism, failures)
    return 1 if (mism or failures or summ.get("panics")) else 0
