"""FileSink engine: filesinkh (Go, real FileSink in a scratch directory) vs FileSink.v/Run_FileSink.v (Coq), for C08 and C15."""
import json
import os
import re
from concurrent.futures import ThreadPoolExecutor
import vcheck as V

OPK = {1: "Process", 2: "Reopen", 3: "ExtRename", 4: "Pause", 5: "RemoveDirFromOutside", 6: "RemoveActiveFileFromOutside", 7: "DirectoryEventOrder", 8: "AppendFromOutside"}

# which mismatch kinds speak about which property (see Run_FileSink.kind)
# C08 speaks about the acknowledged events being in the files, whole, once, in order, minus a prefix removed by retention:
# that is exactly what the observation-only oracles KTorn/KSuffix/KLoss/KOrder evaluate after every step.  WHERE the rotation
# boundaries fall and HOW MUCH retention removes (KFiles, KRead, KOk of a failed rotation, KBw, KLc …) is C15's business: a
# sink that rotates one write late still satisfies C08, so those mismatches are ignored by C08's check.
RELEVANT = {
    "C08": {"KStd", "KTorn", "KSuffix", "KLoss", "KOrder", "KCrash", "KPruneOrder"},
    "C15": {"KOk", "KRead", "KFiles", "KMode", "KBw", "KLc", "KDir", "KForeign", "KModeSpec", "KDirSpec", "KActive", "KNoRot", "KStray", "KCrash", "KStampOrder", "KPruneOrder"},
}
WHAT = {
    "KOk": "the acknowledgement (nil / error) of the call differs from the model",
    "KRead": "reading the sink's files oldest to newest yields a different event sequence than the model's",
    "KStd": "what reached os.Stdout / os.Stderr differs from the model",
    "KTorn": "the files contain bytes that are not a whole event",
    "KSuffix": "the files do not read as a suffix of the acknowledged sequence",
    "KLoss": "no retention limit, yet the files do not hold exactly the acknowledged events in order",
    "KOrder": "concurrent writers: a writer's events are missing, duplicated or out of its program order",
    "KFiles": "which files exist / where the rotation boundaries fall differs from the model",
    "KMode": "file modes differ from the model", "KBw": "BytesWritten differs from the model",
    "KLc": "LastCreated differs from the model (a file was (not) opened when the model says otherwise)",
    "KDir": "the directory's existence / mode differs from the model",
    "KForeign": "a file outside the sink's name space was removed or changed",
    "KModeSpec": "a file of the sink does not carry the configured mode (0600 when unset)",
    "KDirSpec": "the directory created on demand is not 0700",
    "KActive": "the name of the active file contradicts TimestampOnlyOnRotate / the rotation settings",
    "KNoRot": "a rotated file appeared although neither MaxBytes nor MaxDuration is set",
    "KStray": "the sink created a file outside its configured name space (neither FileName nor <stem>-<stamp><ext>)",
    "KStampOrder": "concurrent callers: a file that appeared later in the directory (kernel event order = order of the sink's critical sections) carries a stamp that is not larger — the stamp was not read inside the critical section",
    "KPruneOrder": "concurrent callers: retention removed a file although an older-created rotated file is still there (the survivors are not the most recently created)",
    "KCrash": "the directory left behind by SIGKILL is neither the state after the last acknowledged call nor one of the model's crash points of the next call",
}

ARGS = {
    ("C08", "quick"): ["-modes", "seq,timed,special,conc,kill,fsize", "-seq", "700", "-timed", "120", "-conc", "200", "-kill", "24", "-fsize", "24"],
    ("C08", "thorough"): ["-modes", "seq,timed,special,conc,kill,fsize", "-seq", "5000", "-timed", "800", "-conc", "600", "-kill", "150", "-fsize", "150", "-len", "30"],
    ("C15", "quick"): ["-modes", "seq,timed,seqrm,special,conc", "-seq", "600", "-timed", "150", "-seqrm", "150", "-conc", "100"],
    ("C15", "thorough"): ["-modes", "seq,timed,seqrm,special,conc,kill", "-seq", "6000", "-timed", "1500", "-seqrm", "1500", "-conc", "200", "-kill", "60", "-len", "30"],
}

ASSUMPTIONS = [
    "file-system primitives (MkdirAll, OpenFile O_APPEND|O_CREATE, Chmod, Rename, Remove, Glob, Stat, Close) are fault free and behave as modelled; "
    "write faults are outside the quantifier (the retry branch is modelled and its two defects are stated as lemmas about the model)",
    "clock readings strictly increase (hypothesis clock_ok of the theorems; with equal readings os.Rename would overwrite an earlier rotated file); "
    "nanosecond stamps of one sink have equal length, so sort.Strings orders them numerically",
    "one write(2) of a whole event on an O_APPEND descriptor is atomic, also under SIGKILL (OS assumption; the kill generator samples it)",
    "each Process / Reopen is atomic with respect to the others because it holds FileSink.l (lock discipline: C19); every clock reading of a call is taken "
    "inside that critical section (this is what makes clock_ok — readings increase in the order of the critical sections — true of the code; the concurrent generator "
    "checks it on the directory's inotify event order: KStampOrder / KPruneOrder)",
    "deletion of the directory / the active file from outside is not an operation of the histories the C08/C15 history theorems quantify over "
    "(FileSink.xop); such histories are generated for C15's 'directory created on demand' only and C08's oracles are switched off from the first deletion on",
    "MaxFiles >= 0 (a negative MaxFiles makes pruneFiles index out of range; outside the quantifier)",
    "the umask does not clear owner bits (the harness runs with 022)",
]
PROPS = {}
_NOTE = ("Trusted: Coq 8.16.1 kernel + vm_compute; no axioms (Print Assumptions: closed under the global context); the Go correspondence harness "
         "filesinkh, its tokenizer (file bytes -> whole events, byte for byte) and its projection of observables; the file system, the clock and the "
         "atomicity of write(2) under SIGKILL are modelled / assumed, not verified.")
_TECH = ("Coq proof over executable model + differential correspondence (vm_compute on harness cases) + observation-only oracles; the evaluator's verdict is "
         "itself characterised in Coq (RunFileSinkSound: mismatches cs = [] <-> every case is an execution of the model meeting the oracles; kill / fsize verdicts likewise)")
MANIFEST = {
    "C08": {"text": "FileSink.v: file_sink.go (Process, Reopen, open, rotate, reopen, pruneFiles, newFileName, special paths, write-retry branch under a fault oracle) "
                    "transcribed over a directory of inodes, every clock reading an input. Theorems over EVERY history of Write/Reopen/ExtRename/Pause, every configuration, "
                    "every initial set of foreign files, for strictly increasing clock readings (clock_ok) and no failing write(2) (fault_free): "
                    "acked_is_pruned_plus_reading / acked_suffix (the acknowledged sequence = what retention removed ++ the files read oldest to newest), pruned_is_prefix, "
                    "no_prune_no_loss, reading_order, no_torn_chunk, crash_whole_events (at every boundary between atomic file-system steps of any call — create/open, close, rename, "
                    "each single remove of pruneFiles, the one write(2) — the files read as all acknowledged events plus at most the whole in-flight one), serialised_writers "
                    "(any interleaving of calls, each atomic under FileSink.l: files = events of the nil-returning calls in mutex order). Tie: filesinkh runs random histories "
                    "(1..200-byte writes biased onto the MaxBytes boundary, Reopen, external rename, pauses around MaxDuration, special paths, 1..8 concurrent writers, a child killed "
                    "with SIGKILL whose directory must equal one of the model's crash points, a child under RLIMIT_FSIZE whose failing write(2)s must not yield an "
                    "acknowledged-but-absent event: theorem write_ack_present) on the real FileSink; Run_FileSink evaluates model and C08's own statement on the "
                    "observations after every step by vm_compute. Partial: atomicity of one write(2) under SIGKILL and the lock discipline (C19) are assumed; the kill generator samples the former.",
            "design_ref": "5.C08", "note": _NOTE, "technique": _TECH, "engine": "coq-filesink"},
    "C15": {"text": "same model; theorems rotate_iff (a Process call first rotates <-> MaxBytes > 0 and BytesWritten >= MaxBytes, or MaxDuration > 0 and now - LastCreated > MaxDuration; every state), "
                    "bytes_written_is_since_open, non_rotating_write_same_file, no_limits_never_rotates, stamps_strictly_increase, tsonly_active_plain / active_file_name / "
                    "reopen_restores_name, mode_and_dir (+ constants 0600/0700), retention_after_rotation (right after a rotation the rotated files are exactly the newest MaxFiles of those "
                    "present before pruneFiles, the event sits alone in a file that did not exist before, with the configured name and mode), stamp_order_is_string_order, "
                    "active_and_foreign_never_removed, special_paths_bypass, reopen_recreates_dir / rotating_write_recreates_dir (after the directory was removed from outside, every state) "
                    "— over every history/configuration under clock_ok and fault_free. Tie: same driver, plus histories with deletions from outside (directory / active file); after every call "
                    "BytesWritten, LastCreated, the listing (rotation boundaries, which files were pruned, names by kind), file and directory modes and the foreign files are compared with "
                    "the model; the MaxDuration condition is compared only when the harness's measured interval decides it, otherwise the observed choice is fed to the model and counted as "
                    "ambiguous. Partial: the elapsed-time boundary itself (elapsed == MaxDuration) is not observable.",
            "design_ref": "5.C15", "note": _NOTE, "technique": _TECH, "engine": "coq-filesink"},
}
ENGINE = {"name": "coq-filesink", "path": "coq/FileSink.v coq/FileSinkProofs.v coq/FileSinkExamples.v coq/Run_FileSink.v coq/RunFileSinkSound.v harness/cmd/filesinkh lib/eng_filesink.py",
          "serves_properties": ["C08", "C15"], "kind_free_text": "Coq model + proofs; Go differential driver; vm_compute comparison"}

_M_ITEM = re.compile(r"\((\d+)%N,\((\d+)%N,(\d+)%N,(\w+)\)\)")
COV_KEYS = ["cases", "steps", "rotations", "rotations_by_size", "rotations_by_time", "rotations_failed_rename", "chunks_pruned",
            "reopen_found_existing_file", "external_renames", "cases_meeting_clock_ok"]


def eval_shards(ctx, files):
    """coqc every shard in parallel; returns (mismatches, coverage vector sums, failures)"""
    def one(f):
        rc, out = V.coqc(os.path.basename(f), os.path.dirname(f))
        return f, rc, out
    mism, failures = [], []
    cov = [0] * len(COV_KEYS)
    kills = {}
    with ThreadPoolExecutor(max_workers=V.JOBS) as ex:
        for f, rc, out in ex.map(one, files):
            if rc != 0 or "M =" not in out:
                failures.append((f, out[-3000:]))
                continue
            body = out.split("M =", 1)[1].split("\n     :", 1)[0]
            flat = re.sub(r"\s+", "", body)
            if flat != "[]":
                items = _M_ITEM.findall(flat)
                if not items:
                    failures.append((f, "unparsed mismatch output: " + body[:2000]))
                mism.extend(items)
            if "W =" in out:
                wb = out.split("W =", 1)[1].split("\n     :", 1)[0]
                for x in re.findall(r"(\d+)%N", wb):
                    x = int(x)
                    key = ("state_after_last_acknowledged_call" if x == 0 else "call_complete_ack_cut_off" if x == 1000
                           else "no_crash_point_matches" if x == 999 else "between_atomic_steps_of_the_next_call")
                    kills[key] = kills.get(key, 0) + 1
            if "C =" in out:
                cb = out.split("C =", 1)[1].split("\n     :", 1)[0]
                nums = [int(x) for x in re.findall(r"(\d+)%N", cb)]
                for i, n in enumerate(nums[:len(cov)]):
                    cov[i] += n
    if kills:
        ctx.coverage["parts"].setdefault("filesink-correspondence", {})["sigkill_landed"] = kills
    return mism, cov, failures


def _fails(ctx, binp, case, kind, tag):
    """does the case (explicit op list) still show a mismatch of this kind on the tree under test?"""
    d = os.path.join(ctx.work, "filesink", "shrink")
    os.makedirs(d, exist_ok=True)
    corpus = os.path.join(d, "cand.jsonl")
    open(corpus, "w").write(json.dumps(case) + "\n")
    rc, out = V.run([binp, "-out", d, "-prefix", "s" + tag, "-modes", "", "-corpus", corpus], timeout=120)
    if rc != 0:
        return False
    summ = json.load(open(os.path.join(d, "s%s_summary.json" % tag)))
    mism, _, failures = eval_shards(ctx, list(summ["files"]) + list(summ.get("kill_files") or []))
    V.prune_shards(list(summ["files"]) + list(summ.get("kill_files") or []))
    return any(k == kind for _, _, _, k in mism)


def shrink(ctx, binp, case, kind, budget_s=40):
    """greedy delta debugging on the operation list: drop operations (last to first) while the same kind of mismatch remains"""
    import time
    if not case.get("ops"):
        return case, 0
    t0 = time.time()
    best = dict(case)
    tries = 0
    i = len(best["ops"]) - 2          # the last operation is the one the mismatch was seen at
    while i >= 0 and time.time() - t0 < budget_s:
        cand = dict(best, ops=best["ops"][:i] + best["ops"][i + 1:])
        tries += 1
        if _fails(ctx, binp, cand, kind, "k"):
            best = cand
        i -= 1
    # simplify the configuration where that keeps the failure
    for key, val in (("foreign", None), ("pre_dir", False), ("mode", 0), ("file_name", "audit.log")):
        if time.time() - t0 >= budget_s:
            break
        if best["cfg"].get(key) in (val, None):
            continue
        cfg = dict(best["cfg"])
        if val is None or val is False:
            cfg.pop(key, None)
        else:
            cfg[key] = val
        cand = dict(best, cfg=cfg)
        tries += 1
        if _fails(ctx, binp, cand, kind, "k"):
            best = cand
    return best, tries


def check(ctx):
    V.check_properties_file(ctx, "Properties_%s.v" % ctx.prop)
    run(ctx)
    if ctx.prop == "C15":
        # static tie of the model's clock_ok hypothesis (readings are consumed in lock order) to the code: every time.Now /
        # time.Since of a FileSink method happens while FileSink.l is held (obligation over the file regenerated from the source)
        import eng_locks
        eng_locks.clock_under_lock_obligation(ctx)
    ctx.assumptions += ASSUMPTIONS


PROPS.update({"C08": check, "C15": check})


def _build(ctx):
    binp, out = V.go_build(ctx, "./cmd/filesinkh")
    if not binp:
        rp = V.write_replay(ctx, "harness-build", {"kind": "correspondence", "theorem_or_correspondence": "filesinkh does not build against the tree", "output": out[-4000:]})
        ctx.violations.append({"match": "harness-build", "replay": rp, "what": "correspondence harness filesinkh no longer builds against the tree", "no_input": True})
    return binp


def run(ctx, prop=None, extra_args=None):
    prop = prop or ctx.prop
    part = {}
    ctx.coverage["parts"]["filesink-correspondence"] = part
    binp = _build(ctx)
    if not binp:
        return
    cdir = os.path.join(ctx.work, "filesink")
    os.makedirs(cdir, exist_ok=True)
    args = [binp, "-out", cdir, "-prefix", "cases"] + (extra_args if extra_args is not None else ARGS[(prop, ctx.tier)])
    corpus = os.path.join(V.VERIF, "corpus", prop, "filesink.jsonl")
    if os.path.exists(corpus):
        args += ["-corpus", corpus]
    env = dict(os.environ, VERIF_SEED=str(ctx.seed))
    rc, out = V.run(args, env=env, timeout=3000)
    ctx.log(out.strip()[-500:])
    if rc != 0:
        rp = V.write_replay(ctx, "harness-run", {"kind": "correspondence", "output": out[-4000:]})
        ctx.violations.append({"match": "harness-crash", "replay": rp, "what": "filesinkh crashed", "no_input": True})
        return
    summ = json.load(open(os.path.join(cdir, "cases_summary.json")))
    cases = {}
    for line in open(os.path.join(cdir, "cases.jsonl")):
        c = json.loads(line)
        cases[c["id"]] = c
    for p in summ.get("panics") or []:
        cid = int(p.split()[1].rstrip(":"))
        rp = V.write_replay(ctx, "panic-%d" % cid, {"kind": "correspondence", "engine": "filesinkh", "what": p, "case": cases.get(cid)})
        ctx.violations.append({"match": "filesink:panic", "replay": rp, "what": "FileSink panicked / the harness could not run the case: " + p})
    files = list(summ["files"]) + list(summ.get("kill_files") or [])
    mism, cov, failures = eval_shards(ctx, files)
    V.prune_shards(files, keep=[f for f, _ in failures])
    for f, o in failures:
        rp = V.write_replay(ctx, "coqc-" + os.path.basename(f), {"kind": "correspondence", "theorem_or_correspondence": "Run_FileSink.mismatches on " + f, "output": o})
        ctx.violations.append({"match": "coqc-failure", "replay": rp, "what": "case file %s could not be evaluated" % f, "no_input": True})
    rel = RELEVANT[prop]
    by_case = {}
    others = 0
    for cid, step, opk, kind in mism:
        cid, step, opk = int(cid), int(step), int(opk)
        if kind in rel:
            by_case.setdefault(cid, []).append((step, opk, kind))
        else:
            others += 1
    # report the smallest failing case per (kind, op) signature, cut after the first failing step
    sigs = {}
    # at the same step the most telling kind names the signature
    prio = {k: i for i, k in enumerate(["KStray", "KForeign", "KTorn", "KLoss", "KSuffix", "KOrder", "KCrash", "KActive", "KModeSpec", "KDirSpec", "KNoRot",
                                        "KMode", "KDir", "KLc", "KBw", "KFiles", "KRead", "KOk", "KStd"])}
    for cid, ms in by_case.items():
        ms.sort(key=lambda m: (m[0], prio.get(m[2], 99), m[1]))
        step, opk, kind = ms[0]
        sig = "%s@%s" % (kind, OPK.get(opk, opk))
        n = step + 1
        if sig not in sigs or n < sigs[sig][0]:
            sigs[sig] = (n, cid, ms)
    for sig, (n, cid, ms) in sorted(sigs.items()):
        c = dict(cases[cid])
        if c.get("ops"):
            c["ops"] = c["ops"][:n]
            c.pop("len", None)
        kind = ms[0][2]
        shrunk_from = len(c.get("ops") or [])
        tries = 0
        if c.get("ops") and len(sigs) <= 4:
            c, tries = shrink(ctx, binp, c, kind)
        rp = V.write_replay(ctx, "filesink-%s" % sig, {
            "kind": "correspondence", "engine": "filesinkh", "theorem_or_correspondence": "Run_FileSink.mismatches (model FileSink.v vs real FileSink; observation-only oracles of %s)" % prop,
            "signature": sig, "first_mismatch": {"step": ms[0][0], "op": OPK.get(ms[0][1]), "kind": kind, "meaning": WHAT.get(kind, "")},
            "all_mismatches_of_case": [{"step": s, "op": OPK.get(o), "kind": k} for s, o, k in ms],
            "case": c, "shrunk": {"from_ops": shrunk_from, "to_ops": len(c.get("ops") or []), "reruns": tries},
            "cases_failing_with_any_relevant_kind": len(by_case),
            "repro": "bin/check replay <this file>"})
        ctx.violations.append({"match": "filesink:" + sig, "replay": rp,
                               "what": "%s: %s — %s at step %d of case %d (%d cases affected in total)" % (prop, sig, WHAT.get(kind, kind), ms[0][0], cid, len(by_case))})
    ctx.coverage["evaluations"] += summ["cases"]
    ctx.coverage["distinct_nontrivial"] += summ["distinct_nontrivial"]
    ctx.coverage["traces_validated_against_impl"] = ctx.coverage.get("traces_validated_against_impl", 0) + summ["cases"]
    part.update({k: summ[k] for k in summ if k not in ("files", "kill_files", "panics")})
    part["model_branch_coverage"] = dict(zip(COV_KEYS, cov))
    part["mismatches_on_other_observables_ignored_for_this_property"] = others
    st = summ.get("stats", {})
    part["duration_condition"] = {"decided_by_measured_interval": st.get("duration_certain_yes", 0) + st.get("duration_certain_no", 0),
                                  "ambiguous_observed_choice_fed_as_oracle": st.get("duration_ambiguous", 0)}
    part["rule"] = ("histories of Process (1..200 bytes, biased onto the MaxBytes boundary) / Reopen / external rename of the active file / pause run on the real "
                    "FileSink in a fresh directory; after every call the harness observes the ack, the listing (names classified, modes, contents tokenised into whole "
                    "events byte for byte), BytesWritten, LastCreated and the directory mode; the Coq model is run on the same history (clock readings = the ones observable "
                    "from LastCreated and the file names, bracketed by the harness's own) by vm_compute. distinct_nontrivial = distinct (configuration, operation list) "
                    "cases in which at least one rotation or external rename happened (kill cases: at least one acknowledgement).")
    ctx.coverage["rule"] = part["rule"]
    sample_ids = sorted(cases)[:1] + sorted(cases)[-1:]
    ctx.coverage["samples"] += [cases[i] for i in sample_ids]


def handles_replay(rec):
    return rec.get("engine") == "filesinkh"


def replay(ctx, rec, path):
    """re-run the recorded history on the real FileSink and on the model, print both"""
    binp, out = V.go_build(ctx, "./cmd/filesinkh")
    if not binp:
        print(out)
        return 1
    cdir = os.path.join(ctx.work, "filesink")
    os.makedirs(cdir, exist_ok=True)
    corpus = os.path.join(cdir, "one.jsonl")
    open(corpus, "w").write(json.dumps(rec["case"]) + "\n")
    rc, out = V.run([binp, "-replay", path, "-out", cdir])
    print(out)
    rc, out = V.run([binp, "-out", cdir, "-modes", "", "-corpus", corpus])
    summ = json.load(open(os.path.join(cdir, "cases_summary.json")))
    mism, cov, failures = eval_shards(ctx, list(summ["files"]) + list(summ.get("kill_files") or []))
    rel = RELEVANT.get(rec.get("property"), set())
    shown = [(c, s, OPK.get(int(o), o), k) for c, s, o, k in mism if not rel or k in rel]
    print("model vs implementation mismatches (case, step, op, kind):", shown, failures)
    return 1 if (shown or failures or summ.get("panics")) else 0
