"""Formats engine: fmth (C14: JSONFormatter, JSONFormatterFilter, Filter, Event format table) and cloudh (C18: cloudevents
FormatterFilter) run on the real nodes vs Json.v / Formatters.v / CloudEvents.v evaluated by vm_compute."""
import json
import os
import re
import vcheck as V

_M_ITEM = re.compile(r"\((\d+)(?:%N)?,\((\d+)(?:%N)?,(\d+)(?:%N)?,(\w+)\)\)")

NODE = {"C14": {1: "JSONFormatter", 2: "JSONFormatterFilter", 3: "Filter", 4: "FormatTable"},
        "C18": {1: "cloudevents-json", 2: "cloudevents-text", 3: "invalid-config", 4: "sequence", 5: "concurrent", 6: "history-on-one-node"}}

ARGS = {
    ("C14", "quick"): ["-modes", "grid,strings,random,table", "-random", "700", "-depth", "3", "-table", "150"],
    ("C14", "thorough"): ["-modes", "grid,strings,random,table", "-random", "20000", "-depth", "4", "-table", "2000"],
    ("C18", "quick"): ["-modes", "grid,random,hist,conc", "-random", "250", "-hist", "30", "-conc-per", "2500"],
    ("C18", "thorough"): ["-modes", "grid,random,hist,conc", "-random", "8000", "-depth", "4", "-hist", "2000", "-conc-per", "40000"],
}
PRIORITY = ["KModel", "KErr", "KFwd", "KErrStored", "KBytes", "KDoc", "KSignIn", "KStoredMutated", "KOther", "KFrame", "KLine", "KParse", "KFields", "KSer", "KIndent", "KDecode", "KLww", "KFresh"]
MEANING = {
    "KModel": "harness defect: generated value outside the model's grammar",
    "KErr": "an error is returned where the model returns none, or the reverse",
    "KFwd": "the event is forwarded where the model drops/fails it, or the reverse",
    "KErrStored": "Process returned an error (not the predicate's) yet the event's format table is not what it was before the call: a failed event carries a new value",
    "KBytes": "the bytes stored under json differ from Json.render of the envelope",
    "KDoc": "the stored cloudevents document differs from the model's document (or is stored / not stored contrary to the model)",
    "KSignIn": "the signer was not called with exactly the unsigned document, or was called for an unlisted type",
    "KStoredMutated": "the value stored under the format changed after Process had returned, once later events were formatted",
    "KOther": "an entry of the format table that must not change changed",
    "KFrame": "the event's type, time or payload was altered",
    "KLine": "the stored value is not one newline-terminated line",
    "KParse": "the stored value does not parse back to the required members",
    "KFields": "a required member of the stored document is missing or wrong",
    "KSer": "serialized / serialized_hmac do not verify against the signer's input and result",
    "KDecode": "Go's own decoder disagrees with the expected image",
    "KLww": "Format result or final table is not last-writer-wins",
    "KIndent": "the text format is not indented / the json format is not a single line",
    "KFresh": "a fresh id is empty or handed out twice (sequentially, or by one FormatterFilter shared by 8 goroutines), or Process panicked there",
}
DRIFT = ("KBytes", "KDoc", "KSignIn")
DRIVER = {"C14": "fmth", "C18": "cloudh"}
RUNFILE = {"C14": "Run_Formatters", "C18": "Run_CloudEvents"}
STRESS_ROUNDS = {"quick": 30, "thorough": 400}

ASSUMPTIONS = {
    "C14": ["the JSON image of a Go payload (reflection: struct tags, omitempty, map key order, number formatting) is an oracle function of the model; "
            "the harness computes it independently of encoding/json for the generated value grammar and the byte-for-byte comparison ties it to the code",
            "the RFC3339Nano text of the creation time is an input token produced by the harness (time formatting is not modelled)",
            "FormattedAs/Format are atomic steps (Event.l); their race freedom is checked dynamically with the race detector, the lock discipline itself belongs to C04/C19",
            "predicate outcomes are oracle parameters (universally quantified in the theorems)"],
    "C18": ["signer, predicate and the random id source are oracle parameters; fresh ids are assumed non-empty and pairwise distinct (ce_fresh_ids_distinct_partial)",
            "the JSON image of the payload / Data() value is an oracle function; data outside Json.v's value grammar is not generated",
            "the RFC3339Nano text of the creation time and url.URL.String() of source and schema are input tokens produced by the harness"],
}
_NOTE = ("Trusted: Coq 8.16.1 kernel + vm_compute; no axioms (Print Assumptions: closed under the global context); the Go correspondence harness "
         "(fmth / cloudh, jgen value generator: its Go-value -> JSON-image mapping and projection of observables); encoding/json's reflection layer, "
         "time formatting, url.URL.String, the signer and the id source are modelled as oracles, not verified.")
_TECH = "Coq proof over executable model + differential correspondence (vm_compute on harness cases, stored bytes compared with Json.render byte for byte)"
PROPS = {}
MANIFEST = {}
ENGINE = {"name": "coq-formats",
          "path": "coq/Json.v coq/JsonProofs.v coq/Formatters.v coq/FormattersProofs.v coq/Run_Formatters.v coq/CloudEvents.v coq/CloudEventsProofs.v "
                  "coq/Run_CloudEvents.v coq/RunFormatsSound.v coq/RunCloudEventsSound.v harness/jgen harness/cmd/fmth harness/cmd/cloudh lib/eng_formats.py",
          "serves_properties": ["C14", "C18"], "kind_free_text": "Coq model + proofs; Go differential drivers; vm_compute comparison"}


def check(ctx):
    V.check_properties_file(ctx, "Properties_%s.v" % ctx.prop)
    run(ctx)
    ctx.assumptions += ASSUMPTIONS[ctx.prop]


def _recipe_size(r):
    if not isinstance(r, dict):
        return 1
    return 1 + len(r.get("v") or "") // 2 + sum(_recipe_size(c) for c in (r.get("e") or []))


def _case_size(c):
    n = len(c.get("ops") or []) + len(c.get("pre") or []) + 3 * len(c.get("hist") or [])
    for st in c.get("hist") or []:
        if st.get("ev"):
            n += _case_size(st["ev"]) + len(c.get("type") or "") // 2 + len(c.get("events") or [])
    for k in ("payload", "data"):
        if c.get(k):
            n += _recipe_size(c[k])
    for e in c.get("events") or []:
        n += _case_size(e)
    return n


def run(ctx):
    prop = ctx.prop
    drv = DRIVER[prop]
    part = {}
    ctx.coverage["parts"][drv + "-correspondence"] = part
    binp, out = V.go_build(ctx, "./cmd/" + drv)
    if not binp:
        rp = V.write_replay(ctx, "harness-build", {"kind": "correspondence", "theorem_or_correspondence": drv + " does not build against the tree", "output": out[-4000:]})
        ctx.violations.append({"match": "harness-build", "replay": rp, "what": "correspondence harness %s no longer builds against the tree" % drv, "no_input": True})
        return
    cdir = os.path.join(ctx.work, drv + "-cases")
    os.makedirs(cdir, exist_ok=True)
    args = [binp, "-out", cdir, "-prefix", "cases"] + ARGS[(prop, ctx.tier)]
    corpus = os.path.join(V.VERIF, "corpus", prop, drv + ".jsonl")
    if os.path.exists(corpus):
        args += ["-corpus", corpus]
    env = dict(os.environ, VERIF_SEED=str(ctx.seed))
    rc, out = V.run(args, env=env, timeout=3000)
    ctx.log(out.strip()[-500:])
    if rc == 4 and os.path.exists(os.path.join(cdir, "hang.json")):
        hung = json.load(open(os.path.join(cdir, "hang.json")))
        rp = V.write_replay(ctx, drv + "-hang", {"kind": "correspondence", "engine": drv, "signature": "hang", "case": hung,
                                                  "meaning": "a Process call on this case did not return within 30 s (watchdog)", "output": out[-2000:]})
        ctx.violations.append({"match": drv + ":hang", "replay": rp, "what": "%s: a Process call did not return (watchdog); the case is the replay" % prop})
        return
    if rc != 0:
        rp = V.write_replay(ctx, "harness-run", {"kind": "correspondence", "output": out[-4000:]})
        ctx.violations.append({"match": "harness-crash", "replay": rp, "what": drv + " crashed", "no_input": True})
        return
    summ = json.load(open(os.path.join(cdir, "cases_summary.json")))
    cases = {}
    for line in open(os.path.join(cdir, "cases.jsonl")):
        c = json.loads(line)
        cases[c["id"]] = c
    for p in summ.get("panics") or []:
        cid = int(p.split()[1].rstrip(":"))
        rp = V.write_replay(ctx, "panic-%d" % cid, {"kind": "correspondence", "engine": drv, "what": p, "case": cases.get(cid)})
        ctx.violations.append({"match": "%s:panic" % drv, "replay": rp, "what": "the node panicked: " + p})
    mism, failures = V.eval_shards(ctx, summ["files"], parse=_M_ITEM)
    V.prune_shards(summ["files"], keep=[f for f, _ in failures])
    for f, o in failures:
        rp = V.write_replay(ctx, "coqc-" + os.path.basename(f), {"kind": "correspondence", "theorem_or_correspondence": "%s.mismatches on %s" % (RUNFILE[prop], f), "output": o})
        ctx.violations.append({"match": "coqc-failure", "replay": rp, "what": "case file %s could not be evaluated" % f, "no_input": True})
    by_case = {}
    for cid, step, opk, kind in mism:
        by_case.setdefault(int(cid), []).append((int(step), int(opk), kind))
    # A case violates the property when one of the property's own observables disagrees (error / forwarding / what the
    # stored bytes parse back to / frame ...).  A case in which ONLY the byte-for-byte comparison with the model's rendering
    # (or the signer-input comparison that depends on it) differs, while every observation-only oracle of the property passes,
    # is model drift: the property held on that case but the theorems no longer describe the code's bytes. It is recorded
    # and, when no case violates the property itself, reported as VIOLATION ... no-failing-input-found (broken correspondence).
    sigs = {}
    first = {}
    drift = {}
    for cid, ms in by_case.items():
        ms.sort(key=lambda m: (PRIORITY.index(m[2]) if m[2] in PRIORITY else 99, m[0]))
        real = [m for m in ms if m[2] not in DRIFT]
        if not real:
            drift[cid] = ms
            continue
        step, opk, kind = real[0]
        first[cid] = kind
        n = _case_size(cases[cid])
        if kind not in sigs or n < sigs[kind][0]:
            sigs[kind] = (n, cid, ms)
    for sig, (n, cid, ms) in sorted(sigs.items()):
        c = cases[cid]
        affected = sum(1 for k in first.values() if k == sig)
        on = NODE[prop].get(ms[0][1], ms[0][1])
        rp = V.write_replay(ctx, "%s-%s" % (drv, sig), {
            "kind": "correspondence", "engine": drv,
            "theorem_or_correspondence": "%s.mismatches (model vs real node, and the property's oracle on the observation)" % RUNFILE[prop],
            "signature": sig, "on": on, "meaning": MEANING.get(sig, ""),
            "later_process_calls_until_the_stored_value_changed": next((s_ for s_, o, k in ms if k == "KStoredMutated"), None),
            "all_mismatches_of_case": [{"step": s_, "on": NODE[prop].get(o, o), "kind": k} for s_, o, k in ms],
            "case": c, "cases_failing_first_with_this_kind": affected, "cases_failing_in_any_way": len(by_case),
            "repro": "bin/check replay <this file>"})
        what = "%s: %s on %s (%s) -- case %d, %d cases affected" % (prop, sig, on, MEANING.get(sig, ""), cid, affected)
        ctx.violations.append({"match": "%s:%s@%s" % (drv, sig, on), "replay": rp, "what": what})
    part["model_drift_cases"] = len(drift)
    ctx.coverage["correspondence_intact"] = not drift and not by_case
    if drift:
        cid = min(drift, key=lambda i: _case_size(cases[i]))
        rp = V.write_replay(ctx, "%s-model-drift" % drv, {
            "kind": "model-drift", "engine": drv, "case": cases[cid],
            "all_mismatches_of_case": [{"step": s_, "on": NODE[prop].get(o, o), "kind": k} for s_, o, k in drift[cid]],
            "meaning": "the bytes the node stores differ from the model's rendering although every oracle of the property passes on them; "
                       "the theorems about Json.render / CloudEvents.enc no longer describe this code", "cases": len(drift)})
        if sigs:
            ctx.log("# NOTE %s model drift in %d cases (bytes differ from the model, property oracles pass): %s" % (prop, len(drift), rp))
        else:
            # the correspondence no longer checks and the search (the property's own oracles on every explored case) found no
            # failing input: the property is no longer shown to hold for this code
            ctx.violations.append({"match": "%s:model-drift" % drv, "replay": rp, "no_input": True,
                                   "what": "%s: the bytes the node stores differ from the model's rendering in %d cases (the theorems about the model no longer describe this code); "
                                           "every oracle of the property passes on all explored cases" % (prop, len(drift))})
    ctx.coverage["evaluations"] += summ["cases"]
    ctx.coverage["distinct_nontrivial"] += summ["distinct_nontrivial"]
    ctx.coverage["traces_validated_against_impl"] = ctx.coverage.get("traces_validated_against_impl", 0) + summ["cases"]
    part.update({k: summ[k] for k in summ if k not in ("files", "panics")})
    part["rule"] = RULE[prop]
    ctx.coverage["rule"] = RULE[prop]
    ids = sorted(cases)
    ctx.coverage["samples"] += [cases[i] for i in (ids[:1] + ids[len(ids) // 2:len(ids) // 2 + 1] + ids[-1:])]
    if prop == "C14":
        stress(ctx, part)


RULE = {
    "C14": ("Process calls on the real JSONFormatter / JSONFormatterFilter / Filter over generated payloads (nested maps, slices, arrays, reflect.StructOf "
            "structs with tags/omitempty, strings over all byte classes incl. invalid UTF-8, integer boundaries, floats on the format cut-offs, json.Number "
            "tokens, unencodable classes) x event types x times x predicate outcomes x pre-existing tables, plus an exhaustive single-byte / UTF-8 boundary "
            "string sweep and forced FormattedAs/Format schedules; Coq compares the stored bytes with Json.render byte for byte and parses them back. "
            "distinct_nontrivial = distinct cases whose payload is nested, unencodable, a non-empty string, or whose type needs escaping; table schedules with >1 op."),
    "C18": ("Process calls on the real cloudevents.FormatterFilter over the product payload kind x format x schema x source x signer x listed x predicate, "
            "plus random payload data, the list of all fresh ids the run observed (distinctness) one FormatterFilter shared by 8 goroutines (duplicate ids / panics, counted by the harness), 2 goroutines rotating among three signers while 6 Process listed / unlisted events on the same node under GOMAXPROCS default and 1 (unsigned listed events, signatures verifying under none of the installed signers, signed unlisted events: counted by the harness, the first offending event is the replay), and histories of Process / Rotate calls on ONE FormatterFilter (all of length <= 3 over {listed, unlisted, Rotate A / B / failing / nil} x initial signer none / A / failing, plus random longer ones), every event judged under the signer in force; the stored document is compared with CloudEvents.process byte for byte, serialized is "
            "base64url-decoded inside Coq and compared with the unsigned document and with the signer's recorded input. "
            "distinct_nontrivial = distinct cases with a valid configuration (the document is built)."),
}


def stress(ctx, part):
    """FormattedAs/Format from free-running goroutines under the race detector"""
    binp, out = V.go_build(ctx, "./cmd/fmth", race=True)
    if not binp:
        part["race_stress"] = "race-enabled build unavailable: " + out[-300:]
        return
    rounds = STRESS_ROUNDS[ctx.tier]
    env = dict(os.environ, VERIF_SEED=str(ctx.seed), GORACE="halt_on_error=0 exitcode=66")
    rc, out = V.run([binp, "-stress", str(rounds)], env=env, timeout=3000)
    part["race_stress"] = {"rounds": rounds, "goroutines": 8, "ops_per_goroutine": 300, "exit": rc, "tail": out.strip()[-200:]}
    ctx.coverage["evaluations"] += rounds
    if rc != 0 or "DATA RACE" in out or "LWW-VIOLATION" in out:
        kind = "race" if "DATA RACE" in out else "lww-stress"
        rp = V.write_replay(ctx, "fmth-" + kind, {"kind": "stress", "engine": "fmth", "stress_rounds": rounds,
                                                   "theorem_or_correspondence": "C14_format_table_lww assumes FormattedAs/Format are atomic steps; the race detector / linearizability oracle disagrees",
                                                   "output": out[-6000:], "repro": "bin/check replay <this file>"})
        ctx.violations.append({"match": "fmth:" + kind, "replay": rp,
                               "what": "C14: concurrent FormattedAs/Format: " + ("data race reported" if kind == "race" else "a read or the final table is not last-writer-wins")})


PROPS["C14"] = check
MANIFEST["C14"] = {
    "text": ("Json.v: Go-compatible JSON rendering (compact + indented) and parser; theorems parse_render (every value, every byte string: parsing the rendering gives "
             "the value's JSON image = invalid UTF-8 bytes replaced by U+FFFD), render_single_line, envelope_members; Formatters.v: formatter_frame, "
             "formatter_error_forwards_nothing, jff_forward_iff / jff_error_iff, filter_forward_iff, format_table_lww (all interleavings of atomic table steps); "
             "tie: fmth runs generated payloads x types x times x predicates x tables on the real nodes, Run_Formatters.mismatches compares byte for byte in vm_compute; "
             "race detector stress on FormattedAs/Format; RunFormatsSound.v: mismatches cs = [] <-> every case accepted (declarative reading of the verdict, both directions)"),
    "design_ref": "5.C14", "note": _NOTE, "technique": _TECH, "engine": "coq-formats"}


PROPS["C18"] = check
MANIFEST["C18"] = {
    "text": ("CloudEvents.v: validate / id choice / Data() choice / document / encode (Json.render, indented for text) / sign / predicate / table update; theorems ce_fields, "
             "ce_invalid_config_rejected (+ valid_iff), ce_empty_id_rejected, forwarded_implies_signed + signed_serialized_decodes (b64url_decode serialized = enc unsigned_doc "
             "via Base64.decode_encode; serialized_hmac = the signer's result on exactly those bytes), sign_failure_not_forwarded, unlisted_never_signed, "
             "ce_document_parses; ce_fresh_ids_distinct_partial (PARTIAL: uniqueness of fresh ids only under the hypothesis that the id source does not repeat; base62 randomness "
             "is not modelled). Tie: cloudh runs the configuration product + random payload data on the real node; Run_CloudEvents.mismatches compares the stored document "
             "byte for byte, decodes serialized inside Coq and compares it with the signer's recorded input; histories of Process/Rotate on one node; "
             "RunCloudEventsSound.v: mismatches cs = [] <-> every case accepted (declarative reading of the verdict, both directions; indentation oracle boolean)"),
    "design_ref": "5.C18", "note": _NOTE, "technique": _TECH, "engine": "coq-formats"}


def handles_replay(rec):
    return rec.get("engine") in ("fmth", "cloudh")


def replay(ctx, rec, path):
    drv = rec["engine"]
    prop = "C14" if drv == "fmth" else "C18"
    # vcheck.Ctx (created by lib/replay.py before we are called) clears replays/<prop>/, i.e. the very file being replayed
    # when it lives there: work from the record, and put the file back
    if not os.path.exists(path):
        try:
            os.makedirs(os.path.dirname(os.path.abspath(path)), exist_ok=True)
            json.dump(rec, open(path, "w"), indent=1)
        except OSError:
            pass
    path = os.path.join(ctx.work, "replay_input.json")
    json.dump(rec, open(path, "w"))
    if rec.get("kind") == "stress":
        binp, out = V.go_build(ctx, "./cmd/fmth", race=True)
        if not binp:
            print(out)
            return 1
        rc, out = V.run([binp, "-stress", str(rec.get("stress_rounds", 30))], env=dict(os.environ, VERIF_SEED=str(rec.get("seed", 1))))
        print(out[-4000:])
        return 1 if (rc != 0 or "DATA RACE" in out) else 0
    binp, out = V.go_build(ctx, "./cmd/" + drv)
    if not binp:
        print(out)
        return 1
    cdir = os.path.join(ctx.work, drv + "-cases")
    os.makedirs(cdir, exist_ok=True)
    corpus = os.path.join(cdir, "one.jsonl")
    open(corpus, "w").write(json.dumps(rec["case"]) + "\n")
    rc, out = V.run([binp, "-replay", path])
    print(out)
    if (rec.get("case") or {}).get("gen") in ("concurrent-ids", "concurrent-signing"):
        rc, out = V.run([binp, "-out", cdir, "-modes", "conc"])
    else:
        rc, out = V.run([binp, "-out", cdir, "-modes", "", "-corpus", corpus])
    summ = json.load(open(os.path.join(cdir, "cases_summary.json")))
    mism, failures = V.eval_shards(ctx, summ["files"], parse=_M_ITEM)
    print("model vs implementation mismatches (case, step, node, kind):", [(c, s, NODE[prop].get(int(o), o), k) for c, s, o, k in mism], failures)
    return 1 if (mism or failures or summ.get("panics")) else 0
