"""Formats engine: fmth (C14: JSONFormatter, JSONFormatterFilter, Filter, Event format table) and cloudh (C18: cloudevents
FormatterFilter) run on the real nodes vs Json.v / Formatters.v / CloudEvents.v evaluated by vm_compute."""
import json
import os
import vcheck as V

NODE = {"C14": {1: "JSONFormatter", 2: "JSONFormatterFilter", 3: "Filter", 4: "FormatTable"},
        "C18": {1: "cloudevents-json", 2: "cloudevents-text", 3: "invalid-config", 4: "sequence"}}

ARGS = {
    ("C14", "quick"): ["-modes", "grid,strings,random,table", "-random", "700", "-depth", "3", "-table", "150"],
    ("C14", "thorough"): ["-modes", "grid,strings,random,table", "-random", "20000", "-depth", "4", "-table", "2000"],
    ("C18", "quick"): ["-modes", "grid,random", "-random", "300"],
    ("C18", "thorough"): ["-modes", "grid,random", "-random", "8000", "-depth", "4"],
}
DRIVER = {"C14": "fmth", "C18": "cloudh"}
RUNFILE = {"C14": "Run_Formatters", "C18": "Run_CloudEvents"}
STRESS_ROUNDS = {"quick": 30, "thorough": 400}

ASSUMPTIONS = {
    "C14": ["the JSON image of a Go payload (reflection: struct tags, omitempty, map key order, number formatting) is an oracle function of the model; "
            "the harness computes it independently of encoding/json for the generated value grammar and the byte-for-byte comparison ties it to the code",
            "the RFC3339Nano text of the creation time is an input token produced by the harness (time formatting is not modelled)",
            "FormattedAs/Format are atomic steps (Event.l); their race freedom is checked dynamically with the race detector, the lock discipline itself belongs to C04/C19",
            "predicate outcomes are oracle parameters (universally quantified in the theorems)"],
    "C18": ["signer, predicate and the random id source are oracle parameters; fresh ids are assumed non-empty and pairwise distinct (ce_fresh_ids_distinct_partial)",
            "the JSON image of the payload / Data() value is an oracle function; data outside Json.v's value grammar is not generated",
            "the RFC3339Nano text of the creation time and url.URL.String() of source and schema are input tokens produced by the harness"],
}
_NOTE = ("Trusted: Coq 8.16.1 kernel + vm_compute; no axioms (Print Assumptions: closed under the global context); the Go correspondence harness "
         "(fmth / cloudh, jgen value generator: its Go-value -> JSON-image mapping and projection of observables); encoding/json's reflection layer, "
         "time formatting, url.URL.String, the signer and the id source are modelled as oracles, not verified.")
_TECH = "Coq proof over executable model + differential correspondence (vm_compute on harness cases, stored bytes compared with Json.render byte for byte)"
PROPS = {}
MANIFEST = {}
ENGINE = {"name": "coq-formats",
          "path": "coq/Json.v coq/JsonProofs.v coq/Formatters.v coq/FormattersProofs.v coq/Run_Formatters.v coq/CloudEvents.v coq/CloudEventsProofs.v "
                  "coq/Run_CloudEvents.v harness/jgen harness/cmd/fmth harness/cmd/cloudh lib/eng_formats.py",
          "serves_properties": ["C14", "C18"], "kind_free_text": "Coq model + proofs; Go differential drivers; vm_compute comparison"}


def check(ctx):
    V.check_properties_file(ctx, "Properties_%s.v" % ctx.prop)
    run(ctx)
    ctx.assumptions += ASSUMPTIONS[ctx.prop]


def _recipe_size(r):
    if not isinstance(r, dict):
        return 1
    return 1 + len(r.get("v") or "") // 2 + sum(_recipe_size(c) for c in (r.get("e") or []))


def _case_size(c):
    n = len(c.get("ops") or []) + len(c.get("pre") or []) + len(c.get("type") or "") // 2 + len(c.get("events") or [])
    for k in ("payload", "data"):
        if c.get(k):
            n += _recipe_size(c[k])
    for e in c.get("events") or []:
        n += _case_size(e)
    return n


def run(ctx):
    prop = ctx.prop
    drv = DRIVER[prop]
    part = {}
    ctx.coverage["parts"][drv + "-correspondence"] = part
    binp, out = V.go_build(ctx, "./cmd/" + drv)
    if not binp:
        rp = V.write_replay(ctx, "harness-build", {"kind": "correspondence", "theorem_or_correspondence": drv + " does not build against the tree", "output": out[-4000:]})
        ctx.violations.append({"match": "harness-build", "replay": rp, "what": "correspondence harness %s no longer builds against the tree" % drv, "no_input": True})
        return
    cdir = os.path.join(ctx.work, drv + "-cases")
    os.makedirs(cdir, exist_ok=True)
    args = [binp, "-out", cdir, "-prefix", "cases"] + ARGS[(prop, ctx.tier)]
    corpus = os.path.join(V.VERIF, "corpus", prop, drv + ".jsonl")
    if os.path.exists(corpus):
        args += ["-corpus", corpus]
    env = dict(os.environ, VERIF_SEED=str(ctx.seed))
    rc, out = V.run(args, env=env, timeout=3000)
    ctx.log(out.strip()[-500:])
    if rc != 0:
        rp = V.write_replay(ctx, "harness-run", {"kind": "correspondence", "output": out[-4000:]})
        ctx.violations.append({"match": "harness-crash", "replay": rp, "what": drv + " crashed", "no_input": True})
        return
    summ = json.load(open(os.path.join(cdir, "cases_summary.json")))
    cases = {}
    for line in open(os.path.join(cdir, "cases.jsonl")):
        c = json.loads(line)
        cases[c["id"]] = c
    for p in summ.get("panics") or []:
        cid = int(p.split()[1].rstrip(":"))
        rp = V.write_replay(ctx, "panic-%d" % cid, {"kind": "correspondence", "engine": drv, "what": p, "case": cases.get(cid)})
        ctx.violations.append({"match": "%s:panic" % drv, "replay": rp, "what": "the node panicked: " + p})
    mism, failures = V.eval_shards(ctx, summ["files"])
    V.prune_shards(summ["files"], keep=[f for f, _ in failures])
    for f, o in failures:
        rp = V.write_replay(ctx, "coqc-" + os.path.basename(f), {"kind": "correspondence", "theorem_or_correspondence": "%s.mismatches on %s" % (RUNFILE[prop], f), "output": o})
        ctx.violations.append({"match": "coqc-failure", "replay": rp, "what": "case file %s could not be evaluated" % f, "no_input": True})
    by_case = {}
    for cid, step, opk, kind in mism:
        by_case.setdefault(int(cid), []).append((int(step), int(opk), kind))
    harness_defects = {cid: ms for cid, ms in by_case.items() if any(k == "KModel" for _, _, k in ms)}
    sigs = {}
    for cid, ms in by_case.items():
        ms.sort()
        for step, opk, kind in ms:
            sig = "%s@%s" % (kind, NODE[prop].get(opk, opk))
            n = _case_size(cases[cid])
            if sig not in sigs or n < sigs[sig][0]:
                sigs[sig] = (n, cid, ms)
    for sig, (n, cid, ms) in sorted(sigs.items()):
        c = cases[cid]
        affected = sum(1 for m2 in by_case.values() if any("%s@%s" % (k, NODE[prop].get(o, o)) == sig for _, o, k in m2))
        rp = V.write_replay(ctx, "%s-%s" % (drv, sig), {
            "kind": "correspondence", "engine": drv,
            "theorem_or_correspondence": "%s.mismatches (model vs real node, and the property's oracle on the observation)" % RUNFILE[prop],
            "signature": sig, "all_mismatches_of_case": [{"step": s, "on": NODE[prop].get(o, o), "kind": k} for s, o, k in ms],
            "case": c, "cases_failing_with_this_signature": affected, "repro": "bin/check replay <this file>"})
        what = "%s: %s at step %d of case %d (%d cases affected)" % (prop, sig, ms[0][0], cid, affected)
        if cid in harness_defects and sig.startswith("KModel"):
            what = "harness defect: generated value outside the model's grammar (case %d)" % cid
        ctx.violations.append({"match": "%s:%s" % (drv, sig), "replay": rp, "what": what})
    ctx.coverage["evaluations"] += summ["cases"]
    ctx.coverage["distinct_nontrivial"] += summ["distinct_nontrivial"]
    ctx.coverage["traces_validated_against_impl"] = ctx.coverage.get("traces_validated_against_impl", 0) + summ["cases"]
    part.update({k: summ[k] for k in summ if k not in ("files", "panics")})
    part["rule"] = RULE[prop]
    ctx.coverage["rule"] = RULE[prop]
    ids = sorted(cases)
    ctx.coverage["samples"] += [cases[i] for i in (ids[:1] + ids[len(ids) // 2:len(ids) // 2 + 1] + ids[-1:])]
    if prop == "C14":
        stress(ctx, part)


RULE = {
    "C14": ("Process calls on the real JSONFormatter / JSONFormatterFilter / Filter over generated payloads (nested maps, slices, arrays, reflect.StructOf "
            "structs with tags/omitempty, strings over all byte classes incl. invalid UTF-8, integer boundaries, floats on the format cut-offs, json.Number "
            "tokens, unencodable classes) x event types x times x predicate outcomes x pre-existing tables, plus an exhaustive single-byte / UTF-8 boundary "
            "string sweep and forced FormattedAs/Format schedules; Coq compares the stored bytes with Json.render byte for byte and parses them back. "
            "distinct_nontrivial = distinct cases whose payload is nested, unencodable, a non-empty string, or whose type needs escaping; table schedules with >1 op."),
    "C18": ("Process calls on the real cloudevents.FormatterFilter over the product payload kind x format x schema x source x signer x listed x predicate, "
            "plus random payload data and multi-event sequences; the stored document is compared with CloudEvents.process byte for byte, serialized is "
            "base64url-decoded inside Coq and compared with the unsigned document and with the signer's recorded input. "
            "distinct_nontrivial = distinct cases with a valid configuration (the document is built)."),
}


def stress(ctx, part):
    """FormattedAs/Format from free-running goroutines under the race detector"""
    binp, out = V.go_build(ctx, "./cmd/fmth", race=True)
    if not binp:
        part["race_stress"] = "race-enabled build unavailable: " + out[-300:]
        return
    rounds = STRESS_ROUNDS[ctx.tier]
    env = dict(os.environ, VERIF_SEED=str(ctx.seed), GORACE="halt_on_error=0 exitcode=66")
    rc, out = V.run([binp, "-stress", str(rounds)], env=env, timeout=3000)
    part["race_stress"] = {"rounds": rounds, "goroutines": 8, "ops_per_goroutine": 300, "exit": rc, "tail": out.strip()[-200:]}
    ctx.coverage["evaluations"] += rounds
    if rc != 0 or "DATA RACE" in out or "LWW-VIOLATION" in out:
        kind = "race" if "DATA RACE" in out else "lww-stress"
        rp = V.write_replay(ctx, "fmth-" + kind, {"kind": "stress", "engine": "fmth", "stress_rounds": rounds,
                                                   "theorem_or_correspondence": "C14_format_table_lww assumes FormattedAs/Format are atomic steps; the race detector / linearizability oracle disagrees",
                                                   "output": out[-6000:], "repro": "bin/check replay <this file>"})
        ctx.violations.append({"match": "fmth:" + kind, "replay": rp,
                               "what": "C14: concurrent FormattedAs/Format: " + ("data race reported" if kind == "race" else "a read or the final table is not last-writer-wins")})


PROPS["C14"] = check
MANIFEST["C14"] = {
    "text": ("Json.v: Go-compatible JSON rendering (compact + indented) and parser; theorems parse_render (every value, every byte string: parsing the rendering gives "
             "the value's JSON image = invalid UTF-8 bytes replaced by U+FFFD), render_single_line, envelope_members; Formatters.v: formatter_frame, "
             "formatter_error_forwards_nothing, jff_forward_iff / jff_error_iff, filter_forward_iff, format_table_lww (all interleavings of atomic table steps); "
             "tie: fmth runs generated payloads x types x times x predicates x tables on the real nodes, Run_Formatters.mismatches compares byte for byte in vm_compute; "
             "race detector stress on FormattedAs/Format"),
    "design_ref": "5.C14", "note": _NOTE, "technique": _TECH, "engine": "coq-formats"}


def handles_replay(rec):
    return rec.get("engine") in ("fmth", "cloudh")


def replay(ctx, rec, path):
    drv = rec["engine"]
    prop = "C14" if drv == "fmth" else "C18"
    if rec.get("kind") == "stress":
        binp, out = V.go_build(ctx, "./cmd/fmth", race=True)
        if not binp:
            print(out)
            return 1
        rc, out = V.run([binp, "-stress", str(rec.get("stress_rounds", 30))], env=dict(os.environ, VERIF_SEED=str(rec.get("seed", 1))))
        print(out[-4000:])
        return 1 if (rc != 0 or "DATA RACE" in out) else 0
    binp, out = V.go_build(ctx, "./cmd/" + drv)
    if not binp:
        print(out)
        return 1
    cdir = os.path.join(ctx.work, drv + "-cases")
    os.makedirs(cdir, exist_ok=True)
    corpus = os.path.join(cdir, "one.jsonl")
    open(corpus, "w").write(json.dumps(rec["case"]) + "\n")
    rc, out = V.run([binp, "-replay", path])
    print(out)
    rc, out = V.run([binp, "-out", cdir, "-modes", "", "-corpus", corpus])
    summ = json.load(open(os.path.join(cdir, "cases_summary.json")))
    mism, failures = V.eval_shards(ctx, summ["files"])
    print("model vs implementation mismatches (case, step, node, kind):", [(c, s, NODE[prop].get(int(o), o), k) for c, s, o, k in mism], failures)
    return 1 if (mism or failures or summ.get("panics")) else 0
