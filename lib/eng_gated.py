"""gated.Filter engine: gatedh (Go, real filters/gated) vs Gated.v/Run_Gated.v (Coq), for C11 and C17
(GatedProofs.gated_reentry_terminates is the gated part of C12)."""
import json
import os
import re
import vcheck as V

# Run_Gated opens N_scope, so Print M shows bare numerals; accept both spellings
_M_ITEM = re.compile(r"\((\d+)(?:%N)?,\((\d+)(?:%N)?,(\d+)(?:%N)?,(\w+)\)\)")

OPK = {1: "Process", 2: "Process(flush)", 3: "Process(non-Gateable)", 4: "FlushAll", 5: "Close", 6: "Process(no id)", 7: "concurrent", 8: "Reopen/Type/Now"}
# one signature per code path: FlushAll and Close share theirs, so do Process with and without the flush flag
SIGOP = {1: "Process", 2: "Process", 3: "Process(non-Gateable)", 4: "FlushAll/Close", 5: "FlushAll/Close", 6: "Process(no id)", 7: "concurrent", 8: "Reopen/Type/Now"}
# at the first failing call the property-level (observation-only) oracles name the violation; model differences come after
PRIO = ["KCompositeMutated", "KSentStale", "KSentGateable", "KLinger", "KLost", "KDup", "KOrder", "KIdent", "KEmptyId", "KIndex", "KConc", "KRes", "KGated", "KSent", "KCompose", "KComp"]

# which mismatch kinds speak about which property
RELEVANT = {
    "C11": lambda k, op: k in ("KRes", "KComp", "KCompose", "KSent", "KGated", "KDup", "KOrder", "KLost", "KIdent", "KEmptyId",
                               "KSentGateable", "KSentStale", "KIndex", "KConc", "KCompositeMutated") or (k == "KLinger" and op == 7),
    "C17": lambda k, op: k in ("KLinger", "KGated", "KSent", "KSentStale", "KCompose", "KIndex") or (k == "KRes" and op in (1, 2, 4, 5, 7, 8)) or (k in ("KDup", "KLost") and op == 7),
}

ARGS = {
    ("C11", "quick"): ["-modes", "bfs,random,blocked,faults,conc", "-bfs-depth", "5", "-bfs-sym", "-bfs-nosym-depth", "3", "-random", "300", "-random-len", "60", "-conc", "12"],
    ("C11", "thorough"): ["-modes", "bfs,random,blocked,faults,conc", "-bfs-depth", "7", "-bfs-sym", "-bfs-nosym-depth", "5", "-bfs-full-configs", "-random", "4000", "-random-len", "200", "-conc", "400"],
    ("C17", "quick"): ["-modes", "bfs,random,blocked,faults", "-bfs-depth", "5", "-bfs-sym", "-bfs-nosym-depth", "3", "-random", "400", "-random-len", "60", "-random-ids", "5"],
    ("C17", "thorough"): ["-modes", "bfs,random,blocked,faults,conc", "-bfs-depth", "7", "-bfs-sym", "-bfs-nosym-depth", "5", "-bfs-full-configs", "-random", "4000", "-random-len", "200", "-conc", "100"],
}

ASSUMPTIONS = [
    "ComposeFrom, Broker.Send and the clock are oracle parameters of the model (universally quantified in the theorems); the harness "
    "instantiates them with: ComposeFrom failing / returning a Gateable payload for groups of a chosen size, the n-th Send failing, NowFunc = harness clock",
    "Go mutex semantics: the three critical sections of Process and the single one of FlushAll/Close are atomic (theorems quantify over every list of them)",
    "the harness observes what is still gated through the verif-tagged hook (*Filter).VerifGated (read-only, under the filter's read lock)",
    "exactly-once is stated for pairwise distinct events (NoDup of the events handed to Process); the multiset form C11_accounting needs no such hypothesis",
    "C17: Expiration >= 0 (0 = the 10 s default); a negative Expiration makes every new group expired at once and is outside the statement",
]


def check(ctx):
    V.check_properties_file(ctx, "Properties_%s.v" % ctx.prop)
    run(ctx)
    if ctx.prop == "C11":
        gateable_composite_reentry_part(ctx)
    ctx.assumptions += ASSUMPTIONS


def gateable_composite_reentry_part(ctx, binp=None):
    """The wired-to-the-same-Broker watchdog scenarios only (a few seconds; used by C11 and callable from the C12 check):
    a gated.Filter whose Broker routes the composites it sends back into a pipeline containing the filter itself, with pending
    groups flushed by expiry during Process, by FlushAll and by RemovePipelineAndNodes, for ComposeFrom returning a plain, a
    Gateable and a Gateable-with-FlushEvent()==true composite.  Every call runs under a watchdog.  A hang appends a violation
    with match "gated:reentry-hang" (replay = scenario + goroutine dump); a Gateable composite routed by the Broker without a
    hang appends "gated:KSentGateable@reentry".  Returns the list of scenario records (None when the driver could not be built/run)."""
    binp = binp or _build(ctx)
    if not binp:
        return None
    cdir = os.path.join(ctx.work, "gated-reentry")
    os.makedirs(cdir, exist_ok=True)
    rc, out = _vrun([binp, "-out", cdir, "-reentry", "-watchdog", "3s"], timeout=120)
    if rc != 0 or not os.path.exists(os.path.join(cdir, "reentry.json")):
        rp = V.write_replay(ctx, "harness-run-reentry", {"kind": "correspondence", "engine": "gatedh-crash", "output": out[-6000:]})
        ctx.violations.append({"match": "gated:harness-crash", "replay": rp, "what": "gatedh -reentry crashed", "no_input": True})
        return None
    res = json.load(open(os.path.join(cdir, "reentry.json")))
    part = ctx.coverage["parts"].setdefault("gated-reentry", {})
    part.update({"scenarios": len(res), "hung": sum(1 for r in res if r["hang"]),
                 "plain_composites_routed_back_into_the_filter": sum(r.get("plain_composites_routed_back_into_the_filter", 0) for r in res),
                 "rule": "filter wired to the Broker whose pipeline contains it; 3 flush paths x 3 kinds of composite; each call under a 3 s watchdog"})
    ctx.coverage["evaluations"] += len(res)
    spun = [r for r in res if r["hang"] and r["scenario"] == "sweep-oldest-expired-next-not" and r["composite"] == "plain"]
    if spun:
        r = spun[0]
        rp = V.write_replay(ctx, "gated-sweep-hang", {
            "kind": "search", "engine": "gatedh-reentry", "scenario": {k: r[k] for k in r if k != "goroutine_dump"},
            "goroutine_dump": r.get("goroutine_dump", "")[:12000], "repro": "bin/check replay <this file>"})
        ctx.violations.append({"match": "gated:hang", "replay": rp,
                               "what": "gated.Filter wired to its own Broker: %s did not return within the watchdog: the expiry sweep met an expired group followed by an "
                                       "unexpired one and never finished, holding the filter's mutex (every later call through the filter blocks)" % r.get("hung_at")})
    hung = [r for r in res if r["hang"] and r not in spun]
    if hung:
        r = hung[0]
        rp = V.write_replay(ctx, "gated-reentry-hang", {
            "kind": "search", "engine": "gatedh-reentry", "theorem_or_correspondence": "GatedProofs.gated_reentry_terminates / C11_broker_composites_not_gateable on the implementation",
            "scenario": {k: r[k] for k in r if k != "goroutine_dump"}, "all_hung_scenarios": [[x["scenario"], x["composite"], x.get("hung_at")] for x in hung],
            "goroutine_dump": r.get("goroutine_dump", "")[:12000], "repro": "bin/check replay <this file>"})
        ctx.violations.append({"match": "gated:reentry-hang", "replay": rp,
                               "what": "gated.Filter wired to its own Broker: %s did not return within the watchdog (%s, ComposeFrom returns a %s composite): the composite sent "
                                       "while holding the filter's mutex re-entered Process and parked on that mutex" % (r.get("hung_at"), r["scenario"], r["composite"])})
    lost = [r for r in res if r["scenario"] == "broker-reopen" and not r["hang"] and not r.get("groups_kept_across_broker_reopen", True)]
    if lost:
        r = lost[0]
        rp = V.write_replay(ctx, "gated-broker-reopen", {"kind": "search", "engine": "gatedh-reentry", "scenario": r, "repro": "bin/check replay <this file>"})
        ctx.violations.append({"match": "gated:KGated@broker-reopen", "replay": rp,
                               "what": "Broker.Reopen through a pipeline containing the gated.Filter changed what is gated: the open groups were flushed / dropped by Reopen"})
    through = [r for r in res if not r["hang"] and r.get("gateable_composites_routed_by_the_broker", 0) > 0]
    if through:
        r = through[0]
        rp = V.write_replay(ctx, "gated-reentry-gateable", {"kind": "search", "engine": "gatedh-reentry", "scenario": r, "repro": "bin/check replay <this file>"})
        ctx.violations.append({"match": "gated:KSentGateable@reentry", "replay": rp,
                               "what": "a Gateable composite was emitted through the Broker (%s, %s)" % (r["scenario"], r["composite"])})
    return res


PROPS = {"C11": check, "C17": check}
_NOTE = ("Trusted: Coq 8.16.1 kernel + vm_compute; no axioms (Print Assumptions: closed under the global context); the Go correspondence harness "
         "gatedh, its projection of observables and the verif-tagged VerifGated hook; ComposeFrom / Sender / clock behaviour and Go mutex atomicity of the "
         "filter's critical sections are modelled (oracle parameters / atoms), not verified. The model describes gated.go after repair F1.")
_TECH = "Coq proof over executable model + differential correspondence (vm_compute on harness cases) + observation-only oracles"
MANIFEST = {
    "C11": {"text": "Gated.v models gated.Filter as atomic critical sections over the ordered group list with a ghost history; theorems (every list of "
                    "critical sections = every interleaving, every ComposeFrom/Send fault oracle, every clock): exactly_once / accounting (permutation), "
                    "group_integrity (each composite = the events of its id pending since the group opened, in arrival order), dests_permitted (discard only "
                    "for no-Broker / compose error / Gateable composite / send error), handed_over_exactly_once_after_flush, accepted_withheld, flush_returns_group, non_gateable_identity, "
                    "empty_id_rejected, broker_composites_not_gateable; verdict_is_model_execution (RunGatedSound / RunSinksSound: the evaluator's empty mismatch list <-> every observed case is an execution of the model meeting the oracles, both directions); tie: gatedh runs every history to depth 5 (quick; up to renaming of ids, and to depth 3 without that reduction) / 7 (thorough; depth 5 without it) "
                    "over {event(3 ids, flush?), no-id event, non-Gateable, clock advances 1/exp-1/exp/exp+1, FlushAll, Close} x Broker set/unset x fault "
                    "oracles, random histories to 200 calls over 5 ids, concurrent senders (under -race) and 60 scenarios in which a second call arrives while the first call's Send through the Broker is parked (every group composed and sent exactly once) on the real filter; Run_Gated.mismatches compares result, "
                    "ComposeFrom arguments, Sender payloads and the VerifGated snapshot after every call and evaluates observation-only oracles",
            "design_ref": "5.C11", "note": _NOTE, "technique": _TECH, "engine": "coq-gated"},
    "C17": {"text": "theorems expired_gone (after a successful Process at T no group with expiry < T remains), expire_success / expired_emitted (exactly the "
                    "expired groups were emitted, once each, oldest first, through the Broker or dropped without one), flushall_empties / close_empties "
                    "(nothing remains; every group emitted exactly once in order), memory_bound — for every state, oracle and clock; groups_sorted_by_expiry (list order = expiry order when group-opening clock readings never decrease); tie: the C11 histories "
                    "with 0..5 simultaneously open groups, clock advances on/below/above the expiry boundary, FlushAll/Close at every position; VerifGated "
                    "compared with the model after every call plus the observation-only 'nothing lingers' oracle",
            "design_ref": "5.C17", "note": _NOTE, "technique": _TECH, "engine": "coq-gated"},
}
ENGINE = {"name": "coq-gated", "path": "coq/Gated.v coq/GatedProofs.v coq/GatedExamples.v coq/Run_Gated.v coq/RunGatedSound.v harness/cmd/gatedh lib/eng_gated.py",
          "serves_properties": ["C11", "C17"], "kind_free_text": "Coq model + proofs; Go differential driver; vm_compute comparison"}


def _vrun(cmd, env=None, timeout=600):
    """V.run with a short timeout; a timeout comes back as rc 124 whatever vcheck.run does with it"""
    import subprocess
    try:
        return V.run(cmd, env=env, timeout=timeout)
    except subprocess.TimeoutExpired as ex:
        out = ex.stdout if isinstance(ex.stdout, str) else (ex.stdout or b"").decode("utf-8", "replace")
        return 124, "TIMEOUT after %ss\n%s" % (timeout, out[-3000:])


DRIVER_TIMEOUT = {"quick": 240, "thorough": 1500}


def _build(ctx, race=False):
    binp, out = V.go_build(ctx, "./cmd/gatedh", race=race)
    if not binp:
        rp = V.write_replay(ctx, "harness-build", {"kind": "correspondence", "theorem_or_correspondence": "gatedh does not build against the tree", "output": out[-4000:]})
        ctx.violations.append({"match": "harness-build", "replay": rp, "what": "correspondence harness gatedh no longer builds against the tree", "no_input": True})
    return binp


def _run_driver(ctx, binp, cdir, args, label="gatedh"):
    os.makedirs(cdir, exist_ok=True)
    env = dict(os.environ, VERIF_SEED=str(ctx.seed))
    rc, out = _vrun([binp, "-out", cdir, "-prefix", "cases"] + args, env=env, timeout=DRIVER_TIMEOUT.get(ctx.tier, 600))
    if rc == 124:
        rp = V.write_replay(ctx, "harness-timeout-" + label, {"kind": "correspondence", "engine": "gatedh-crash", "output": out[-6000:]})
        ctx.violations.append({"match": "gated:hang", "replay": rp, "no_input": True,
                               "what": "%s did not finish within its time limit: a call on gated.Filter never returned and the driver's own watchdog did not get to report it" % label})
        return None, None, out
    if rc != 0:
        rp = V.write_replay(ctx, "harness-run-" + label, {"kind": "correspondence", "engine": "gatedh-crash", "output": out[-6000:]})
        if "DATA RACE" in out:
            ctx.violations.append({"match": "gated:race", "replay": rp, "no_input": False,
                                   "what": "the race detector reported a data race in gated.Filter while %s ran concurrent senders" % label})
        else:
            ctx.violations.append({"match": "gated:harness-crash", "replay": rp, "what": "%s crashed" % label, "no_input": True})
        return None, None, out
    summ = json.load(open(os.path.join(cdir, "cases_summary.json")))
    cases = {}
    for line in open(os.path.join(cdir, "cases.jsonl")):
        c = json.loads(line)
        cases[c["id"]] = c
    return summ, cases, out


def _evaluate(ctx, summ, rel):
    mism, failures = V.eval_shards(ctx, summ["files"], parse=_M_ITEM)
    V.prune_shards(summ["files"], keep=[f for f, _ in failures])
    by_case, others = {}, 0
    for cid, step, opk, kind in mism:
        cid, step, opk = int(cid), int(step), int(opk)
        if rel(kind, opk):
            by_case.setdefault(cid, []).append((step, opk, kind))
        else:
            others += 1
    return by_case, others, failures


def _ncalls(c):
    if c.get("threads"):
        return sum(len(t) for t in c["threads"])
    return len(c.get("ops") or [])


def shrink(ctx, binp, case, kinds, rel, rounds=40):
    """greedy delta-debugging on the op list: drop one op at a time as long as a mismatch of one of [kinds] remains"""
    if case.get("threads"):
        return case
    cur = case
    sdir = os.path.join(ctx.work, "gated-shrink")

    def still_fails(cands):
        """the first candidate (in the order given) that still shows one of [kinds], or None"""
        os.makedirs(sdir, exist_ok=True)
        corpus = os.path.join(sdir, "cands.jsonl")
        open(corpus, "w").write("\n".join(json.dumps(c) for c in cands) + "\n")
        summ, cases, _ = _run_driver(ctx, binp, sdir, ["-modes", "", "-corpus", corpus], "gatedh (shrinking)")
        if summ is None:
            return None
        by_case, _, failures = _evaluate(ctx, summ, rel)
        for cid in sorted(by_case):
            if any(k in kinds for _, _, k in by_case[cid]):
                return cases[cid]
        return None

    # long histories first lose their tail: a handful of prefixes per round (never one candidate per op of a 1000-op history)
    for _ in range(12):
        n = len(cur["ops"])
        if n <= 40:
            break
        cands = []
        for k in sorted(set([n // 8, n // 4, n // 2, (3 * n) // 4, (7 * n) // 8, n - 8, n - 2])):
            if 1 <= k < n:
                c = dict(cur)
                c["ops"] = cur["ops"][:k]
                cands.append(c)
        hit = still_fails(cands)
        if hit is None:
            break
        cur = hit
    if len(cur["ops"]) > 80:
        return cur          # still long: leave it (one candidate per op would cost minutes)
    for _ in range(rounds):
        ops = cur["ops"]
        if len(ops) <= 2:
            break
        cands = []
        for i in range(len(ops)):
            c = dict(cur)
            c["ops"] = ops[:i] + ops[i + 1:]
            cands.append(c)
        hit = still_fails(cands)
        if hit is None:
            break
        cur = hit
    return cur


def run(ctx, prop=None):
    prop = prop or ctx.prop
    part = {}
    ctx.coverage["parts"]["gated-correspondence"] = part
    args = list(ARGS[(prop, ctx.tier)])
    race = True   # the concurrent senders always run in a -race instrumented binary: lock-mode mistakes show up only there
    binp = _build(ctx)
    if not binp:
        return
    cdir = os.path.join(ctx.work, "gated")
    corpus = os.path.join(V.VERIF, "corpus", prop, "gated.jsonl")
    if os.path.exists(corpus):
        args += ["-corpus", corpus]
    conc_n = 0
    if race and "conc" in args[1]:
        # the concurrent senders run in a second, -race instrumented, binary
        i = args.index("-conc")
        conc_n = int(args[i + 1])
        args[1] = ",".join(m for m in args[1].split(",") if m != "conc")
    summ, cases, out = _run_driver(ctx, binp, cdir, args)
    ctx.log(out.strip()[-300:])
    if summ is None:
        return
    runs = [(summ, cases)]
    if conc_n:
        rbin = _build(ctx, race=True)
        if rbin:
            s2, c2, out2 = _run_driver(ctx, rbin, os.path.join(ctx.work, "gated-race"), ["-modes", "conc", "-conc", str(conc_n)], "gatedh -race")
            ctx.log(out2.strip()[-300:])
            if s2 is not None:
                runs.append((s2, c2))
                part["race_detector"] = "concurrent cases executed under go build -race: no report"
    rel = RELEVANT[prop]
    total_by_case, sigs = 0, {}
    for summ_i, cases_i in runs:
        hangs = summ_i.get("hangs") or []
        if hangs:
            h = min(hangs, key=lambda x: len(x["case"].get("ops") or []) if x["case"].get("ops") else 10 ** 6)
            rp = V.write_replay(ctx, "gated-hang", {
                "kind": "correspondence", "engine": "gatedh", "theorem_or_correspondence": "every Process / FlushAll / Close call returns (the model's operations are total functions)",
                "signature": "hang", "hung_call": {"index": h["call"], "op": h["op"], "watchdog_ms": h["watchdog_ms"]}, "case": h["case"],
                "histories_hung_before_the_driver_stopped_generating": len(hangs), "goroutine_dump": (hangs[0].get("goroutine_dump") or "")[:12000],
                "repro": "bin/check replay <this file>"})
            ctx.violations.append({"match": "gated:hang", "replay": rp,
                                   "what": "%s: call %d (%s) of a %d-op history on gated.Filter did not return within %d ms (spin or deadlock while holding the filter's mutex); "
                                           "the driver stopped generating after %d hung histories" % (prop, h["call"], h["op"], len(h["case"].get("ops") or []), h["watchdog_ms"], len(hangs))})
            part["hung_histories"] = len(hangs)
        for p in summ_i.get("panics") or []:
            cid = int(p.split()[1].rstrip(":"))
            rp = V.write_replay(ctx, "panic-%d" % cid, {"kind": "correspondence", "engine": "gatedh", "what": p, "case": cases_i.get(cid)})
            ctx.violations.append({"match": "gated:panic", "replay": rp, "what": "gated.Filter panicked: " + p})
        by_case, others, failures = _evaluate(ctx, summ_i, rel)
        for f, o in failures:
            rp = V.write_replay(ctx, "coqc-" + os.path.basename(f), {"kind": "correspondence", "theorem_or_correspondence": "Run_Gated.mismatches on " + f, "output": o})
            ctx.violations.append({"match": "coqc-failure", "replay": rp, "what": "case file %s could not be evaluated" % f, "no_input": True})
        total_by_case += len(by_case)
        # the smallest failing case per (kind, op) signature
        for cid, ms in by_case.items():
            ms.sort(key=lambda m: (m[0], PRIO.index(m[2]) if m[2] in PRIO else 99))
            step, opk, kind = ms[0]
            sig = "%s@%s" % (kind, SIGOP.get(opk, opk))
            n = _ncalls(cases_i[cid])
            if sig not in sigs or n < sigs[sig][0]:
                sigs[sig] = (n, cases_i[cid], ms)
        ctx.coverage["evaluations"] += summ_i["cases"]
        ctx.coverage["distinct_nontrivial"] += summ_i["distinct_nontrivial"]
        ctx.coverage["traces_validated_against_impl"] = ctx.coverage.get("traces_validated_against_impl", 0) + summ_i["cases"]
        for k in summ_i:
            if k in ("files", "panics"):
                continue
            if k == "stats" and "stats" in part:
                for kk, vv in summ_i["stats"].items():
                    part["stats"][kk] = part["stats"].get(kk, 0) + vv
            elif k not in part:
                part[k] = summ_i[k]
        part["mismatches_on_other_observables_ignored_for_this_property"] = part.get("mismatches_on_other_observables_ignored_for_this_property", 0) + others
    for sig, (n, c, ms) in sorted(sigs.items()):
        kinds = set(k for _, _, k in ms)
        small = shrink(ctx, binp, c, kinds, rel) if n > 6 else c
        rp = V.write_replay(ctx, "gated-%s" % sig, {
            "kind": "correspondence", "engine": "gatedh", "theorem_or_correspondence": "Run_Gated.mismatches (model Gated.v vs real gated.Filter)",
            "signature": sig, "first_mismatch": {"call": ms[0][0], "op": OPK.get(ms[0][1]), "kind": ms[0][2]},
            "all_mismatches_of_case": [{"call": s, "op": OPK.get(o), "kind": k} for s, o, k in ms],
            "case": small, "original_case_calls": n, "cases_failing_with_any_relevant_kind": total_by_case,
            "repro": "bin/check replay <this file>"})
        if c.get("blocked"):
            b = c["blocked"]
            ctx.violations.append({"match": "gated:" + sig, "replay": rp,
                                   "what": "%s: oracle %s failed in the scenario 'a %s arrives while the Send of a %s (%d open groups%s) is in flight through the Broker' "
                                           "(KDup: a group composed / sent twice; KSent: not exactly the composites built were sent; KCompositeMutated: a composite's events "
                                           "changed after it was built) (%d cases affected in total)" % (
                                       prop, sig, b["second"], b["first"], b["groups"], ", expired" if b.get("expired") else "", total_by_case)})
            continue
        ctx.violations.append({"match": "gated:" + sig, "replay": rp,
                               "what": "%s: gated.Filter and its model disagree / an oracle fails: %s at call %d of a %d-call history%s (%d cases affected in total)" % (
                                   prop, sig, ms[0][0], n, "" if small is c else ", shrunk to %d calls in the replay" % _ncalls(small), total_by_case)})
    part["rule"] = ("histories of Process/FlushAll/Close calls and clock advances run on the real gated.Filter (NowFunc = harness clock, harness payload "
                    "records ComposeFrom arguments, harness Sender records payloads); after every call the harness observes the result, the ComposeFrom "
                    "arguments, the payloads sent and the VerifGated snapshot; the Coq model is run on the same history by vm_compute. bfs = every history to "
                    "the stated depth up to equality of the implementation state reached (and, with bfs_up_to_id_renaming, renaming of ids). "
                    "distinct_nontrivial = distinct (configuration, history) pairs in which at least one group left the gate or FlushAll/Close met >= 2 groups.")
    ctx.coverage["rule"] = part["rule"]
    allc = runs[0][1]
    ids = sorted(allc)
    picks = [i for i in ids if allc[i].get("gen") == "bfs"][-1:] + [i for i in ids if allc[i].get("gen") == "random"][:1]
    for i in picks:
        c = dict(allc[i])
        if len(c.get("ops") or []) > 40:
            c["ops"] = c["ops"][:40] + [{"k": "... %d more" % (len(allc[i]["ops"]) - 40)}]
        ctx.coverage["samples"].append(c)
    if runs[0][0].get("bfs_exhaustive_to_requested_depth") is not None:
        ctx.coverage["exhaustive"] = bool(runs[0][0].get("bfs_exhaustive_to_requested_depth"))


def handles_replay(rec):
    return rec.get("engine") in ("gatedh", "gatedh-crash", "gatedh-reentry")


def replay(ctx, rec, path):
    """re-run the recorded history on the real filter and on the model, print both"""
    if rec.get("engine") == "gatedh-reentry":
        res = gateable_composite_reentry_part(ctx)
        for r in res or []:
            print("%-36s %-15s hang=%s %s gateable composites routed by the broker: %d" % (r["scenario"], r["composite"], r["hang"], r.get("hung_at") or "", r.get("gateable_composites_routed_by_the_broker", 0)))
        for v in ctx.violations:
            print("#", v["what"])
        return 1 if ctx.violations else 0
    if rec.get("engine") == "gatedh-crash":
        print(rec.get("output", ""))
        print("the record above is the harness output (race detector report / crash); re-run: bin/check %s --tier %s" % (rec.get("property"), rec.get("tier", "quick")))
        return 0
    binp, out = V.go_build(ctx, "./cmd/gatedh")
    if not binp:
        print(out)
        return 1
    cdir = os.path.join(ctx.work, "gated")
    os.makedirs(cdir, exist_ok=True)
    corpus = os.path.join(cdir, "one.jsonl")
    open(corpus, "w").write(json.dumps(rec["case"]) + "\n")
    rc, out = _vrun([binp, "-replay", path], timeout=60)
    print(out)
    if rc == 3:
        return 1
    rc, out = _vrun([binp, "-out", cdir, "-modes", "", "-corpus", corpus], timeout=60)
    summ = json.load(open(os.path.join(cdir, "cases_summary.json")))
    mism, failures = V.eval_shards(ctx, summ["files"], parse=_M_ITEM)
    print("model vs implementation mismatches (case, call, op, kind):", [(c, s, OPK.get(int(o), o), k) for c, s, o, k in mism], failures)
    return 1 if (mism or failures or summ.get("panics")) else 0
