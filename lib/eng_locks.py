"""Lock-discipline engine for C04, C12, C19.

Static part (tie = translation): translate/ regenerates Gen_Locks.v (every function of the six library packages as a term of
coq/LockLang.v) from the tree under test; coq/obligations/Obl_Cxx.v is compiled against it on every run: the checker's verdict
is re-evaluated by vm_compute and the semantic theorems of coq/LockSound.v are instantiated on the generated program.
Dynamic part (search / correspondence): harness/cmd/lockh (re-entrancy watchdog, C12), harness/cmd/conch (concurrent histories:
delivery bounds + linearizability against Broker.v, C04; also built with -race), harness/cmd/stressh (stock-node compositions
under -race, C19).  Race reports are classified (field, reader fn, writer fn) with the translator's access table.
"""
import json
import os
import re
import shutil
import vcheck as V

TRANSLATE = os.path.join(V.VERIF, "translate")


def _run(cmd, cwd=None, env=None, timeout=300):
    """V.run with a hard limit: a command that does not finish is killed, exit code 124, "TIMEOUT" appended to what it printed"""
    import subprocess
    try:
        rc, out = V.run(cmd, cwd=cwd, env=env, timeout=timeout)
        return rc, out
    except subprocess.TimeoutExpired as e:
        out = e.output if isinstance(e.output, str) else (e.output or b"").decode("utf-8", "replace")
        return 124, (out or "") + "\nTIMEOUT: %s did not finish within %d s" % (os.path.basename(str(cmd[0])), timeout)


def _report_hangs(ctx, prop, engine, hangs, meaning):
    """histories / scenarios the driver's own watchdog gave up on: callers that never return"""
    if not hangs:
        return
    h = hangs[0]
    ctx._hang = {"engine": engine, "case": h.get("case") or h.get("scenario"), "mode": h.get("mode"), "goroutine_dump": h.get("goroutine_dump")}
    rp = V.write_replay(ctx, engine + "-hang", {
        "kind": "correspondence", "engine": engine, "theorem_or_correspondence": "watchdog: every call of every history returns",
        "case": h.get("case") or h.get("scenario"), "mode": h.get("mode"), "goroutine_dump": h.get("goroutine_dump"),
        "hung_histories": len(hangs), "repro": "bin/check replay <this file>"})
    ctx.violations.append({"match": engine + ":hang", "replay": rp,
                           "what": "%s: %s (%d hung; goroutine dump in the replay)" % (prop, meaning, len(hangs))})


def _timed_out(ctx, prop, what, rc, out, case=None):
    """rc 124: the driver itself hung (its own watchdogs should have prevented it): a violation without a named input"""
    if rc != 124:
        return False
    rp = V.write_replay(ctx, "timeout-" + what, {"kind": "correspondence", "engine": what, "case": case, "output": out[-3000:],
                                                  "theorem_or_correspondence": "every driver run finishes within its time limit"})
    ctx.violations.append({"match": what + ":timeout", "replay": rp, "no_input": True,
                           "what": "%s: the %s driver did not finish within its time limit (calls into the library that never return?)" % (prop, what)})
    return True

# known findings are read from KNOWN_FINDINGS.txt only (vcheck.load_known)
OBL = os.path.join(V.COQ, "obligations")
L_BROKER = "eventlogger.Broker.lock"

PROTOCOL_CALLBACK = ("KCallback", "KCallHolding", "KReqAcqOverlap", "KCalleeUndeclared")
PROTOCOL_ORDER = ("KLockOrder",)
ACCESS = ("KUnguardedRead", "KUnguardedWrite", "KImmutableWrite")
KIND_TEXT = {
    "KReacquire": "lock acquired while already held", "KAcqUndeclared": "acquires a lock missing from its acquires entry",
    "KRelMode": "lock released in the wrong mode", "KRelNotHeld": "release of a lock that is not held", "KRelUndeclared": "release of an undeclared lock",
    "KUnguardedRead": "unguarded read of", "KUnguardedWrite": "unguarded write of", "KImmutableWrite": "write of an immutable field outside a constructor:",
    "KCallback": "callback (or, for wait:..., a blocking wait that is not a mutex operation) runs under a lock it may acquire / depend on:",
    "KUnauditedConcurrency": "a goroutine start / blocking wait that is not on the audited list (Contracts.audited_concurrency); the lock language cannot judge who signals whom:",
    "KCheckThenAct": "check-then-act: written in one critical section on the strength of a read made in an earlier, released critical section of the same lock (not re-read):",
    "KLockOrder": "acquired (or callee / callback that acquires it reached) while a lock of equal or higher rank is held:", "KCallRequires": "call without the locks the callee requires:",
    "KCallHolding": "call while holding a lock the callee (or a callback / goroutine it reaches) acquires:",
    "KCalleeUndeclared": "callee acquires a lock missing from the caller's acquires entry:",
    "KBreakLocks": "break/continue with a different lock set than at region entry", "KBreakOutside": "break outside a region",
    "KBranches": "branches disagree on held locks / deferred actions", "KLoopNeutral": "loop body not lock-neutral", "KSwitchNeutral": "switch/select not lock-neutral",
    "KDeferInLoop": "defer inside a loop", "KDeferInSwitch": "defer inside a switch", "KReturnHeld": "return with a different lock set than at entry",
    "KGoHeld": "goroutine ends with locks held", "KGoHolding": "goroutine started while holding a lock it (or a callback it reaches) may acquire", "KLiteralNeutral": "function literal not lock-neutral", "KReqAcqOverlap": "function may (via a callback) acquire a lock its callers must hold",
    "KUndefinedCallee": "call of a function the translator did not emit:", "KDuplicateName": "two functions with one name:", "KEntryRequires": "exported function with lock requirements:",
    "KLiteralCallee": "function handed a literal acquires locks:", "KUnsupported": "construct the translator cannot express:",
}


# ---------------------------------------------------------------- static part
def _run_translator(ctx, part):
    """build translate/ and run it on the tree under test into ctx.work/locks. Returns (dir, info) or (None, output)."""
    d = os.path.join(ctx.work, "locks")
    os.makedirs(d, exist_ok=True)
    binp = os.path.join(ctx.work, "translate")
    rc, out = _run(["go", "build", "-o", binp, "."], cwd=TRANSLATE, env=V.GOENV, timeout=300)
    if rc != 0:
        return None, "translator does not build:\n" + out
    mod = V.harness_modfile(ctx)
    rc, out = _run([binp, "-dir", V.HARNESS, "-modfile", mod, "-out", d], env=V.GOENV, timeout=300)
    ctx.log(out.strip()[-300:])
    if rc != 0:
        return None, "translator failed on the tree:\n" + out
    info = json.load(open(os.path.join(d, "translate.json")))
    part["translator"] = {"functions": info["functions"], "packages": info["packages"], "entry_points": len(info["entries"]),
                          "accesses": len(info["accesses"]), "unsupported": info["unsupported"], "lit_callees": info["lit_callees"]}
    rc, out = V.coqc("Gen_Locks.v", d, extra=["-R", d, ""])
    if rc != 0:
        return None, "Gen_Locks.v does not compile:\n" + out[-3000:]
    return d, info


_TRIPLE = re.compile(r'\("([^"]*)"%string,\s*(K\w+),\s*"((?:[^"]|"")*)"%string\)')


def _compile_obligation(ctx, d, fname):
    """compile coq/obligations/<fname> in d; returns (ok, complaints[(fn, kind, subject)], theorem names, output)"""
    shutil.copy(os.path.join(OBL, fname), os.path.join(d, fname))
    text = open(os.path.join(OBL, fname)).read()
    thms = re.findall(r"^(?:Theorem|Corollary)\s+(\w+)", text, re.M)
    rc, out = V.coqc(fname, d, extra=["-R", d, ""])
    complaints = []
    for blk in re.split(r"(?m)^(?:cta_|wait_|concurrency_|registry_)?complaints =", out)[1:]:
        body = blk.split("\n     :", 1)[0]
        complaints += [(a, k, s.replace('""', '"')) for a, k, s in _TRIPLE.findall(re.sub(r"\s+", " ", body))]
    complaints = list(dict.fromkeys(complaints))
    return rc == 0, complaints, thms, out


def _writers_readers(info):
    w, r = {}, {}
    for a in info["accesses"]:
        (w if a["kind"] == "W" else r).setdefault(a["field"], set()).add(a["fn"])
    return w, r


def _race_tokens(field, fn, kind, writers, readers):
    """the access pairs (field|reader|writer) a complaint about fn's access to field stands for"""
    toks = set()
    if kind == "KUnguardedRead":
        for wfn in sorted(writers.get(field, ())):
            toks.add("race:%s|%s|%s" % (field, fn, wfn))
    else:
        for rfn in sorted(readers.get(field, ())):
            if rfn != fn:
                toks.add("race:%s|%s|%s" % (field, rfn, fn))
        for wfn in sorted(writers.get(field, ())):
            a, b = sorted((fn, wfn))
            toks.add("race:%s|%s|%s" % (field, a, b))
    return toks


def group_complaints(prop, complaints, info):
    """one group per defect: access complaints by field (split where a known finding covers only part of them),
    callback-under-lock complaints together, everything else by (function, kind, subject)"""
    known, _ = V.load_known()
    ktoks = [k["match"] for k in known if k.get("property") == prop and k.get("match")]
    writers, readers = _writers_readers(info)
    groups = {}
    cb_sites = set((fn, subj) for fn, kind, subj in complaints if kind in PROTOCOL_CALLBACK)
    for fn, kind, subj in complaints:
        if kind == "KLockOrder" and (fn, subj) in cb_sites:
            kind_class = "callback"      # the same call site, seen by the lock-order rule as well
        else:
            kind_class = None
        if kind in ACCESS:
            toks = _race_tokens(subj, fn, kind, writers, readers)
            is_known = any(kt in t for kt in ktoks for t in toks)
            key = ("access", subj, "known" if is_known else "new")
            g = groups.setdefault(key, {"class": "access", "field": subj, "members": [], "tokens": set(), "is_known": is_known})
            g["members"].append((fn, kind, subj))
            g["tokens"] |= toks
        elif kind in PROTOCOL_CALLBACK or kind_class == "callback":
            g = groups.setdefault(("callback",), {"class": "callback-under-lock", "members": [], "tokens": set()})
            g["members"].append((fn, kind, subj))
        elif kind == "KUnauditedConcurrency":
            g = groups.setdefault(("unaudited", fn), {"class": "protocol", "members": [], "tokens": set()})
            g["members"].append((fn, kind, subj))
        else:
            g = groups.setdefault(("other", fn, kind, subj), {"class": "protocol", "members": [], "tokens": set()})
            g["members"].append((fn, kind, subj))
    out = []
    for key, g in sorted(groups.items(), key=lambda kv: str(kv[0])):
        if g["class"] == "access":
            g["match"] = "locks:access:%s %s" % (g["field"], " ".join(sorted(g["tokens"])))
            g["what"] = "lock discipline: " + "; ".join("%s: %s %s" % (f, KIND_TEXT[k], s) for f, k, s in g["members"])
        elif g["class"] == "callback-under-lock":
            g["match"] = "locks:callback-under-lock:" + ",".join(sorted(set(f for f, _, _ in g["members"])))
            g["what"] = "a lock is acquired again, or a callee / callback that may take it is reached, while it is held: " + "; ".join(
                "%s: %s %s" % (f, KIND_TEXT[k], s) for f, k, s in g["members"])
        elif key[0] == "unaudited":
            f = g["members"][0][0]
            g["match"] = "locks:KUnauditedConcurrency:%s:%s" % (f, ",".join(sorted(s2 for _, _, s2 in g["members"])))
            g["what"] = "new concurrency construct: %s: %s %s" % (f, KIND_TEXT["KUnauditedConcurrency"], ", ".join(sorted(s2 for _, _, s2 in g["members"])))
        else:
            f, k, s = g["members"][0]
            g["match"] = "locks:%s:%s:%s" % (k, f, s)
            g["what"] = "lock protocol: %s: %s %s" % (f, KIND_TEXT.get(k, k), s)
        out.append(g)
    return out


def gen_terms(d, fns):
    """the generated terms of the named functions (for the replay file)"""
    res = {}
    try:
        for line in open(os.path.join(d, "Gen_Locks.v")):
            m = re.match(r'\s*\("([^"]+)", (.*?)\);?$', line)
            if m and m.group(1) in fns:
                res[m.group(1)] = m.group(2)[:4000]
    except OSError:
        pass
    return res


def static_part(ctx, prop):
    """regenerate, re-prove. Returns dict(ok, dir, info, groups, theorem) -- groups = complaint groups (possibly empty)."""
    part = {}
    ctx.coverage["parts"]["static-obligation"] = part
    fname = "Obl_%s.v" % prop
    d, info = _run_translator(ctx, part)
    if d is None:
        rp = V.write_replay(ctx, "translate", {"kind": "obligation", "engine": "locks", "theorem_or_correspondence": fname, "output": info[-4000:]})
        ctx.violations.append({"match": "locks:translate", "replay": rp, "what": "the translator / generated file no longer works on the tree", "no_input": True})
        ctx.obligations.append((fname + ":generated", False))
        return {"ok": False, "dir": None, "info": None, "groups": [], "complaints": []}
    ctx._locks_dir = d
    ok, complaints, thms, out = _compile_obligation(ctx, d, fname)
    for t in thms:
        ctx.obligations.append((fname + ":" + t, ok))
    m = re.search(r"stats =\s*(.*?)\n\s*:", out, re.S)
    part.update({"obligation_file": "coq/obligations/" + fname, "theorems": thms, "holds": ok,
                 "complaints": [list(c) for c in complaints], "stats(program, reachable, entries, ...)": re.sub(r"\s+", " ", m.group(1)) if m else None,
                 "assumptions_output": [l.strip() for l in out.splitlines() if "Closed under" in l or "Axioms" in l]})
    if "Closed under the global context" in out:
        ctx.trusted.add("generated-program theorems (%s): Print Assumptions 'Closed under the global context'" % fname)
    groups = group_complaints(prop, complaints, info)
    if not ok and not complaints:
        # the file broke in another way (a theorem other than the complaint list): report the raw output
        rp = V.write_replay(ctx, "obligation-" + fname, {"kind": "obligation", "engine": "locks", "theorem_or_correspondence": fname, "output": out[-4000:]})
        ctx.violations.append({"match": "locks:obligation:" + fname, "replay": rp, "what": "%s no longer checks against the regenerated program" % fname, "no_input": True})
    ctx.coverage["samples"].append({"obligation": fname, "theorems": thms, "holds": ok, "complaints": [list(c) for c in complaints][:6]})
    return {"ok": ok, "dir": d, "info": info, "groups": groups, "complaints": complaints, "out": out}


def report_static(ctx, prop, st, evidence_for):
    """turn complaint groups into violations; evidence_for(group) -> (replay extra dict or None)"""
    for g in st["groups"]:
        ev = evidence_for(g)
        rec = {"kind": "obligation", "engine": "locks", "theorem_or_correspondence": "coq/obligations/Obl_%s.v over the regenerated Gen_Locks.v" % prop,
               "class": g["class"], "complaints": [{"function": f, "kind": k, "subject": s, "meaning": KIND_TEXT.get(k, k)} for f, k, s in g["members"]],
               "access_pairs": sorted(g["tokens"]), "generated_terms": gen_terms(st["dir"], set(f for f, _, _ in g["members"])),
               "repro": "bin/check replay <this file>"}
        if ev:
            rec["failing_input"] = ev
        name = "locks-" + re.sub(r"[^A-Za-z0-9]+", "_", g["match"].split(" ")[0])[:80]
        rp = V.write_replay(ctx, name, rec)
        ctx.violations.append({"match": g["match"], "replay": rp, "what": g["what"], "no_input": ev is None})


# ---------------------------------------------------------------- C07 side condition (called from the C07 check)
def overwrite_atomic_obligation(ctx):
    """Re-checked structural side condition of Conc.overwritten_exactly_one_version: on the program regenerated from the tree,
    RegisterPipeline performs exactly ONE sync.Map Store on graph.roots and no Delete (a non-atomic overwrite would let a concurrent Send see
    neither version), RemovePipeline / RemovePipelineAndNodes exactly one Delete.  Appends the theorems of coq/obligations/Obl_roots.v to
    ctx.obligations; on failure appends a violation whose match is "locks:overwrite-not-atomic".  Returns True when the obligation holds."""
    part = {}
    ctx.coverage["parts"]["roots-operations-obligation"] = part
    d = getattr(ctx, "_locks_dir", None)
    if d is None:
        d, info = _run_translator(ctx, part)
        if d is None:
            rp = V.write_replay(ctx, "translate", {"kind": "obligation", "engine": "locks", "theorem_or_correspondence": "Obl_roots.v", "output": info[-4000:]})
            ctx.violations.append({"match": "locks:translate", "replay": rp, "what": "the translator / generated file no longer works on the tree", "no_input": True})
            ctx.obligations.append(("Obl_roots.v:generated", False))
            return False
        ctx._locks_dir = d
    ok, _, thms, out = _compile_obligation(ctx, d, "Obl_roots.v")
    for t in thms:
        ctx.obligations.append(("Obl_roots.v:" + t, ok))
    m = re.search(r"roots_summary =\s*(.*?)\n\s*:", out, re.S)
    summary = re.sub(r"\s+", " ", m.group(1)) if m else None
    part.update({"obligation_file": "coq/obligations/Obl_roots.v", "theorems": thms, "holds": ok, "roots_operations": summary})
    if not ok:
        rp = V.write_replay(ctx, "locks-overwrite-not-atomic", {
            "kind": "obligation", "engine": "locks", "theorem_or_correspondence": "coq/obligations/Obl_roots.v (register_pipeline_overwrite_atomic / remove_pipeline_one_delete) over the regenerated Gen_Locks.v",
            "roots_operations": summary, "generated_terms": gen_terms(d, {"eventlogger.Broker.RegisterPipeline", "eventlogger.Broker.RemovePipeline", "eventlogger.Broker.RemovePipelineAndNodes"}),
            "output": out[-3000:], "repro": "bin/check replay <this file>"})
        ctx.violations.append({"match": "locks:overwrite-not-atomic", "replay": rp, "no_input": True,
                               "what": "RegisterPipeline no longer overwrites a pipeline with a single sync.Map Store (or a removal is no longer a single Delete): roots operations = %s" % summary})
    return ok


# ---------------------------------------------------------------- C15 side condition (called from the FileSink engine)
def clock_under_lock_obligation(ctx):
    """Re-checked structural side condition for C15: on the program regenerated from the tree every reading of the wall clock (time.Now /
    time.Since / time.Until) in a FileSink method happens while FileSink.l is held -- in open / rotate (their contract requires the lock) or
    after fs.l.Lock() in Process / Reopen; never before the lock is taken (file stamps would then be out of the order in which the writers got
    the mutex).  Appends the theorems of coq/obligations/Obl_clock.v to ctx.obligations; on failure appends a violation whose match is
    "locks:clock-read-outside-lock" (no_input=True).  Returns True when the obligation holds."""
    part = {}
    ctx.coverage["parts"]["clock-under-lock-obligation"] = part
    d = getattr(ctx, "_locks_dir", None)
    if d is None:
        d, info = _run_translator(ctx, part)
        if d is None:
            rp = V.write_replay(ctx, "translate", {"kind": "obligation", "engine": "locks", "theorem_or_correspondence": "Obl_clock.v", "output": info[-4000:]})
            ctx.violations.append({"match": "locks:translate", "replay": rp, "what": "the translator / generated file no longer works on the tree", "no_input": True})
            ctx.obligations.append(("Obl_clock.v:generated", False))
            return False
        ctx._locks_dir = d
    ok, complaints, thms, out = _compile_obligation(ctx, d, "Obl_clock.v")
    for t in thms:
        ctx.obligations.append(("Obl_clock.v:" + t, ok))
    part.update({"obligation_file": "coq/obligations/Obl_clock.v", "theorems": thms, "holds": ok, "complaints": [list(c) for c in complaints]})
    if not ok:
        fns = sorted(set(f for f, _, _ in complaints))
        rp = V.write_replay(ctx, "locks-clock-read-outside-lock", {
            "kind": "obligation", "engine": "locks", "theorem_or_correspondence": "coq/obligations/Obl_clock.v (filesink_clock_read_under_lock) over the regenerated Gen_Locks.v",
            "complaints": [{"function": f, "kind": k, "subject": s2, "meaning": KIND_TEXT.get(k, k)} for f, k, s2 in complaints],
            "generated_terms": gen_terms(d, set(fns)), "output": out[-2000:], "repro": "bin/check replay <this file>"})
        ctx.violations.append({"match": "locks:clock-read-outside-lock", "replay": rp, "no_input": True,
                               "what": "a FileSink method reads the wall clock while FileSink.l is not held: " + "; ".join("%s: %s %s" % (f, KIND_TEXT.get(k, k), s2) for f, k, s2 in complaints)})
    return ok


# ---------------------------------------------------------------- race reports
_FRAME = re.compile(r"^\s+(\S+)\(\)\n\s+(\S+):(\d+)", re.M)
BROKER_PREFIXES = ("eventlogger.Broker.", "eventlogger.nodeUsage.", "eventlogger.graph.", "eventlogger.graphMap.",
                   "eventlogger.registeredPipeline.", "eventlogger.linkedNode.", "eventlogger.clock.")


def is_broker_field(f):
    return f.startswith(BROKER_PREFIXES)


def _short_fn(frame_fn):
    """github.com/hashicorp/eventlogger/filters/encrypt.(*Filter).Process.func1 -> encrypt.Filter.Process"""
    f = frame_fn.split("/")[-1]
    f = re.sub(r"\(\*?(\w+)\)", r"\1", f)
    f = re.split(r"\.func\d|\.gowrap\d|\.deferwrap\d|\.\d", f)[0]
    return f


def parse_race_reports(text, info, scenario=None):
    """split a -race log into reports and classify each by (field, reader fn, writer fn) using the translator's access table"""
    table = {}
    for a in info["accesses"]:
        table.setdefault((os.path.basename(a["file"]), a["line"]), []).append(a)
    written_by = {}
    for a in info["accesses"]:
        if a["kind"] == "W":
            written_by.setdefault(a["fn"], set()).add(a["field"])
    calls = info.get("calls", {})
    reports = []
    for blk in text.split("WARNING: DATA RACE")[1:]:
        blk = blk.split("==================")[0]
        parts = re.split(r"\n(?=Previous (?:read|write) at|Goroutine \d+ \(|$)", blk)
        stacks = []
        for p in parts:
            m = re.match(r"\s*(Read|Write|Previous read|Previous write) at", p)
            if not m:
                continue
            frames = [(fn, os.path.basename(fl), int(ln), fl) for fn, fl, ln in _FRAME.findall(p)]
            stacks.append(("rite" in m.group(1), frames))
        if len(stacks) < 2:
            continue
        sides = []
        for is_write, frames in stacks[:2]:
            lib = None
            for fn, base, ln, full in frames:
                if "hashicorp/eventlogger" in fn and "verifharness" not in fn and full.startswith(V.REPO):
                    lib = (fn, base, ln)
                    break
            accs = table.get((lib[1], lib[2]), []) if lib else []
            exact = set(a["field"] for a in accs if not a.get("reflective") and (a["kind"] == "W") == is_write)
            refl = set() if is_write else set(a["field"] for a in accs if a.get("reflective"))   # reflective entries are reads
            cand = exact or refl
            inner = next((fn for fn, _, _, _ in frames if not fn.startswith(("runtime.", "reflect.", "sync/atomic."))), frames[0][0] if frames else "?")
            libfns = [_short_fn(fn) for fn, _, _, full in frames if "hashicorp/eventlogger" in fn and "verifharness" not in fn and full.startswith(V.REPO)]
            sides.append({"write": is_write, "frame": lib, "accesses": accs, "cand": cand, "reflective": bool(refl) and not exact,
                          "fn": _short_fn(lib[0]) if lib else "?", "inner": inner, "libfns": libfns})
        a, b = sides
        field, via = "?", None
        if a["cand"] & b["cand"]:
            field = sorted(a["cand"] & b["cand"])[0]
        else:
            # the two frames do not name a common field.  (1) One side touches a buffer that its function then publishes through a
            # callee (the bytes a formatter encoded and handed to Event.FormattedAs, read by a reflective copy of the event):
            # attributed to the published field.  (2) Otherwise the memory lies outside the tracked fields: named after the
            # innermost non-runtime function that touches it (e.g. extern:time.initLocal).
            for known, other in ((a, b), (b, a)):
                if other["cand"] or not known["cand"]:
                    continue
                if other["inner"].startswith(("bytes.(*Buffer)", "encoding/json.")):
                    hitf = None
                    for lf in other["libfns"]:        # the function that filled the buffer, or one of its callers, publishes it
                        for callee in calls.get(lf, []):
                            hit = written_by.get(callee, set()) & known["cand"]
                            if hit:
                                hitf = (sorted(hit)[0], callee)
                                break
                        if hitf:
                            break
                    if hitf:
                        field, via = hitf[0], other["fn"]
                        other["fn"] = hitf[1]
                        break
                field = "extern:" + other["inner"]
                break
            else:
                cands = [x["cand"] for x in (a, b) if x["cand"] and not x["reflective"]]
                if len(cands) == 1 and len(cands[0]) == 1:
                    field = sorted(cands[0])[0]
                elif a["cand"] and b["cand"]:
                    field = sorted(a["cand"] | b["cand"])[0]

        def fn_of(s):
            for x in s["accesses"]:
                if x["field"] == field:
                    return x["fn"]
            return s["fn"]
        if a["write"] and not b["write"]:
            reader, writer = fn_of(b), fn_of(a)
        elif b["write"] and not a["write"]:
            reader, writer = fn_of(a), fn_of(b)
        else:
            reader, writer = sorted((fn_of(a), fn_of(b)))
        reports.append({"field": field, "reader": reader, "writer": writer, "token": "race:%s|%s|%s" % (field, reader, writer),
                        "library_frames": all(x["frame"] for x in sides), "in_access_table": all(x["cand"] for x in sides),
                        "published_via": via, "reflective_side": any(x["reflective"] for x in sides), "scenario": scenario,
                        "frames": [list(x["frame"]) if x["frame"] else None for x in sides], "text": ("WARNING: DATA RACE" + blk)[:7000]})
    return reports


def run_race_scenarios(ctx, binp, scenarios, outdir, extra_args=(), jobs=6, timeout=240):
    """run each scenario in its own process (own race log). Returns list of (scenario, summary or None, race log text, rc, output)"""
    from concurrent.futures import ThreadPoolExecutor
    os.makedirs(outdir, exist_ok=True)

    def one(i_sc):
        i, sc = i_sc
        d = os.path.join(outdir, "s%03d" % i)
        os.makedirs(d, exist_ok=True)
        f = os.path.join(d, "scenario.json")
        json.dump({"case": sc}, open(f, "w"))
        env = dict(os.environ, VERIF_SEED=str(ctx.seed), GORACE="log_path=%s halt_on_error=0" % os.path.join(d, "race"))
        try:
            rc, out = _run([binp, "-replay", f, "-out", d] + list(extra_args), env=env, timeout=timeout)
        except Exception as e:  # timeout
            rc, out = 124, "timeout: %s" % e
        log = ""
        for fn in sorted(os.listdir(d)):
            if fn.startswith("race."):
                log += open(os.path.join(d, fn), errors="replace").read()
        summ = None
        for fn in os.listdir(d):
            if fn.endswith("_summary.json"):
                summ = json.load(open(os.path.join(d, fn)))
        return sc, summ, log, rc, out
    with ThreadPoolExecutor(max_workers=jobs) as ex:
        return list(ex.map(one, enumerate(scenarios)))


def _fatal_map_pairs(out, reports):
    """a process killed by the runtime's 'fatal error: concurrent map ...': the access pairs (race tokens of the same process) one of
    whose two functions is on the stack of the goroutine the runtime caught.  [] if the crash is something else / cannot be attributed."""
    m = re.search(r"fatal error: concurrent map [^\n]*\n+(goroutine \d+[^\n]*\n(?:[^\n]+\n)+)", out)
    if not m:
        return []
    stack = m.group(1).replace("(*", "").replace(")", "")
    fns = set(re.findall(r"(?:[\w.\-]+/)*([\w]+\.[\w.]+)\(", stack))      # e.g. encrypt.Filter.Process, eventlogger.Event.FormattedAs
    hit = set()
    for r in reports:
        parts = r["token"].split("|")
        if len(parts) >= 3 and any(f and f in fns for f in parts[1:3]):
            hit.add(r["token"])
    return sorted(hit)


def report_races(ctx, prop, reports, mine, static_broken):
    """dynamic race reports that no static complaint stands for.  One violation per field (split where a known finding covers only
    some of the access pairs); when the static obligation is broken as well they are folded into ONE additional violation, since they
    are then most likely further symptoms of the same defect."""
    engine = "stressh" if prop == "C19" else "conch"
    known, _ = V.load_known()
    ktoks = [k["match"] for k in known if k.get("property") == prop and k.get("match")]
    groups = {}
    ignored = 0
    for r in reports:
        if not r["library_frames"] or not mine(r["field"]):
            ignored += 1
            continue
        is_known = any(kt in r["token"] for kt in ktoks)
        key = ("known", r["field"]) if is_known else (("folded",) if static_broken else ("field", r["field"]))
        groups.setdefault(key, {}).setdefault(r["token"], []).append(r)
    for key, toks in sorted(groups.items(), key=lambda kv: str(kv[0])):
        first = toks[sorted(toks)[0]][0]
        pairs = sorted(toks)
        rec = {"kind": "correspondence", "engine": engine, "theorem_or_correspondence": "race detector vs the generated access table",
               "access_pairs": pairs, "access_pair": pairs[0], "reports": sum(len(v) for v in toks.values()), "case": first["scenario"], "race_report": first["text"],
               "library_frames": first["frames"], "repro": "bin/check replay <this file>"}
        if key[0] == "folded":
            rec["note"] = "reported in addition to the broken static obligation of this run: further race reports, most likely symptoms of the same defect"
            what = "data races (race detector), %d further access pairs while the lock-discipline obligation is broken: %s" % (len(pairs), "; ".join(p[5:] for p in pairs[:4]))
            match = "races-with-broken-discipline " + " ".join(pairs)
        else:
            if not all(r["in_access_table"] for v in toks.values() for r in v):
                rec["note"] = ("this access pair is NOT predicted by the static obligation on this tree: the memory is outside the tracked fields "
                               "(extern:<function that touched it>) or the translator's access extraction / Contracts.v is incomplete")
            what = "data race (race detector) on %s: %s" % (key[1], "; ".join("%s vs %s" % tuple(p.split("|")[1:3]) for p in pairs[:4]))
            match = " ".join(pairs)
        rp = V.write_replay(ctx, "race-" + re.sub(r"[^A-Za-z0-9]+", "_", "_".join(key))[:90], rec)
        ctx.violations.append({"match": match, "replay": rp, "what": what})
    return groups, ignored


# ---------------------------------------------------------------- C12
ASSUME_COMMON = [
    "translator (translate/, go/packages + go/types): recognition of mutex calls, field selectors (instance-insensitive), assignment targets, "
    "go/defer statements, literals, interface calls -> callback kinds, reflective readers/mutators is trusted; its access table is cross-checked by the race detector",
    "Go runtime semantics of sync.Mutex / sync.RWMutex (writer excludes everybody, readers exclude writers); Go memory model (DRF-SC)",
    "coq/Contracts.v is the specification of the discipline (guards, requires, callback kinds, constructors, waivers); the acquires table is inferred and validated by the checker",
]


def _lockh(ctx, part):
    binp, out = V.go_build(ctx, "./cmd/lockh")
    if not binp:
        rp = V.write_replay(ctx, "harness-build", {"kind": "correspondence", "output": out[-4000:]})
        ctx.violations.append({"match": "harness-build", "replay": rp, "what": "lockh no longer builds against the tree", "no_input": True})
        return None
    d = os.path.join(ctx.work, "lockh-out")
    os.makedirs(d, exist_ok=True)
    args = [binp, "-out", d, "-watchdog", "2s" if ctx.tier == "quick" else "5s", "-repeat", "1" if ctx.tier == "quick" else "40",
            "-parallel", "8"]
    corpus = os.path.join(V.VERIF, "corpus", "C12", "lockh.jsonl")
    if os.path.exists(corpus):
        args += ["-corpus", corpus]
    rc, out = _run(args, env=dict(os.environ, VERIF_SEED=str(ctx.seed)), timeout=240 if ctx.tier == "quick" else 1500)
    ctx.log(out.strip()[-300:])
    if _timed_out(ctx, ctx.prop, "lockh", rc, out):
        return None
    if rc != 0:
        rp = V.write_replay(ctx, "harness-run", {"kind": "correspondence", "output": out[-4000:]})
        ctx.violations.append({"match": "harness-crash", "replay": rp, "what": "lockh crashed", "no_input": True})
        return None
    summ = json.load(open(os.path.join(d, "summary.json")))
    results = [json.loads(l) for l in open(os.path.join(d, "scenarios.jsonl"))]
    part.update(summ)
    part["rule"] = ("every Broker operation x node re-entering Send from Process/Close/Reopen x gated.Filter with 0..3 pending groups wired to the same "
                    "Broker x target of the re-entrant Send (other pipeline / same pipeline / no pipeline) x with/without a writer parked on Broker.lock; "
                    "each call under a watchdog. distinct_nontrivial = distinct scenarios in which a callback really re-entered the Broker.")
    return summ, results


def _sc_sig(sc):
    return "%s/%s/groups=%d/target=%s/parked=%s%s" % (sc["kind"], sc["op"], sc["groups"], sc["target"], sc["parked"], ("/types=%d/pipes=%d" % (sc["types"], sc.get("pipes", 0))) if sc.get("types") else "")


def check_C12(ctx):
    V.check_properties_file(ctx, "Properties_C12.v")
    st = static_part(ctx, "C12")
    part = {}
    ctx.coverage["parts"]["reentrancy-watchdog"] = part
    dyn = _lockh(ctx, part)
    # the gated filter wired to the same Broker whose pipeline contains it, flushing plain / Gateable / Gateable-flush composites
    # on expiry, FlushAll and RemovePipelineAndNodes, each call under a watchdog (driver gatedh -reentry)
    try:
        import eng_gated
        eng_gated.gateable_composite_reentry_part(ctx)
    except Exception as e:  # the gated engine is optional for this check
        part["gated_reentry_part_error"] = repr(e)
    try:
        import eng_broker
        eng_broker.hang_part(ctx)
    except Exception as e:
        part["broker_hang_part_error"] = repr(e)
    timeouts, outside, wrong = [], [], []
    if dyn:
        summ, results = dyn
        for r in results:
            if r.get("panic"):
                rp = V.write_replay(ctx, "panic-%d" % r["scenario"]["id"], {"kind": "correspondence", "engine": "lockh", "case": r["scenario"], "observed_value": r})
                ctx.violations.append({"match": "panic:" + _sc_sig(r["scenario"]), "replay": rp, "what": "panic in scenario " + _sc_sig(r["scenario"])})
            if r.get("wrong_result"):
                wrong.append(r)
            if r["timed_out"]:
                (timeouts if r["scenario"]["in_statement"] else outside).append(r)
        part["timeouts_outside_statement(observed only)"] = [_sc_sig(r["scenario"]) for r in outside][:5]
        ctx.coverage["evaluations"] += summ["scenarios"]
        ctx.coverage["distinct_nontrivial"] += summ["distinct_nontrivial"]
        ctx.coverage["rule"] = part["rule"]
        ctx.coverage["samples"] += [r["scenario"] for r in results[:2]]
    if wrong:
        wrong.sort(key=lambda r: (r["scenario"]["groups"], r["scenario"].get("types", 0), r["scenario"].get("pipes", 0)))
        r = wrong[0]
        rp = V.write_replay(ctx, "lockh-wrong-result", {"kind": "correspondence", "engine": "lockh", "case": r["scenario"], "observed_value": r["wrong_result"],
                                                         "steps": r["steps"], "scenarios_affected": len(wrong), "repro": "bin/check replay <this file>"})
        ctx.violations.append({"match": "lockh:wrong-result", "replay": rp, "what": "a Broker call returned the wrong error-ness with failing nodes: " + r["wrong_result"]})
    # the minimal failing scenario: fewest groups, not parked, fewest steps
    timeouts.sort(key=lambda r: (r["scenario"]["groups"], r["scenario"]["parked"], len(r["steps"]), r["scenario"]["id"]))

    def evidence(group):
        if group["class"] in ("callback-under-lock", "protocol") and timeouts:
            r = timeouts[0]
            return {"engine": "lockh", "case": r["scenario"], "failed_call": r["failed_op"], "steps": r["steps"],
                    "goroutine_dump": r["goroutine_dump"], "scenarios_timing_out": len(timeouts)}
        return None
    if st["dir"]:
        report_static(ctx, "C12", st, evidence)
    explained = any(g["class"] in ("callback-under-lock", "protocol") for g in st["groups"])
    if timeouts and not explained:
        # the watchdog found a call that does not return although the obligation holds: report per failing call
        seen = set()
        for r in timeouts:
            sig = "deadlock:%s:%s" % (r["scenario"]["kind"], r["failed_op"].split("(")[0])
            if sig in seen:
                continue
            seen.add(sig)
            rp = V.write_replay(ctx, "lockh-" + sig, {"kind": "correspondence", "engine": "lockh", "theorem_or_correspondence": "watchdog: every Broker call returns",
                                                      "case": r["scenario"], "failed_call": r["failed_op"], "steps": r["steps"], "goroutine_dump": r["goroutine_dump"],
                                                      "note": "the static obligation holds on this tree: the blocking path is outside what the lock language models",
                                                      "repro": "bin/check replay <this file>"})
            ctx.violations.append({"match": sig, "replay": rp, "what": "%s does not return in scenario %s" % (r["failed_op"], _sc_sig(r["scenario"]))})
    ctx.assumptions += ASSUME_COMMON + [
        "C12 hypothesis: a node's Process / Close / Reopen and the gated filter's Sender may call Broker.Send (callback kinds Node.Process, Closer.Close, Node.Reopen, Sender.Send take Broker.lock)",
        "termination of the sequential code between lock operations and of the dispatch protocol (C03) is not part of these theorems; data-dependent re-entry (the gated filter's own mutex) is covered by the watchdog only",
        "a function is charged with the locks of the goroutines it starts (the starter may wait for them)"]


# ---------------------------------------------------------------- C19
def _stress(ctx, part, info):
    binp, out = V.go_build(ctx, "./cmd/stressh", race=True)
    if not binp:
        rp = V.write_replay(ctx, "harness-build", {"kind": "correspondence", "output": out[-4000:]})
        ctx.violations.append({"match": "harness-build", "replay": rp, "what": "stressh no longer builds (-race) against the tree", "no_input": True})
        return None
    nrandom, events = ("6", "120") if ctx.tier == "quick" else ("240", "400")
    rc, out = _run([binp, "-list", "-random", nrandom, "-events", events], env=dict(os.environ, VERIF_SEED=str(ctx.seed)))
    scenarios = [json.loads(l) for l in out.splitlines() if l.startswith("{")]
    corpus = os.path.join(V.VERIF, "corpus", "C19", "stressh.jsonl")
    if os.path.exists(corpus):
        have = set(sc["name"] for sc in scenarios)
        pre = [json.loads(l) for l in open(corpus) if l.startswith("{")]
        scenarios = [dict(sc, name="corpus-" + sc["name"]) for sc in pre] + scenarios
    runs = run_race_scenarios(ctx, binp, scenarios, os.path.join(ctx.work, "stress-out"), jobs=6 if ctx.tier == "quick" else 8)
    reports, pairs, sent, docs, integrity, panics, crashed = [], set(), 0, 0, [], [], []
    hangs = []
    for sc, summ, log, rc, o in runs:
        reports += parse_race_reports(log, info, scenario=sc) if info else []
        if summ is not None and summ.get("hung"):
            hangs.append({"scenario": sc, "goroutine_dump": summ["hung"].get("goroutine_dump")})
            continue
        if _timed_out(ctx, "C19", "stressh", rc, o, sc):
            continue
        if summ is None or rc not in (0, 66):
            crashed.append((sc, rc, o if len(o) <= 7000 else o[:3500] + "\n...\n" + o[-3500:], _fatal_map_pairs(o, parse_race_reports(log, info, scenario=sc) if info else [])))
            continue
        pairs |= set(summ["neighbour_pairs_covered"] or [])
        sent += summ["events_sent"]
        docs += summ["documents_in_sinks"]
        integrity += [(sc, x) for x in (summ["integrity_failures"] or [])]
        panics += [(sc, x) for x in (summ["panics"] or [])]
    part.update({"scenarios": len(scenarios), "events_sent": sent, "documents_in_sinks": docs, "neighbour_pairs_covered": sorted(pairs),
                 "neighbour_pairs_possible": 33, "race_reports": len(reports), "integrity_failures": len(integrity), "panics": len(panics),
                 "scenario_names": [sc["name"] for sc in scenarios], "seed": ctx.seed,
                 "rule": "pipelines composed from the stock node catalogue (shared node instances, several pipelines per type), 2..8 senders through Broker.Send, "
                         "concurrent Broker.Reopen / FileSink.Reopen / rotation by size / encrypt.Filter.Rotate (API and in-band) / cloudevents Rotate / gated FlushAll, "
                         "built with -race, one process per scenario; output oracles: every sink's output is a sequence of whole JSON documents, no interleaved Write on a sink's writer, "
                         "a sink fed only through an encrypt.Filter never shows a protected canary (and the plain pipeline's sink does), two FileSinks on one file hold every acknowledged event exactly once; distinct_nontrivial = distinct scenarios (composition x controls) in which events reached a sink"})
    _report_hangs(ctx, "C19", "stressh", hangs, "a composition of stock nodes under concurrent Sends and control calls did not finish within the watchdog")
    for sc, rc, o, map_pairs in crashed:
        rec = {"kind": "correspondence", "engine": "stressh", "case": sc, "exit_code": rc, "output": o}
        if map_pairs:
            # the Go runtime's own map check ("fatal error: concurrent map ...") fired in a function of an access pair the race detector
            # reported in the same process: the crash is that data race, seen by the runtime instead of (in addition to) the detector
            rec.update({"theorem_or_correspondence": "race detector vs the generated access table", "access_pairs": map_pairs,
                        "note": "fatal error of the Go runtime (unsynchronised map access) in a function of these access pairs, which the race detector reported in the same run"})
            rp = V.write_replay(ctx, "stress-fatal-map-" + sc["name"], rec)
            ctx.violations.append({"match": "fatal:concurrent-map " + " ".join(map_pairs), "replay": rp,
                                   "what": "the Go runtime aborted scenario %s (concurrent map access): %s" % (sc["name"], "; ".join("%s vs %s" % tuple(p.split("|")[1:3]) for p in map_pairs[:3]))})
            continue
        rp = V.write_replay(ctx, "stress-crash-" + sc["name"], rec)
        ctx.violations.append({"match": "crash:" + sc["name"], "replay": rp, "what": "stress scenario %s crashed (exit %s)" % (sc["name"], rc)})
    seen_classes = set()
    ctx._integrity = integrity
    for sc, x in integrity:
        cls = ("concurrent-writes-on-a-sink's-writer" if "concurrent Write" in x else
               "protected-plaintext-in-a-sink-behind-encrypt" if "protected field" in x or "redaction marker" in x else
               "plain-sink-does-not-show-its-pipeline's-view" if "does not show the plaintext" in x else
               "pipeline-outcome-depends-on-the-other-pipelines-of-the-shared-event" if "this pipeline's sink" in x or "did not report sink" in x or "rejects every event holds" in x else
               "rebound-file-sinks-not-all-reopened" if "rebind-reopen:" in x else
               "file-sink-keeps-writing-to-the-rotated-away-file" if "logrotate-create:" in x else
               "cloudevents-unsigned-after-signer-installed" if "late signer:" in x else
               "sink-shows-another-pipeline's-formatting-of-the-shared-event" if "formatting of the shared event:" in x else
               "file-sink-loses-or-duplicates-acknowledged-events" if "acknowledged events" in x else
               "sink-output-not-a-sequence-of-JSON-documents")
        if cls in seen_classes:
            continue
        seen_classes.add(cls)
        rp = V.write_replay(ctx, "integrity-" + cls, {"kind": "correspondence", "engine": "stressh", "case": sc, "observed_value": x,
                                                       "scenarios_affected": sorted(set(s2["name"] for s2, y in integrity)), "repro": "bin/check replay <this file>"})
        ctx.violations.append({"match": "integrity:" + cls, "replay": rp, "what": "corrupted sink output: " + x})
    for sc, x in panics[:5]:
        rp = V.write_replay(ctx, "panic-" + sc["name"], {"kind": "correspondence", "engine": "stressh", "case": sc, "observed_value": x})
        ctx.violations.append({"match": "panic:" + x[:60], "replay": rp, "what": "panic under concurrent use: " + x})
    ctx.coverage["evaluations"] += len(scenarios)
    ctx.coverage["distinct_nontrivial"] += len(set(json.dumps(sc, sort_keys=True) for sc, summ, _, _, _ in runs if summ and summ["documents_in_sinks"] > 0))
    ctx.coverage["rule"] = part["rule"]
    ctx.coverage["samples"] += scenarios[:1] + scenarios[-1:]
    return reports


def _race_evidence(reports, engine, info=None):
    calls = (info or {}).get("calls", {})

    def evidence(group):
        fns = set()
        if group["class"] != "access":
            # a protocol complaint (e.g. a helper called without the lock it requires): any race inside that helper or what it calls
            for f, k, subj in group["members"]:
                fns |= {subj} | set(calls.get(subj, []))
        for r in reports:
            if not r["library_frames"]:
                continue
            if r["token"] in group["tokens"] or (fns and (r["reader"] in fns or r["writer"] in fns)):
                return {"engine": engine, "case": r["scenario"], "access_pair": r["token"], "race_report": r["text"], "library_frames": r["frames"]}
        return None
    return evidence


def check_C19(ctx):
    V.check_properties_file(ctx, "Properties_C19.v")
    st = static_part(ctx, "C19")
    part = {}
    ctx.coverage["parts"]["stock-node-stress(-race)"] = part
    reports = _stress(ctx, part, st["info"]) or []
    if st["dir"]:
        race_ev = _race_evidence(reports, "stressh", st["info"])

        def evidence(group):
            ev = race_ev(group)
            if ev is None and group.get("field", "").endswith("*") and getattr(ctx, "_integrity", None):
                sc, x = ctx._integrity[0]       # the stream pseudo field: interleaved writes observed by the harness writer
                ev = {"engine": "stressh", "case": sc, "observed_value": x}
            return ev
        report_static(ctx, "C19", st, evidence)
    explained = set(t for g in st["groups"] for t in g["tokens"])
    broken = any(not g.get("is_known") for g in st["groups"])
    by_tok, ignored = report_races(ctx, "C19", [r for r in reports if r["token"] not in explained], lambda f: not is_broker_field(f), broken)
    part["race_pairs_seen"] = sorted(set(r["token"] for r in reports))
    part["race_reports_on_fields_of_other_properties_ignored"] = ignored
    # "no corrupted output" under concurrent encrypt.Filter.Rotate: every HMAC value produced while another goroutine rotates
    # must be attributable to one key generation (the C16 concurrent-rotation search, run here too)
    try:
        import eng_encrypt
        eng_encrypt.concurrent_rotation_part(ctx)
    except Exception as e:  # the encrypt engine is optional for this check
        part["concurrent_rotation_part_error"] = repr(e)
    ctx.assumptions += ASSUME_COMMON + [
        "objects reachable only through a guarded field (container/list, maps, *os.File) are accessed only via that field",
        "a function literal passed as an argument is run by the callee synchronously with the caller's lock set (sync.Map.Range, sort.Slice)",
        "payload contents are user data: reads of the shared payload graph are not tracked, writes only after copystructure.Copy (pseudo lock COPY)",
        "'no corrupted output' beyond JSON well-formedness of every sink's output rests on C08 / C13 / C16",
        "waiver: Contracts.known_waivers (encrypt.Filter.Process reading Event.Formatted through copystructure.Copy) mirrors known finding KF-C19-copy-vs-formattedas"]


# ---------------------------------------------------------------- C04
CKIND_TEXT = {
    "KLost": "a Send that started after a pipeline's registration returned and ended before any other call on that pipeline id was requested did not deliver to it",
    "KGhost": "a Send delivered to a pipeline that was certainly not registered (removed / replaced before the Send started, registered after it ended, or never registered)",
    "KTwice": "one Send delivered twice to one pipeline", "KTwoVersions": "one Send delivered to two versions of one pipeline id",
    "KWrongType": "a Send delivered to a pipeline of another event type",
    "KNeither": "a Send got through to no version of a pipeline that was registered before the Send started and only overwritten (never removed) until it ended",
    "KNotLinearizable": "no sequential order of the concurrent calls that respects real time explains their results and the registry observed after they finished",
}
_CV = re.compile(r"CV =\s*\((\d+),\s*(\d+),\s*(\d+)\)")


def _eval_conc(ctx, files):
    """like V.eval_shards, additionally sums the certainty vectors"""
    from concurrent.futures import ThreadPoolExecutor

    def one(f):
        rc, out = V.coqc(os.path.basename(f), os.path.dirname(f))
        return f, rc, out
    mism, failures, cv = [], [], [0, 0, 0]
    with ThreadPoolExecutor(max_workers=V.JOBS) as ex:
        for f, rc, out in ex.map(one, files):
            if rc != 0 or "M =" not in out:
                failures.append((f, out[-3000:]))
                continue
            body = out.split("M =", 1)[1].split("\n     :", 1)[0]
            flat = re.sub(r"\s+", "", body)
            if flat != "[]":
                items = V._M_ITEM.findall(flat)
                if not items:
                    failures.append((f, "unparsed mismatch output: " + body[:2000]))
                mism.extend(items)
            m = _CV.search(out)
            if m:
                for i in range(3):
                    cv[i] += int(m.group(i + 1))
    return mism, failures, cv


def _conch_cases(ctx, part):
    binp, out = V.go_build(ctx, "./cmd/conch")
    if not binp:
        rp = V.write_replay(ctx, "harness-build", {"kind": "correspondence", "output": out[-4000:]})
        ctx.violations.append({"match": "harness-build", "replay": rp, "what": "conch no longer builds against the tree", "no_input": True})
        return
    d = os.path.join(ctx.work, "conch-out")
    os.makedirs(d, exist_ok=True)
    args = [binp, "-out", d, "-cases", "300" if ctx.tier == "quick" else "12000", "-ops", "12" if ctx.tier == "quick" else "14",
            "-sends", "8" if ctx.tier == "quick" else "12", "-fresh", "1500" if ctx.tier == "quick" else "20000", "-rebind", "150" if ctx.tier == "quick" else "3000",
            "-onepipe", "1500" if ctx.tier == "quick" else "20000"]
    corpus = os.path.join(V.VERIF, "corpus", "C04", "conch.jsonl")
    if os.path.exists(corpus):
        args += ["-corpus", corpus]
    rc, out = _run(args, env=dict(os.environ, VERIF_SEED=str(ctx.seed)), timeout=240 if ctx.tier == "quick" else 1500)
    ctx.log(out.strip()[-300:])
    if _timed_out(ctx, "C04", "conch", rc, out):
        return
    if rc != 0:
        rp = V.write_replay(ctx, "harness-run", {"kind": "correspondence", "output": out[-4000:]})
        ctx.violations.append({"match": "harness-crash", "replay": rp, "what": "conch crashed", "no_input": True})
        return
    summ = json.load(open(os.path.join(d, "cases_summary.json")))
    hp = os.path.join(d, "hangs.json")
    if os.path.exists(hp):
        _report_hangs(ctx, "C04", "conch", json.load(open(hp)) or [],
                      "a concurrent history of Broker calls did not finish within the watchdog: some call never returned, so the callers never quiesce")
    part["hung_histories"] = summ.get("hangs", 0)
    cases = {}
    for line in open(os.path.join(d, "cases.jsonl")):
        c = json.loads(line)
        cases[c["id"]] = c
    for p in summ.get("panics") or []:
        cid = int(p.split()[1].rstrip(":"))
        rp = V.write_replay(ctx, "panic-%d" % cid, {"kind": "correspondence", "engine": "conch", "what": p, "case": cases.get(cid)})
        ctx.violations.append({"match": "panic:" + p.split("panic:", 1)[-1][:60], "replay": rp, "what": "Broker panicked under concurrent use: " + p})
    rm = summ.get("reopen_misses") or []
    if rm:
        cid = int(rm[0].split()[1].rstrip(":"))
        rp = V.write_replay(ctx, "conch-reopen-skips-a-linked-node", {"kind": "correspondence", "engine": "conch", "theorem_or_correspondence": "Broker.v Reopen (every object of every registered pipeline is reopened) probed once after quiescence",
                                                                   "observed_value": rm[0], "cases_affected": len(rm), "case": cases.get(cid)})
        ctx.violations.append({"match": "conch:reopen-skips-a-linked-node", "replay": rp, "what": "C04: " + rm[0][:400]})
    mism, failures, cv = _eval_conc(ctx, summ["files"])
    lits = {}
    for f in summ["files"]:     # keep the literal of failing cases for the replay
        if mism:
            txt = open(f).read()
            for cid, _, _, _ in mism:
                m = re.search(r"(Build_ccase %s%%N\n.*?)(?=;\nBuild_ccase |\n\]\.)" % cid, txt, re.S)
                if m:
                    lits[int(cid)] = m.group(1)
    V.prune_shards(summ["files"], keep=[f for f, _ in failures])
    for f, o in failures:
        rp = V.write_replay(ctx, "coqc-" + os.path.basename(f), {"kind": "correspondence", "theorem_or_correspondence": "Run_Conc.mismatches on " + f, "output": o})
        ctx.violations.append({"match": "coqc-failure", "replay": rp, "what": "case file %s could not be evaluated" % f, "no_input": True})
    budget = 0
    by_kind = {}
    for cid, step, opk, kind in mism:
        if kind == "KLinBudget":
            budget += 1
            continue
        c = cases[int(cid)]
        n = sum(len(t) for t in c["threads"])
        if kind not in by_kind or n < by_kind[kind][0]:
            by_kind[kind] = (n, int(cid), int(step))
    ctx._conch_failing = [{"engine": "conch", "signature": kind, "meaning": CKIND_TEXT.get(kind, kind), "case": cases[cid], "observed_case_literal": lits.get(cid)}
                          for kind, (n, cid, step) in sorted(by_kind.items())]
    for kind, (n, cid, step) in sorted(by_kind.items()):
        rp = V.write_replay(ctx, "conch-" + kind, {
            "kind": "correspondence", "engine": "conch", "theorem_or_correspondence": "Run_Conc.mismatches (delivery bounds of ConcProofs.send_delivery_bounds / linearizability against Broker.step)",
            "signature": kind, "meaning": CKIND_TEXT.get(kind, kind), "send_index": step, "case": cases[cid], "observed_case_literal": lits.get(cid),
            "cases_with_this_kind": len(set(m[0] for m in mism if m[3] == kind)), "repro": "bin/check replay <this file>"})
        ctx.violations.append({"match": "conc:" + kind, "replay": rp, "what": "C04: %s (case %d, %d cases affected)" % (CKIND_TEXT.get(kind, kind), cid, len(set(m[0] for m in mism if m[3] == kind)))})
    ctx.coverage["evaluations"] += summ["cases"]
    ctx.coverage["distinct_nontrivial"] += summ["distinct_nontrivial"]
    ctx.coverage["traces_validated_against_impl"] = ctx.coverage.get("traces_validated_against_impl", 0) + summ["cases"]
    part.update({k: summ[k] for k in summ if k not in ("files", "panics", "reopen_misses")})
    part["send_x_pipeline_version_pairs"] = {"certainly_exactly_once": cv[0], "certainly_never": cv[1], "overlapping(0 or 1 accepted)": cv[2]}
    part["linearizability_searches_out_of_budget(inconclusive)"] = budget
    part["rule"] = ("2..8 goroutines run random registry histories (RegisterNode/RemoveNode/RegisterPipeline/RemovePipeline/RemovePipelineAndNodes/threshold setters) over "
                    "4 node ids x 3 pipeline ids x 2 event types after a sequential set-up, concurrently with 1..3 senders; calls bracketed by an atomic tick counter; "
                    "Coq evaluates per (Send, pipeline version) the delivery bounds and searches a linearization with Broker.step. distinct_nontrivial = distinct "
                    "histories in which at least two calls overlapped in real time and at least one delivery happened.")
    ctx.coverage["rule"] = part["rule"]
    ids = sorted(cases)
    ctx.coverage["samples"] += [cases[i] for i in ids[:1]]


def _conch_race(ctx, part, info):
    binp, out = V.go_build(ctx, "./cmd/conch", race=True)
    if not binp:
        rp = V.write_replay(ctx, "harness-build", {"kind": "correspondence", "output": out[-4000:]})
        ctx.violations.append({"match": "harness-build", "replay": rp, "what": "conch no longer builds (-race) against the tree", "no_input": True})
        return []
    from concurrent.futures import ThreadPoolExecutor
    nproc, ncases = (4, "40") if ctx.tier == "quick" else (8, "2000")
    base = os.path.join(ctx.work, "conch-race-out")

    def one(i):
        d = os.path.join(base, "r%d" % i)
        os.makedirs(d, exist_ok=True)
        sc = {"mode": "race", "seed": ctx.seed * 100 + i, "cases": int(ncases)}
        env = dict(os.environ, VERIF_SEED=str(sc["seed"]), GORACE="log_path=%s halt_on_error=0" % os.path.join(d, "race"))
        rc, o = _run([binp, "-mode", "race", "-cases", ncases, "-out", d], env=env, timeout=240 if ctx.tier == "quick" else 1500)
        log = "".join(open(os.path.join(d, f), errors="replace").read() for f in sorted(os.listdir(d)) if f.startswith("race."))
        hp = os.path.join(d, "hangs.json")
        return sc, rc, o, log, (json.load(open(hp)) or []) if os.path.exists(hp) else []
    reports, hist, crashed, hangs = [], 0, [], []
    with ThreadPoolExecutor(max_workers=nproc) as ex:
        for sc, rc, o, log, hg in ex.map(one, range(nproc)):
            hangs += hg
            if _timed_out(ctx, "C04", "conch-race", rc, o, sc):
                continue
            if rc not in (0, 66):
                crashed.append((sc, rc, o[-3000:]))
                continue
            hist += sc["cases"]
            if "PANIC" in o:
                rp = V.write_replay(ctx, "race-panic-%d" % sc["seed"], {"kind": "correspondence", "engine": "conch", "case": sc, "output": o[-3000:]})
                ctx.violations.append({"match": "panic:concurrent", "replay": rp, "what": "Broker panicked under concurrent use (-race run)"})
            reports += parse_race_reports(log, info, scenario=sc) if info else []
    if not any(v["match"] == "conch:hang" for v in ctx.violations):
        _report_hangs(ctx, "C04", "conch", hangs,
                      "a concurrent history of Broker calls (with getters / Reopen / setters alongside) did not finish within the watchdog: some call never returned")
    part["hung_histories"] = len(hangs)
    for sc, rc, o in crashed:
        rp = V.write_replay(ctx, "race-crash-%d" % sc["seed"], {"kind": "correspondence", "engine": "conch", "case": sc, "exit_code": rc, "output": o})
        ctx.violations.append({"match": "crash:conch-race", "replay": rp, "what": "conch -race run crashed (exit %s): %s" % (rc, o.strip().splitlines()[-1][:120] if o.strip() else "")})
    part.update({"processes": nproc, "histories": hist, "race_reports": len(reports), "race_pairs_seen": sorted(set(r["token"] for r in reports)),
                 "rule": "the same random concurrent histories (longer), plus goroutines calling SuccessThreshold(Sinks), IsAnyPipelineRegistered, Reopen and the threshold setters, under the race detector"})
    ctx.coverage["evaluations"] += hist
    return reports


def check_C04(ctx):
    V.check_properties_file(ctx, "Properties_C04.v")
    st = static_part(ctx, "C04")
    if st["dir"]:
        overwrite_atomic_obligation(ctx)      # Conc.v models every registry call as ONE Store / Delete on graph.roots
    part = {}
    ctx.coverage["parts"]["concurrent-histories(delivery+linearizability)"] = part
    _conch_cases(ctx, part)
    rpart = {}
    ctx.coverage["parts"]["concurrent-histories(-race)"] = rpart
    reports = _conch_race(ctx, rpart, st["info"])
    if st["dir"]:
        race_ev = _race_evidence(reports, "conch", st["info"])

        def evidence(group):
            ev = race_ev(group)
            if ev is None and any(k == "KCheckThenAct" or subj.endswith("roots!") for _, k, subj in group["members"]) and getattr(ctx, "_conch_failing", None):
                ev = ctx._conch_failing[0]      # an atomicity defect shows as a delivery / linearizability mismatch, not as a race
            if ev is None and group["class"] in ("callback-under-lock", "protocol") and getattr(ctx, "_hang", None):
                ev = ctx._hang                  # a lock-protocol defect shows as a history that never finishes
            return ev
        report_static(ctx, "C04", st, evidence)
    explained = set(t for g in st["groups"] for t in g["tokens"])
    broken = any(not g.get("is_known") for g in st["groups"])
    by_tok, ignored = report_races(ctx, "C04", [r for r in reports if r["token"] not in explained], is_broker_field, broken)
    rpart["race_reports_on_fields_of_other_properties_ignored"] = ignored
    ctx.assumptions += ASSUME_COMMON + [
        "sync.Map contract: Store / Delete / Load linearizable per key; Range visits no key twice and for each key reflects its mapping at some instant during the call",
        "delivery theorem hypothesis: each call's single Store / Delete takes effect strictly inside its observed [invocation, return] interval (ticks of one atomic counter)",
        "harness nodes pass every event on and never fail; Close never fails; Sends are not cancelled",
        "linearizability is searched (depth-first over the linear extensions of the real-time order, budget 200000 nodes per history); out-of-budget searches are counted as inconclusive, not as violations"]


# ---------------------------------------------------------------- manifest
_NOTE = ("Trusted: Coq 8.16.1 kernel + vm_compute; no axioms (Print Assumptions: closed under the global context); the translator translate/ (source -> "
         "command language; cross-checked by the race detector), coq/Contracts.v (the discipline table = specification), the Go runtime's mutex semantics and memory "
         "model, the dynamic drivers (search only).")
_TECH = "Coq soundness proof of a modular lockset checker + obligation re-evaluated by vm_compute on the program regenerated from source; dynamic search (-race / watchdog)"
PROPS = {"C04": check_C04, "C12": check_C12, "C19": check_C19}
MANIFEST = {
    "C12": {"text": "LockSound.v: check_sound (checker sound w.r.t. the big-step trace semantics, for every program/contract/extra caller locks), "
                    "program_callback_never_under (callback kinds Node.Process, Closer.Close, Node.Reopen, Sender.Send may take Broker.lock) / program_no_self_deadlock / program_call_releases_all for all threads incl. started goroutines; LockDeadlock.v: no_deadlock / "
                    "program_never_stuck (any number of threads, writer-preferring RW locks, callbacks that may call Send modelled as needing Broker.lock read-acquirable: some thread "
                    "can always step; uses the lock order checked by the same checker); per run Obl_C12.v re-proves no_broker_lock_at_user_callback_obligation, send_lock_scope and "
                    "generated_never_stuck on the regenerated program. Partial: excludes the lock-induced ways of blocking for ever; sequential termination, the dispatch protocol (C03) "
                    "and data-dependent re-entry (gated filter: C11) are not in the lock language. Search: lockh watchdog over every operation x "
                    "re-entrant node x gated filter with 0..3 groups x parked writer.",
            "design_ref": "5.C12", "note": _NOTE, "technique": _TECH, "engine": "coq-locks"},
}
MANIFEST["C19"] = {
    "text": "LockSound.v: program_safe (every access of every thread holds its guard; immutable fields written by constructors only) and program_no_data_race "
            "(any two threads, any interleaving permitted by the lock rules: never a write and a conflicting access to one guarded field enabled together) for every "
            "program/contract; per run Obl_C19.v re-proves stock_nodes_race_free_partial over the regenerated program of all six packages (Event.Formatted -> Event.l, "
            "FileSink.{f,BytesWritten,LastCreated} -> FileSink.l, gated.Filter state -> its l, encrypt.Filter.{Wrapper,HmacSalt,HmacInfo} -> its l, cloudevents Signer -> its l, "
            "configuration fields immutable). Partial: accesses excused by the waiver of KF-C19-copy-vs-formattedas; Go memory model and translator completeness assumed "
            "(cross-checked by -race). Search: stressh -race over compositions of stock nodes with shared instances, 2..8 senders and concurrent control calls; reports classified by "
            "(field, reader fn, writer fn).",
    "design_ref": "5.C19", "note": _NOTE, "technique": _TECH, "engine": "coq-locks"}
MANIFEST["C04"] = {
    "text": "(a) LockSound.v: check_sound + program_no_data_race for every program/contract; per run Obl_C04.v re-proves broker_race_free over the regenerated program "
            "(Broker.nodes/graphs and nodeUsage fields -> Broker.lock; thresholds -> Broker.lock + graph.thresholdLock with readers holding either) and instantiates the "
            "no-data-race theorem on it. (b) ConcProofs.v: send_delivery_bounds for every timed history consistent with the observed call intervals (exactly once / never / "
            "at most once), at_most_one_version, never_stored_never_delivered, quiescent_sequential. Tie: conch runs 2..8 goroutines of random registry histories with concurrent "
            "senders on the real Broker; Run_Conc.mismatches (vm_compute) checks every (Send, pipeline version) count against must1/must0 and searches a linearization of the "
            "calls with Broker.step that explains all results and the final VerifSnapshot. Search: the same histories plus getters/Reopen/setters under -race, reports classified "
            "by (field, reader fn, writer fn). Partial: Go memory model, sync.Map contract, translator completeness are assumed.",
    "design_ref": "5.C04", "note": _NOTE, "technique": _TECH + "; differential correspondence on concurrent histories", "engine": "coq-locks"}
ENGINE = {"name": "coq-locks", "path": "coq/LockLang.v coq/LockSound.v coq/LockDeadlock.v coq/Contracts.v coq/LockExamples.v coq/Conc.v coq/ConcProofs.v coq/ConcExamples.v coq/Run_Conc.v coq/obligations translate/ harness/cmd/lockh harness/cmd/stressh harness/cmd/conch lib/eng_locks.py",
          "serves_properties": ["C04", "C12", "C19"], "kind_free_text": "translator (Go source -> Coq command language) + proved lockset checker re-run by vm_compute; watchdog / race-detector search drivers"}


# ---------------------------------------------------------------- replay
def handles_replay(rec):
    return rec.get("engine") in ("locks", "lockh", "conch", "stressh")


def replay(ctx, rec, path):
    eng = rec.get("engine")
    fi = rec.get("failing_input") or {}
    if eng == "locks":
        # re-evaluate the obligation on the current tree, then re-run the recorded failing input if there is one
        prop = rec.get("property", ctx.prop)
        st = static_part(ctx, prop)
        print("obligation Obl_%s.v holds: %s" % (prop, st["ok"]))
        for c in st["complaints"]:
            print("  complaint:", c)
        rc = 0 if st["ok"] else 1
        if fi.get("engine"):
            rc = max(rc, _replay_dynamic(ctx, fi["engine"], fi, path))
        return rc
    return _replay_dynamic(ctx, eng, rec, path)


def _replay_dynamic(ctx, eng, rec, path):
    if eng == "lockh":
        binp, out = V.go_build(ctx, "./cmd/lockh")
        if not binp:
            print(out)
            return 1
        one = os.path.join(ctx.work, "replay_case.json")
        json.dump({"case": rec["case"]}, open(one, "w"))
        rc, out = _run([binp, "-replay", one, "-watchdog", "3s"])
        print(out[-6000:])
        return 1 if rc != 0 else 0
    info = None
    d = getattr(ctx, "_locks_dir", None)
    if d is None:
        d, info = _run_translator(ctx, {})
    if d and info is None:
        info = json.load(open(os.path.join(d, "translate.json")))
    case = rec.get("case") or {}
    if eng == "stressh" or (eng == "conch" and case.get("mode") == "race"):
        pkg = "./cmd/stressh" if eng == "stressh" else "./cmd/conch"
        binp, out = V.go_build(ctx, pkg, race=True)
        if not binp:
            print(out)
            return 1
        rd = os.path.join(ctx.work, "replay-race")
        os.makedirs(rd, exist_ok=True)
        if eng == "stressh":
            runs = run_race_scenarios(ctx, binp, [case], rd, jobs=1)
            sc, summ, log, rc, o = runs[0]
            print(o[-1500:])
        else:
            env = dict(os.environ, VERIF_SEED=str(case.get("seed", ctx.seed)), GORACE="log_path=%s halt_on_error=0" % os.path.join(rd, "race"))
            rc, o = _run([binp, "-mode", "race", "-cases", str(case.get("cases", 40)), "-out", rd], env=env, timeout=600)
            print(o[-1500:])
            log = "".join(open(os.path.join(rd, f), errors="replace").read() for f in sorted(os.listdir(rd)) if f.startswith("race."))
        reports = parse_race_reports(log, info, scenario=case) if info else []
        toks = sorted(set(r["token"] for r in reports if r["library_frames"]))
        print("race detector reports attributed to library frames on the current tree:", toks or "none")
        want = rec.get("access_pair")
        if want:
            print("recorded access pair %s reproduced: %s" % (want, want in toks))
            for r in reports:
                if r["token"] == want:
                    print(r["text"][:3000])
                    break
            return 1 if want in toks else 0
        return 1 if toks else 0
    if eng == "conch":
        rc_total = 0
        lit = rec.get("observed_case_literal")
        cd = os.path.join(ctx.work, "replay-conch")
        os.makedirs(cd, exist_ok=True)
        if lit:
            # the verdict of the model on the recorded observation (deterministic)
            f = os.path.join(cd, "recorded.v")
            open(f, "w").write("From Coq Require Import List NArith ZArith.\nFrom Verif Require Import Alist Broker Run_Broker Conc Run_Conc.\nImport ListNotations.\n"
                               "Definition cases : list ccase := [\n%s\n].\nDefinition M := Eval vm_compute in mismatches cases.\nPrint M.\n" % lit)
            rc, out = V.coqc("recorded.v", cd)
            print("model verdict on the recorded observation:", re.sub(r"\s+", " ", out.split("M =", 1)[-1])[:600])
            if "M = []" not in re.sub(r"\s+", " ", out).replace("M = [ ]", "M = []"):
                rc_total = 1
        binp, out = V.go_build(ctx, "./cmd/conch")
        if not binp:
            print(out)
            return 1
        one = os.path.join(cd, "case.json")
        json.dump({"case": case}, open(one, "w"))
        rd = os.path.join(cd, "rerun")
        os.makedirs(rd, exist_ok=True)
        rc, out = _run([binp, "-replay", one, "-repeat", "300", "-out", rd], timeout=600)
        summ = json.load(open(os.path.join(rd, "cases_summary.json")))
        mism, failures, cv = _eval_conc(ctx, summ["files"])
        bad = sorted(set(m[3] for m in mism if m[3] != "KLinBudget"))
        print("re-running the history 300 times on the current tree: %d runs violate (%s)" % (len(set(m[0] for m in mism if m[3] != "KLinBudget")), ", ".join(bad) or "none"))
        return 1 if (bad or rc_total) else 0
    print("no dynamic replay for engine", eng)
    return 0
