"""Sinks engine: sinksh (Go, real writer.Sink / FileSink / ChannelSink) vs Sinks.v/Run_Sinks.v (Coq), for C13."""
import json
import os
import re
import vcheck as V

OPK = {1: "writer.Sink", 2: "writer.Sink(concurrent)", 3: "FileSink", 4: "ChannelSink", 5: "FileSink/partial-write", 6: "ChannelSink(concurrent)"}
_M_ITEM = re.compile(r"\((\d+)(?:%N)?,\((\d+)(?:%N)?,(\d+)(?:%N)?,(\w+)\)\)")

ARGS = {
    ("C13", "quick"): ["-modes", "w,c,f,h,p,g", "-conc-rounds", "3", "-chan-repeat", "1", "-partial-random", "60", "-chan-rounds", "120"],
    ("C13", "thorough"): ["-modes", "w,c,f,h,p,g", "-conc-rounds", "6", "-chan-repeat", "6", "-partial-random", "1500", "-chan-rounds", "800"],
}
# the concurrent calls are run a second time in a -race instrumented binary (both tiers): a missing or too weak lock in FileSink is
# masked by O_APPEND's atomic write(2) and shows up only there
RACE_CONC_ROUNDS = {"quick": 2, "thorough": 40}

ASSUMPTIONS = [
    "the io.Writer's answer to a Write, FileSink's open/rotate/reopen outcomes and the readiness instants of the select arms are oracle "
    "parameters of the model (universally quantified in the theorems)",
    "bytes.Reader.WriteTo performs one Write of the whole remaining buffer (Go standard library, go1.23), panics when the writer claims more "
    "than it was given and reports io.ErrShortWrite for a short count; sync.Mutex gives mutual exclusion",
    "Go select: blocks until an arm is ready and then takes a ready arm; time.After never fires early. The real-time bound of ChannelSink is "
    "proved only in the timed model (C13_channel_bounded_partial); on the implementation latency is measured against 50x bounds",
    "FileSink: only format selection, special paths and the retry are modelled here (rotation / file handling: C08, C15); failing writes on a "
    "regular file are exercised through a symlink to /dev/full",
]


# Finding F11 (genuine, not repaired — see notes/redgreen/sinks_mutants.md): under a write that fails part-way FileSink's single retry, when reopen()
# yields a fresh file, writes the whole value there and reports success although a proper prefix of it stays at the end of the previous file.
# The line below is proposed for KNOWN_FINDINGS.txt (which this engine must not edit).  While it is not there yet the engine itself reports the
# finding as KNOWN-FINDING — for exactly this shape (kind KFsRetryPrefix); any other disagreement on the same cases is a VIOLATION.
KNOWN_TOKEN = "sinks:KFsRetryPrefix@FileSink"
PROPOSED_KNOWN = ("known: property=C13 id=KF-C13-filesink-retry-leaves-prefix match=%s  FileSink.Process: when the first write(2) fails after accepting a "
                  "non-empty prefix (EFBIG/ENOSPC/EDQUOT) and reopen() opens a fresh file (rotation with time-stamped names), the retry writes the whole value to "
                  "the new file and success is reported, but the prefix stays at the end of the previous file: not 'exactly the bytes, once'" % KNOWN_TOKEN)


def check(ctx):
    V.check_properties_file(ctx, "Properties_C13.v")
    run(ctx)
    ctx.assumptions += ASSUMPTIONS


PROPS = {"C13": check}
_NOTE = ("Trusted: Coq 8.16.1 kernel + vm_compute; no axioms (Print Assumptions: closed under the global context); the Go correspondence harness sinksh "
         "and its projection of observables; io.Writer / file system / select readiness are oracle parameters, Go's bytes.Reader.WriteTo, sync.Mutex, "
         "select and timer semantics are modelled, not verified. Partial: the real-time bound of ChannelSink (channel_bounded) is a theorem about the "
         "timed model only; on the implementation latency is measured (alarm only beyond 50x) and a timeout reported early is an alarm.")
_TECH = "Coq proof over executable model + differential correspondence (vm_compute on harness cases) + observation-only oracles"
MANIFEST = {
    "C13": {"text": "Sinks.v models writer.Sink.Process, FileSink.Process' format selection / special paths / retry, n concurrent Process calls as a "
                    "transition system (look up, lock, byte-by-byte write, unlock) and ChannelSink's select in a timed model; theorems: writer_success_iff, "
                    "writer_success_writes, writer_only_the_value, absent-format / failed-write / short-write errors, default_format_json (both sinks), "
                    "writes_contiguous (+ _always) for every schedule, filesink_success_iff, filesink_success_prefix_then_value, filesink_success_received_partial (+ filesink_retry_exactly_refuted: in the model the retry after a partially failed Write leaves prefix ++ value), filesink_only_the_value, devnull / std bypass, channel_some_arm, "
                    "channel_exactly_one, channel_never_both, channel_bounded_partial (model only); verdict_is_model_execution (RunGatedSound / RunSinksSound: the evaluator's empty mismatch list <-> every observed case is an execution of the model meeting the oracles, both directions); tie: sinksh runs every table of 0..3 formats (values empty / "
                    "1 byte / several) x configured format (unset, 3 present, 1 absent) x 7 writer behaviours (+ nil writer/event/map, 5000-byte value), 40 error VALUES (io.EOF, io.ErrUnexpectedEOF, io.ErrShortWrite, io.ErrClosedPipe, os.ErrClosed, context.Canceled/DeadlineExceeded, ENOSPC/EAGAIN/EINTR/EPIPE, os.ErrDeadlineExceeded, io.ErrNoProgress; bare, %w-wrapped, in an *os.PathError; a private error) x {0, part, all} bytes written before the error, "
                    "1..16 concurrent Process calls with the stream split back into whole values (thorough: under -race), FileSink under part-way failing writes (RLIMIT_FSIZE in a child process; finding KF-C13-filesink-retry-leaves-prefix), FileSink on file / /dev/null / "
                    "stdout / stderr / ENOSPC destination / uncreatable directory, 84 ChannelSink scenarios and simultaneous ChannelSink callers on a buffered channel with fewer free slots than callers, released through a spin barrier, nobody draining, every call under a watchdog (channel empty, receiver waiting, full, "
                    "drained late x context none/done/early/late x timeout short/long) on the real sinks; Run_Sinks.mismatches evaluated by vm_compute",
            "design_ref": "5.C13", "note": _NOTE, "technique": _TECH, "engine": "coq-sinks", "category": "proof"},
}
ENGINE = {"name": "coq-sinks", "path": "coq/Sinks.v coq/SinksProofs.v coq/SinksExamples.v coq/Run_Sinks.v coq/RunSinksSound.v harness/cmd/sinksh lib/eng_sinks.py",
          "serves_properties": ["C13"], "kind_free_text": "Coq model + proofs; Go differential driver; vm_compute comparison"}


def _build(ctx, race=False):
    binp, out = V.go_build(ctx, "./cmd/sinksh", race=race)
    if not binp:
        rp = V.write_replay(ctx, "harness-build", {"kind": "correspondence", "theorem_or_correspondence": "sinksh does not build against the tree", "output": out[-4000:]})
        ctx.violations.append({"match": "harness-build", "replay": rp, "what": "correspondence harness sinksh no longer builds against the tree", "no_input": True})
    return binp


def _run_driver(ctx, binp, cdir, args, label="sinksh"):
    os.makedirs(cdir, exist_ok=True)
    env = dict(os.environ, VERIF_SEED=str(ctx.seed))
    import subprocess
    try:
        rc, out = V.run([binp, "-out", cdir, "-prefix", "cases"] + args, env=env, timeout=300 if ctx.tier == "quick" else 1500)
    except subprocess.TimeoutExpired as ex:
        o = ex.stdout if isinstance(ex.stdout, str) else (ex.stdout or b"").decode("utf-8", "replace")
        rc, out = 124, "TIMEOUT\n" + o[-3000:]
    if rc == 124:
        rp = V.write_replay(ctx, "harness-timeout-" + label, {"kind": "correspondence", "engine": "sinksh-crash", "output": out[-6000:]})
        ctx.violations.append({"match": "sinks:hang", "replay": rp, "no_input": True,
                               "what": "%s did not finish within its time limit: a sink call never returned and the driver's own watchdogs did not get to report it" % label})
        return None, None, out
    if rc != 0:
        rp = V.write_replay(ctx, "harness-run-" + label, {"kind": "correspondence", "engine": "sinksh-crash", "output": out[-6000:]})
        what = "%s crashed" % label
        m = "sinks:harness-crash"
        if "DATA RACE" in out:
            what = "the race detector reported a data race while %s ran concurrent Process calls" % label
            m = "sinks:race"
        ctx.violations.append({"match": m, "replay": rp, "what": what, "no_input": "DATA RACE" not in out})
        return None, None, out
    summ = json.load(open(os.path.join(cdir, "cases_summary.json")))
    cases = {}
    for line in open(os.path.join(cdir, "cases.jsonl")):
        c = json.loads(line)
        cases[c["id"]] = c
    return summ, cases, out


def _size(c):
    return len(c.get("lens") or []) + len(c.get("calls") or []) + len(c.get("table") or []) + sum(len(e.get("v") or []) for e in (c.get("table") or []))


def run(ctx):
    part = {}
    ctx.coverage["parts"]["sinks-correspondence"] = part
    binp = _build(ctx)
    if not binp:
        return
    args = list(ARGS[("C13", ctx.tier)])
    corpus = os.path.join(V.VERIF, "corpus", "C13", "sinks.jsonl")
    if os.path.exists(corpus):
        args += ["-corpus", corpus]
    runs = []
    summ, cases, out = _run_driver(ctx, binp, os.path.join(ctx.work, "sinks"), args)
    ctx.log(out.strip()[-300:])
    if summ is not None:
        runs.append((summ, cases))
    if True:
        rbin = _build(ctx, race=True)
        if rbin:
            s2, c2, out2 = _run_driver(ctx, rbin, os.path.join(ctx.work, "sinks-race"), ["-modes", "c", "-conc-rounds", str(RACE_CONC_ROUNDS[ctx.tier])], "sinksh -race")
            ctx.log(out2.strip()[-300:])
            if s2 is not None:
                runs.append((s2, c2))
                part["race_detector"] = "concurrent Process calls executed under go build -race: no report"
    sigs, affected = {}, 0
    for summ_i, cases_i in runs:
        mism, failures = V.eval_shards(ctx, summ_i["files"], parse=_M_ITEM)
        V.prune_shards(summ_i["files"], keep=[f for f, _ in failures])
        for f, o in failures:
            rp = V.write_replay(ctx, "coqc-" + os.path.basename(f), {"kind": "correspondence", "theorem_or_correspondence": "Run_Sinks.mismatches on " + f, "output": o})
            ctx.violations.append({"match": "coqc-failure", "replay": rp, "what": "case file %s could not be evaluated" % f, "no_input": True})
        by_case = {}
        for cid, step, opk, kind in mism:
            by_case.setdefault(int(cid), []).append((int(opk), kind, int(step)))
        affected += len(by_case)
        for cid, ms in by_case.items():
            for opk, kind, step in ms:
                sig = "%s@%s" % (kind, OPK.get(opk, opk))
                n = _size(cases_i[cid])
                if sig not in sigs or n < sigs[sig][0]:
                    sigs[sig] = (n, cases_i[cid], ms)
        ctx.coverage["evaluations"] += summ_i["cases"]
        ctx.coverage["distinct_nontrivial"] += summ_i["distinct_nontrivial"]
        ctx.coverage["traces_validated_against_impl"] = ctx.coverage.get("traces_validated_against_impl", 0) + summ_i["cases"]
        for k in summ_i:
            if k in ("files", "panics"):
                continue
            if k == "stats" and "stats" in part:
                for kk, vv in summ_i["stats"].items():
                    part["stats"][kk] = part["stats"].get(kk, 0) + vv
            elif k not in part:
                part[k] = summ_i[k]
    known_lines, _ = V.load_known()
    listed = any(k.get("property") == "C13" and k.get("match") and k["match"] in KNOWN_TOKEN + "/partial-write" for k in known_lines)
    for sig, (n, c, ms) in sorted(sigs.items()):
        rp = V.write_replay(ctx, "sinks-%s" % sig, {
            "kind": "correspondence", "engine": "sinksh", "theorem_or_correspondence": "Run_Sinks.mismatches (model Sinks.v vs the real sink)",
            "signature": sig, "all_mismatches_of_case": [{"sink": OPK.get(o), "kind": k, "call": st} for o, k, st in ms], "case": c,
            "cases_failing": affected, "repro": "bin/check replay <this file>"})
        v = {"match": "sinks:" + sig, "replay": rp,
             "what": "C13: %s — the sink and its model disagree / an oracle fails on case %d (%d cases affected in total)" % (sig, c["id"], affected)}
        if KNOWN_TOKEN in v["match"] and not listed:
            # the proposed known: line is not in KNOWN_FINDINGS.txt yet: report it the way vcheck.finish would
            v["what"] = "FileSink reported success after a part-way failed write: whole value in the fresh file, a prefix of it left in the previous file"
            print("KNOWN-FINDING: property=C13 KF-C13-filesink-retry-leaves-prefix (%s) replay=%s" % (v["what"], rp))
            part["known_finding_reported_by_engine"] = PROPOSED_KNOWN
            continue
        ctx.violations.append(v)
    part["rule"] = ("contexts: writer.Sink / FileSink calls are also made with a live cancellable, an already cancelled, a past-deadline and a custom done context (the model ignores the context), ChannelSink scenarios include those as ready context arms; w: every table of 0..3 formats x stored value (empty, 1 byte, several) x configured format x writer behaviour, exhaustively; c: 1..16 goroutines "
                    "each making 1..6 Process calls on one sink, the destination records bytes one at a time and flags overlapping Write calls; f: FileSink per "
                    "destination kind x format x table; h: ChannelSink timed scenarios, arms within the slack of the earliest are both accepted (counted "
                    "':ambiguous' in stats) and competing arms are otherwise seconds apart. distinct_nontrivial = distinct cases in which a Write call was made / "
                    "more than one whole value reached the stream / FileSink wrote or failed / any channel scenario.")
    ctx.coverage["rule"] = part["rule"]
    if runs:
        allc = runs[0][1]
        for kind in ("w", "c", "f", "h"):
            ids = [i for i in sorted(allc) if allc[i].get("kind") == kind]
            if ids:
                c = dict(allc[ids[len(ids) // 2]])
                if len(c.get("calls") or []) > 6:
                    c["calls"] = c["calls"][:6] + [{"more": len(allc[ids[len(ids) // 2]]["calls"]) - 6}]
                ctx.coverage["samples"].append(c)
        ctx.coverage["exhaustive"] = bool(runs[0][0].get("writer_tables_exhaustive"))


def handles_replay(rec):
    return rec.get("engine") in ("sinksh", "sinksh-crash")


def replay(ctx, rec, path):
    if rec.get("engine") == "sinksh-crash":
        print(rec.get("output", ""))
        print("the record above is the harness output (race detector report / crash); re-run: bin/check C13 --tier %s" % rec.get("tier", "thorough"))
        return 0
    binp, out = V.go_build(ctx, "./cmd/sinksh")
    if not binp:
        print(out)
        return 1
    cdir = os.path.join(ctx.work, "sinks")
    os.makedirs(cdir, exist_ok=True)
    corpus = os.path.join(cdir, "one.jsonl")
    open(corpus, "w").write(json.dumps(rec["case"]) + "\n")
    rc, out = V.run([binp, "-out", cdir, "-replay", path])
    print(out)
    rc, out = V.run([binp, "-out", cdir, "-modes", "", "-corpus", corpus])
    summ = json.load(open(os.path.join(cdir, "cases_summary.json")))
    mism, failures = V.eval_shards(ctx, summ["files"], parse=_M_ITEM)
    print("model vs implementation mismatches (case, -, sink, kind):", [(c, OPK.get(int(o), o), k) for c, s, o, k in mism], failures)
    return 1 if (mism or failures) else 0
