"""Which parts make up the check of each property."""
import vcheck as V


def broker_prop(ctx):
    import eng_broker
    V.check_properties_file(ctx, "Properties_%s.v" % ctx.prop)
    eng_broker.run(ctx)


PROPS = {
    "C05": broker_prop,
    "C06": broker_prop,
    "C07": broker_prop,
    "C20": broker_prop,
}

ASSUMPTIONS = {
    "broker": ["node Process/Close/Reopen outcomes are oracle parameters of the model (universally quantified in the theorems)",
               "sync.Map Store/Delete/Load/Range contract; Go mutex semantics",
               "the harness observes internal reference counts only as the boolean 'in use' through the verif-tagged snapshot hook"],
}
