"""Which parts make up the check of each property: every lib/eng_*.py module contributes
PROPS = {"Cxx": function(ctx)} and MANIFEST = {"Cxx": {...manifest fields...}}."""
import glob
import importlib
import os

PROPS = {}
MANIFEST = {}
ENGINES = []
for _f in sorted(glob.glob(os.path.join(os.path.dirname(os.path.abspath(__file__)), "eng_*.py"))):
    _m = importlib.import_module(os.path.basename(_f)[:-3])
    PROPS.update(getattr(_m, "PROPS", {}))
    MANIFEST.update(getattr(_m, "MANIFEST", {}))
    if hasattr(_m, "ENGINE"):
        ENGINES.append(_m.ENGINE)
