"""bin/check replay <file>: re-run exactly the case recorded in a replay file on the current tree (both sides where the
engine supports it). Engines provide replay(ctx, record) in their eng_*.py module; the record's "engine" names the driver."""
import json
import os
import sys
import vcheck as V
import props


def main(args):
    if not args:
        print("usage: bin/check replay <file>")
        return 2
    rec = json.load(open(args[0]))
    prop = rec.get("property", "C00")
    os.environ.setdefault("VERIF_WORK", os.path.join(V.VERIF, "work", "replay"))
    # a replay run must not clear the replay directory it is reading from, nor overwrite the evidence
    os.environ.setdefault("VERIF_REPLAYS", os.path.join(V.VERIF, "work", "replay", "replays"))
    ctx = V.Ctx(prop, rec.get("tier", "quick"))
    ok, out = V.coq_build(ctx)
    if not ok:
        print(out[-2000:])
        return 1
    import glob, importlib
    for f in sorted(glob.glob(os.path.join(V.VERIF, "lib", "eng_*.py"))):
        m = importlib.import_module(os.path.basename(f)[:-3])
        if hasattr(m, "replay") and m.handles_replay(rec):
            return m.replay(ctx, rec, args[0])
    print(json.dumps(rec, indent=1)[:4000])
    print("no engine re-runs this kind of replay record; the record above names the theorem / correspondence that broke")
    return 0
