"""vcheck — shared machinery of /verif/bin/check.

A check of property Cxx consists of *parts* (see props.py):
  * obligation parts  — Coq files compiled during the check (the Properties_Cxx.v theorem file, and for the
                        structural properties a proof over a file regenerated from the source tree);
  * correspondence parts — a Go driver built against the tree under test prints cases_*.v, coqc evaluates the
                        model on the same inputs inside the kernel (vm_compute) and prints the mismatches.
This module builds things, runs them, parses results, writes replays and the evidence file, and prints the
VIOLATION / KNOWN-FINDING lines.
"""
import fcntl
import json
import os
import re
import shutil
import subprocess
import sys
import time
from concurrent.futures import ThreadPoolExecutor

VERIF = os.path.dirname(os.path.dirname(os.path.abspath(__file__)))
REPO = os.environ.get("VERIF_REPO", "/repo")
COQ = os.path.join(VERIF, "coq")
HARNESS = os.path.join(VERIF, "harness")
GOENV = dict(os.environ, GOFLAGS="-mod=mod", GOPROXY="off", GOSUMDB="off", GOTOOLCHAIN="local", CGO_ENABLED=os.environ.get("CGO_ENABLED", "0"))
JOBS = int(os.environ.get("VERIF_JOBS", "16"))


def seed():
    try:
        return int(os.environ.get("VERIF_SEED", "1"))
    except ValueError:
        return 1


class Ctx:
    def __init__(self, prop, tier):
        self.prop = prop
        self.tier = tier
        self.seed = seed()
        base = os.environ.get("VERIF_WORK", os.path.join(VERIF, "work"))
        self.work = os.path.join(base, prop)
        shutil.rmtree(self.work, ignore_errors=True)
        os.makedirs(self.work, exist_ok=True)
        self.replays = os.path.join(os.environ.get("VERIF_REPLAYS", os.path.join(VERIF, "replays")), prop)
        shutil.rmtree(self.replays, ignore_errors=True)
        os.makedirs(self.replays, exist_ok=True)
        self.t0 = time.time()
        self.violations = []      # dicts: {match, replay, what, no_input}
        self.obligations = []     # (name, ok)
        self.trusted = set()
        self.coverage = {"evaluations": 0, "distinct_nontrivial": 0, "samples": [], "parts": {}}
        self.assumptions = []
        self.log_lines = []

    def log(self, *a):
        s = " ".join(str(x) for x in a)
        self.log_lines.append(s)
        print(s, flush=True)


def run(cmd, cwd=None, env=None, timeout=1800, input=None):
    """run a command; a command that does not finish within the timeout is killed and reported with exit code 124 (a hung
    driver — typically a deadlock in the code under test — must become a violation, never an exception of the check)"""
    try:
        p = subprocess.run(cmd, cwd=cwd, env=env, stdout=subprocess.PIPE, stderr=subprocess.STDOUT, timeout=timeout, text=True, input=input)
        return p.returncode, p.stdout
    except subprocess.TimeoutExpired as e:
        out = e.stdout or ""
        if isinstance(out, bytes):
            out = out.decode("utf-8", "replace")
        return 124, out + "\nTIMEOUT: %s did not finish within %ds and was killed" % (os.path.basename(str(cmd[0])), timeout)


# ---------------------------------------------------------------- Coq
def coq_build(ctx):
    """make the hand-written development (no-op when current). Returns (ok, output)."""
    lock = open(os.path.join(COQ, ".build.lock"), "w")
    fcntl.flock(lock, fcntl.LOCK_EX)
    try:
        files = sorted(f for f in os.listdir(COQ) if f.endswith(".v"))
        proj = "-R . Verif\n" + "\n".join(files) + "\n"
        pp = os.path.join(COQ, "_CoqProject")
        if not os.path.exists(pp) or open(pp).read() != proj or not os.path.exists(os.path.join(COQ, "Makefile")):
            open(pp, "w").write(proj)
            rc, out = run(["coq_makefile", "-f", "_CoqProject", "-o", "Makefile"], cwd=COQ)
            if rc != 0:
                return False, out
        rc, out = run(["make", "-j%d" % JOBS], cwd=COQ, timeout=3000)
        return rc == 0, out
    finally:
        fcntl.flock(lock, fcntl.LOCK_UN)
        lock.close()


def coqc(path, cwd, extra=(), timeout=1500):
    """compile one file against the development; returns (rc, output)."""
    cmd = ["coqc", "-R", COQ, "Verif"] + list(extra) + [path]
    return run(cmd, cwd=cwd, timeout=timeout)


_ASSUME_CLOSED = "Closed under the global context"


def check_properties_file(ctx, fname):
    """Re-compile Properties_Cxx.v in the work dir, record every theorem as an obligation and the axioms
    Print Assumptions reports."""
    src = os.path.join(COQ, fname)
    dst = os.path.join(ctx.work, fname)
    shutil.copy(src, dst)
    text = open(src).read()
    thms = re.findall(r"^(?:Theorem|Corollary)\s+(\w+)", text, re.M)
    rc, out = coqc(fname, ctx.work)
    ok = rc == 0
    for t in thms:
        ctx.obligations.append((fname + ":" + t, ok))
    n_print = len(re.findall(r"^Print Assumptions", text, re.M))
    n_closed = out.count(_ASSUME_CLOSED)
    axioms = []
    if "Axioms:" in out:
        for blk in out.split("Axioms:")[1:]:
            for line in blk.splitlines():
                m = re.match(r"^(\S+)\s*:", line)
                if m:
                    axioms.append(m.group(1))
    if axioms:
        ctx.trusted.add("axioms reported by Print Assumptions: " + ", ".join(sorted(set(axioms))))
    else:
        ctx.trusted.add("Print Assumptions: %d/%d property theorems 'Closed under the global context' (no axioms)" % (n_closed, n_print))
    if not ok:
        rp = write_replay(ctx, "obligation-" + fname, {"kind": "obligation", "theorem_or_correspondence": fname, "output": out[-4000:]})
        ctx.violations.append({"match": "obligation:" + fname, "replay": rp, "what": "proof file %s no longer checks" % fname, "no_input": True})
    return ok, out


def coqchk_properties(ctx):
    """thorough tier: re-check the compiled property file and everything it depends on with the independent checker and
    record the axioms it reports"""
    mod = "Verif.Properties_%s" % ctx.prop
    if not os.path.exists(os.path.join(COQ, "Properties_%s.vo" % ctx.prop)):
        return
    rc, out = run(["coqchk", "-silent", "-o", "-R", COQ, "Verif", mod], cwd=COQ, timeout=3000)
    axioms = ""
    if "* Axioms:" in out:
        axioms = " ".join(out.split("* Axioms:")[1].split("* Constants")[0].split())
    ctx.coverage["coqchk"] = {"ok": rc == 0, "axioms": axioms}
    ctx.trusted.add("coqchk -o over %s: %s; axioms: %s" % (mod, "accepted" if rc == 0 else "FAILED", axioms or "?"))
    if rc != 0:
        rp = write_replay(ctx, "coqchk", {"kind": "obligation", "theorem_or_correspondence": "coqchk " + mod, "output": out[-4000:]})
        ctx.violations.append({"match": "coqchk", "replay": rp, "what": "coqchk rejects %s" % mod, "no_input": True})


# ---------------------------------------------------------------- Go harness
def harness_modfile(ctx):
    """a go.mod for the harness module that points at the tree under test; used with -modfile so /verif is not written"""
    mod = os.path.join(ctx.work, "harness.mod")
    src = open(os.path.join(HARNESS, "go.mod")).read()
    src = src.replace("=> /repo/filters/encrypt", "=> %s/filters/encrypt" % REPO).replace("=> /repo\n", "=> %s\n" % REPO)
    open(mod, "w").write(src)
    sums = set()
    for p in (os.path.join(REPO, "go.sum"), os.path.join(REPO, "filters/encrypt/go.sum"), os.path.join(HARNESS, "go.sum")):
        if os.path.exists(p):
            sums.update(l for l in open(p).read().splitlines() if l.strip())
    open(os.path.join(ctx.work, "harness.sum"), "w").write("\n".join(sorted(sums)) + "\n")
    return mod


def go_build(ctx, pkg, race=False, tags="verif"):
    mod = harness_modfile(ctx)
    out_bin = os.path.join(ctx.work, os.path.basename(pkg) + ("-race" if race else ""))
    cmd = ["go", "build", "-modfile=" + mod, "-tags", tags, "-o", out_bin]
    env = dict(GOENV)
    if race:
        cmd.insert(2, "-race")
        env["CGO_ENABLED"] = "1"
    cmd.append(pkg)
    rc, out = run(cmd, cwd=HARNESS, env=env, timeout=1200)
    if rc != 0:
        return None, out
    return out_bin, out


# ---------------------------------------------------------------- cases evaluation
_M_ITEM = re.compile(r"\((\d+)(?:%N)?,\((\d+)(?:%N)?,(\d+)(?:%N)?,(\w+)\)\)")


def eval_shards(ctx, files, parse=None):
    """coqc every shard in parallel; returns (list of parsed mismatches, failures[(file, output)])"""
    def one(f):
        rc, out = coqc(os.path.basename(f), os.path.dirname(f))
        return f, rc, out
    mism, failures = [], []
    with ThreadPoolExecutor(max_workers=JOBS) as ex:
        for f, rc, out in ex.map(one, files):
            if rc != 0 or "M =" not in out:
                failures.append((f, out[-3000:]))
                continue
            body = out.split("M =", 1)[1]
            body = body.split("\n     :", 1)[0]
            flat = re.sub(r"\s+", "", body)
            if flat == "[]":
                continue
            items = (parse or _M_ITEM).findall(flat)
            if not items:
                failures.append((f, "unparsed mismatch output: " + body[:2000]))
            mism.extend(items)
    return mism, failures


def prune_shards(files, keep=()):
    """case shards are large; once evaluated only the ones that failed to evaluate are kept"""
    for f in files:
        if f in keep:
            continue
        base = f[:-2]
        for ext in (".v", ".vo", ".vok", ".vos", ".glob"):
            try:
                os.remove(base + ext)
            except OSError:
                pass
        try:
            os.remove(os.path.join(os.path.dirname(f), "." + os.path.basename(base) + ".aux"))
        except OSError:
            pass


# ---------------------------------------------------------------- findings, replays, evidence
def load_known():
    known, fixed = [], []
    p = os.path.join(VERIF, "KNOWN_FINDINGS.txt")
    if os.path.exists(p):
        for line in open(p):
            line = line.strip()
            if line.startswith("known:"):
                d = dict(kv.split("=", 1) for kv in line[6:].split() if "=" in kv and kv.split("=")[0] in ("property", "id", "match"))
                d["text"] = line
                known.append(d)
            elif line.startswith("fixed:"):
                fixed.append(line)
    return known, fixed


def write_replay(ctx, name, obj):
    obj = dict(obj)
    obj.setdefault("property", ctx.prop)
    obj.setdefault("tier", ctx.tier)
    obj.setdefault("seed", ctx.seed)
    obj.setdefault("repo", REPO)
    path = os.path.join(ctx.replays, "%s-%d.json" % (re.sub(r"[^A-Za-z0-9_.-]", "_", name), ctx.seed))
    json.dump(obj, open(path, "w"), indent=1, default=str)
    return path


def finish(ctx, level_text_assumptions=()):
    known, _ = load_known()
    known = [k for k in known if k.get("property") == ctx.prop]
    real = []
    known_hit = {}
    for v in ctx.violations:
        hit = None
        for k in known:
            if k.get("match") and k["match"] in v.get("match", ""):
                hit = k
                break
        if hit:
            known_hit.setdefault(hit["id"], (hit, v))
        else:
            real.append(v)
    for kid, (k, v) in known_hit.items():
        print("KNOWN-FINDING: property=%s %s (%s) replay=%s" % (ctx.prop, kid, v["what"], v["replay"]))
    # group identical matches so one defect is one line
    seen = set()
    for v in real:
        key = v.get("match", "") + "|" + str(v.get("no_input"))
        if key in seen:
            continue
        seen.add(key)
        tail = " no-failing-input-found" if v.get("no_input") else ""
        print("# %s" % v["what"])
        print("VIOLATION property=%s replay=%s%s" % (ctx.prop, v["replay"], tail))
    n_obl = len(ctx.obligations)
    n_ok = sum(1 for _, ok in ctx.obligations if ok)
    cov = dict(ctx.coverage)
    cov["obligations"] = n_obl
    cov["discharged"] = n_ok
    cov["obligation_names"] = [n for n, _ in ctx.obligations]
    cov["checker_cmd"] = "coqc -R coq Verif (Coq 8.16.1 kernel; cases evaluated by vm_compute); bin/check %s --tier %s" % (ctx.prop, ctx.tier)
    cov["trusted_base"] = sorted(ctx.trusted) + [
        "Coq 8.16.1 kernel and vm_compute (no native_compute)",
        "the correspondence harness (Go driver, projection of observables, Gallina literal printing) under /verif/harness",
    ]
    if not cov.get("samples"):
        cov["samples"] = cov["obligation_names"][:3]
    ev = {
        "property_id": ctx.prop, "tier": ctx.tier, "seed": ctx.seed, "level": "proof",
        "coverage": cov, "assumptions": list(level_text_assumptions) + ctx.assumptions,
        "wall_s": round(time.time() - ctx.t0, 2), "violations": len(seen),
        "known_findings_reported": sorted(known_hit.keys()), "repo": REPO,
    }
    evdir = os.environ.get("VERIF_EVIDENCE", os.path.join(VERIF, "evidence"))
    os.makedirs(evdir, exist_ok=True)
    json.dump(ev, open(os.path.join(evdir, ctx.prop + ".json"), "w"), indent=1, default=str)
    print("%s %s: %d obligations (%d discharged), %d evaluations, %d violations, %.1fs" % (
        ctx.prop, ctx.tier, n_obl, n_ok, cov.get("evaluations", 0), len(seen), time.time() - ctx.t0))
    return 1 if seen else 0
