(* RED RECORD (not part of the development, not built by any check): the model of Crypto.v AS IT WAS before the repair
   "fix: resolve an event's hmac salt and info together with its derived wrapper", in which an event with per-event
   wrapper info but nil salt / info read the filter's salt / info at EACH value, and the refutation of "each value is
   protected wholly with either the old or the new key" that this faithful model allowed (reproduced on the code by
   encrypth -crypto, case "callback-rotation": see C16_eventfallback_before.txt).
   Compile standalone:  coqc -R ../../coq Verif C16_event_fallback_as_was.v *)
(* as-was copy of Crypto.v — key selection, rotation and value formats of encrypt.Filter (C16).
   Mirrors filter.go (Rotate, the RotateWrapper and EventWrapperInfo branches of Process, encrypt, hmacSha256) and
   wrapper.go (NewEventWrapper).  Keys are an abstract type K; AEAD, per-event wrapper derivation, HKDF and HMAC are
   Section functions; byte strings are lists of N below 256.  No proofs here. *)
From Coq Require Import List Bool NArith.
From Verif Require Import Base64.
Import ListNotations.
Open Scope list_scope.

Definition bstr := list N.

(* "encrypted:" and "hmac-sha256:" as bytes *)
Definition prefix_enc : bstr := [101; 110; 99; 114; 121; 112; 116; 101; 100; 58]%N.
Definition prefix_hmac : bstr := [104; 109; 97; 99; 45; 115; 104; 97; 50; 53; 54; 58]%N.

Definition frame_enc (blob : bstr) : bstr := prefix_enc ++ encode blob.
Definition frame_hmac (mac : bstr) : bstr := prefix_hmac ++ encode mac.

Fixpoint strip_prefix (p s : bstr) : option bstr :=
  match p, s with
  | [], _ => Some s
  | a :: p', b :: s' => if N.eqb a b then strip_prefix p' s' else None
  | _ :: _, [] => None
  end.
(* what a reader of the event does: strip the prefix, base64url-decode *)
Definition unframe_enc (s : bstr) : option bstr := match strip_prefix prefix_enc s with Some r => decode r | None => None end.

Section Crypto.
  Variable K : Type.
  Variable enc : K -> bstr -> bstr -> bstr.          (* wrapper.Encrypt + proto.Marshal: key, randomness, plaintext -> blob *)
  Variable dec : K -> bstr -> option bstr.           (* proto.Unmarshal + wrapper.Decrypt *)
  Variable derive : K -> bstr -> K.                  (* NewEventWrapper: base wrapper, event id -> per-event wrapper *)
  Variable hkdf : K -> bstr -> bstr -> bstr.         (* NewDerivedReader + ReadFull: wrapper key, salt, info -> 32-byte key *)
  Variable hmac : bstr -> bstr -> bstr.              (* HMAC-SHA256: key, data -> mac *)

  (* Filter.Wrapper / HmacSalt / HmacInfo; None = nil *)
  Record fstate := { f_wrap : option K; f_salt : option bstr; f_info : option bstr }.

  Definition orelse {A} (a b : option A) : option A := match a with Some _ => a | None => b end.

  (* Rotate(opts...) and the RotateWrapper branch of Process: every non-nil component replaces the filter's *)
  Definition rotate (st : fstate) (w : option K) (s i : option bstr) : fstate :=
    {| f_wrap := orelse w (f_wrap st); f_salt := orelse s (f_salt st); f_info := orelse i (f_info st) |}.

  (* the options Process hands to encrypt() / hmacSha256() for one event *)
  Record evopts := { o_wrap : option K; o_salt : option bstr; o_info : option bstr }.
  Definition no_opts := {| o_wrap := None; o_salt := None; o_info := None |}.

  (* EventWrapperInfo of a payload: EventId(), HmacSalt(), HmacInfo() *)
  Definition ewinfo := (bstr * option bstr * option bstr)%type.

  (* head of Process for a data event (a configuration that encrypts or HMACs): None = error *)
  Definition event_opts (st : fstate) (ewi : option ewinfo) : option evopts :=
    match ewi with
    | None => match f_wrap st with Some _ => Some no_opts | None => None end
    | Some (id, s, i) =>
        match f_wrap st, id with
        | Some w, _ :: _ => Some {| o_wrap := Some (derive w id); o_salt := s; o_info := i |}
        | _, _ => None                                 (* missing wrapper / missing event id *)
        end
    end.

  (* encrypt() / hmacSha256(), under Filter.l: which wrapper, salt and info *)
  Definition sel_wrap (st : fstate) (o : evopts) : option K := orelse (o_wrap o) (f_wrap st).
  Definition nonnil (b : option bstr) : bstr := match b with Some x => x | None => [] end.
  Definition sel_salt (st : fstate) (o : evopts) : bstr := nonnil (orelse (o_salt o) (f_salt st)).
  Definition sel_info (st : fstate) (o : evopts) : bstr := nonnil (orelse (o_info o) (f_info st)).

  Inductive cop := CEnc (rnd : bstr) | CHmac.        (* the operation the tag dictates; rnd: the nonce the AEAD draws *)

  Definition value_out (st : fstate) (o : evopts) (c : cop) (m : bstr) : option bstr :=
    match sel_wrap st o with
    | None => None
    | Some w => Some (match c with
                      | CEnc rnd => frame_enc (enc w rnd m)
                      | CHmac => frame_hmac (hmac (hkdf w (sel_salt st o) (sel_info st o)) m)
                      end)
    end.

  Fixpoint omap {A B} (f : A -> option B) (l : list A) : option (list B) :=
    match l with
    | [] => Some []
    | a :: r => match f a, omap f r with Some b, Some r' => Some (b :: r') | _, _ => None end
    end.

  (* ---------- sequential histories ---------- *)
  Inductive op :=
  | ORotate (w : option K) (s i : option bstr)        (* Filter.Rotate *)
  | ORotPayload (w : option K) (s i : option bstr)    (* Process of a RotateWrapper payload *)
  | OEvent (ewi : option ewinfo) (vals : list (cop * bstr)).

  Inductive outcome := OutNone | OutConsumed | OutErr | OutValues (vs : list bstr).

  Definition step (st : fstate) (o : op) : fstate * outcome :=
    match o with
    | ORotate w s i => (rotate st w s i, OutNone)
    | ORotPayload w s i => (rotate st w s i, OutConsumed)
    | OEvent ewi vals =>
        (st, match event_opts st ewi with
             | None => OutErr
             | Some eo => match omap (fun cm => value_out st eo (fst cm) (snd cm)) vals with
                          | Some vs => OutValues vs | None => OutErr end
             end)
    end.

  Fixpoint run (st : fstate) (ops : list op) : fstate * list outcome :=
    match ops with
    | [] => (st, [])
    | o :: r => let (st1, out) := step st o in let (st2, outs) := run st1 r in (st2, out :: outs)
    end.

  (* ---------- the key in force, declaratively ---------- *)
  Definition key_in_force (st : fstate) (ewi : option ewinfo) : option (K * bstr * bstr) :=
    match f_wrap st with
    | None => None
    | Some w =>
        match ewi with
        | None => Some (w, nonnil (f_salt st), nonnil (f_info st))
        | Some (id, s, i) =>
            match id with
            | [] => None
            | _ => Some (derive w id, nonnil (orelse s (f_salt st)), nonnil (orelse i (f_info st)))
            end
        end
    end.

  (* the value an operation produces under a (wrapper, salt, info) triple *)
  Definition value_under (t : K * bstr * bstr) (c : cop) (m : bstr) : bstr :=
    match t, c with
    | (w, _, _), CEnc rnd => frame_enc (enc w rnd m)
    | (w, s, i), CHmac => frame_hmac (hmac (hkdf w s i) m)
    end.

  (* reading an encrypted value back *)
  Definition decrypt_value (w : K) (s : bstr) : option bstr :=
    match unframe_enc s with Some blob => dec w blob | None => None end.

  (* ---------- interleavings: each encrypt() / hmacSha256() call, each rotation and the head of Process of each event
     is one atomic step (they run under Filter.l); events are threads ---------- *)
  Inductive action :=
  | ARot (w : option K) (s i : option bstr)
  | AStart (tid : N) (ewi : option ewinfo)             (* head of Process: derives the per-event wrapper *)
  | AVal (tid : N) (c : cop) (m : bstr).               (* one encrypt() / hmacSha256() call of that event *)

  Record cstate := { cs_f : fstate; cs_thr : list (N * option evopts) }.   (* started events: their options, None = failed *)

  Fixpoint lookup {A} (k : N) (l : list (N * A)) : option A :=
    match l with [] => None | (k', a) :: r => if N.eqb k k' then Some a else lookup k r end.

  Definition cstep (cs : cstate) (a : action) : cstate * option bstr :=
    match a with
    | ARot w s i => ({| cs_f := rotate (cs_f cs) w s i; cs_thr := cs_thr cs |}, None)
    | AStart tid ewi => ({| cs_f := cs_f cs; cs_thr := (tid, event_opts (cs_f cs) ewi) :: cs_thr cs |}, None)
    | AVal tid c m =>
        (cs, match lookup tid (cs_thr cs) with
             | Some (Some eo) => value_out (cs_f cs) eo c m
             | _ => None
             end)
    end.

  Fixpoint crun (cs : cstate) (sched : list action) : cstate * list (option bstr) :=
    match sched with
    | [] => (cs, [])
    | a :: r => let (cs1, out) := cstep cs a in let (cs2, outs) := crun cs1 r in (cs2, out :: outs)
    end.
End Crypto.

Arguments f_wrap {K} _.
Arguments f_salt {K} _.
Arguments f_info {K} _.
Arguments o_wrap {K} _.
Arguments o_salt {K} _.
Arguments o_info {K} _.
Arguments cs_f {K} _.
Arguments cs_thr {K} _.

Open Scope N_scope.
(* ---------- a concrete instance: non-vacuity, and the one mixture the interleaving model allows ---------- *)
Definition tK := N.
Definition t_enc (k : tK) (rnd m : bstr) : bstr := (k mod 256)%N :: rnd ++ m.
Definition t_dec (k : tK) (blob : bstr) : option bstr :=
  match blob with b :: r => if N.eqb b (k mod 256) then Some (skipn 2 r) else None | [] => None end.
Definition t_derive (k : tK) (id : bstr) : tK := (k * 1000 + fold_left N.add id 0%N)%N.
Definition t_hkdf (k : tK) (s i : bstr) : bstr := (k mod 256)%N :: s ++ 0%N :: i.
Definition t_hmac (key data : bstr) : bstr := key ++ data.

Definition st0 : fstate tK := {| f_wrap := Some 1%N; f_salt := Some [7]%N; f_info := None |}.
Definition hist : list (op tK) :=
  [OEvent tK None [(CEnc [9; 9]%N, [0; 255; 128]%N); (CHmac, []%N)];
   ORotate tK (Some 2%N) None (Some [5]%N);
   OEvent tK (Some ([3]%N, None, Some [4]%N)) [(CHmac, [1]%N)];
   ORotPayload tK None (Some [8]%N) None;
   OEvent tK None [(CHmac, [1]%N)];
   OEvent tK (Some ([]%N, None, None)) [(CHmac, [1]%N)]].

(* An event WITH per-event wrapper info but WITHOUT its own salt keeps the wrapper derived from the base key it saw when
   it started and falls back to the filter's salt at the time of each value: a rotation of wrapper and salt scheduled
   between its start and a value gives that value the OLD derived wrapper with the NEW salt.  (value_atomic describes
   this exactly; value_atomic_plain / value_atomic_event_info are the cases in which the triple is consistent.) *)
Example ewi_fallback_mixes_refuted :
  exists (sched : list (action tK)) (k : nat),
    nth_error (snd (crun tK t_enc t_derive t_hkdf t_hmac {| cs_f := st0; cs_thr := [] |} sched)) k
      = Some (Some (value_under tK t_enc t_hkdf t_hmac (t_derive 1 [3]%N, [8]%N, []%N) CHmac [1]%N)) /\
    key_in_force tK t_derive st0 (Some ([3]%N, None, None)) = Some (t_derive 1 [3]%N, [7]%N, []%N) /\
    key_in_force tK t_derive (rotate tK st0 (Some 2%N) (Some [8]%N) None) (Some ([3]%N, None, None)) = Some (t_derive 2 [3]%N, [8]%N, []%N).
Proof.
  exists [AStart tK 1%N (Some ([3]%N, None, None)); ARot tK (Some 2%N) (Some [8]%N) None; AVal tK 1%N CHmac [1]%N], 2%nat.
  repeat split; vm_compute; reflexivity.
Qed.
