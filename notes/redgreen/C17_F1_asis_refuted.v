(* C17_F1_asis_refuted.v — the loops of gated.go BEFORE repair F1, modelled faithfully, refute C17 (and C11's liveness half).
   container/list: Remove(e) clears e.next, so `e = e.Next()` after openGate removed e ends the loop: processExpiredEvents and
   FlushAll stop after the first gate they open.  Compile:  coqc -R ../../coq Verif C17_F1_asis_refuted.v
   The witnesses below are the histories kept in corpus/C17/gated.jsonl; on the unrepaired tree `bin/check C17` reports them
   (notes/redgreen/C17_F1_before.txt), after the `fix:` commit the code follows Gated.v (C17_F1_after.txt). *)
From Coq Require Import List Bool NArith ZArith.
From Verif Require Import Gated GatedExamples.
Import ListNotations.
Open Scope Z_scope.

(* the walk as the unrepaired code performs it: the first selected group is opened, then the loop ends *)
Fixpoint walk_asis (E : env) (sel : nat -> grp -> bool) (o : outs) (gs : list grp) : list grp * outs * bool :=
  match gs with
  | [] => ([], o, true)
  | g :: t =>
      if sel O g then let '(o', ok) := open_gate E o g in (t, o', ok)
      else let '(k, o', ok) := walk_asis E (fun i => sel (S i)) o t in (g :: k, o', ok)
  end.

Definition astep_asis (E : env) (s : gst) (a : atom) : gst * res :=
  match a with
  | AExpire rd => let '(k, o', ok) := walk_asis E (expired rd) (out s) (groups s) in (with_out s k o', if ok then RNil else RErr)
  | AFlushAll =>
      match groups s with
      | [] => (s, RNil)
      | gs => if broker_set E then let '(k, o', ok) := walk_asis E (fun _ _ => true) (out s) gs in (with_out s k o', if ok then RNil else RErr)
              else (with_out s [] (drop_all (out s) gs), RNil)
      end
  | AAdd _ _ _ _ => astep E s a
  end.
Definition step_asis (E : env) (s : gst) (o : op) : gst * res :=
  match o with
  | NonGateable => (s, RPass)
  | Proc id flush n rd tadd =>
      if N.eqb id 0 then (s, RErr) else
      let '(s1, r1) := astep_asis E s (AExpire rd) in
      if is_err r1 then (s1, RErr) else astep_asis E s1 (AAdd id flush n tadd)
  | FlushAll | Close => astep_asis E s AFlushAll
  end.

(* three groups a, b, c gated (state [three] of GatedExamples: ids 1,2,3 opened at 1000, 1001, 1005, Expiration 10) *)

(* FlushAll (Broker set) reports success, sent only [a], and b, c are still gated: flushall_empties is false *)
Theorem flushall_refuted : exists E s,
  snd (step_asis E s FlushAll) = RNil /\ map gid (groups (fst (step_asis E s FlushAll))) = [2%N; 3%N] /\
  log (fst (step_asis E s FlushAll)) = LOut DSent 1 [{| eid := 1; en := 1 |}] :: log s.
Proof. exists E_ok, three. vm_compute. repeat split. Qed.

(* a successful Process at T = 1012: groups 1 (exp 1010) and 2 (exp 1011) have expired, only group 1 was emitted,
   group 2 with expiry 1011 < 1012 remains: expired_gone is false *)
Theorem expiry_refuted : exists E s id flush n T,
  snd (step_asis E s (Proc id flush n (fun _ => T) T)) = RWithheld /\
  exists g, In g (groups (fst (step_asis E s (Proc id flush n (fun _ => T) T)))) /\ gexp g < T.
Proof.
  exists E_ok, three, 3%N, false, 4%N, 1012. split; [reflexivity|].
  exists {| gid := 2; gevs := [{| eid := 2; en := 2 |}]; gexp := 1011 |}. split; [vm_compute; tauto|reflexivity].
Qed.

(* the repaired model on the same inputs *)
Example flushall_repaired : groups (fst (step E_ok three FlushAll)) = [] /\
  map (fun x => match x with LOut d id _ => Some (d, id) | _ => None end) (firstn 3 (log (fst (step E_ok three FlushAll)))) =
  [Some (DSent, 3%N); Some (DSent, 2%N); Some (DSent, 1%N)].
Proof. split; reflexivity. Qed.
Print Assumptions flushall_refuted.
Print Assumptions expiry_refuted.
