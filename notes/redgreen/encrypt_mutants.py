#!/usr/bin/env python3
"""apply small mutations to /tmp/rp-encrypt/filters/encrypt, run the unedited test suite and the checks, revert."""
import subprocess, os, sys, json, re
RP='/tmp/rp-encrypt'; VF='/tmp/vf-encrypt'
ENV=dict(os.environ, GOFLAGS='-mod=mod', GOPROXY='off', GOSUMDB='off', GOTOOLCHAIN='local', VERIF_REPO=RP)
F='filters/encrypt/filter.go'; M='filters/encrypt/map.go'; T='filters/encrypt/tag.go'; O='filters/encrypt/filter_operation.go'; W='filters/encrypt/wrapper.go'
MUT=[
 # ---- C09
 ("c09-lower", "convertToOperation no longer lower-cases the operation text", O, 'seg = strings.ToLower(seg)\n', 'seg = strings.TrimSpace(seg)\n', ["C09"]),
 ("c09-slice-first", "filterSlice starts at the second element", F, 'for i := 0; i < slice.Len(); i++ {\n\t\tif err := ef.filterValue(ctx, slice.Index(i)', 'for i := 1; i < slice.Len(); i++ {\n\t\tif err := ef.filterValue(ctx, slice.Index(i)', ["C09"]),
 ("c09-slice-last", "filterSlice stops before the last element when there are more than two", F, 'for i := 0; i < slice.Len(); i++ {\n\t\tif err := ef.filterValue(ctx, slice.Index(i)', 'n := slice.Len()\n\tif n > 2 {\n\t\tn--\n\t}\n\tfor i := 0; i < n; i++ {\n\t\tif err := ef.filterValue(ctx, slice.Index(i)', ["C09"]),
 ("c09-map-bytes", "processUnfiltered does not store the filtered []byte back into the map", M, 'return fmt.Errorf("%s: unable to filter []byte: %w", op, err)\n\t\t\t\t}\n\t\t\t\tv.SetMapIndex(key, f)', 'return fmt.Errorf("%s: unable to filter []byte: %w", op, err)\n\t\t\t\t}', ["C09"]),
 ("c09-swallow-encrypt-error", "a failing Encrypt is answered by redaction instead of an error", F, 'if data, err = ef.encrypt(ctx, raw, opt...); err != nil {\n\t\t\t\treturn fmt.Errorf("%s: %w", op, err)\n\t\t\t}', 'if data, err = ef.encrypt(ctx, raw, opt...); err != nil {\n\t\t\t\tdata = RedactedData\n\t\t\t}', ["C09"]),
 ("c09-no-wrapper-check", "the wrapper check at the head of Process only looks at the sensitive operation", F, 'for _, filterOperation := range filterOps {\n\t\t\tswitch filterOperation {', 'for _, filterOperation := range []FilterOperation{filterOps[SensitiveClassification]} {\n\t\t\tswitch filterOperation {', ["C09"]),
 ("c09-unsettable", "the 'string payload not setable' guard is dropped", F, 'if !payloadValue.CanSet() {\n\t\t\treturn nil, fmt.Errorf("%s: unable to redact string payload (not setable): %w", op, ErrInvalidParameter)\n\t\t}', '', ["C09"]),
 ("c09-rotation-forwarded", "a rotation payload is forwarded after rotating", F, '\t\t\tcopy(ef.HmacInfo, i.HmacInfo())\n\t\t}\n\t\treturn nil, nil', '\t\t\tcopy(ef.HmacInfo, i.HmacInfo())\n\t\t}\n\t\treturn e, nil', ["C09"]),
 ("c09-ptr-elems", "pointer elements of a payload slice are not dereferenced (skipped)", F, '\t\t\t\tif f.Kind() == reflect.Ptr {\n\t\t\t\t\tf = f.Elem()\n\t\t\t\t}\n\t\t\t\tif f.Type() == reflect.TypeOf(structpb.Struct{}) {', '\t\t\t\tif f.Type() == reflect.TypeOf(structpb.Struct{}) {', ["C09"]),
 ("c09-taggable-notfound", "a pointer tag that is not found ends the tag loop (break instead of continue)", F, 'if errors.Is(err, pointerstructure.ErrNotFound) {\n\t\t\t\tcontinue', 'if errors.Is(err, pointerstructure.ErrNotFound) {\n\t\t\t\tbreak', ["C09"]),
 ("c09-secret-override-only", "an override is looked up for 'secret' only when the tag names no operation", T, 'if operationOverride, ok := opts.withFilterOperations[classification]; ok {', 'if operationOverride, ok := opts.withFilterOperations[classification]; ok && (classification != SecretClassification || operation == NoOperation) {', ["C09"]),
 ("c09-nested-map", "maps nested in an untagged map are not swept", M, 'if err := newMaps.processUnfiltered(ctx, ef, filterOverrides, opt...); err != nil {\n\t\t\t\t\treturn fmt.Errorf("%s: unable to process maps found in map: %w", op, err)\n\t\t\t\t}', '_ = newMaps', ["C09"]),
 # ---- C10
 ("c10-no-copy-for-maps", "a map payload is filtered in place (no private copy)", F, 'dup, err := copystructure.Copy(e)\n\tif err != nil {\n\t\treturn nil, err\n\t}\n\te = dup.(*eventlogger.Event)', 'if reflect.ValueOf(e.Payload).Kind() != reflect.Map {\n\t\tdup, err := copystructure.Copy(e)\n\t\tif err != nil {\n\t\t\treturn nil, err\n\t\t}\n\t\te = dup.(*eventlogger.Event)\n\t}', ["C10"]),
 ("c10-allnone-copy", "with every operation none a copy is returned instead of the event", F, 'if !filtered {\n\t\treturn e, nil\n\t}', 'if !filtered {\n\t\tdup, _ := copystructure.Copy(e)\n\t\treturn dup.(*eventlogger.Event), nil\n\t}', ["C10"]),
 ("c10-zero-processed", "the zero-payload shortcut is dropped", F, 'if reflect.ValueOf(e.Payload).IsZero() {\n\t\treturn e, nil\n\t}', '', ["C10"]),
 ("c10-ptr-struct-in-map", "a pointer to a struct in a map is stored back by value", M, 'if fPtr {\n\t\t\t\t\tf = f.Addr()\n\t\t\t\t}', '', ["C10"]),
 ("c10-public-slice", "filterSlice filters public slices whose operation is overridden", F, 'case classificationTag.Classification == PublicClassification:\n\t\treturn nil\n\t}\n\n\t// check for nil value (prevent panics)\n\tif slice == reflect.ValueOf(nil) {', 'case classificationTag.Classification == PublicClassification && classificationTag.Operation == NoOperation:\n\t\treturn nil\n\tcase classificationTag.Classification == PublicClassification:\n\t\tclassificationTag = &tagInfo{Classification: SecretClassification, Operation: classificationTag.Operation}\n\t}\n\n\t// check for nil value (prevent panics)\n\tif slice == reflect.ValueOf(nil) {', ["C10"]),
 ("c10-formatted-dropped", "the forwarded event loses its formatted data", F, '\te = dup.(*eventlogger.Event)\n', '\te = dup.(*eventlogger.Event)\n\te.Formatted = nil\n', ["C10"]),
 # ---- C16
 ("c16-salt-info-swapped", "hmacSha256 hands info as salt and salt as info to the key derivation", F, 'NewDerivedReader(ctx, w, 32, salt, info)', 'NewDerivedReader(ctx, w, 32, info, salt)', ["C16"]),
 ("c16-event-salt-ignored", "the per-event salt no longer takes precedence", F, 'case opts.withSalt != nil:\n\t\tsalt = make([]byte, len(opts.withSalt))\n\t\tcopy(salt, opts.withSalt)', 'case opts.withSalt != nil && ef.HmacSalt == nil:\n\t\tsalt = make([]byte, len(opts.withSalt))\n\t\tcopy(salt, opts.withSalt)', ["C16"]),
 ("c16-encrypt-base-wrapper", "encrypt() prefers the filter's wrapper over the per-event one", F, 'switch {\n\tcase opts.withWrapper != nil:\n\t\tw = opts.withWrapper\n\tdefault:\n\t\tw = ef.Wrapper\n\t}\n\tblobInfo', 'switch {\n\tcase ef.Wrapper != nil:\n\t\tw = ef.Wrapper\n\tdefault:\n\t\tw = opts.withWrapper\n\t}\n\tblobInfo', ["C16"]),
 ("c16-rotate-info-as-salt", "a rotation payload copies the salt into the info", F, 'copy(ef.HmacInfo, i.HmacInfo())', 'copy(ef.HmacInfo, i.HmacSalt())', ["C16"]),
 ("c16-rotate-empty-salt", "Rotate ignores an empty (non-nil) salt", F, 'if opts.withSalt != nil {\n\t\tef.HmacSalt = opts.withSalt', 'if len(opts.withSalt) > 0 {\n\t\tef.HmacSalt = opts.withSalt', ["C16"]),
 ("c16-derive-without-id", "NewEventWrapper derives the per-event key without the event id as salt", W, 'NewDerivedReader(ctx, wrapper, 32, []byte(eventId), nil)', 'NewDerivedReader(ctx, wrapper, 32, nil, []byte(eventId))', ["C16"]),
 ("c16-padded-base64", "encrypt() frames with padded base64", F, 'return "encrypted:" + base64.RawURLEncoding.EncodeToString(marshaledBlob), nil', 'return "encrypted:" + base64.URLEncoding.EncodeToString(marshaledBlob), nil', ["C16"]),
 ("c16-hmac-std-alphabet", "hmacSha256 frames with the standard base64 alphabet", F, 'return "hmac-sha256:" + base64.RawURLEncoding.EncodeToString(mac.Sum(nil)), nil', 'return "hmac-sha256:" + base64.RawStdEncoding.EncodeToString(mac.Sum(nil)), nil', ["C16"]),
 ("c09-map-bytess", "processUnfiltered only treats []string (not [][]byte) values as leaf slices", M, 'case ftype == reflect.TypeOf([]string{}) || ftype == reflect.TypeOf([][]uint8{}):\n\t\t\t\t\tif err := ef.filterSlice(ctx, classificationTag, field, opt...); err != nil {', 'case ftype == reflect.TypeOf([]string{}):\n\t\t\t\t\tif err := ef.filterSlice(ctx, classificationTag, field, opt...); err != nil {', ["C09"]),
 ("c09-hmac-error-swallowed", "a failing HMAC is answered by redaction instead of an error", F, 'if data, err = ef.hmacSha256(ctx, raw, opt...); err != nil {\n\t\t\t\treturn fmt.Errorf("%s: %w", op, err)\n\t\t\t}', 'if data, err = ef.hmacSha256(ctx, raw, opt...); err != nil {\n\t\t\t\tdata = RedactedData\n\t\t\t}', ["C09"]),
 ("c09-top-bytess", "a [][]byte payload is no longer treated as a slice of strings", F, 'case pType == reflect.TypeOf([]string{}) || pType == reflect.TypeOf([]*string{}) || pType == reflect.TypeOf([][]uint8{}):\n\t\t\tclassificationTag := getClassificationFromTagString(string(SecretClassification)', 'case pType == reflect.TypeOf([]string{}) || pType == reflect.TypeOf([]*string{}):\n\t\t\tclassificationTag := getClassificationFromTagString(string(SecretClassification)', ["C09"]),
 ("c09-field-slice-taggable", "Taggable elements of a slice field are not run through filterTaggable", F, 'if fieldIsTaggable && !opts.withIgnoreTaggable {', 'if fieldIsTaggable && opts.withIgnoreTaggable {', ["C09"]),
 ("c09-bytes-wrapper-field", "a wrapperspb.BytesValue field is not recognised", F, 'case ftype == reflect.TypeOf(wrapperspb.StringValue{}) || ftype == reflect.TypeOf(wrapperspb.BytesValue{}):\n\t\t\tclassificationTag := getClassificationFromTag(v.Type().Field(i).Tag', 'case ftype == reflect.TypeOf(wrapperspb.StringValue{}):\n\t\t\tclassificationTag := getClassificationFromTag(v.Type().Field(i).Tag', ["C09"]),
 ("c09-eventid-check", "NewEventWrapper accepts an empty event id", W, 'if eventId == "" {\n\t\treturn nil, fmt.Errorf("%s: missing event id: %w", op, ErrInvalidParameter)\n\t}', '', ["C09", "C16"]),
 ("c10-copy-after-rotation-check", "the event is not copied when the payload is a pointer to a string", F, 'dup, err := copystructure.Copy(e)\n\tif err != nil {\n\t\treturn nil, err\n\t}\n\te = dup.(*eventlogger.Event)', 'if _, isStr := e.Payload.(*string); !isStr {\n\t\tdup, err := copystructure.Copy(e)\n\t\tif err != nil {\n\t\t\treturn nil, err\n\t\t}\n\t\te = dup.(*eventlogger.Event)\n\t}', ["C10"]),
 ("c10-created-at", "the forwarded event gets a fresh creation time", F, '\te = dup.(*eventlogger.Event)\n', '\te = dup.(*eventlogger.Event)\n\te.CreatedAt = e.CreatedAt.Add(1)\n', ["C10"]),
 ("c10-map-ptr-struct-value", "a pointer to a struct in a map is stored back by value", M, 'if fPtr {\n\t\t\t\t\tf = f.Addr()\n\t\t\t\t}\n\t\t\t\tv.SetMapIndex(key, f)', 'v.SetMapIndex(key, f)', ["C10"]),
 ("c16-ewi-info-from-salt", "Process hands the per-event salt as per-event info", F, 'opts = append(opts, WithInfo(info))', 'opts = append(opts, WithInfo(salt))', ["C16"]),
 ("c16-rotpayload-empty-info", "a rotation payload with an empty (non-nil) info does not rotate the info", F, 'if i.HmacInfo() != nil {', 'if len(i.HmacInfo()) > 0 {', ["C16"]),
 ("c16-rotate-wrapper-with-salt", "Rotate takes the wrapper only together with a salt", F, 'if opts.withWrapper != nil {\n\t\tef.Wrapper = opts.withWrapper', 'if opts.withWrapper != nil && opts.withSalt != nil {\n\t\tef.Wrapper = opts.withWrapper', ["C16"]),
 ("c16-eventid-truncated", "NewEventWrapper derives from the event id without its last character", W, 'NewDerivedReader(ctx, wrapper, 32, []byte(eventId), nil)', 'NewDerivedReader(ctx, wrapper, 32, []byte(eventId[:len(eventId)-1]), nil)', ["C16"]),
 ("c16-hmac-info-default", "hmacSha256 uses the filter's info although the event supplies one, when the filter has a salt", F, 'case opts.withInfo != nil:\n\t\tinfo = make([]byte, len(opts.withInfo))', 'case opts.withInfo != nil && len(ef.HmacSalt) == 0:\n\t\tinfo = make([]byte, len(opts.withInfo))', ["C16"]),  # was '&& opts.withSalt != nil': equivalent since Process resolves salt AND info for every event with wrapper info (F13)
]
def sh(cmd, cwd=None, timeout=1200):
    p=subprocess.run(cmd,cwd=cwd,env=ENV,stdout=subprocess.PIPE,stderr=subprocess.STDOUT,text=True,timeout=timeout,shell=isinstance(cmd,str))
    return p.returncode,p.stdout
only=sys.argv[1:]
rows=[]
for name,desc,f,old,new,props in MUT:
    if only and not any(name.startswith(o) for o in only): continue
    path=os.path.join(RP,f); src=open(path).read()
    if src.count(old)!=1:
        rows.append((name,desc,"PATTERN-NOT-UNIQUE(%d)"%src.count(old),"",{})); print(rows[-1]); continue
    open(path,'w').write(src.replace(old,new))
    try:
        rc,out=sh("go build ./... && go vet ./... >/dev/null 2>&1; go test -vet=off -count=1 ./... 2>&1 | tail -3", cwd=os.path.join(RP,'filters/encrypt'))
        builds = 'ok ' in out or 'FAIL' in out
        tests = "pass" if re.search(r'^ok\s',out,re.M) and 'FAIL' not in out else "FAIL"
        res={}
        for p in props:
            rc,o=sh([os.path.join(VF,'bin/check'),p,'--tier','quick'],cwd=VF)
            viol=[l for l in o.splitlines() if l.startswith('# ')]
            res[p]=(rc,[v[2:160] for v in viol][:4], len(viol))
        rows.append((name,desc,tests,out.strip().splitlines()[-1][:100] if tests=="FAIL" else "",res)); print(rows[-1],flush=True)
    finally:
        open(path,'w').write(src)
os.makedirs(os.path.join(VF,'work'),exist_ok=True)
json.dump(rows,open(os.path.join(VF,'work','mutants_result.json'),'w'),indent=1)
