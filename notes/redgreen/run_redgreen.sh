#!/bin/sh
# Re-create the red/green records of the encrypt engine: for every repaired defect the check is run on the library tree
# with just that repair reverted (red, the defect's minimal case as replay) and on the repaired tree (green).
# usage: notes/redgreen/run_redgreen.sh            (VF = this worktree, RP = /tmp/rp-encrypt)
set -u
export GOFLAGS=-mod=mod GOPROXY=off GOSUMDB=off GOTOOLCHAIN=local
VF="$(cd "$(dirname "$0")/../.." && pwd)"
RP="${RP:-/tmp/rp-encrypt}"
SCR=/tmp/encrypt-scratch/rp-minus
cd "$VF"
one() { # property defect subject-pattern
  prop=$1; name=$2; pat=$3
  sha=$(git -C "$RP" log --format=%h --grep="$pat" -1)
  rm -rf "$SCR"; mkdir -p "$SCR"
  (cd "$RP" && tar --exclude=.git -cf - .) | (cd "$SCR" && tar -xf -)
  git -C "$RP" diff "$sha^" "$sha" | (cd "$SCR" && patch -s -R -p1)
  { echo "## library tree: $RP at $(git -C "$RP" log --format=%h -1) with commit $sha ($(git -C "$RP" log --format=%s -1 $sha)) reverted"; 
    VERIF_REPO="$SCR" bin/check "$prop" --tier quick; echo "exit=$?";
    echo "## the failing cases named on the VIOLATION lines above (smallest per signature):";
    python3 - "$prop" <<'PY'
import glob, json, sys
for f in sorted(glob.glob("replays/%s/encrypt-*.json" % sys.argv[1])):
    r = json.load(open(f))
    print("%s: %s\n   case: %s" % (r.get("signature"), r.get("what"), json.dumps(r.get("case"))))
PY
  } > "notes/redgreen/${prop}_${name}_before.txt" 2>&1
  { echo "## library tree: $RP at $(git -C "$RP" log --format=%h -1) (repaired)";
    VERIF_REPO="$RP" bin/check "$prop" --tier quick; echo "exit=$?"; } > "notes/redgreen/${prop}_${name}_after.txt" 2>&1
  tail -3 "notes/redgreen/${prop}_${name}_before.txt" | head -2; tail -2 "notes/redgreen/${prop}_${name}_after.txt"
}
one C09 F8a "struct stored by value in a map"
one C09 F8b "payload which is a map"
one C09 F8c "Taggable map none of whose tags"
one C10 F11 "withIgnoreTaggable"
one C09 F11 "withIgnoreTaggable"
one C09 F12 "skip nil pointers in slices"
one C10 F14 "nested map again that pointer tags"
one C09 F14 "nested map again that pointer tags"
one C10 F15 "pointer tags that go more than two maps deep"
one C09 F15 "pointer tags that go more than two maps deep"
one C16 eventfallback "resolve an event.s hmac salt and info"
rm -rf "$SCR"
