(* Spike: the Broker registry (semantics after the F6/F7 repairs) as an executable state machine,
   with the C06 invariant "reference count = number of registered pipelines listing the node"
   proved for every history. *)
From Coq Require Import List Bool Arith NArith Lia.
Import ListNotations.

(* ---------- association lists over a key type with boolean equality ---------- *)
Section AList.
  Variable K V : Type.
  Variable keqb : K -> K -> bool.
  Hypothesis keqb_spec : forall a b, keqb a b = true <-> a = b.

  Fixpoint aget (k : K) (l : list (K * V)) : option V :=
    match l with [] => None | (k', v) :: t => if keqb k k' then Some v else aget k t end.
  Fixpoint aset (k : K) (v : V) (l : list (K * V)) : list (K * V) :=
    match l with
    | [] => [(k, v)]
    | (k', v') :: t => if keqb k k' then (k, v) :: t else (k', v') :: aset k v t
    end.
  Fixpoint adel (k : K) (l : list (K * V)) : list (K * V) :=
    match l with [] => [] | (k', v') :: t => if keqb k k' then adel k t else (k', v') :: adel k t end.

  Lemma keqb_refl a : keqb a a = true.
  Proof. apply keqb_spec. reflexivity. Qed.
  Lemma keqb_neq a b : a <> b -> keqb a b = false.
  Proof. intros H. destruct (keqb a b) eqn:E; auto. apply keqb_spec in E. contradiction. Qed.

  Lemma aget_aset_same k v l : aget k (aset k v l) = Some v.
  Proof.
    induction l as [|[k' v'] t IH]; cbn; [rewrite keqb_refl; reflexivity|].
    destruct (keqb k k') eqn:E; cbn; [rewrite keqb_refl; reflexivity|]. rewrite E. exact IH.
  Qed.
  Lemma aget_aset_other k k2 v l : k2 <> k -> aget k2 (aset k v l) = aget k2 l.
  Proof.
    intros Hn. induction l as [|[k' v'] t IH]; cbn; [rewrite (keqb_neq _ _ Hn); reflexivity|].
    destruct (keqb k k') eqn:E; cbn.
    - apply keqb_spec in E. subst k'. rewrite (keqb_neq _ _ Hn). reflexivity.
    - destruct (keqb k2 k'); auto.
  Qed.
  Lemma aget_adel_same k l : aget k (adel k l) = None.
  Proof.
    induction l as [|[k' v'] t IH]; cbn; [reflexivity|].
    destruct (keqb k k') eqn:E; cbn; [exact IH|]. rewrite E. exact IH.
  Qed.
  Lemma aget_adel_other k k2 l : k2 <> k -> aget k2 (adel k l) = aget k2 l.
  Proof.
    intros Hn. induction l as [|[k' v'] t IH]; cbn; [reflexivity|].
    destruct (keqb k k') eqn:E; cbn.
    - apply keqb_spec in E. subst k'. rewrite (keqb_neq _ _ Hn). exact IH.
    - destruct (keqb k2 k'); auto.
  Qed.

  (* weighted count over the values of a list with unique keys *)
  Variable w : V -> nat.
  Fixpoint asum (l : list (K * V)) : nat := match l with [] => 0 | (_, v) :: t => w v + asum t end.
  Definition wopt (o : option V) : nat := match o with Some v => w v | None => 0 end.

  Definition ukeys (l : list (K * V)) : Prop := NoDup (map fst l).

  Lemma aget_none_notin k l : aget k l = None -> ~ In k (map fst l).
  Proof.
    induction l as [|[k' v'] t IH]; cbn; [tauto|].
    destruct (keqb k k') eqn:E; [discriminate|]. intros H [Hk|Hin].
    - subst. rewrite keqb_refl in E. discriminate.
    - exact (IH H Hin).
  Qed.
  Lemma notin_aget_none k l : ~ In k (map fst l) -> aget k l = None.
  Proof.
    induction l as [|[k' v'] t IH]; cbn; [reflexivity|]. intros H.
    destruct (keqb k k') eqn:E.
    - apply keqb_spec in E. subst. exfalso. apply H. left. reflexivity.
    - apply IH. intros Hin. apply H. right. exact Hin.
  Qed.

  Lemma keys_aset k v l x : In x (map fst (aset k v l)) -> x = k \/ In x (map fst l).
  Proof.
    induction l as [|[k' v'] t IH]; cbn; [intros [<-|[]]; auto|].
    destruct (keqb k k') eqn:E; cbn.
    - intros [<-|H]; auto.
    - intros [<-|H]; auto. destruct (IH H); auto.
  Qed.
  Lemma ukeys_aset k v l : ukeys l -> ukeys (aset k v l).
  Proof.
    unfold ukeys. induction l as [|[k' v'] t IH]; cbn; intros H.
    - constructor; [intros []|constructor].
    - inversion H as [|? ? Hn Hd]; subst. destruct (keqb k k') eqn:E; cbn.
      + apply keqb_spec in E. subst. constructor; assumption.
      + constructor; [|apply IH; assumption].
        intros Hin. apply keys_aset in Hin as [->|Hin]; [rewrite keqb_refl in E; discriminate|contradiction].
  Qed.
  Lemma keys_adel k l x : In x (map fst (adel k l)) -> In x (map fst l).
  Proof.
    induction l as [|[k' v'] t IH]; cbn; [tauto|].
    destruct (keqb k k'); cbn; [intros H; right; auto|intros [<-|H]; auto].
  Qed.
  Lemma ukeys_adel k l : ukeys l -> ukeys (adel k l).
  Proof.
    unfold ukeys. induction l as [|[k' v'] t IH]; cbn; intros H; [constructor|].
    inversion H as [|? ? Hn Hd]; subst. destruct (keqb k k'); cbn; [apply IH; assumption|].
    constructor; [|apply IH; assumption]. intros Hin. apply keys_adel in Hin. contradiction.
  Qed.

  Lemma asum_aset k v l : ukeys l -> asum (aset k v l) + wopt (aget k l) = asum l + w v.
  Proof.
    unfold ukeys. induction l as [|[k' v'] t IH]; cbn; intros H; [lia|].
    inversion H as [|? ? Hn Hd]; subst. destruct (keqb k k') eqn:E; cbn; [lia|].
    specialize (IH Hd). lia.
  Qed.
  Lemma asum_adel k l : ukeys l -> asum (adel k l) + wopt (aget k l) = asum l.
  Proof.
    unfold ukeys. induction l as [|[k' v'] t IH]; cbn; intros H; [lia|].
    inversion H as [|? ? Hn Hd]; subst. destruct (keqb k k') eqn:E; cbn.
    - apply keqb_spec in E. subst k'. rewrite (notin_aget_none _ _ Hn) in IH. specialize (IH Hd). cbn in IH.
      assert (Hz : asum (adel k t) = asum t) by lia. lia.
    - specialize (IH Hd). lia.
  Qed.
End AList.

Arguments aget {K V}. Arguments aset {K V}. Arguments adel {K V}. Arguments asum {K V}. Arguments ukeys {K V}.
Arguments wopt {V}.

(* ---------- the registry ---------- *)
Inductive ntype := TFilter | TFormatter | TSink | TFormatterFilter | TOther.
Inductive pol := PAllow | PDeny.
Inductive polarg := ANone | AAllow | ADeny | ABad.
Definition pol_of (a : polarg) : option pol :=
  match a with ANone | AAllow => Some PAllow | ADeny => Some PDeny | ABad => None end.

Record nodeU := { nu_obj : N; nu_ty : ntype; nu_rc : nat; nu_pol : pol }.
Record pipe := { p_ids : list N; p_objs : list (N * ntype); p_pol : pol }.

Definition pkey := (N * N)%type.   (* (event type, pipeline id) *)
Definition pkeqb (a b : pkey) : bool := N.eqb (fst a) (fst b) && N.eqb (snd a) (snd b).
Lemma pkeqb_spec a b : pkeqb a b = true <-> a = b.
Proof.
  destruct a as [a1 a2], b as [b1 b2]. unfold pkeqb. cbn. rewrite andb_true_iff, !N.eqb_eq.
  split; [intros [-> ->]; reflexivity|intros H; inversion H; auto].
Qed.
Lemma neqb_spec a b : N.eqb a b = true <-> a = b.
Proof. apply N.eqb_eq. Qed.

Record broker := {
  b_nodes : list (N * nodeU);
  b_pipes : list (pkey * pipe);
  b_graphs : list N;            (* event types that have a graph *)
}.
Definition b0 : broker := {| b_nodes := []; b_pipes := []; b_graphs := [] |}.

Inductive rclass := ROk | RInvalid | RDenied | RNotFound | RInUse | RNotRegistered | RValidate | RNoGraph | RNoPipeline | RCloseErr.

Inductive op :=
| RegisterNode (id obj : N) (ty : ntype) (pa : polarg)
| RemoveNode (id : N)
| RegisterPipeline (pid ety : N) (ids : list N) (pa : polarg)
| RemovePipeline (ety pid : N)
| RemovePipelineAndNodes (ety pid : N).

Fixpoint memN (x : N) (l : list N) : bool := match l with [] => false | y :: t => N.eqb x y || memN x t end.
Fixpoint distinct (l : list N) : list N :=
  match l with [] => [] | x :: t => if memN x t then distinct t else x :: distinct t end.

Definition set_rc (u : nodeU) (rc : nat) : nodeU := {| nu_obj := nu_obj u; nu_ty := nu_ty u; nu_rc := rc; nu_pol := nu_pol u |}.

(* decrement (never below zero) / increment the count of every id of the list that is registered *)
Fixpoint release (ids : list N) (nodes : list (N * nodeU)) : list (N * nodeU) :=
  match ids with
  | [] => nodes
  | id :: t =>
      release t (match aget N.eqb id nodes with
                 | Some u => aset N.eqb id (set_rc u (pred (nu_rc u))) nodes
                 | None => nodes
                 end)
  end.
Fixpoint retain (ids : list N) (nodes : list (N * nodeU)) : list (N * nodeU) :=
  match ids with
  | [] => nodes
  | id :: t =>
      retain t (match aget N.eqb id nodes with
                | Some u => aset N.eqb id (set_rc u (S (nu_rc u))) nodes
                | None => nodes
                end)
  end.

(* unregisterNode(force = true) for every id: returns the nodes left, the objects to close, and whether all were found *)
Fixpoint unregister_all (ids : list N) (nodes : list (N * nodeU)) (closed : list N) (ok : bool)
  : list (N * nodeU) * list N * bool :=
  match ids with
  | [] => (nodes, closed, ok)
  | id :: t =>
      match aget N.eqb id nodes with
      | Some u =>
          if Nat.leb (nu_rc u) 1 then unregister_all t (adel N.eqb id nodes) (closed ++ [nu_obj u]) ok
          else unregister_all t (aset N.eqb id (set_rc u (pred (nu_rc u))) nodes) closed ok
      | None => unregister_all t nodes closed false
      end
  end.

Fixpoint resolve (ids : list N) (nodes : list (N * nodeU)) : option (list (N * ntype)) :=
  match ids with
  | [] => Some []
  | id :: t =>
      match aget N.eqb id nodes, resolve t nodes with
      | Some u, Some r => Some ((nu_obj u, nu_ty u) :: r)
      | _, _ => None
      end
  end.

Definition is_sink (t : ntype) : bool := match t with TSink => true | _ => false end.
Definition is_fmt (t : ntype) : bool := match t with TFormatter | TFormatterFilter => true | _ => false end.
(* doValidate on a linear list *)
Definition valid_shape (objs : list (N * ntype)) : bool :=
  match rev objs with
  | (_, l) :: (_, p) :: _ => is_sink l && is_fmt p
  | _ => false
  end.

Section Step.
  Variable close_fails : N -> bool.

  Definition step (b : broker) (o : op) : broker * rclass * list N (* objects closed, in order *) :=
    match o with
    | RegisterNode id obj ty pa =>
        if N.eqb id 0 then (b, RInvalid, []) else
        match pol_of pa with
        | None => (b, RInvalid, [])
        | Some p =>
            match aget N.eqb id (b_nodes b) with
            | Some u =>
                match nu_pol u with
                | PDeny => (b, RDenied, [])
                | PAllow => ({| b_nodes := aset N.eqb id {| nu_obj := obj; nu_ty := ty; nu_rc := nu_rc u; nu_pol := p |} (b_nodes b);
                                b_pipes := b_pipes b; b_graphs := b_graphs b |}, ROk, [])
                end
            | None => ({| b_nodes := aset N.eqb id {| nu_obj := obj; nu_ty := ty; nu_rc := 0; nu_pol := p |} (b_nodes b);
                          b_pipes := b_pipes b; b_graphs := b_graphs b |}, ROk, [])
            end
        end
    | RemoveNode id =>
        if N.eqb id 0 then (b, RInvalid, []) else
        match aget N.eqb id (b_nodes b) with
        | None => (b, RNotFound, [])
        | Some u =>
            if Nat.ltb 0 (nu_rc u) then (b, RInUse, [])
            else ({| b_nodes := adel N.eqb id (b_nodes b); b_pipes := b_pipes b; b_graphs := b_graphs b |},
                  (if close_fails (nu_obj u) then RCloseErr else ROk), [nu_obj u])
        end
    | RegisterPipeline pid ety ids pa =>
        if N.eqb pid 0 || N.eqb ety 0 || match ids with [] => true | _ => false end || memN 0 ids then (b, RInvalid, []) else
        match pol_of pa with
        | None => (b, RInvalid, [])
        | Some p =>
            let b1 := {| b_nodes := b_nodes b; b_pipes := b_pipes b;
                         b_graphs := if memN ety (b_graphs b) then b_graphs b else ety :: b_graphs b |} in
            let denied := match aget pkeqb (ety, pid) (b_pipes b) with
                          | Some old => match p_pol old with PDeny => true | PAllow => false end
                          | None => false
                          end in
            if denied then (b1, RDenied, []) else
            match resolve ids (b_nodes b) with
            | None => (b1, RNotRegistered, [])
            | Some objs =>
                if negb (valid_shape objs) then (b1, RValidate, []) else
                let nodes1 := match aget pkeqb (ety, pid) (b_pipes b) with
                              | Some old => release (distinct (p_ids old)) (b_nodes b)
                              | None => b_nodes b
                              end in
                ({| b_nodes := retain (distinct ids) nodes1;
                    b_pipes := aset pkeqb (ety, pid) {| p_ids := ids; p_objs := objs; p_pol := p |} (b_pipes b);
                    b_graphs := b_graphs b1 |}, ROk, [])
            end
        end
    | RemovePipeline ety pid =>
        if N.eqb ety 0 || N.eqb pid 0 then (b, RInvalid, []) else
        if negb (memN ety (b_graphs b)) then (b, RNoGraph, []) else
        match aget pkeqb (ety, pid) (b_pipes b) with
        | None => (b, ROk, [])
        | Some old => ({| b_nodes := release (distinct (p_ids old)) (b_nodes b);
                          b_pipes := adel pkeqb (ety, pid) (b_pipes b); b_graphs := b_graphs b |}, ROk, [])
        end
    | RemovePipelineAndNodes ety pid =>
        if N.eqb ety 0 || N.eqb pid 0 then (b, RInvalid, []) else
        if negb (memN ety (b_graphs b)) then (b, RNoGraph, []) else
        match aget pkeqb (ety, pid) (b_pipes b) with
        | None => (b, RNoPipeline, [])
        | Some old =>
            let '(nodes', closed, ok) := unregister_all (distinct (p_ids old)) (b_nodes b) [] true in
            ({| b_nodes := nodes'; b_pipes := adel pkeqb (ety, pid) (b_pipes b); b_graphs := b_graphs b |},
             (if ok && negb (existsb close_fails closed) then ROk else RCloseErr), closed)
        end
    end.
End Step.

(* ================= C06: the reference count is the number of pipelines listing the node ================= *)
Notation nget := (aget N.eqb).
Notation pget := (aget pkeqb).

Definition b2n (b : bool) : nat := if b then 1 else 0.
Definition lists (id : N) (p : pipe) : nat := b2n (memN id (p_ids p)).
Definition listing (id : N) (b : broker) : nat := asum (lists id) (b_pipes b).

Lemma memN_In x l : memN x l = true <-> In x l.
Proof.
  induction l as [|y t IH]; cbn; [split; [discriminate|tauto]|].
  rewrite orb_true_iff, N.eqb_eq, IH. split; intros [H|H]; auto.
Qed.
Lemma memN_distinct x l : memN x (distinct l) = memN x l.
Proof.
  induction l as [|y t IH]; cbn; [reflexivity|].
  destruct (memN y t) eqn:E; cbn.
  - rewrite IH. destruct (N.eqb x y) eqn:Exy; cbn; auto. apply N.eqb_eq in Exy. subst. rewrite E. reflexivity.
  - rewrite IH. reflexivity.
Qed.
Lemma NoDup_distinct l : NoDup (distinct l).
Proof.
  induction l as [|y t IH]; cbn; [constructor|].
  destruct (memN y t) eqn:E; [exact IH|]. constructor; [|exact IH].
  intros Hin. apply memN_In in Hin. rewrite memN_distinct in Hin. congruence.
Qed.

(* effect of folding a per-node count update over a duplicate-free id list *)
Section Fold.
  Variable f : nat -> nat.
  Fixpoint fold_rc (ids : list N) (nodes : list (N * nodeU)) : list (N * nodeU) :=
    match ids with
    | [] => nodes
    | id :: t => fold_rc t (match nget id nodes with
                            | Some u => aset N.eqb id (set_rc u (f (nu_rc u))) nodes
                            | None => nodes
                            end)
    end.

  Lemma fold_rc_get ids : NoDup ids -> forall nodes id,
    nget id (fold_rc ids nodes) =
    match nget id nodes with
    | Some u => Some (if memN id ids then set_rc u (f (nu_rc u)) else u)
    | None => None
    end.
  Proof.
    induction ids as [|x t IH]; intros Hnd nodes id; cbn [fold_rc memN].
    - destruct (nget id nodes); reflexivity.
    - inversion Hnd as [|? ? Hx Ht]; subst. rewrite (IH Ht).
      destruct (N.eqb id x) eqn:E.
      + apply N.eqb_eq in E. subst x. cbn [orb].
        assert (Hm : memN id t = false) by (destruct (memN id t) eqn:Em; auto; apply memN_In in Em; contradiction).
        rewrite Hm. destruct (nget id nodes) as [u|] eqn:Eg.
        * rewrite (aget_aset_same _ _ N.eqb neqb_spec). reflexivity.
        * rewrite Eg. reflexivity.
      + cbn [orb]. assert (Hne : id <> x) by (intros ->; rewrite N.eqb_refl in E; discriminate).
        destruct (nget x nodes) as [ux|] eqn:Ex.
        * rewrite (aget_aset_other _ _ N.eqb neqb_spec) by assumption. reflexivity.
        * reflexivity.
  Qed.

  Lemma fold_rc_ukeys ids nodes : ukeys nodes -> ukeys (fold_rc ids nodes).
  Proof.
    revert nodes; induction ids as [|x t IH]; intros nodes H; cbn [fold_rc]; [exact H|].
    apply IH. destruct (nget x nodes); [apply (ukeys_aset _ _ N.eqb neqb_spec); exact H|exact H].
  Qed.
End Fold.

Lemma release_is_fold ids nodes : release ids nodes = fold_rc pred ids nodes.
Proof. revert nodes; induction ids as [|x t IH]; intros nodes; cbn; [reflexivity|]. rewrite IH. reflexivity. Qed.
Lemma retain_is_fold ids nodes : retain ids nodes = fold_rc S ids nodes.
Proof. revert nodes; induction ids as [|x t IH]; intros nodes; cbn; [reflexivity|]. rewrite IH. reflexivity. Qed.

(* sums *)
Lemma asum_in {K} (w : pipe -> nat) (l : list (K * pipe)) k p : In (k, p) l -> w p <= asum w l.
Proof. induction l as [|[k' p'] t IH]; cbn; [tauto|]. intros [H|H]; [inversion H; subst; lia|specialize (IH H); lia]. Qed.
Lemma asum_zero {K} (w : pipe -> nat) (l : list (K * pipe)) : (forall k p, In (k, p) l -> w p = 0) -> asum w l = 0.
Proof.
  induction l as [|[k' p'] t IH]; cbn; intros H; [reflexivity|].
  rewrite (H k' p' (or_introl eq_refl)). rewrite IH; [reflexivity|]. intros k p Hin. apply (H k p). right. exact Hin.
Qed.
Lemma aget_in {K V} (eqb : K -> K -> bool) (spec : forall a b, eqb a b = true <-> a = b) (l : list (K * V)) k v :
  aget eqb k l = Some v -> In (k, v) l.
Proof.
  induction l as [|[k' v'] t IH]; cbn; [discriminate|].
  destruct (eqb k k') eqn:E; [intros H; inversion H; subst; apply spec in E; subst; left; reflexivity|auto].
Qed.
Lemma in_aget {K V} (eqb : K -> K -> bool) (spec : forall a b, eqb a b = true <-> a = b) (l : list (K * V)) k v :
  ukeys l -> In (k, v) l -> aget eqb k l = Some v.
Proof.
  unfold ukeys. induction l as [|[k' v'] t IH]; cbn; [tauto|]. intros Hd [H|H].
  - inversion H; subst. rewrite (proj2 (spec k k) eq_refl). reflexivity.
  - inversion Hd as [|? ? Hn Hd']; subst. destruct (eqb k k') eqn:E.
    + apply spec in E. subst. exfalso. apply Hn. change k' with (fst (k', v)). apply in_map. exact H.
    + apply IH; assumption.
Qed.

Record binv (b : broker) : Prop := {
  bi_nk : ukeys (b_nodes b);
  bi_pk : ukeys (b_pipes b);
  bi_rc : forall id u, nget id (b_nodes b) = Some u -> nu_rc u = listing id b;
  bi_reg : forall k p id, In (k, p) (b_pipes b) -> memN id (p_ids p) = true -> nget id (b_nodes b) <> None;
}.

Lemma binv_b0 : binv b0.
Proof. constructor; cbn; try constructor; try discriminate; tauto. Qed.

Lemma resolve_registered ids nodes objs id : resolve ids nodes = Some objs -> memN id ids = true -> nget id nodes <> None.
Proof.
  revert objs; induction ids as [|x t IH]; intros objs H Hm; cbn in *; [discriminate|].
  destruct (nget x nodes) as [u|] eqn:Ex; [|discriminate].
  destruct (resolve t nodes) as [r|] eqn:Er; [|discriminate].
  apply orb_true_iff in Hm as [Hm|Hm].
  - apply N.eqb_eq in Hm. subst. rewrite Ex. discriminate.
  - eapply IH; eauto.
Qed.

Lemma listing_unlisted id b : binv b -> nget id (b_nodes b) = None -> listing id b = 0.
Proof.
  intros Hi Hn. apply asum_zero. intros k p Hin. unfold lists.
  destruct (memN id (p_ids p)) eqn:E; [|reflexivity]. exfalso. exact (bi_reg _ Hi k p id Hin E Hn).
Qed.

Lemma in_aset {K V} (eqb : K -> K -> bool) (l : list (K * V)) k v k2 v2 :
  In (k2, v2) (aset eqb k v l) -> (k2, v2) = (k, v) \/ In (k2, v2) l.
Proof.
  induction l as [|[k' v'] t IH]; cbn; [intros [H|[]]; auto|].
  destruct (eqb k k'); cbn; intros [H|H]; auto. destruct (IH H); auto.
Qed.
Lemma in_adel {K V} (eqb : K -> K -> bool) (spec : forall a b, eqb a b = true <-> a = b) (l : list (K * V)) k k2 v2 :
  In (k2, v2) (adel eqb k l) -> k2 <> k /\ In (k2, v2) l.
Proof.
  induction l as [|[k' v'] t IH]; cbn; [tauto|].
  destruct (eqb k k') eqn:E; cbn.
  - intros H. destruct (IH H). auto.
  - intros [H|H].
    + inversion H; subst. split; auto. intros ->. rewrite (proj2 (spec k k) eq_refl) in E. discriminate.
    + destruct (IH H). auto.
Qed.

Lemma unregister_all_spec ids : NoDup ids -> forall nodes closed ok,
  ukeys nodes ->
  let '(nodes', _, _) := unregister_all ids nodes closed ok in
  ukeys nodes' /\
  forall id, nget id nodes' =
    match nget id nodes with
    | Some u => if memN id ids then (if Nat.leb (nu_rc u) 1 then None else Some (set_rc u (pred (nu_rc u)))) else Some u
    | None => None
    end.
Proof.
  induction ids as [|x t IH]; intros Hnd nodes closed ok Hk; cbn [unregister_all memN].
  - split; [exact Hk|]. intros id. destruct (nget id nodes); reflexivity.
  - inversion Hnd as [|? ? Hx Ht]; subst.
    assert (Hmx : forall id, id = x -> memN id t = false).
    { intros id ->. destruct (memN x t) eqn:Em; auto. apply memN_In in Em. contradiction. }
    destruct (nget x nodes) as [ux|] eqn:Ex.
    + destruct (Nat.leb (nu_rc ux) 1) eqn:El.
      * specialize (IH Ht (adel N.eqb x nodes) (closed ++ [nu_obj ux]) ok (ukeys_adel _ _ N.eqb x nodes Hk)).
        destruct (unregister_all t (adel N.eqb x nodes) (closed ++ [nu_obj ux]) ok) as [[nodes' c'] ok'].
        destruct IH as [Hk' Hg]. split; [exact Hk'|]. intros id. rewrite Hg.
        destruct (N.eqb id x) eqn:E.
        -- apply N.eqb_eq in E. subst id. rewrite (aget_adel_same _ _ N.eqb). rewrite Ex. cbn [orb]. rewrite El. reflexivity.
        -- assert (Hne : id <> x) by (intros ->; rewrite N.eqb_refl in E; discriminate).
           rewrite (aget_adel_other _ _ N.eqb neqb_spec) by assumption. cbn [orb]. reflexivity.
      * specialize (IH Ht (aset N.eqb x (set_rc ux (pred (nu_rc ux))) nodes) closed ok
                      (ukeys_aset _ _ N.eqb neqb_spec x _ nodes Hk)).
        destruct (unregister_all t (aset N.eqb x (set_rc ux (pred (nu_rc ux))) nodes) closed ok) as [[nodes' c'] ok'].
        destruct IH as [Hk' Hg]. split; [exact Hk'|]. intros id. rewrite Hg.
        destruct (N.eqb id x) eqn:E.
        -- apply N.eqb_eq in E. subst id. rewrite (aget_aset_same _ _ N.eqb neqb_spec). rewrite Ex.
           rewrite (Hmx x eq_refl). cbn [orb]. rewrite El. reflexivity.
        -- assert (Hne : id <> x) by (intros ->; rewrite N.eqb_refl in E; discriminate).
           rewrite (aget_aset_other _ _ N.eqb neqb_spec) by assumption. cbn [orb]. reflexivity.
    + specialize (IH Ht nodes closed false Hk).
      destruct (unregister_all t nodes closed false) as [[nodes' c'] ok'].
      destruct IH as [Hk' Hg]. split; [exact Hk'|]. intros id. rewrite Hg.
      destruct (N.eqb id x) eqn:E.
      * apply N.eqb_eq in E. subst id. rewrite Ex. reflexivity.
      * cbn [orb]. reflexivity.
Qed.

Lemma binv_graphs b g : binv b -> binv {| b_nodes := b_nodes b; b_pipes := b_pipes b; b_graphs := g |}.
Proof. intros [H1 H2 H3 H4]. constructor; cbn; auto. Qed.

Theorem binv_step cf b o : binv b -> binv (fst (fst (step cf b o))).
Proof.
  intros Hi. pose proof Hi as [Hnk Hpk Hrc Hreg]. destruct o as [id obj ty pa|id|pid ety ids pa|ety pid|ety pid]; cbn [step].
  - (* RegisterNode *)
    destruct (N.eqb id 0); [exact Hi|]. destruct (pol_of pa) as [p|]; [|exact Hi].
    assert (Hcase : forall rc0, (forall u, nget id (b_nodes b) = Some u -> rc0 = nu_rc u) ->
                    (nget id (b_nodes b) = None -> rc0 = 0) ->
                    binv {| b_nodes := aset N.eqb id {| nu_obj := obj; nu_ty := ty; nu_rc := rc0; nu_pol := p |} (b_nodes b);
                            b_pipes := b_pipes b; b_graphs := b_graphs b |}).
    { intros rc0 Hsome Hnone. constructor; cbn [b_nodes b_pipes].
      - apply (ukeys_aset _ _ N.eqb neqb_spec). exact Hnk.
      - exact Hpk.
      - intros id2 u2. destruct (N.eq_dec id2 id) as [->|Hne].
        + rewrite (aget_aset_same _ _ N.eqb neqb_spec). intros H; inversion H; subst u2. cbn [nu_rc].
          unfold listing. cbn [b_pipes]. fold (listing id b).
          destruct (nget id (b_nodes b)) as [u|] eqn:Eg.
          * rewrite (Hsome u eq_refl). apply Hrc. exact Eg.
          * rewrite (Hnone eq_refl). symmetry. apply listing_unlisted; assumption.
        + rewrite (aget_aset_other _ _ N.eqb neqb_spec) by assumption. intros H. apply (Hrc _ _ H).
      - intros k p0 id2 Hin Hm. destruct (N.eq_dec id2 id) as [->|Hne].
        + rewrite (aget_aset_same _ _ N.eqb neqb_spec). discriminate.
        + rewrite (aget_aset_other _ _ N.eqb neqb_spec) by assumption. eapply Hreg; eauto. }
    destruct (nget id (b_nodes b)) as [u|] eqn:Eg.
    + destruct (nu_pol u); [|exact Hi]. cbn [fst]. apply Hcase; [intros u0 H; inversion H; reflexivity|discriminate].
    + cbn [fst]. apply Hcase; [discriminate|reflexivity].
  - (* RemoveNode *)
    destruct (N.eqb id 0); [exact Hi|]. destruct (nget id (b_nodes b)) as [u|] eqn:Eg; [|exact Hi].
    destruct (Nat.ltb 0 (nu_rc u)) eqn:El; [exact Hi|]. cbn [fst].
    apply Nat.ltb_ge in El. assert (Hz : listing id b = 0) by (rewrite <- (Hrc _ _ Eg); lia).
    constructor; cbn [b_nodes b_pipes].
    + apply ukeys_adel. exact Hnk.
    + exact Hpk.
    + intros id2 u2. destruct (N.eq_dec id2 id) as [->|Hne].
      * rewrite (aget_adel_same _ _ N.eqb). discriminate.
      * rewrite (aget_adel_other _ _ N.eqb neqb_spec) by assumption. intros H. apply (Hrc _ _ H).
    + intros k p0 id2 Hin Hm. destruct (N.eq_dec id2 id) as [->|Hne].
      * exfalso. pose proof (asum_in (lists id) _ _ _ Hin) as Hle. unfold lists at 1 in Hle. rewrite Hm in Hle.
        unfold listing in Hz. cbn in Hle. lia.
      * rewrite (aget_adel_other _ _ N.eqb neqb_spec) by assumption. eapply Hreg; eauto.
  - (* RegisterPipeline *)
    destruct (N.eqb pid 0 || N.eqb ety 0 || match ids with [] => true | _ :: _ => false end || memN 0 ids); [exact Hi|].
    destruct (pol_of pa) as [p|]; [|exact Hi].
    set (g := if memN ety (b_graphs b) then b_graphs b else ety :: b_graphs b).
    destruct (match pget (ety, pid) (b_pipes b) with
              | Some old => match p_pol old with PDeny => true | PAllow => false end
              | None => false end); [apply binv_graphs; exact Hi|].
    destruct (resolve ids (b_nodes b)) as [objs|] eqn:Er; [|apply binv_graphs; exact Hi].
    destruct (negb (valid_shape objs)); [apply binv_graphs; exact Hi|]. cbn [fst].
    set (k := (ety, pid)). set (newp := {| p_ids := ids; p_objs := objs; p_pol := p |}).
    set (oldids := match pget k (b_pipes b) with Some old => distinct (p_ids old) | None => [] end).
    assert (Hnodes1 : match pget k (b_pipes b) with
                      | Some old => release (distinct (p_ids old)) (b_nodes b)
                      | None => b_nodes b end = fold_rc pred oldids (b_nodes b)).
    { unfold oldids. destruct (pget k (b_pipes b)); [apply release_is_fold|reflexivity]. }
    rewrite Hnodes1. rewrite retain_is_fold.
    assert (Hnd_old : NoDup oldids) by (unfold oldids; destruct (pget k (b_pipes b)); [apply NoDup_distinct|constructor]).
    assert (Hget : forall id, nget id (fold_rc S (distinct ids) (fold_rc pred oldids (b_nodes b))) =
                   match nget id (b_nodes b) with
                   | Some u => let u1 := if memN id oldids then set_rc u (pred (nu_rc u)) else u in
                               Some (if memN id (distinct ids) then set_rc u1 (S (nu_rc u1)) else u1)
                   | None => None end).
    { intros id. rewrite (fold_rc_get S _ (NoDup_distinct ids)). rewrite (fold_rc_get pred _ Hnd_old).
      destruct (nget id (b_nodes b)); reflexivity. }
    assert (Hold : forall id, b2n (memN id oldids) = wopt (lists id) (pget k (b_pipes b))).
    { intros id. unfold oldids. destruct (pget k (b_pipes b)) as [old|]; cbn [wopt]; [|reflexivity].
      unfold lists. rewrite memN_distinct. reflexivity. }
    constructor; cbn [b_nodes b_pipes].
    + apply fold_rc_ukeys. apply fold_rc_ukeys. exact Hnk.
    + apply (ukeys_aset _ _ pkeqb pkeqb_spec). exact Hpk.
    + intros id u'. rewrite Hget. destruct (nget id (b_nodes b)) as [u|] eqn:Eg; [|discriminate].
      intros H; inversion H; subst u'; clear H.
      pose proof (asum_aset _ _ pkeqb (lists id) k newp (b_pipes b) Hpk) as Hs.
      fold (listing id b) in Hs. rewrite <- (Hold id) in Hs.
      pose proof (Hrc _ _ Eg) as Hu.
      assert (Hge : b2n (memN id oldids) <= listing id b).
      { rewrite (Hold id). destruct (pget k (b_pipes b)) as [old|] eqn:Ep; cbn [wopt]; [|lia].
        apply (asum_in (lists id) _ k old). apply (aget_in _ pkeqb_spec). exact Ep. }
      unfold listing. cbn [b_pipes]. change (lists id newp) with (b2n (memN id ids)) in Hs. rewrite <- (memN_distinct id ids) in Hs.
      destruct (memN id oldids); destruct (memN id (distinct ids)); cbn [b2n nu_rc set_rc] in *; lia.
    + intros k2 p2 id Hin Hm. rewrite Hget.
      assert (Hsome : nget id (b_nodes b) <> None).
      { apply in_aset in Hin as [Heq|Hin].
        - inversion Heq; subst p2. cbn [newp p_ids] in Hm. eapply resolve_registered; eauto.
        - eapply Hreg; eauto. }
      destruct (nget id (b_nodes b)); [discriminate|contradiction].
  - (* RemovePipeline *)
    destruct (N.eqb ety 0 || N.eqb pid 0); [exact Hi|]. destruct (negb (memN ety (b_graphs b))); [exact Hi|].
    destruct (pget (ety, pid) (b_pipes b)) as [old|] eqn:Ep; [|exact Hi]. cbn [fst].
    set (k := (ety, pid)) in *. rewrite release_is_fold.
    constructor; cbn [b_nodes b_pipes].
    + apply fold_rc_ukeys. exact Hnk.
    + apply ukeys_adel. exact Hpk.
    + intros id u'. rewrite (fold_rc_get pred _ (NoDup_distinct _)). destruct (nget id (b_nodes b)) as [u|] eqn:Eg; [|discriminate].
      intros H; inversion H; subst u'; clear H.
      pose proof (asum_adel _ _ pkeqb pkeqb_spec (lists id) k (b_pipes b) Hpk) as Hs. rewrite Ep in Hs. cbn [wopt] in Hs.
      fold (listing id b) in Hs. pose proof (Hrc _ _ Eg) as Hu.
      unfold listing. cbn [b_pipes]. unfold lists at 2 in Hs. rewrite <- (memN_distinct id (p_ids old)) in Hs.
      destruct (memN id (distinct (p_ids old))); cbn [b2n nu_rc set_rc] in *; lia.
    + intros k2 p2 id Hin Hm. rewrite (fold_rc_get pred _ (NoDup_distinct _)).
      apply (in_adel _ pkeqb_spec) in Hin as [_ Hin].
      pose proof (Hreg _ _ _ Hin Hm) as Hs. destruct (nget id (b_nodes b)); [discriminate|contradiction].
  - (* RemovePipelineAndNodes *)
    destruct (N.eqb ety 0 || N.eqb pid 0); [exact Hi|]. destruct (negb (memN ety (b_graphs b))); [exact Hi|].
    destruct (pget (ety, pid) (b_pipes b)) as [old|] eqn:Ep; [|exact Hi].
    set (k := (ety, pid)) in *.
    pose proof (unregister_all_spec (distinct (p_ids old)) (NoDup_distinct _) (b_nodes b) [] true Hnk) as Hsp.
    destruct (unregister_all (distinct (p_ids old)) (b_nodes b) [] true) as [[nodes' closed] ok]. cbn [fst].
    destruct Hsp as [Hk' Hg].
    assert (Hsum : forall id, listing id b = asum (lists id) (adel pkeqb k (b_pipes b)) + b2n (memN id (distinct (p_ids old)))).
    { intros id. pose proof (asum_adel _ _ pkeqb pkeqb_spec (lists id) k (b_pipes b) Hpk) as Hs. rewrite Ep in Hs. cbn [wopt] in Hs.
      unfold lists at 2 in Hs. rewrite memN_distinct. unfold listing. lia. }
    constructor; cbn [b_nodes b_pipes].
    + exact Hk'.
    + apply ukeys_adel. exact Hpk.
    + intros id u'. rewrite Hg. destruct (nget id (b_nodes b)) as [u|] eqn:Eg; [|discriminate].
      pose proof (Hrc _ _ Eg) as Hu. specialize (Hsum id). unfold listing. cbn [b_pipes]. fold (listing id b) in Hsum.
      destruct (memN id (distinct (p_ids old))); cbn [b2n] in Hsum.
      * destruct (Nat.leb (nu_rc u) 1) eqn:El; [discriminate|]. intros H; inversion H; subst u'. cbn [nu_rc set_rc].
        apply Nat.leb_gt in El. lia.
      * intros H; inversion H; subst u'. lia.
    + intros k2 p2 id Hin Hm. rewrite Hg.
      pose proof (asum_in (lists id) _ _ _ Hin) as Hle. unfold lists at 1 in Hle. rewrite Hm in Hle. cbn [b2n] in Hle.
      apply (in_adel _ pkeqb_spec) in Hin as [_ Hin].
      pose proof (Hreg _ _ _ Hin Hm) as Hs. destruct (nget id (b_nodes b)) as [u|] eqn:Eg; [|contradiction].
      pose proof (Hrc _ _ Eg) as Hu. specialize (Hsum id).
      destruct (memN id (distinct (p_ids old))); cbn [b2n] in Hsum; [|discriminate].
      destruct (Nat.leb (nu_rc u) 1) eqn:El; [|discriminate]. apply Nat.leb_le in El. lia.
Qed.

(* every history *)
Definition run (cf : N -> bool) (ops : list op) : broker := fold_left (fun b o => fst (fst (step cf b o))) ops b0.

Lemma binv_fold cf ops : forall b, binv b -> binv (fold_left (fun b o => fst (fst (step cf b o))) ops b).
Proof.
  induction ops as [|o t IH]; intros b Hb; cbn [fold_left]; [exact Hb|]. apply IH. apply binv_step. exact Hb.
Qed.
Lemma binv_run cf ops : binv (run cf ops).
Proof. apply binv_fold. apply binv_b0. Qed.

Theorem rc_exact cf ops id u : nget id (b_nodes (run cf ops)) = Some u -> nu_rc u = listing id (run cf ops).
Proof. intros H. apply (bi_rc _ (binv_run cf ops)). exact H. Qed.

(* C06 corollaries: a node is "in use" exactly when some registered pipeline lists it ... *)
Theorem in_use_iff cf ops id u : nget id (b_nodes (run cf ops)) = Some u ->
  (0 < nu_rc u <-> exists k p, In (k, p) (b_pipes (run cf ops)) /\ memN id (p_ids p) = true).
Proof.
  intros H. rewrite (rc_exact _ _ _ _ H). unfold listing. split.
  - intros Hpos. induction (b_pipes (run cf ops)) as [|[k p] t IH]; cbn in Hpos; [lia|].
    unfold lists at 1 in Hpos. destruct (memN id (p_ids p)) eqn:E.
    + exists k, p. split; [left; reflexivity|exact E].
    + cbn in Hpos. destruct (IH Hpos) as [k2 [p2 [Hin Hm]]]. exists k2, p2. split; [right; exact Hin|exact Hm].
  - intros [k [p [Hin Hm]]]. pose proof (asum_in (lists id) _ _ _ Hin) as Hle. unfold lists at 1 in Hle. rewrite Hm in Hle. cbn in Hle. lia.
Qed.

(* ... so nothing stays pinned: RemoveNode succeeds on every registered node no pipeline lists *)
Theorem nothing_pinned cf ops id u : id <> 0%N -> nget id (b_nodes (run cf ops)) = Some u ->
  (forall k p, In (k, p) (b_pipes (run cf ops)) -> memN id (p_ids p) = false) ->
  snd (fst (step cf (run cf ops) (RemoveNode id))) <> RInUse /\ snd (step cf (run cf ops) (RemoveNode id)) = [nu_obj u].
Proof.
  intros Hid H Hno. cbn [step]. apply N.eqb_neq in Hid. rewrite Hid, H.
  assert (Hz : nu_rc u = 0).
  { rewrite (rc_exact _ _ _ _ H). apply asum_zero. intros k p Hin. unfold lists. rewrite (Hno k p Hin). reflexivity. }
  rewrite Hz. cbn. split; [destruct (cf (nu_obj u)); discriminate|reflexivity].
Qed.

Print Assumptions rc_exact.
Print Assumptions nothing_pinned.

(* ================= C05: the acceptance predicate, and "a refused call changes nothing" ================= *)
Lemma valid_shape_spec objs :
  valid_shape objs = true <->
  exists pre p l, objs = pre ++ [p; l] /\ is_fmt (snd p) = true /\ is_sink (snd l) = true.
Proof.
  unfold valid_shape. split.
  - destruct (rev objs) as [|[lo lt] [|[po pt] rest]] eqn:Er; try discriminate.
    intros H. apply andb_prop in H as [Hs Hf].
    exists (rev rest), (po, pt), (lo, lt). split; [|split; assumption].
    rewrite <- (rev_involutive objs), Er. cbn [rev]. rewrite <- app_assoc. reflexivity.
  - intros [pre [[po pt] [[lo lt] [-> [Hf Hs]]]]]. rewrite rev_app_distr. cbn [rev app]. cbn in Hf, Hs. rewrite Hs, Hf. reflexivity.
Qed.

Definition denied_by_existing (b : broker) (ety pid : N) : Prop :=
  exists old, pget (ety, pid) (b_pipes b) = Some old /\ p_pol old = PDeny.

(* the statement of C05, transcribed: what a definition must satisfy to be registered *)
Definition wf_spec (b : broker) (pid ety : N) (ids : list N) (pa : polarg) : Prop :=
  pid <> 0%N /\ ety <> 0%N /\ ids <> [] /\ ~ In 0%N ids /\ pol_of pa <> None /\
  ~ denied_by_existing b ety pid /\
  exists objs, resolve ids (b_nodes b) = Some objs /\            (* every listed node is registered *)
    exists pre p l, objs = pre ++ [p; l] /\                     (* at least two nodes *)
      is_fmt (snd p) = true /\ is_sink (snd l) = true.          (* ... formatter(-filter) then sink at the end *)

Theorem register_pipeline_ok_iff cf b pid ety ids pa :
  snd (fst (step cf b (RegisterPipeline pid ety ids pa))) = ROk <-> wf_spec b pid ety ids pa.
Proof.
  cbn [step]. unfold wf_spec, denied_by_existing.
  destruct (N.eqb pid 0) eqn:E1; cbn [orb].
  { apply N.eqb_eq in E1. split; [discriminate|]. intros [H _]. contradiction. }
  destruct (N.eqb ety 0) eqn:E2; cbn [orb].
  { apply N.eqb_eq in E2. split; [discriminate|]. intros [_ [H _]]. contradiction. }
  destruct ids as [|i0 it]; cbn [orb].
  { split; [discriminate|]. intros [_ [_ [H _]]]. contradiction. }
  assert (E0 : i0 :: it <> []) by discriminate.
  remember (i0 :: it) as ids eqn:Eids. clear Eids.
  destruct (memN 0 ids) eqn:E3.
  { apply memN_In in E3. split; [discriminate|]. intros [_ [_ [_ [H _]]]]. contradiction. }
  apply N.eqb_neq in E1, E2.
  assert (E3' : ~ In 0%N ids) by (intros H; apply memN_In in H; congruence).
  destruct (pol_of pa) as [p|] eqn:Ep.
  2:{ cbn. split; [discriminate|]. intros [_ [_ [_ [_ [H _]]]]]. contradiction. }
  destruct (pget (ety, pid) (b_pipes b)) as [old|] eqn:Eo.
  - destruct (p_pol old) eqn:Epol.
    + (* allow *)
      destruct (resolve ids (b_nodes b)) as [objs|] eqn:Er.
      * destruct (valid_shape objs) eqn:Ev; cbn [negb fst snd].
        -- split; [intros _|reflexivity]. repeat (split; [assumption || discriminate|]).
           split; [intros [o [Ho Hp]]; inversion Ho; subst; congruence|].
           exists objs. split; [reflexivity|]. apply valid_shape_spec. exact Ev.
        -- split; [discriminate|]. intros [_ [_ [_ [_ [_ [_ [o [Ho Hs]]]]]]]]. inversion Ho; subst o.
           apply valid_shape_spec in Hs. congruence.
      * cbn. split; [discriminate|]. intros [_ [_ [_ [_ [_ [_ [o [Ho _]]]]]]]]. discriminate.
    + (* deny *) cbn. split; [discriminate|]. intros [_ [_ [_ [_ [_ [Hd _]]]]]]. exfalso. apply Hd. exists old. auto.
  - destruct (resolve ids (b_nodes b)) as [objs|] eqn:Er.
    + destruct (valid_shape objs) eqn:Ev; cbn [negb fst snd].
      * split; [intros _|reflexivity]. repeat (split; [assumption || discriminate|]).
        split; [intros [o [Ho _]]; discriminate|].
        exists objs. split; [reflexivity|]. apply valid_shape_spec. exact Ev.
      * split; [discriminate|]. intros [_ [_ [_ [_ [_ [_ [o [Ho Hs]]]]]]]]. inversion Ho; subst o.
        apply valid_shape_spec in Hs. congruence.
    + cbn. split; [discriminate|]. intros [_ [_ [_ [_ [_ [_ [o [Ho _]]]]]]]]. discriminate.
Qed.

(* a refused call leaves the registered nodes (objects, policies, counts) and the registered pipelines as they were *)
Definition refused (o : op) (r : rclass) : Prop :=
  match o with
  | RemoveNode _ | RemovePipelineAndNodes _ _ => r <> ROk /\ r <> RCloseErr   (* a close error is a completed removal *)
  | _ => r <> ROk
  end.

Theorem refusal_frame cf b o :
  refused o (snd (fst (step cf b o))) ->
  b_nodes (fst (fst (step cf b o))) = b_nodes b /\ b_pipes (fst (fst (step cf b o))) = b_pipes b /\
  snd (step cf b o) = [].
Proof.
  destruct o as [id obj ty pa|id|pid ety ids pa|ety pid|ety pid]; cbn [step refused].
  - destruct (N.eqb id 0); [auto|]. destruct (pol_of pa); [|auto].
    destruct (nget id (b_nodes b)) as [u|]; [destruct (nu_pol u)|]; cbn; intros H; auto; congruence.
  - destruct (N.eqb id 0); [auto|]. destruct (nget id (b_nodes b)) as [u|]; [|auto].
    destruct (Nat.ltb 0 (nu_rc u)); [auto|]. cbn. destruct (cf (nu_obj u)); intros [H1 H2]; congruence.
  - destruct (_ || _ || _ || _); [auto|]. destruct (pol_of pa); [|auto].
    destruct (match pget (ety, pid) (b_pipes b) with Some old => _ | None => false end); [cbn; auto|].
    destruct (resolve ids (b_nodes b)); [|cbn; auto]. destruct (negb (valid_shape l)); cbn; [auto|]. congruence.
  - destruct (_ || _); [auto|]. destruct (negb _); [auto|]. destruct (pget (ety, pid) (b_pipes b)); cbn; [congruence|auto].
  - destruct (_ || _); [auto|]. destruct (negb _); [auto|]. destruct (pget (ety, pid) (b_pipes b)) as [old|]; [|cbn; auto].
    destruct (unregister_all _ _ _ _) as [[n c] ok]. cbn. destruct (ok && negb (existsb cf c)); intros [H1 H2]; congruence.
Qed.

Print Assumptions register_pipeline_ok_iff.
Print Assumptions refusal_frame.
