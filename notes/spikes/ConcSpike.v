(* Spike: one Send ranging over the pipelines of its event type while registrations, overwrites and removals
   of other callers interleave with it (sync.Map.Range contract: every key is decided once, at some instant
   during the call, by reading the mapping current at that instant).
   Proved for every interleaving: at most one visit per pipeline id; a pipeline untouched during the Send
   is visited exactly once with its version / never if absent; an overwritten pipeline is visited in exactly
   one of its versions. *)
From Coq Require Import List Bool Arith NArith Lia.
Import ListNotations.

Definition pmap := N -> option N.            (* pipeline id -> registered version *)
Definition pset (m : pmap) (k : N) (v : option N) : pmap := fun x => if N.eqb x k then v else m x.

Inductive label :=
| EnvStore (k v : N)      (* RegisterPipeline by another goroutine (single Store) *)
| EnvDelete (k : N)       (* RemovePipeline / RemovePipelineAndNodes *)
| Visit (k : N).          (* the Range of this Send decides key k now *)

Record st := { pipes : pmap; pending : list N; visited : list (N * N) }.

Fixpoint remove_key (k : N) (l : list N) : list N :=
  match l with [] => [] | x :: t => if N.eqb x k then remove_key k t else x :: remove_key k t end.

Inductive step : st -> label -> st -> Prop :=
| SStore s k v : step s (EnvStore k v) {| pipes := pset (pipes s) k (Some v); pending := pending s; visited := visited s |}
| SDelete s k : step s (EnvDelete k) {| pipes := pset (pipes s) k None; pending := pending s; visited := visited s |}
| SVisit s k : In k (pending s) ->
    step s (Visit k) {| pipes := pipes s; pending := remove_key k (pending s);
                        visited := match pipes s k with Some v => visited s ++ [(k, v)] | None => visited s end |}.

Inductive steps : st -> list label -> st -> Prop :=
| Steps0 s : steps s [] s
| StepsS s l s1 ls s2 : step s l s1 -> steps s1 ls s2 -> steps s (l :: ls) s2.

Definition touches (k : N) (l : label) : Prop :=
  match l with EnvStore k' _ | EnvDelete k' => k' = k | Visit _ => False end.

Lemma in_remove_key k x l : In x (remove_key k l) <-> In x l /\ x <> k.
Proof.
  induction l as [|y t IH]; cbn; [tauto|]. destruct (N.eqb y k) eqn:E.
  - apply N.eqb_eq in E. subst. rewrite IH. split; [tauto|]. intros [[->|H] Hn]; [congruence|tauto].
  - apply N.eqb_neq in E. cbn. rewrite IH. split; [intros [->|[H Hn]]; tauto|intros [[->|H] Hn]; tauto].
Qed.

(* invariant: a key is either still pending or already decided, never both; decided keys were visited at most once *)
Definition inv (s : st) : Prop :=
  NoDup (map fst (visited s)) /\ forall k, In k (map fst (visited s)) -> ~ In k (pending s).

Lemma inv_step s l s' : inv s -> step s l s' -> inv s'.
Proof.
  intros [Hnd Hdis] H. unfold inv. destruct H as [s k v|s k|s k Hin]; cbn [pipes pending visited]; try (split; assumption).
  destruct (pipes s k) as [v|] eqn:Ep.
  - split.
    + rewrite map_app. cbn.
      assert (Hk : ~ In k (map fst (visited s))) by (intros Hx; exact (Hdis k Hx Hin)).
      clear - Hnd Hk. induction (map fst (visited s)) as [|x t IH]; cbn; [constructor; [intros []|constructor]|].
      inversion Hnd; subst. constructor.
      * intros Hx. apply in_app_or in Hx as [Hx|[Hx|[]]]; [contradiction|subst; apply Hk; left; reflexivity].
      * apply IH; [assumption|]. intros Hx. apply Hk. right. exact Hx.
    + intros k0 Hk0 Hp. apply in_remove_key in Hp as [Hp Hne]. rewrite map_app in Hk0. apply in_app_or in Hk0 as [Hk0|[Hk0|[]]].
      * exact (Hdis k0 Hk0 Hp).
      * cbn in Hk0. congruence.
  - split; [exact Hnd|]. intros k0 Hk0 Hp. apply in_remove_key in Hp as [Hp _]. exact (Hdis k0 Hk0 Hp).
Qed.

Lemma inv_steps s ls s' : inv s -> steps s ls s' -> inv s'.
Proof. intros Hi H. induction H; [exact Hi|]. apply IHsteps. eapply inv_step; eauto. Qed.

Definition start (m : pmap) (keys : list N) : st := {| pipes := m; pending := keys; visited := [] |}.

(* C04/C07: whatever other callers do meanwhile, one Send visits a pipeline id at most once *)
Theorem at_most_once m keys ls s : steps (start m keys) ls s -> NoDup (map fst (visited s)).
Proof.
  intros H. assert (Hi : inv (start m keys)) by (split; [constructor|intros k []]).
  exact (proj1 (inv_steps _ _ _ Hi H)).
Qed.

(* a key nobody touches during the Send keeps its mapping *)
Lemma untouched_pipes s ls s' k : steps s ls s' -> (forall l, In l ls -> ~ touches k l) -> pipes s' k = pipes s k.
Proof.
  intros H. induction H as [|s l s1 ls s2 Hs _ IH]; intros Hu; [reflexivity|].
  rewrite IH by (intros l0 Hl0; apply Hu; right; exact Hl0).
  assert (Hl : ~ touches k l) by (apply Hu; left; reflexivity).
  destruct Hs; cbn [pipes]; try reflexivity; unfold pset; destruct (N.eqb k k0) eqn:E; try reflexivity;
    apply N.eqb_eq in E; subst; exfalso; apply Hl; reflexivity.
Qed.

(* decided keys stay decided; a pending key that is no longer pending at the end was decided by a Visit *)
Lemma visited_grows s ls s' x : steps s ls s' -> In x (visited s) -> In x (visited s').
Proof.
  intros H. induction H as [|s l s1 ls s2 Hs _ IH]; intros Hx; [exact Hx|]. apply IH.
  destruct Hs; cbn [visited]; try exact Hx. destruct (pipes s k); [apply in_or_app; left|]; exact Hx.
Qed.

(* registered (with version v) before the Send started and not touched until it ended: visited, with v *)
Theorem stable_present_visited m keys ls s k v :
  steps (start m keys) ls s -> pending s = [] -> In k keys -> m k = Some v ->
  (forall l, In l ls -> ~ touches k l) -> In (k, v) (visited s).
Proof.
  intros H. remember (start m keys) as s0 eqn:E0.
  assert (Hgen : forall s0 ls s, steps s0 ls s -> pending s = [] -> In k (pending s0) -> pipes s0 k = Some v ->
                 (forall l, In l ls -> ~ touches k l) -> In (k, v) (visited s)).
  { clear. intros s0 ls s H. induction H as [s|s l s1 ls s2 Hs Hrest IH]; intros Hend Hin Hm Hu.
    - rewrite Hend in Hin. contradiction.
    - assert (Hl : ~ touches k l) by (apply Hu; left; reflexivity).
      assert (Hu' : forall l0, In l0 ls -> ~ touches k l0) by (intros l0 Hl0; apply Hu; right; exact Hl0).
      destruct Hs as [s k0 v0|s k0|s k0 Hk0].
      + apply IH; auto. cbn [pipes]. unfold pset. destruct (N.eqb k k0) eqn:E; [|exact Hm].
        apply N.eqb_eq in E. subst. exfalso. apply Hl. reflexivity.
      + apply IH; auto. cbn [pipes]. unfold pset. destruct (N.eqb k k0) eqn:E; [|exact Hm].
        apply N.eqb_eq in E. subst. exfalso. apply Hl. reflexivity.
      + destruct (N.eq_dec k0 k) as [->|Hne].
        * (* this is the visit of k: it sees v *)
          eapply visited_grows; [exact Hrest|]. cbn [visited]. rewrite Hm. apply in_or_app. right. left. reflexivity.
        * apply IH; auto. cbn [pending]. apply in_remove_key. split; [exact Hin|congruence]. }
  intros Hend Hin Hm Hu. subst s0. eapply Hgen; eauto.
Qed.

(* ... and exactly once *)
Corollary stable_present_exactly_once m keys ls s k v :
  steps (start m keys) ls s -> pending s = [] -> In k keys -> m k = Some v ->
  (forall l, In l ls -> ~ touches k l) ->
  In (k, v) (visited s) /\ NoDup (map fst (visited s)).
Proof. intros. split; [eapply stable_present_visited; eauto|eapply at_most_once; eauto]. Qed.

(* removed before the Send started and not re-registered until it ended: never visited *)
Theorem stable_absent_not_visited m keys ls s k :
  steps (start m keys) ls s -> m k = None -> (forall l, In l ls -> ~ touches k l) -> ~ In k (map fst (visited s)).
Proof.
  intros H. remember (start m keys) as s0 eqn:E0.
  assert (Hgen : forall s0 ls s, steps s0 ls s -> pipes s0 k = None -> ~ In k (map fst (visited s0)) ->
                 (forall l, In l ls -> ~ touches k l) -> ~ In k (map fst (visited s))).
  { clear. intros s0 ls s H. induction H as [s|s l s1 ls s2 Hs Hrest IH]; intros Hm Hnv Hu; [exact Hnv|].
    assert (Hl : ~ touches k l) by (apply Hu; left; reflexivity).
    apply IH; [| |intros l0 Hl0; apply Hu; right; exact Hl0].
    - destruct Hs; cbn [pipes]; try exact Hm; unfold pset; destruct (N.eqb k k0) eqn:E; try exact Hm;
        apply N.eqb_eq in E; subst; exfalso; apply Hl; reflexivity.
    - destruct Hs as [s k0 v0|s k0|s k0 Hk0]; cbn [visited]; try exact Hnv.
      destruct (pipes s k0) as [v0|] eqn:Ep; [|exact Hnv]. rewrite map_app. cbn. intros Hx.
      apply in_app_or in Hx as [Hx|[Hx|[]]]; [exact (Hnv Hx)|]. subst k0. congruence. }
  intros Hm Hu. subst s0. eapply Hgen; eauto.
Qed.

(* C07: a pipeline that is only ever overwritten (never deleted) during the Send is visited, in exactly one version *)
Definition never_deleted (k : N) (ls : list label) : Prop := forall l, In l ls -> l <> EnvDelete k.

Theorem overwritten_exactly_one_version m keys ls s k v0 :
  steps (start m keys) ls s -> pending s = [] -> In k keys -> m k = Some v0 -> never_deleted k ls ->
  (exists v, In (k, v) (visited s)) /\ NoDup (map fst (visited s)).
Proof.
  intros H Hend Hin Hm Hnd. split; [|eapply at_most_once; eauto].
  remember (start m keys) as s0 eqn:E0.
  assert (Hgen : forall s0 ls s, steps s0 ls s -> pending s = [] -> In k (pending s0) -> (exists v, pipes s0 k = Some v) ->
                 never_deleted k ls -> exists v, In (k, v) (visited s)).
  { clear. intros s0 ls s H. induction H as [s|s l s1 ls s2 Hs Hrest IH]; intros Hend Hin [v Hm] Hnd.
    - rewrite Hend in Hin. contradiction.
    - assert (Hnd' : never_deleted k ls) by (intros l0 Hl0; apply Hnd; right; exact Hl0).
      destruct Hs as [s k0 v1|s k0|s k0 Hk0].
      + apply IH; auto. cbn [pipes]. unfold pset. destruct (N.eqb k k0); eauto.
      + apply IH; auto. cbn [pipes]. unfold pset. destruct (N.eqb k k0) eqn:E; eauto.
        apply N.eqb_eq in E. subst. exfalso. apply (Hnd (EnvDelete k0)); [left|]; reflexivity.
      + destruct (N.eq_dec k0 k) as [->|Hne].
        * exists v. eapply visited_grows; [exact Hrest|]. cbn [visited]. rewrite Hm. apply in_or_app. right. left. reflexivity.
        * apply IH; eauto. cbn [pending]. apply in_remove_key. split; [exact Hin|congruence]. }
  subst s0. eapply Hgen; eauto.
Qed.

Print Assumptions stable_present_exactly_once.
Print Assumptions stable_absent_not_visited.
Print Assumptions overwritten_exactly_one_version.
