(* Spike: the Send dispatch protocol as an inductive step relation, with the termination measure,
   the invariants, progress (no deadlock), prompt return on cancel and "no goroutine left" proved
   for any number of pipelines / nodes and any schedule. *)
From Coq Require Import List Bool Arith NArith Lia Permutation.
Import ListNotations.

Inductive outcome := OPass (e : N) | ODrop | OErr (err : N).
Record node := { nid : N; nsink : bool }.

Inductive msg := MWarn (err : N) | MComplete (n : N) (sink : bool).
Inductive stage := SRun | SSend (m : msg) | SDone (m : option msg).   (* SDone remembers what was (to be) sent *)
Record task := { tpipe : N; tnodes : list node; tev : N; tstage : stage; troot : bool;
                 tall : list node;          (* ghost: the pipeline's full node list *)
                 tcalls : list (N * N) }.   (* ghost: Process calls made so far: (node id, input event) *)

Inductive ranger := RRange (roots : list (N * list node)) | RInRoot (roots : list (N * list node)) | RWait | RClosed.

Record st := {
  ctx : bool;
  coll : option (list msg);          (* Some acc: still collecting; None: Send has returned *)
  result : option (list msg * bool);
  rng : ranger;
  tasks : list task;
  wg : nat;
}.

Section Dispatch.
  (* environment: what a node returns for an input event *)
  Variable beh : N -> N -> outcome.

  Definition resume (r : ranger) : ranger := match r with RInRoot rest => RRange rest | r => r end.

  Fixpoint upd_nth {A} (n : nat) (x : A) (l : list A) : list A :=
    match l, n with
    | [], _ => []
    | _ :: t, O => x :: t
    | y :: t, S k => y :: upd_nth k x t
    end.

  Definition set_task (t : task) (ns : list node) (e : N) (sg : stage) (r : bool) : task :=
    {| tpipe := tpipe t; tnodes := ns; tev := e; tstage := sg; troot := r; tall := tall t; tcalls := tcalls t |}.
  Definition called (t : task) (n : node) : task :=
    {| tpipe := tpipe t; tnodes := tnodes t; tev := tev t; tstage := tstage t; troot := troot t; tall := tall t;
       tcalls := tcalls t ++ [(nid n, tev t)] |}.

  (* result of the current node of a running task *)
  Definition node_return (t : task) (n : node) (rest : list node) : task :=
    let tc := called t n in
    match beh (nid n) (tev t) with
    | OErr e => set_task tc (n :: rest) (tev t) (SSend (MWarn e)) (troot t)
    | ODrop => set_task tc (n :: rest) (tev t) (SSend (MComplete (nid n) (nsink n))) (troot t)
    | OPass e' =>
        match rest with
        | [] => set_task tc [n] (tev t) (SSend (MComplete (nid n) (nsink n))) (troot t)
        | _ => set_task tc rest e' SRun false
        end
    end.

  Definition leaves_root (t t' : task) : bool := troot t && negb (troot t').

  Inductive step : st -> st -> Prop :=
  | StCancel s : ctx s = false ->
      step s {| ctx := true; coll := coll s; result := result s; rng := rng s; tasks := tasks s; wg := wg s |}
  | StRangeEnd s : rng s = RRange [] ->
      step s {| ctx := ctx s; coll := coll s; result := result s; rng := RWait; tasks := tasks s; wg := wg s |}
  | StRangeStop s p ns rest : rng s = RRange ((p, ns) :: rest) -> ctx s = true ->
      step s {| ctx := ctx s; coll := coll s; result := result s; rng := RWait; tasks := tasks s; wg := wg s |}
  | StRangeStart s p ns rest : rng s = RRange ((p, ns) :: rest) -> ctx s = false -> ns <> [] ->
      step s {| ctx := ctx s; coll := coll s; result := result s; rng := RInRoot rest;
                tasks := tasks s ++ [ {| tpipe := p; tnodes := ns; tev := 0%N; tstage := SRun; troot := true; tall := ns; tcalls := [] |} ];
                wg := S (wg s) |}
  | StNode s i t n rest : nth_error (tasks s) i = Some t -> tstage t = SRun -> tnodes t = n :: rest ->
      let t' := node_return t n rest in
      step s {| ctx := ctx s; coll := coll s; result := result s;
                rng := if leaves_root t t' then resume (rng s) else rng s;
                tasks := upd_nth i t' (tasks s); wg := wg s |}
  | StHandoff s i t m acc : nth_error (tasks s) i = Some t -> tstage t = SSend m -> coll s = Some acc ->
      step s {| ctx := ctx s; coll := Some (acc ++ [m]); result := result s;
                rng := if troot t then resume (rng s) else rng s;
                tasks := upd_nth i (set_task t (tnodes t) (tev t) (SDone (Some m)) false) (tasks s); wg := pred (wg s) |}
  | StAbort s i t m : nth_error (tasks s) i = Some t -> tstage t = SSend m -> ctx s = true ->
      step s {| ctx := ctx s; coll := coll s; result := result s;
                rng := if troot t then resume (rng s) else rng s;
                tasks := upd_nth i (set_task t (tnodes t) (tev t) (SDone None) false) (tasks s); wg := pred (wg s) |}
  | StCollCancel s acc : coll s = Some acc -> ctx s = true ->
      step s {| ctx := ctx s; coll := None; result := Some (acc, true); rng := rng s; tasks := tasks s; wg := wg s |}
  | StClose s : rng s = RWait -> wg s = 0 ->
      step s {| ctx := ctx s; coll := coll s; result := result s; rng := RClosed; tasks := tasks s; wg := wg s |}
  | StCollClosed s acc : coll s = Some acc -> rng s = RClosed ->
      step s {| ctx := ctx s; coll := None; result := Some (acc, ctx s); rng := rng s; tasks := tasks s; wg := wg s |}.

  Definition init (roots : list (N * list node)) (cancelled : bool) : st :=
    {| ctx := cancelled; coll := Some []; result := None; rng := RRange roots; tasks := []; wg := 0 |}.

  Inductive reach (roots : list (N * list node)) (c0 : bool) : st -> Prop :=
  | ReachInit : reach roots c0 (init roots c0)
  | ReachStep s s' : reach roots c0 s -> step s s' -> reach roots c0 s'.

  (* ---------- measure ---------- *)
  Definition tweight (t : task) : nat :=
    match tstage t with
    | SRun => 2 * length (tnodes t) + 1
    | SSend _ => 1
    | SDone _ => 0
    end.
  Definition sumw (l : list task) : nat := fold_right (fun t a => tweight t + a) 0 l.
  Definition rootsw (roots : list (N * list node)) : nat :=
    fold_right (fun r a => 2 * length (snd r) + 2 + a) 0 roots.
  Definition rweight (r : ranger) : nat :=
    match r with
    | RRange roots | RInRoot roots => rootsw roots + 2
    | RWait => 1
    | RClosed => 0
    end.
  Definition measure (s : st) : nat :=
    (if ctx s then 0 else 1) + (match coll s with Some _ => 1 | None => 0 end) + rweight (rng s) + sumw (tasks s).

  Lemma sumw_app l1 l2 : sumw (l1 ++ l2) = sumw l1 + sumw l2.
  Proof. induction l1 as [|t l1 IH]; cbn; [reflexivity|]. unfold sumw in *. cbn. rewrite IH. lia. Qed.

  Lemma sumw_upd l i t t' : nth_error l i = Some t ->
    sumw (upd_nth i t' l) + tweight t = sumw l + tweight t'.
  Proof.
    revert i; induction l as [|x l IH]; intros [|i] H; cbn in *; try discriminate.
    - inversion H; subst. unfold sumw; cbn. lia.
    - specialize (IH _ H). unfold sumw in *; cbn. lia.
  Qed.

  Lemma rootsw_cons p ns rest : rootsw ((p, ns) :: rest) = 2 * length ns + 2 + rootsw rest.
  Proof. reflexivity. Qed.

  Lemma rweight_resume r : rweight (resume r) = rweight r.
  Proof. destruct r; reflexivity. Qed.

  Lemma node_return_weight t n rest : tstage t = SRun -> tnodes t = n :: rest ->
    tweight (node_return t n rest) < tweight t.
  Proof.
    intros Hs Hn. unfold node_return, tweight. rewrite Hs, Hn.
    destruct (beh (nid n) (tev t)); cbn; try lia.
    destruct rest; cbn; lia.
  Qed.

  Theorem step_measure s s' : step s s' -> measure s' < measure s.
  Proof.
    intros H. destruct H; unfold measure; cbn [ctx coll result rng tasks wg].
    - rewrite H. lia.
    - rewrite H. cbn [rweight rootsw fold_right]. lia.
    - rewrite H. cbn [rweight]. rewrite rootsw_cons. lia.
    - rewrite H, H0. rewrite sumw_app. cbn [rweight]. rewrite rootsw_cons.
      cbn [sumw fold_right tweight tstage tnodes]. lia.
    - pose proof (sumw_upd _ _ _ t' H) as Hu. pose proof (node_return_weight t n rest H0 H1) as Hw.
      fold t' in Hw. assert (Hr : rweight (if leaves_root t t' then resume (rng s) else rng s) = rweight (rng s))
        by (destruct (leaves_root t t'); [apply rweight_resume|reflexivity]).
      rewrite Hr. lia.
    - pose proof (sumw_upd _ _ _ (set_task t (tnodes t) (tev t) (SDone (Some m)) false) H) as Hu.
      assert (Hw1 : tweight (set_task t (tnodes t) (tev t) (SDone (Some m)) false) = 0) by reflexivity.
      assert (Hw2 : tweight t = 1) by (unfold tweight; rewrite H0; reflexivity).
      assert (Hr : rweight (if troot t then resume (rng s) else rng s) = rweight (rng s))
        by (destruct (troot t); [apply rweight_resume|reflexivity]).
      rewrite Hr, H1. lia.
    - pose proof (sumw_upd _ _ _ (set_task t (tnodes t) (tev t) (SDone None) false) H) as Hu.
      assert (Hw1 : tweight (set_task t (tnodes t) (tev t) (SDone None) false) = 0) by reflexivity.
      assert (Hw2 : tweight t = 1) by (unfold tweight; rewrite H0; reflexivity).
      assert (Hr : rweight (if troot t then resume (rng s) else rng s) = rweight (rng s))
        by (destruct (troot t); [apply rweight_resume|reflexivity]).
      rewrite Hr. lia.
    - rewrite H. lia.
    - rewrite H. cbn [rweight]. lia.
    - rewrite H. lia.
  Qed.

  (* every execution is finite: at most [measure] steps *)
  Inductive steps : nat -> st -> st -> Prop :=
  | Steps0 s : steps 0 s s
  | StepsS n s s' s'' : step s s' -> steps n s' s'' -> steps (S n) s s''.

  Theorem executions_bounded n s s' : steps n s s' -> n + measure s' <= measure s.
  Proof.
    induction 1 as [|n s s' s'' H1 H2 IH]; [lia|].
    pose proof (step_measure _ _ H1). lia.
  Qed.

  (* ---------- invariants ---------- *)
  Definition live (t : task) : bool := match tstage t with SDone _ => false | _ => true end.
  Definition liveroot (t : task) : bool := live t && troot t.
  Definition b2n (b : bool) : nat := if b then 1 else 0.
  Fixpoint count (f : task -> bool) (l : list task) : nat :=
    match l with [] => 0 | t :: r => b2n (f t) + count f r end.

  Lemma count_app f l1 l2 : count f (l1 ++ l2) = count f l1 + count f l2.
  Proof. induction l1 as [|t l1 IH]; cbn; [reflexivity|]. rewrite IH. lia. Qed.

  Lemma count_upd f l i t t' : nth_error l i = Some t ->
    count f (upd_nth i t' l) + b2n (f t) = count f l + b2n (f t').
  Proof.
    revert i; induction l as [|x l IH]; intros [|i] H; cbn in *; try discriminate.
    - inversion H; subst. lia.
    - specialize (IH _ H). lia.
  Qed.

  Lemma count_zero f l : count f l = 0 -> forall t, In t l -> f t = false.
  Proof.
    induction l as [|x l IH]; cbn; intros Hc t Hin; [contradiction|].
    destruct Hin as [->|Hin].
    - destruct (f t); cbn in Hc; [lia|reflexivity].
    - apply IH; [lia|assumption].
  Qed.

  Lemma In_upd {A} (l : list A) i x y : In y (upd_nth i x l) -> y = x \/ In y l.
  Proof.
    revert i; induction l as [|z l IH]; intros [|i]; cbn; intros H; auto.
    - destruct H as [<-|H]; auto.
    - destruct H as [<-|H]; auto. destruct (IH _ H); auto.
  Qed.

  Definition roots_of (r : ranger) : list (N * list node) :=
    match r with RRange l | RInRoot l => l | _ => [] end.

  Record inv (s : st) : Prop := {
    inv_wg : wg s = count live (tasks s);
    inv_root : count liveroot (tasks s) = match rng s with RInRoot _ => 1 | _ => 0 end;
    inv_coll : coll s = None -> ctx s = true \/ (rng s = RClosed /\ count live (tasks s) = 0);
    inv_closed : rng s = RClosed -> count live (tasks s) = 0;
    inv_nodes : forall t, In t (tasks s) -> tstage t = SRun -> tnodes t <> [];
    inv_roots : forall r, In r (roots_of (rng s)) -> snd r <> [];
  }.

  Lemma inv_init roots c0 : (forall r, In r roots -> snd r <> []) -> inv (init roots c0).
  Proof.
    intros Hr. constructor; cbn; auto; try discriminate; try contradiction.
  Qed.

  Lemma node_return_live t n rest : live (node_return t n rest) = true.
  Proof. unfold node_return. destruct (beh (nid n) (tev t)); try reflexivity. destruct rest; reflexivity. Qed.

  Lemma node_return_nodes t n rest : tstage (node_return t n rest) = SRun -> tnodes (node_return t n rest) <> [].
  Proof.
    unfold node_return. destruct (beh (nid n) (tev t)); cbn; try discriminate.
    destruct rest; cbn; [discriminate|]. intros _. discriminate.
  Qed.

  Lemma node_return_root t n rest :
    troot (node_return t n rest) = true -> troot t = true.
  Proof. unfold node_return. destruct (beh (nid n) (tev t)); cbn; auto. destruct rest; cbn; auto. discriminate. Qed.

  Lemma resume_roots r x : In x (roots_of (resume r)) -> In x (roots_of r).
  Proof. destruct r; cbn; auto. Qed.

  Theorem inv_step s s' : inv s -> step s s' -> inv s'.
  Proof.
    intros [Hwg Hroot Hcoll Hclosed Hnodes Hroots] H. destruct H.
    - (* cancel *) constructor; cbn.
      + exact Hwg.
      + exact Hroot.
      + intros _. left. reflexivity.
      + exact Hclosed.
      + exact Hnodes.
      + exact Hroots.
    - (* range end *) constructor; cbn.
      + exact Hwg.
      + rewrite H in Hroot. exact Hroot.
      + intros Hc. destruct (Hcoll Hc) as [?|[Hx _]]; auto. rewrite H in Hx. discriminate.
      + discriminate.
      + exact Hnodes.
      + intros r [].
    - (* range stop *) constructor; cbn.
      + exact Hwg.
      + rewrite H in Hroot. exact Hroot.
      + intros Hc. left. assumption.
      + discriminate.
      + exact Hnodes.
      + intros r [].
    - (* range start *) constructor; cbn.
      + rewrite count_app. cbn. lia.
      + rewrite count_app. rewrite H in Hroot. cbn. lia.
      + intros Hc. destruct (Hcoll Hc) as [?|[Hx _]]; auto. rewrite H in Hx. discriminate.
      + discriminate.
      + intros t Hin Hs. apply in_app_or in Hin as [Hin|[<-|[]]]; auto.
      + intros r Hin. apply Hroots. rewrite H. cbn. auto.
    - (* node *)
      assert (Hlt : live t = true) by (unfold live; rewrite H0; reflexivity).
      pose proof (node_return_live t n rest) as Hlt'. fold t' in Hlt'.
      pose proof (count_upd live _ _ _ t' H) as Hcl. rewrite Hlt, Hlt' in Hcl.
      pose proof (count_upd liveroot _ _ _ t' H) as Hcr.
      assert (E1 : liveroot t = troot t) by (unfold liveroot; rewrite Hlt; reflexivity).
      assert (E2 : liveroot t' = troot t') by (unfold liveroot; rewrite Hlt'; reflexivity).
      rewrite E1, E2 in Hcr.
      constructor; cbn [ctx coll result rng tasks wg].
      + cbn [b2n] in Hcl. lia.
      + unfold leaves_root. destruct (troot t) eqn:Et; destruct (troot t') eqn:Et'; cbn [andb negb b2n] in *.
        * lia.
        * destruct (rng s) eqn:Er; cbn [resume]; lia.
        * apply (node_return_root t n rest) in Et'. congruence.
        * lia.
      + intros Hc. destruct (Hcoll Hc) as [?|[Hx Hz]]; auto.
        exfalso. pose proof (count_zero _ _ Hz t (nth_error_In _ _ H)). congruence.
      + intros Hx. exfalso.
        assert (Hrc : rng s = RClosed).
        { destruct (leaves_root t t'); auto. destruct (rng s); cbn in Hx; congruence. }
        pose proof (count_zero _ _ (Hclosed Hrc) t (nth_error_In _ _ H)). congruence.
      + intros t0 Hin Hs. apply In_upd in Hin as [->|Hin]; auto. apply node_return_nodes. exact Hs.
      + intros r Hin. apply Hroots. destruct (leaves_root t t'); auto. apply resume_roots. exact Hin.
    - (* handoff *)
      assert (Hlt : live t = true) by (unfold live; rewrite H0; reflexivity).
      set (t' := set_task t (tnodes t) (tev t) (SDone (Some m)) false).
      pose proof (count_upd live _ _ _ t' H) as Hcl. rewrite Hlt in Hcl.
      assert (E0 : live t' = false) by reflexivity. rewrite E0 in Hcl. cbn [b2n] in Hcl.
      pose proof (count_upd liveroot _ _ _ t' H) as Hcr.
      assert (E1 : liveroot t = troot t) by (unfold liveroot; rewrite Hlt; reflexivity).
      assert (E2 : liveroot t' = false) by reflexivity.
      rewrite E1, E2 in Hcr. cbn [b2n] in Hcr.
      constructor; cbn [ctx coll result rng tasks wg].
      + lia.
      + destruct (troot t) eqn:Et; cbn [b2n] in Hcr.
        * destruct (rng s) eqn:Er; cbn [resume]; lia.
        * lia.
      + discriminate.
      + intros Hx. exfalso.
        assert (Hrc : rng s = RClosed).
        { destruct (troot t); auto. destruct (rng s); cbn in Hx; congruence. }
        pose proof (count_zero _ _ (Hclosed Hrc) t (nth_error_In _ _ H)). congruence.
      + intros t0 Hin Hs. apply In_upd in Hin as [->|Hin]; auto. cbn in Hs. discriminate.
      + intros r Hin. apply Hroots. destruct (troot t); auto. apply resume_roots. exact Hin.
    - (* abort *)
      assert (Hlt : live t = true) by (unfold live; rewrite H0; reflexivity).
      set (t' := set_task t (tnodes t) (tev t) (SDone None) false).
      pose proof (count_upd live _ _ _ t' H) as Hcl. rewrite Hlt in Hcl.
      assert (E0 : live t' = false) by reflexivity. rewrite E0 in Hcl. cbn [b2n] in Hcl.
      pose proof (count_upd liveroot _ _ _ t' H) as Hcr.
      assert (E1 : liveroot t = troot t) by (unfold liveroot; rewrite Hlt; reflexivity).
      assert (E2 : liveroot t' = false) by reflexivity.
      rewrite E1, E2 in Hcr. cbn [b2n] in Hcr.
      constructor; cbn [ctx coll result rng tasks wg].
      + lia.
      + destruct (troot t) eqn:Et; cbn [b2n] in Hcr.
        * destruct (rng s) eqn:Er; cbn [resume]; lia.
        * lia.
      + intros Hc. left. assumption.
      + intros Hx. exfalso.
        assert (Hrc : rng s = RClosed).
        { destruct (troot t); auto. destruct (rng s); cbn in Hx; congruence. }
        pose proof (count_zero _ _ (Hclosed Hrc) t (nth_error_In _ _ H)). congruence.
      + intros t0 Hin Hs. apply In_upd in Hin as [->|Hin]; auto. cbn in Hs. discriminate.
      + intros r Hin. apply Hroots. destruct (troot t); auto. apply resume_roots. exact Hin.
    - (* collector cancel *) constructor; cbn.
      + exact Hwg.
      + exact Hroot.
      + intros _. left. assumption.
      + exact Hclosed.
      + exact Hnodes.
      + exact Hroots.
    - (* close *) constructor; cbn.
      + exact Hwg.
      + rewrite H in Hroot. exact Hroot.
      + intros Hc. destruct (Hcoll Hc) as [Hc1|[Hx Hz]]; [left; exact Hc1|right; split; [reflexivity|exact Hz]].
      + intros _. lia.
      + exact Hnodes.
      + intros r [].
    - (* collector closed *) constructor; cbn.
      + exact Hwg.
      + exact Hroot.
      + intros _. right. split; [assumption|]. apply Hclosed. assumption.
      + exact Hclosed.
      + exact Hnodes.
      + exact Hroots.
  Qed.

  Theorem inv_reach roots c0 s : (forall r, In r roots -> snd r <> []) -> reach roots c0 s -> inv s.
  Proof.
    intros Hr H. induction H as [|s s' _ IH Hs]; [apply inv_init; assumption|].
    eapply inv_step; eauto.
  Qed.

  (* ---------- progress: no deadlock, no lost wake-up ---------- *)
  Lemma find_task (P : task -> bool) (l : list task) :
    (exists i t, nth_error l i = Some t /\ P t = true) \/ (forall t, In t l -> P t = false).
  Proof.
    induction l as [|x l IH].
    - right. intros t [].
    - destruct (P x) eqn:E.
      + left. exists 0, x. split; [reflexivity|assumption].
      + destruct IH as [[i [t [Hn Hp]]]|Hall].
        * left. exists (S i), t. split; assumption.
        * right. intros t [<-|Hin]; auto.
  Qed.

  Definition is_run (t : task) : bool := match tstage t with SRun => true | _ => false end.
  Definition is_send (t : task) : bool := match tstage t with SSend _ => true | _ => false end.

  Lemma count_all_false f l : (forall t, In t l -> f t = false) -> count f l = 0.
  Proof.
    induction l as [|x l IH]; intros H; cbn; [reflexivity|].
    rewrite (H x (or_introl eq_refl)). rewrite IH; [reflexivity|]. intros t Ht. apply H. right. exact Ht.
  Qed.

  Definition terminal (s : st) : Prop := coll s = None /\ rng s = RClosed.

  Theorem progress s : inv s -> terminal s \/ exists s', step s s'.
  Proof.
    intros [Hwg Hroot Hcoll Hclosed Hnodes Hroots].
    destruct (find_task is_run (tasks s)) as [[i [t [Hn Hp]]]|Hnorun].
    { (* some node can return *)
      right. unfold is_run in Hp. destruct (tstage t) eqn:Es; try discriminate.
      destruct (tnodes t) as [|n rest] eqn:En.
      - exfalso. apply (Hnodes t (nth_error_In _ _ Hn) Es). exact En.
      - eexists. eapply StNode; eauto. }
    destruct (find_task is_send (tasks s)) as [[i [t [Hn Hp]]]|Hnosend].
    { (* some status is ready to be handed over *)
      right. unfold is_send in Hp. destruct (tstage t) as [|m|] eqn:Es; try discriminate.
      destruct (coll s) as [acc|] eqn:Ec.
      - eexists. eapply StHandoff; eauto.
      - destruct (Hcoll eq_refl) as [Hctx|[Hrc Hz]].
        + eexists. eapply StAbort; eauto.
        + exfalso. pose proof (count_zero _ _ Hz t (nth_error_In _ _ Hn)) as Hl.
          unfold live in Hl. rewrite Es in Hl. discriminate. }
    (* all tasks are done *)
    assert (Hlive : count live (tasks s) = 0).
    { apply count_all_false. intros t Hin. specialize (Hnorun t Hin). specialize (Hnosend t Hin).
      unfold is_run, is_send, live in *. destruct (tstage t); congruence. }
    assert (Hlr : count liveroot (tasks s) = 0).
    { apply count_all_false. intros t Hin. unfold liveroot.
      rewrite (count_zero _ _ Hlive t Hin). reflexivity. }
    destruct (rng s) as [[|[p ns] rest]|rest| |] eqn:Er.
    - right. eexists. apply StRangeEnd. exact Er.
    - right. destruct (ctx s) eqn:Ec.
      + eexists. eapply StRangeStop; eauto.
      + eexists. eapply StRangeStart; eauto.
        apply (Hroots (p, ns)). cbn. left. reflexivity.
    - exfalso. rewrite Hlr in Hroot. discriminate.
    - right. eexists. apply StClose; [exact Er|]. rewrite Hwg. exact Hlive.
    - destruct (coll s) as [acc|] eqn:Ec.
      + right. eexists. eapply StCollClosed; eauto.
      + left. split; assumption.
  Qed.

  (* C03: once the context is done the collector can return at once, whatever the nodes are doing *)
  Theorem collector_returns_on_cancel s acc :
    coll s = Some acc -> ctx s = true -> exists s', step s s' /\ coll s' = None /\ result s' = Some (acc, true).
  Proof. intros Hc Hx. eexists. split; [eapply StCollCancel; eauto|]. cbn. auto. Qed.

  (* C03: in a terminal state nothing is left running and the wait group is balanced *)
  Theorem terminal_no_goroutine s : inv s -> terminal s ->
    wg s = 0 /\ forall t, In t (tasks s) -> exists m, tstage t = SDone m.
  Proof.
    intros [Hwg _ _ Hclosed _ _] [_ Hr]. specialize (Hclosed Hr). split; [lia|].
    intros t Hin. pose proof (count_zero _ _ Hclosed t Hin) as Hl. unfold live in Hl.
    destruct (tstage t); try discriminate. eauto.
  Qed.

  (* the two ways the real code could panic are excluded: no status is pending once the channel is
     closed, and the wait group never goes negative (it always equals the number of live tasks) *)
  Theorem no_send_after_close s t m : inv s -> rng s = RClosed -> In t (tasks s) -> tstage t <> SSend m.
  Proof.
    intros [_ _ _ Hclosed _ _] Hr Hin Hs. pose proof (count_zero _ _ (Hclosed Hr) t Hin) as Hl.
    unfold live in Hl. rewrite Hs in Hl. discriminate.
  Qed.

  (* every maximal execution ends, and ends in a terminal state *)
  Theorem reaches_terminal roots c0 s :
    (forall r, In r roots -> snd r <> []) -> reach roots c0 s -> (forall s', ~ step s s') -> terminal s.
  Proof.
    intros Hr Hreach Hstuck. destruct (progress s (inv_reach _ _ _ Hr Hreach)) as [Ht|[s' Hs]]; auto.
    exfalso. exact (Hstuck s' Hs).
  Qed.

  (* ================= C01 / C02: what is called, and what is reported ================= *)

  (* the sequential meaning of one pipeline traversal: the Process calls and the status it ends with *)
  Fixpoint traverse (ns : list node) (e : N) : list (N * N) * option msg :=
    match ns with
    | [] => ([], None)
    | n :: rest =>
        match beh (nid n) e with
        | OErr x => ([(nid n, e)], Some (MWarn x))
        | ODrop => ([(nid n, e)], Some (MComplete (nid n) (nsink n)))
        | OPass e' =>
            match rest with
            | [] => ([(nid n, e)], Some (MComplete (nid n) (nsink n)))
            | _ => let r := traverse rest e' in ((nid n, e) :: fst r, snd r)
            end
        end
    end.

  (* C01, statement level: properties of [traverse] *)
  Fixpoint is_prefix {A} (eqb : A -> A -> bool) (p l : list A) : bool :=
    match p, l with
    | [], _ => true
    | x :: p', y :: l' => eqb x y && is_prefix eqb p' l'
    | _, [] => false
    end.

  Lemma traverse_prefix ns e : is_prefix N.eqb (map fst (fst (traverse ns e))) (map nid ns) = true.
  Proof.
    revert e; induction ns as [|n rest IH]; intros e; cbn [traverse]; [reflexivity|].
    destruct (beh (nid n) e) as [e'| |x]; cbn; rewrite ?N.eqb_refl; try reflexivity.
    destruct rest as [|n2 rest]; cbn [fst map is_prefix]; rewrite ?N.eqb_refl; [reflexivity|].
    cbn [andb]. apply IH.
  Qed.

  (* node k+1 is called iff node k passed, and it is called with exactly what node k returned *)
  Lemma traverse_chain n n2 rest e :
    traverse (n :: n2 :: rest) e =
    match beh (nid n) e with
    | OPass e' => ((nid n, e) :: fst (traverse (n2 :: rest) e'), snd (traverse (n2 :: rest) e'))
    | ODrop => ([(nid n, e)], Some (MComplete (nid n) (nsink n)))
    | OErr x => ([(nid n, e)], Some (MWarn x))
    end.
  Proof. cbn [traverse]. destruct (beh (nid n) e); reflexivity. Qed.

  Lemma traverse_first n rest e : exists cs, fst (traverse (n :: rest) e) = (nid n, e) :: cs.
  Proof. cbn [traverse]. destruct (beh (nid n) e); try (eexists; reflexivity). destruct rest; eexists; reflexivity. Qed.

  Lemma traverse_some ns e : ns <> [] -> exists m, snd (traverse ns e) = Some m.
  Proof.
    revert e; induction ns as [|n rest IH]; intros e Hne; [congruence|]. cbn [traverse].
    destruct (beh (nid n) e) as [e'| |x]; try (eexists; reflexivity).
    destruct rest as [|n2 rest]; [eexists; reflexivity|]. cbn [snd]. apply IH. discriminate.
  Qed.

  (* each task is, at every moment, a prefix of the sequential traversal of its pipeline *)
  Definition tinv (t : task) : Prop :=
    match tstage t with
    | SRun => tnodes t <> [] /\
              traverse (tall t) 0%N = (tcalls t ++ fst (traverse (tnodes t) (tev t)), snd (traverse (tnodes t) (tev t)))
    | SSend m | SDone (Some m) => traverse (tall t) 0%N = (tcalls t, Some m)
    | SDone None => exists m, traverse (tall t) 0%N = (tcalls t, Some m)
    end.

  Lemma tinv_node_return t n rest : tstage t = SRun -> tnodes t = n :: rest -> tinv t -> tinv (node_return t n rest).
  Proof.
    intros Hs Hn Hi. unfold tinv in Hi. rewrite Hs, Hn in Hi. destruct Hi as [_ Hi].
    unfold node_return, tinv. cbn [traverse] in Hi.
    destruct (beh (nid n) (tev t)) as [e'| |x]; cbn [set_task called tstage tall tcalls tnodes tev fst snd] in *.
    - destruct rest as [|n2 rest]; cbn [set_task called tstage tall tcalls tnodes tev fst snd] in *.
      + exact Hi.
      + split; [discriminate|]. rewrite <- app_assoc. exact Hi.
    - exact Hi.
    - exact Hi.
  Qed.

  Definition all_tinv (s : st) : Prop := forall t, In t (tasks s) -> tinv t.

  Lemma all_tinv_step s s' : (forall r, In r (roots_of (rng s)) -> snd r <> []) -> all_tinv s -> step s s' -> all_tinv s'.
  Proof.
    intros Hroots Ha H. destruct H; unfold all_tinv in *; cbn [tasks]; auto.
    - intros t Hin. apply in_app_or in Hin as [Hin|[<-|[]]]; auto.
      unfold tinv. cbn. split; [assumption|apply surjective_pairing].
    - intros t0 Hin. apply In_upd in Hin as [->|Hin]; auto.
      apply tinv_node_return; auto. apply Ha. eapply nth_error_In; eauto.
    - intros t0 Hin. apply In_upd in Hin as [->|Hin]; auto.
      pose proof (Ha t (nth_error_In _ _ H)) as Hi. unfold tinv in *. rewrite H0 in Hi. cbn. exact Hi.
    - intros t0 Hin. apply In_upd in Hin as [->|Hin]; auto.
      pose proof (Ha t (nth_error_In _ _ H)) as Hi. unfold tinv in *. rewrite H0 in Hi. cbn. eauto.
  Qed.

  (* C02 soundness: what the collector holds is exactly what finished tasks handed over *)
  Definition collected (s : st) : list msg :=
    match coll s, result s with
    | Some acc, _ => acc
    | None, Some (acc, _) => acc
    | None, None => []
    end.
  Definition sent_of (t : task) : list msg := match tstage t with SDone (Some m) => [m] | _ => [] end.
  Definition sent_msgs (l : list task) : list msg := flat_map sent_of l.

  Lemma sent_msgs_upd l i t t' m : nth_error l i = Some t -> sent_of t = [] -> sent_of t' = [m] ->
    Permutation (sent_msgs (upd_nth i t' l)) (m :: sent_msgs l).
  Proof.
    revert i; induction l as [|x l IH]; intros [|i] H H1 H2; cbn in *; try discriminate.
    - inversion H; subst. unfold sent_msgs. cbn. rewrite H1, H2. cbn. apply Permutation_refl.
    - unfold sent_msgs in *. cbn. specialize (IH _ H H1 H2).
      eapply Permutation_trans; [apply Permutation_app_head; exact IH|].
      apply Permutation_sym. apply Permutation_middle.
  Qed.
  Lemma sent_msgs_upd_same l i t t' : nth_error l i = Some t -> sent_of t = sent_of t' ->
    sent_msgs (upd_nth i t' l) = sent_msgs l.
  Proof.
    revert i; induction l as [|x l IH]; intros [|i] H H1; cbn in *; try discriminate.
    - inversion H; subst. unfold sent_msgs. cbn. rewrite H1. reflexivity.
    - unfold sent_msgs in *. cbn. rewrite (IH _ H H1). reflexivity.
  Qed.

  Definition cinv (s : st) : Prop :=
    Permutation (collected s) (sent_msgs (tasks s)) /\ (coll s = None -> result s <> None).

  Lemma node_return_sent t n rest : sent_of (node_return t n rest) = [].
  Proof. unfold node_return. destruct (beh (nid n) (tev t)); try reflexivity. destruct rest; reflexivity. Qed.

  Lemma cinv_step s s' : cinv s -> step s s' -> cinv s'.
  Proof.
    intros [Hp Hr] H. destruct H; unfold cinv, collected in *; cbn [coll result tasks] in *.
    - split; assumption.
    - split; assumption.
    - split; assumption.
    - split; [|assumption]. unfold sent_msgs in *. rewrite flat_map_app. cbn. rewrite app_nil_r. exact Hp.
    - split; [|assumption].
      rewrite (sent_msgs_upd_same _ _ t); auto.
      unfold sent_of at 1. rewrite H0. symmetry. apply node_return_sent.
    - split; [|discriminate]. rewrite H1 in Hp.
      eapply Permutation_trans; [|apply Permutation_sym; eapply (sent_msgs_upd _ _ t _ m); eauto].
      + eapply Permutation_trans; [apply Permutation_sym; apply Permutation_cons_append|].
        apply perm_skip. exact Hp.
      + unfold sent_of. rewrite H0. reflexivity.
    - split; [|assumption].
      rewrite (sent_msgs_upd_same _ _ t); auto. unfold sent_of. rewrite H0. reflexivity.
    - split; [|discriminate]. rewrite H in Hp. exact Hp.
    - split; assumption.
    - split; [|discriminate]. rewrite H in Hp. exact Hp.
  Qed.

  (* C02 completeness needs: while the context is not cancelled nothing is skipped and nothing aborted *)
  Definition key (t : task) : N * list node := (tpipe t, tall t).
  Definition uinv (roots : list (N * list node)) (s : st) : Prop :=
    ctx s = false ->
    map key (tasks s) ++ roots_of (rng s) = roots /\ forall t, In t (tasks s) -> tstage t <> SDone None.

  Lemma map_key_upd l i t t' : nth_error l i = Some t -> key t' = key t -> map key (upd_nth i t' l) = map key l.
  Proof.
    revert i; induction l as [|x l IH]; intros [|i] H Hk; cbn in *; try discriminate.
    - inversion H; subst. rewrite Hk. reflexivity.
    - rewrite (IH _ H Hk). reflexivity.
  Qed.
  Lemma key_node_return t n rest : key (node_return t n rest) = key t.
  Proof. unfold node_return, key. destruct (beh (nid n) (tev t)); try reflexivity. destruct rest; reflexivity. Qed.
  Lemma roots_of_resume r : roots_of (resume r) = roots_of r.
  Proof. destruct r; reflexivity. Qed.

  Lemma uinv_step roots s s' : uinv roots s -> step s s' -> uinv roots s'.
  Proof.
    intros Hu H. destruct H; unfold uinv in *; cbn [ctx tasks rng]; intros Hc.
    - discriminate.
    - destruct (Hu Hc) as [Hm Hd]. rewrite H in Hm. split; [exact Hm|exact Hd].
    - congruence.
    - destruct (Hu Hc) as [Hm Hd]. rewrite H in Hm. split.
      + rewrite map_app. cbn. rewrite <- app_assoc. exact Hm.
      + intros t Hin. apply in_app_or in Hin as [Hin|[<-|[]]]; auto. cbn. discriminate.
    - destruct (Hu Hc) as [Hm Hd]. split.
      + rewrite (map_key_upd _ _ t); [|assumption|apply key_node_return].
        destruct (leaves_root t t'); [rewrite roots_of_resume|]; exact Hm.
      + intros t0 Hin. apply In_upd in Hin as [->|Hin]; auto.
        pose proof (node_return_live t n rest) as Hl. fold t' in Hl. unfold live in Hl.
        destruct (tstage t') as [| |[|]]; try discriminate.
    - destruct (Hu Hc) as [Hm Hd]. split.
      + rewrite (map_key_upd _ _ t); [|assumption|reflexivity].
        destruct (troot t); [rewrite roots_of_resume|]; exact Hm.
      + intros t0 Hin. apply In_upd in Hin as [->|Hin]; auto. cbn. discriminate.
    - congruence.
    - congruence.
    - destruct (Hu Hc) as [Hm Hd]. rewrite H in Hm. split; [exact Hm|exact Hd].
    - apply Hu. exact Hc.
  Qed.

  (* putting it together over reachable states *)
  Record full_inv (roots : list (N * list node)) (s : st) : Prop := {
    fi_inv : inv s; fi_tinv : all_tinv s; fi_cinv : cinv s; fi_uinv : uinv roots s }.

  Theorem full_inv_reach roots c0 s : (forall r, In r roots -> snd r <> []) -> reach roots c0 s -> full_inv roots s.
  Proof.
    intros Hr H. induction H as [|s s' _ IH Hs].
    - constructor.
      + apply inv_init; assumption.
      + intros t [].
      + split; [apply Permutation_refl|discriminate].
      + intros _. cbn. split; [reflexivity|intros t []].
    - destruct IH as [I1 I2 I3 I4]. constructor.
      + eapply inv_step; eauto.
      + eapply all_tinv_step; eauto. apply (inv_roots _ I1).
      + eapply cinv_step; eauto.
      + eapply uinv_step; eauto.
  Qed.

  (* C02 "never invented": every reported status is the final status of the sequential traversal of a
     pipeline that was really started, and no task is reported twice (the report is a permutation of the
     messages of distinct finished tasks) *)
  Theorem status_sound roots c0 s : (forall r, In r roots -> snd r <> []) -> reach roots c0 s ->
    Permutation (collected s) (sent_msgs (tasks s)) /\
    forall t m, In t (tasks s) -> tstage t = SDone (Some m) -> snd (traverse (tall t) 0%N) = Some m.
  Proof.
    intros Hr H. destruct (full_inv_reach _ _ _ Hr H) as [_ I2 [I3 _] _]. split; [exact I3|].
    intros t m Hin Hs. specialize (I2 t Hin). unfold tinv in I2. rewrite Hs in I2. rewrite I2. reflexivity.
  Qed.

  (* C02 "exactly one entry per registered pipeline" when the context is never cancelled *)
  Theorem status_complete_uncancelled roots s :
    (forall r, In r roots -> snd r <> []) -> reach roots false s -> terminal s -> ctx s = false ->
    Permutation (collected s)
                (flat_map (fun r => match snd (traverse (snd r) 0%N) with Some m => [m] | None => [] end) roots).
  Proof.
    intros Hr H [Hcoll Hrng] Hctx.
    destruct (full_inv_reach _ _ _ Hr H) as [I1 I2 [I3 _] I4].
    destruct (I4 Hctx) as [Hm Hd]. rewrite Hrng in Hm. cbn in Hm. rewrite app_nil_r in Hm.
    eapply Permutation_trans; [exact I3|]. rewrite <- Hm.
    pose proof (inv_closed _ I1 Hrng) as Hz.
    assert (Hall : forall t, In t (tasks s) -> exists m, tstage t = SDone (Some m) /\ snd (traverse (tall t) 0%N) = Some m).
    { intros t Hin. pose proof (count_zero _ _ Hz t Hin) as Hl. unfold live in Hl.
      destruct (tstage t) as [| |[m|]] eqn:Es; try discriminate.
      - exists m. split; [reflexivity|]. specialize (I2 t Hin). unfold tinv in I2. rewrite Es in I2. rewrite I2. reflexivity.
      - exfalso. exact (Hd t Hin Es). }
    clear - Hall. induction (tasks s) as [|t l IH]; [apply Permutation_refl|].
    unfold sent_msgs in *. cbn [flat_map map].
    destruct (Hall t (or_introl eq_refl)) as [m [Es Ht]]. unfold sent_of at 1. rewrite Es.
    unfold key at 1. cbn [snd]. rewrite Ht. cbn [app]. apply perm_skip.
    apply IH. intros t0 Hin. apply Hall. right. exact Hin.
  Qed.

  (* C01: every started traversal is, call for call, a prefix of the sequential traversal of its pipeline,
     and when it is finished it is the whole of it *)
  Theorem calls_are_traversal roots c0 s t : (forall r, In r roots -> snd r <> []) -> reach roots c0 s -> In t (tasks s) ->
    exists rest, fst (traverse (tall t) 0%N) = tcalls t ++ rest /\
                 (live t = false \/ is_send t = true -> rest = []).
  Proof.
    intros Hr H Hin. destruct (full_inv_reach _ _ _ Hr H) as [_ I2 _ _]. specialize (I2 t Hin).
    unfold tinv in I2. unfold live, is_send. destruct (tstage t) as [|m|[m|]].
    - destruct I2 as [_ I2]. rewrite I2. eexists. split; [reflexivity|]. intros [|]; discriminate.
    - rewrite I2. exists []. rewrite app_nil_r. auto.
    - rewrite I2. exists []. rewrite app_nil_r. auto.
    - destruct I2 as [m I2]. rewrite I2. exists []. rewrite app_nil_r. auto.
  Qed.

  (* C01: with an uncancelled context every registered pipeline has been traversed exactly once at the end *)
  Theorem send_traverses_exactly roots s :
    (forall r, In r roots -> snd r <> []) -> reach roots false s -> terminal s -> ctx s = false ->
    map (fun t => (tpipe t, tcalls t)) (tasks s) = map (fun r => (fst r, fst (traverse (snd r) 0%N))) roots.
  Proof.
    intros Hr H [Hcoll Hrng] Hctx.
    destruct (full_inv_reach _ _ _ Hr H) as [I1 I2 _ I4].
    destruct (I4 Hctx) as [Hm _]. rewrite Hrng in Hm. cbn in Hm. rewrite app_nil_r in Hm. rewrite <- Hm.
    pose proof (inv_closed _ I1 Hrng) as Hz.
    assert (Hall : forall t, In t (tasks s) -> fst (traverse (tall t) 0%N) = tcalls t).
    { intros t Hin. pose proof (count_zero _ _ Hz t Hin) as Hl. unfold live in Hl. specialize (I2 t Hin). unfold tinv in I2.
      destruct (tstage t) as [| |[m|]]; try discriminate.
      - rewrite I2. reflexivity.
      - destruct I2 as [m I2]. rewrite I2. reflexivity. }
    rewrite map_map. apply map_ext_in. intros t Hin. unfold key. cbn [fst snd].
    rewrite (Hall t Hin). reflexivity.
  Qed.
End Dispatch.

Print Assumptions status_sound.
Print Assumptions status_complete_uncancelled.
Print Assumptions send_traverses_exactly.
Print Assumptions reaches_terminal.
