(* Spike: the Send dispatch protocol as an inductive step relation, with the termination measure,
   the invariants, progress (no deadlock), prompt return on cancel and "no goroutine left" proved
   for any number of pipelines / nodes and any schedule. *)
From Coq Require Import List Bool Arith NArith Lia.
Import ListNotations.

Inductive outcome := OPass (e : N) | ODrop | OErr (err : N).
Record node := { nid : N; nsink : bool }.

Inductive msg := MWarn (err : N) | MComplete (n : N) (sink : bool).
Inductive stage := SRun | SSend (m : msg) | SDone (m : option msg).   (* SDone remembers what was (to be) sent *)
Record task := { tpipe : N; tnodes : list node; tev : N; tstage : stage; troot : bool }.

Inductive ranger := RRange (roots : list (N * list node)) | RInRoot (roots : list (N * list node)) | RWait | RClosed.

Record st := {
  ctx : bool;
  coll : option (list msg);          (* Some acc: still collecting; None: Send has returned *)
  result : option (list msg * bool);
  rng : ranger;
  tasks : list task;
  wg : nat;
}.

Section Dispatch.
  (* environment: what a node returns for an input event *)
  Variable beh : N -> N -> outcome.

  Definition resume (r : ranger) : ranger := match r with RInRoot rest => RRange rest | r => r end.

  Fixpoint upd_nth {A} (n : nat) (x : A) (l : list A) : list A :=
    match l, n with
    | [], _ => []
    | _ :: t, O => x :: t
    | y :: t, S k => y :: upd_nth k x t
    end.

  Definition set_task (t : task) (ns : list node) (e : N) (sg : stage) (r : bool) : task :=
    {| tpipe := tpipe t; tnodes := ns; tev := e; tstage := sg; troot := r |}.

  (* result of the current node of a running task *)
  Definition node_return (t : task) (n : node) (rest : list node) : task :=
    match beh (nid n) (tev t) with
    | OErr e => set_task t (n :: rest) (tev t) (SSend (MWarn e)) (troot t)
    | ODrop => set_task t (n :: rest) (tev t) (SSend (MComplete (nid n) (nsink n))) (troot t)
    | OPass e' =>
        match rest with
        | [] => set_task t [n] (tev t) (SSend (MComplete (nid n) (nsink n))) (troot t)
        | _ => set_task t rest e' SRun false
        end
    end.

  Definition leaves_root (t t' : task) : bool := troot t && negb (troot t').

  Inductive step : st -> st -> Prop :=
  | StCancel s : ctx s = false ->
      step s {| ctx := true; coll := coll s; result := result s; rng := rng s; tasks := tasks s; wg := wg s |}
  | StRangeEnd s : rng s = RRange [] ->
      step s {| ctx := ctx s; coll := coll s; result := result s; rng := RWait; tasks := tasks s; wg := wg s |}
  | StRangeStop s p ns rest : rng s = RRange ((p, ns) :: rest) -> ctx s = true ->
      step s {| ctx := ctx s; coll := coll s; result := result s; rng := RWait; tasks := tasks s; wg := wg s |}
  | StRangeStart s p ns rest : rng s = RRange ((p, ns) :: rest) -> ctx s = false -> ns <> [] ->
      step s {| ctx := ctx s; coll := coll s; result := result s; rng := RInRoot rest;
                tasks := tasks s ++ [ {| tpipe := p; tnodes := ns; tev := 0%N; tstage := SRun; troot := true |} ];
                wg := S (wg s) |}
  | StNode s i t n rest : nth_error (tasks s) i = Some t -> tstage t = SRun -> tnodes t = n :: rest ->
      let t' := node_return t n rest in
      step s {| ctx := ctx s; coll := coll s; result := result s;
                rng := if leaves_root t t' then resume (rng s) else rng s;
                tasks := upd_nth i t' (tasks s); wg := wg s |}
  | StHandoff s i t m acc : nth_error (tasks s) i = Some t -> tstage t = SSend m -> coll s = Some acc ->
      step s {| ctx := ctx s; coll := Some (acc ++ [m]); result := result s;
                rng := if troot t then resume (rng s) else rng s;
                tasks := upd_nth i (set_task t (tnodes t) (tev t) (SDone (Some m)) false) (tasks s); wg := pred (wg s) |}
  | StAbort s i t m : nth_error (tasks s) i = Some t -> tstage t = SSend m -> ctx s = true ->
      step s {| ctx := ctx s; coll := coll s; result := result s;
                rng := if troot t then resume (rng s) else rng s;
                tasks := upd_nth i (set_task t (tnodes t) (tev t) (SDone None) false) (tasks s); wg := pred (wg s) |}
  | StCollCancel s acc : coll s = Some acc -> ctx s = true ->
      step s {| ctx := ctx s; coll := None; result := Some (acc, true); rng := rng s; tasks := tasks s; wg := wg s |}
  | StClose s : rng s = RWait -> wg s = 0 ->
      step s {| ctx := ctx s; coll := coll s; result := result s; rng := RClosed; tasks := tasks s; wg := wg s |}
  | StCollClosed s acc : coll s = Some acc -> rng s = RClosed ->
      step s {| ctx := ctx s; coll := None; result := Some (acc, ctx s); rng := rng s; tasks := tasks s; wg := wg s |}.

  Definition init (roots : list (N * list node)) (cancelled : bool) : st :=
    {| ctx := cancelled; coll := Some []; result := None; rng := RRange roots; tasks := []; wg := 0 |}.

  Inductive reach (roots : list (N * list node)) (c0 : bool) : st -> Prop :=
  | ReachInit : reach roots c0 (init roots c0)
  | ReachStep s s' : reach roots c0 s -> step s s' -> reach roots c0 s'.

  (* ---------- measure ---------- *)
  Definition tweight (t : task) : nat :=
    match tstage t with
    | SRun => 2 * length (tnodes t) + 1
    | SSend _ => 1
    | SDone _ => 0
    end.
  Definition sumw (l : list task) : nat := fold_right (fun t a => tweight t + a) 0 l.
  Definition rootsw (roots : list (N * list node)) : nat :=
    fold_right (fun r a => 2 * length (snd r) + 2 + a) 0 roots.
  Definition rweight (r : ranger) : nat :=
    match r with
    | RRange roots | RInRoot roots => rootsw roots + 2
    | RWait => 1
    | RClosed => 0
    end.
  Definition measure (s : st) : nat :=
    (if ctx s then 0 else 1) + (match coll s with Some _ => 1 | None => 0 end) + rweight (rng s) + sumw (tasks s).

  Lemma sumw_app l1 l2 : sumw (l1 ++ l2) = sumw l1 + sumw l2.
  Proof. induction l1 as [|t l1 IH]; cbn; [reflexivity|]. unfold sumw in *. cbn. rewrite IH. lia. Qed.

  Lemma sumw_upd l i t t' : nth_error l i = Some t ->
    sumw (upd_nth i t' l) + tweight t = sumw l + tweight t'.
  Proof.
    revert i; induction l as [|x l IH]; intros [|i] H; cbn in *; try discriminate.
    - inversion H; subst. unfold sumw; cbn. lia.
    - specialize (IH _ H). unfold sumw in *; cbn. lia.
  Qed.

  Lemma rootsw_cons p ns rest : rootsw ((p, ns) :: rest) = 2 * length ns + 2 + rootsw rest.
  Proof. reflexivity. Qed.

  Lemma rweight_resume r : rweight (resume r) = rweight r.
  Proof. destruct r; reflexivity. Qed.

  Lemma node_return_weight t n rest : tstage t = SRun -> tnodes t = n :: rest ->
    tweight (node_return t n rest) < tweight t.
  Proof.
    intros Hs Hn. unfold node_return, tweight. rewrite Hs, Hn.
    destruct (beh (nid n) (tev t)); cbn; try lia.
    destruct rest; cbn; lia.
  Qed.

  Theorem step_measure s s' : step s s' -> measure s' < measure s.
  Proof.
    intros H. destruct H; unfold measure; cbn [ctx coll result rng tasks wg].
    - rewrite H. lia.
    - rewrite H. cbn [rweight rootsw fold_right]. lia.
    - rewrite H. cbn [rweight]. rewrite rootsw_cons. lia.
    - rewrite H, H0. rewrite sumw_app. cbn [rweight]. rewrite rootsw_cons.
      cbn [sumw fold_right tweight tstage tnodes]. lia.
    - pose proof (sumw_upd _ _ _ t' H) as Hu. pose proof (node_return_weight t n rest H0 H1) as Hw.
      fold t' in Hw. assert (Hr : rweight (if leaves_root t t' then resume (rng s) else rng s) = rweight (rng s))
        by (destruct (leaves_root t t'); [apply rweight_resume|reflexivity]).
      rewrite Hr. lia.
    - pose proof (sumw_upd _ _ _ (set_task t (tnodes t) (tev t) (SDone (Some m)) false) H) as Hu.
      assert (Hw1 : tweight (set_task t (tnodes t) (tev t) (SDone (Some m)) false) = 0) by reflexivity.
      assert (Hw2 : tweight t = 1) by (unfold tweight; rewrite H0; reflexivity).
      assert (Hr : rweight (if troot t then resume (rng s) else rng s) = rweight (rng s))
        by (destruct (troot t); [apply rweight_resume|reflexivity]).
      rewrite Hr, H1. lia.
    - pose proof (sumw_upd _ _ _ (set_task t (tnodes t) (tev t) (SDone None) false) H) as Hu.
      assert (Hw1 : tweight (set_task t (tnodes t) (tev t) (SDone None) false) = 0) by reflexivity.
      assert (Hw2 : tweight t = 1) by (unfold tweight; rewrite H0; reflexivity).
      assert (Hr : rweight (if troot t then resume (rng s) else rng s) = rweight (rng s))
        by (destruct (troot t); [apply rweight_resume|reflexivity]).
      rewrite Hr. lia.
    - rewrite H. lia.
    - rewrite H. cbn [rweight]. lia.
    - rewrite H. lia.
  Qed.

  (* every execution is finite: at most [measure] steps *)
  Inductive steps : nat -> st -> st -> Prop :=
  | Steps0 s : steps 0 s s
  | StepsS n s s' s'' : step s s' -> steps n s' s'' -> steps (S n) s s''.

  Theorem executions_bounded n s s' : steps n s s' -> n + measure s' <= measure s.
  Proof.
    induction 1 as [|n s s' s'' H1 H2 IH]; [lia|].
    pose proof (step_measure _ _ H1). lia.
  Qed.

  (* ---------- invariants ---------- *)
  Definition live (t : task) : bool := match tstage t with SDone _ => false | _ => true end.
  Definition liveroot (t : task) : bool := live t && troot t.
  Definition b2n (b : bool) : nat := if b then 1 else 0.
  Fixpoint count (f : task -> bool) (l : list task) : nat :=
    match l with [] => 0 | t :: r => b2n (f t) + count f r end.

  Lemma count_app f l1 l2 : count f (l1 ++ l2) = count f l1 + count f l2.
  Proof. induction l1 as [|t l1 IH]; cbn; [reflexivity|]. rewrite IH. lia. Qed.

  Lemma count_upd f l i t t' : nth_error l i = Some t ->
    count f (upd_nth i t' l) + b2n (f t) = count f l + b2n (f t').
  Proof.
    revert i; induction l as [|x l IH]; intros [|i] H; cbn in *; try discriminate.
    - inversion H; subst. lia.
    - specialize (IH _ H). lia.
  Qed.

  Lemma count_zero f l : count f l = 0 -> forall t, In t l -> f t = false.
  Proof.
    induction l as [|x l IH]; cbn; intros Hc t Hin; [contradiction|].
    destruct Hin as [->|Hin].
    - destruct (f t); cbn in Hc; [lia|reflexivity].
    - apply IH; [lia|assumption].
  Qed.

  Lemma In_upd {A} (l : list A) i x y : In y (upd_nth i x l) -> y = x \/ In y l.
  Proof.
    revert i; induction l as [|z l IH]; intros [|i]; cbn; intros H; auto.
    - destruct H as [<-|H]; auto.
    - destruct H as [<-|H]; auto. destruct (IH _ H); auto.
  Qed.

  Definition roots_of (r : ranger) : list (N * list node) :=
    match r with RRange l | RInRoot l => l | _ => [] end.

  Record inv (s : st) : Prop := {
    inv_wg : wg s = count live (tasks s);
    inv_root : count liveroot (tasks s) = match rng s with RInRoot _ => 1 | _ => 0 end;
    inv_coll : coll s = None -> ctx s = true \/ (rng s = RClosed /\ count live (tasks s) = 0);
    inv_closed : rng s = RClosed -> count live (tasks s) = 0;
    inv_nodes : forall t, In t (tasks s) -> tstage t = SRun -> tnodes t <> [];
    inv_roots : forall r, In r (roots_of (rng s)) -> snd r <> [];
  }.

  Lemma inv_init roots c0 : (forall r, In r roots -> snd r <> []) -> inv (init roots c0).
  Proof.
    intros Hr. constructor; cbn; auto; try discriminate; try contradiction.
  Qed.

  Lemma node_return_live t n rest : live (node_return t n rest) = true.
  Proof. unfold node_return. destruct (beh (nid n) (tev t)); try reflexivity. destruct rest; reflexivity. Qed.

  Lemma node_return_nodes t n rest : tstage (node_return t n rest) = SRun -> tnodes (node_return t n rest) <> [].
  Proof.
    unfold node_return. destruct (beh (nid n) (tev t)); cbn; try discriminate.
    destruct rest; cbn; [discriminate|]. intros _. discriminate.
  Qed.

  Lemma node_return_root t n rest :
    troot (node_return t n rest) = true -> troot t = true.
  Proof. unfold node_return. destruct (beh (nid n) (tev t)); cbn; auto. destruct rest; cbn; auto. discriminate. Qed.

  Lemma resume_roots r x : In x (roots_of (resume r)) -> In x (roots_of r).
  Proof. destruct r; cbn; auto. Qed.

  Theorem inv_step s s' : inv s -> step s s' -> inv s'.
  Proof.
    intros [Hwg Hroot Hcoll Hclosed Hnodes Hroots] H. destruct H.
    - (* cancel *) constructor; cbn.
      + exact Hwg.
      + exact Hroot.
      + intros _. left. reflexivity.
      + exact Hclosed.
      + exact Hnodes.
      + exact Hroots.
    - (* range end *) constructor; cbn.
      + exact Hwg.
      + rewrite H in Hroot. exact Hroot.
      + intros Hc. destruct (Hcoll Hc) as [?|[Hx _]]; auto. rewrite H in Hx. discriminate.
      + discriminate.
      + exact Hnodes.
      + intros r [].
    - (* range stop *) constructor; cbn.
      + exact Hwg.
      + rewrite H in Hroot. exact Hroot.
      + intros Hc. left. assumption.
      + discriminate.
      + exact Hnodes.
      + intros r [].
    - (* range start *) constructor; cbn.
      + rewrite count_app. cbn. lia.
      + rewrite count_app. rewrite H in Hroot. cbn. lia.
      + intros Hc. destruct (Hcoll Hc) as [?|[Hx _]]; auto. rewrite H in Hx. discriminate.
      + discriminate.
      + intros t Hin Hs. apply in_app_or in Hin as [Hin|[<-|[]]]; auto.
      + intros r Hin. apply Hroots. rewrite H. cbn. auto.
    - (* node *)
      assert (Hlt : live t = true) by (unfold live; rewrite H0; reflexivity).
      pose proof (node_return_live t n rest) as Hlt'. fold t' in Hlt'.
      pose proof (count_upd live _ _ _ t' H) as Hcl. rewrite Hlt, Hlt' in Hcl.
      pose proof (count_upd liveroot _ _ _ t' H) as Hcr.
      assert (E1 : liveroot t = troot t) by (unfold liveroot; rewrite Hlt; reflexivity).
      assert (E2 : liveroot t' = troot t') by (unfold liveroot; rewrite Hlt'; reflexivity).
      rewrite E1, E2 in Hcr.
      constructor; cbn [ctx coll result rng tasks wg].
      + cbn [b2n] in Hcl. lia.
      + unfold leaves_root. destruct (troot t) eqn:Et; destruct (troot t') eqn:Et'; cbn [andb negb b2n] in *.
        * lia.
        * destruct (rng s) eqn:Er; cbn [resume]; lia.
        * apply (node_return_root t n rest) in Et'. congruence.
        * lia.
      + intros Hc. destruct (Hcoll Hc) as [?|[Hx Hz]]; auto.
        exfalso. pose proof (count_zero _ _ Hz t (nth_error_In _ _ H)). congruence.
      + intros Hx. exfalso.
        assert (Hrc : rng s = RClosed).
        { destruct (leaves_root t t'); auto. destruct (rng s); cbn in Hx; congruence. }
        pose proof (count_zero _ _ (Hclosed Hrc) t (nth_error_In _ _ H)). congruence.
      + intros t0 Hin Hs. apply In_upd in Hin as [->|Hin]; auto. apply node_return_nodes. exact Hs.
      + intros r Hin. apply Hroots. destruct (leaves_root t t'); auto. apply resume_roots. exact Hin.
    - (* handoff *)
      assert (Hlt : live t = true) by (unfold live; rewrite H0; reflexivity).
      set (t' := set_task t (tnodes t) (tev t) (SDone (Some m)) false).
      pose proof (count_upd live _ _ _ t' H) as Hcl. rewrite Hlt in Hcl.
      assert (E0 : live t' = false) by reflexivity. rewrite E0 in Hcl. cbn [b2n] in Hcl.
      pose proof (count_upd liveroot _ _ _ t' H) as Hcr.
      assert (E1 : liveroot t = troot t) by (unfold liveroot; rewrite Hlt; reflexivity).
      assert (E2 : liveroot t' = false) by reflexivity.
      rewrite E1, E2 in Hcr. cbn [b2n] in Hcr.
      constructor; cbn [ctx coll result rng tasks wg].
      + lia.
      + destruct (troot t) eqn:Et; cbn [b2n] in Hcr.
        * destruct (rng s) eqn:Er; cbn [resume]; lia.
        * lia.
      + discriminate.
      + intros Hx. exfalso.
        assert (Hrc : rng s = RClosed).
        { destruct (troot t); auto. destruct (rng s); cbn in Hx; congruence. }
        pose proof (count_zero _ _ (Hclosed Hrc) t (nth_error_In _ _ H)). congruence.
      + intros t0 Hin Hs. apply In_upd in Hin as [->|Hin]; auto. cbn in Hs. discriminate.
      + intros r Hin. apply Hroots. destruct (troot t); auto. apply resume_roots. exact Hin.
    - (* abort *)
      assert (Hlt : live t = true) by (unfold live; rewrite H0; reflexivity).
      set (t' := set_task t (tnodes t) (tev t) (SDone None) false).
      pose proof (count_upd live _ _ _ t' H) as Hcl. rewrite Hlt in Hcl.
      assert (E0 : live t' = false) by reflexivity. rewrite E0 in Hcl. cbn [b2n] in Hcl.
      pose proof (count_upd liveroot _ _ _ t' H) as Hcr.
      assert (E1 : liveroot t = troot t) by (unfold liveroot; rewrite Hlt; reflexivity).
      assert (E2 : liveroot t' = false) by reflexivity.
      rewrite E1, E2 in Hcr. cbn [b2n] in Hcr.
      constructor; cbn [ctx coll result rng tasks wg].
      + lia.
      + destruct (troot t) eqn:Et; cbn [b2n] in Hcr.
        * destruct (rng s) eqn:Er; cbn [resume]; lia.
        * lia.
      + intros Hc. left. assumption.
      + intros Hx. exfalso.
        assert (Hrc : rng s = RClosed).
        { destruct (troot t); auto. destruct (rng s); cbn in Hx; congruence. }
        pose proof (count_zero _ _ (Hclosed Hrc) t (nth_error_In _ _ H)). congruence.
      + intros t0 Hin Hs. apply In_upd in Hin as [->|Hin]; auto. cbn in Hs. discriminate.
      + intros r Hin. apply Hroots. destruct (troot t); auto. apply resume_roots. exact Hin.
    - (* collector cancel *) constructor; cbn.
      + exact Hwg.
      + exact Hroot.
      + intros _. left. assumption.
      + exact Hclosed.
      + exact Hnodes.
      + exact Hroots.
    - (* close *) constructor; cbn.
      + exact Hwg.
      + rewrite H in Hroot. exact Hroot.
      + intros Hc. destruct (Hcoll Hc) as [Hc1|[Hx Hz]]; [left; exact Hc1|right; split; [reflexivity|exact Hz]].
      + intros _. lia.
      + exact Hnodes.
      + intros r [].
    - (* collector closed *) constructor; cbn.
      + exact Hwg.
      + exact Hroot.
      + intros _. right. split; [assumption|]. apply Hclosed. assumption.
      + exact Hclosed.
      + exact Hnodes.
      + exact Hroots.
  Qed.

  Theorem inv_reach roots c0 s : (forall r, In r roots -> snd r <> []) -> reach roots c0 s -> inv s.
  Proof.
    intros Hr H. induction H as [|s s' _ IH Hs]; [apply inv_init; assumption|].
    eapply inv_step; eauto.
  Qed.

  (* ---------- progress: no deadlock, no lost wake-up ---------- *)
  Lemma find_task (P : task -> bool) (l : list task) :
    (exists i t, nth_error l i = Some t /\ P t = true) \/ (forall t, In t l -> P t = false).
  Proof.
    induction l as [|x l IH].
    - right. intros t [].
    - destruct (P x) eqn:E.
      + left. exists 0, x. split; [reflexivity|assumption].
      + destruct IH as [[i [t [Hn Hp]]]|Hall].
        * left. exists (S i), t. split; assumption.
        * right. intros t [<-|Hin]; auto.
  Qed.

  Definition is_run (t : task) : bool := match tstage t with SRun => true | _ => false end.
  Definition is_send (t : task) : bool := match tstage t with SSend _ => true | _ => false end.

  Lemma count_all_false f l : (forall t, In t l -> f t = false) -> count f l = 0.
  Proof.
    induction l as [|x l IH]; intros H; cbn; [reflexivity|].
    rewrite (H x (or_introl eq_refl)). rewrite IH; [reflexivity|]. intros t Ht. apply H. right. exact Ht.
  Qed.

  Definition terminal (s : st) : Prop := coll s = None /\ rng s = RClosed.

  Theorem progress s : inv s -> terminal s \/ exists s', step s s'.
  Proof.
    intros [Hwg Hroot Hcoll Hclosed Hnodes Hroots].
    destruct (find_task is_run (tasks s)) as [[i [t [Hn Hp]]]|Hnorun].
    { (* some node can return *)
      right. unfold is_run in Hp. destruct (tstage t) eqn:Es; try discriminate.
      destruct (tnodes t) as [|n rest] eqn:En.
      - exfalso. apply (Hnodes t (nth_error_In _ _ Hn) Es). exact En.
      - eexists. eapply StNode; eauto. }
    destruct (find_task is_send (tasks s)) as [[i [t [Hn Hp]]]|Hnosend].
    { (* some status is ready to be handed over *)
      right. unfold is_send in Hp. destruct (tstage t) as [|m|] eqn:Es; try discriminate.
      destruct (coll s) as [acc|] eqn:Ec.
      - eexists. eapply StHandoff; eauto.
      - destruct (Hcoll eq_refl) as [Hctx|[Hrc Hz]].
        + eexists. eapply StAbort; eauto.
        + exfalso. pose proof (count_zero _ _ Hz t (nth_error_In _ _ Hn)) as Hl.
          unfold live in Hl. rewrite Es in Hl. discriminate. }
    (* all tasks are done *)
    assert (Hlive : count live (tasks s) = 0).
    { apply count_all_false. intros t Hin. specialize (Hnorun t Hin). specialize (Hnosend t Hin).
      unfold is_run, is_send, live in *. destruct (tstage t); congruence. }
    assert (Hlr : count liveroot (tasks s) = 0).
    { apply count_all_false. intros t Hin. unfold liveroot.
      rewrite (count_zero _ _ Hlive t Hin). reflexivity. }
    destruct (rng s) as [[|[p ns] rest]|rest| |] eqn:Er.
    - right. eexists. apply StRangeEnd. exact Er.
    - right. destruct (ctx s) eqn:Ec.
      + eexists. eapply StRangeStop; eauto.
      + eexists. eapply StRangeStart; eauto.
        apply (Hroots (p, ns)). cbn. left. reflexivity.
    - exfalso. rewrite Hlr in Hroot. discriminate.
    - right. eexists. apply StClose; [exact Er|]. rewrite Hwg. exact Hlive.
    - destruct (coll s) as [acc|] eqn:Ec.
      + right. eexists. eapply StCollClosed; eauto.
      + left. split; assumption.
  Qed.

  (* C03: once the context is done the collector can return at once, whatever the nodes are doing *)
  Theorem collector_returns_on_cancel s acc :
    coll s = Some acc -> ctx s = true -> exists s', step s s' /\ coll s' = None /\ result s' = Some (acc, true).
  Proof. intros Hc Hx. eexists. split; [eapply StCollCancel; eauto|]. cbn. auto. Qed.

  (* C03: in a terminal state nothing is left running and the wait group is balanced *)
  Theorem terminal_no_goroutine s : inv s -> terminal s ->
    wg s = 0 /\ forall t, In t (tasks s) -> exists m, tstage t = SDone m.
  Proof.
    intros [Hwg _ _ Hclosed _ _] [_ Hr]. specialize (Hclosed Hr). split; [lia|].
    intros t Hin. pose proof (count_zero _ _ Hclosed t Hin) as Hl. unfold live in Hl.
    destruct (tstage t); try discriminate. eauto.
  Qed.

  (* the two ways the real code could panic are excluded: no status is pending once the channel is
     closed, and the wait group never goes negative (it always equals the number of live tasks) *)
  Theorem no_send_after_close s t m : inv s -> rng s = RClosed -> In t (tasks s) -> tstage t <> SSend m.
  Proof.
    intros [_ _ _ Hclosed _ _] Hr Hin Hs. pose proof (count_zero _ _ (Hclosed Hr) t Hin) as Hl.
    unfold live in Hl. rewrite Hs in Hl. discriminate.
  Qed.

  (* every maximal execution ends, and ends in a terminal state *)
  Theorem reaches_terminal roots c0 s :
    (forall r, In r roots -> snd r <> []) -> reach roots c0 s -> (forall s', ~ step s s') -> terminal s.
  Proof.
    intros Hr Hreach Hstuck. destruct (progress s (inv_reach _ _ _ Hr Hreach)) as [Ht|[s' Hs]]; auto.
    exfalso. exact (Hstuck s' Hs).
  Qed.
End Dispatch.

Print Assumptions reaches_terminal.
Print Assumptions executions_bounded.
