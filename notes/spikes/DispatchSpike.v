(* Spike: the Send dispatch protocol as an executable transition system.
   Purpose: test (by exhaustive exploration of small instances, NOT a proof) that the
   theorem statements planned for C01-C03 are true of the intended model. *)
From Coq Require Import List Bool Arith NArith Lia.
Import ListNotations.

Inductive outcome := OPass (e : N) | ODrop | OErr (err : N).
Record node := { nid : N; nsink : bool; nbeh : outcome }.   (* behaviour fixed per node for the spike *)

Inductive msg := MWarn (err : N) | MComplete (n : N) (sink : bool).
Inductive stage := SRun | SSend (m : msg) | SDone.
Record task := { tpipe : N; tnodes : list node; tev : N; tstage : stage; troot : bool }.

Inductive ranger := RRange (roots : list (N * list node)) | RInRoot (roots : list (N * list node)) | RWait | RClosed.

Record st := {
  ctx : bool;
  coll : option (list msg);          (* Some acc: still collecting; None: Send has returned *)
  result : option (list msg * bool); (* what Send returned, and whether ctx was done then *)
  rng : ranger;
  tasks : list task;
  wg : nat;
  calls : list (N * N * N);          (* (pipeline, node, input event) log of Process calls *)
}.

Definition init (roots : list (N * list node)) (cancelled : bool) : st :=
  {| ctx := cancelled; coll := Some []; result := None; rng := RRange roots; tasks := []; wg := 0; calls := [] |}.

Definition resume (r : ranger) : ranger :=
  match r with RInRoot rest => RRange rest | r => r end.

Fixpoint upd_nth {A} (n : nat) (f : A -> A) (l : list A) : list A :=
  match l, n with
  | [], _ => []
  | x :: t, O => f x :: t
  | x :: t, S k => x :: upd_nth k f t
  end.

(* all successor states *)
Definition step_cancel (s : st) : list st :=
  if ctx s then [] else
  [ {| ctx := true; coll := coll s; result := result s; rng := rng s; tasks := tasks s; wg := wg s; calls := calls s |} ].

Definition step_range (s : st) : list st :=
  match rng s with
  | RRange [] => [ {| ctx := ctx s; coll := coll s; result := result s; rng := RWait; tasks := tasks s; wg := wg s; calls := calls s |} ]
  | RRange ((p, ns) :: rest) =>
      if ctx s then
        [ {| ctx := ctx s; coll := coll s; result := result s; rng := RWait; tasks := tasks s; wg := wg s; calls := calls s |} ]
      else
        [ {| ctx := ctx s; coll := coll s; result := result s; rng := RInRoot rest;
             tasks := tasks s ++ [ {| tpipe := p; tnodes := ns; tev := 0%N; tstage := SRun; troot := true |} ];
             wg := S (wg s); calls := calls s |} ]
  | _ => []
  end.

Definition node_return (t : task) : task * bool (* leaves root thread? *) * option (N*N*N) :=
  match tstage t, tnodes t with
  | SRun, n :: rest =>
      let c := Some (tpipe t, nid n, tev t) in
      match nbeh n with
      | OErr e => ({| tpipe := tpipe t; tnodes := tnodes t; tev := tev t; tstage := SSend (MWarn e); troot := troot t |}, false, c)
      | ODrop => ({| tpipe := tpipe t; tnodes := tnodes t; tev := tev t; tstage := SSend (MComplete (nid n) (nsink n)); troot := troot t |}, false, c)
      | OPass e' =>
          match rest with
          | [] => ({| tpipe := tpipe t; tnodes := tnodes t; tev := tev t; tstage := SSend (MComplete (nid n) (nsink n)); troot := troot t |}, false, c)
          | _ => ({| tpipe := tpipe t; tnodes := rest; tev := e'; tstage := SRun; troot := false |}, troot t, c)
          end
      end
  | _, _ => (t, false, None)
  end.

Fixpoint seq_nat (n : nat) : list nat := match n with O => [] | S k => seq_nat k ++ [k] end.

Definition step_node (s : st) : list st :=
  flat_map (fun i =>
    match nth_error (tasks s) i with
    | Some t =>
        match tstage t, tnodes t with
        | SRun, _ :: _ =>
            let '(t', leaves, c) := node_return t in
            [ {| ctx := ctx s; coll := coll s; result := result s;
                 rng := if leaves then resume (rng s) else rng s;
                 tasks := upd_nth i (fun _ => t') (tasks s); wg := wg s;
                 calls := match c with Some c => calls s ++ [c] | None => calls s end |} ]
        | _, _ => []
        end
    | None => []
    end) (seq_nat (length (tasks s))).

Definition finish (t : task) : task :=
  {| tpipe := tpipe t; tnodes := tnodes t; tev := tev t; tstage := SDone; troot := false |}.

Definition step_handoff (s : st) : list st :=
  match coll s with
  | Some acc =>
      flat_map (fun i =>
        match nth_error (tasks s) i with
        | Some t =>
            match tstage t with
            | SSend m =>
                [ {| ctx := ctx s; coll := Some (acc ++ [m]); result := result s;
                     rng := if troot t then resume (rng s) else rng s;
                     tasks := upd_nth i finish (tasks s); wg := pred (wg s); calls := calls s |} ]
            | _ => []
            end
        | None => []
        end) (seq_nat (length (tasks s)))
  | None => []
  end.

Definition step_abort (s : st) : list st :=
  if ctx s then
    flat_map (fun i =>
      match nth_error (tasks s) i with
      | Some t =>
          match tstage t with
          | SSend m =>
              [ {| ctx := ctx s; coll := coll s; result := result s;
                   rng := if troot t then resume (rng s) else rng s;
                   tasks := upd_nth i finish (tasks s); wg := pred (wg s); calls := calls s |} ]
          | _ => []
          end
      | None => []
      end) (seq_nat (length (tasks s)))
  else [].

Definition step_coll_cancel (s : st) : list st :=
  match coll s with
  | Some acc => if ctx s then
      [ {| ctx := ctx s; coll := None; result := Some (acc, true); rng := rng s; tasks := tasks s; wg := wg s; calls := calls s |} ]
      else []
  | None => []
  end.

Definition step_close (s : st) : list st :=
  match rng s, wg s with
  | RWait, O => [ {| ctx := ctx s; coll := coll s; result := result s; rng := RClosed; tasks := tasks s; wg := wg s; calls := calls s |} ]
  | _, _ => []
  end.

Definition step_coll_closed (s : st) : list st :=
  match coll s, rng s with
  | Some acc, RClosed =>
      [ {| ctx := ctx s; coll := None; result := Some (acc, ctx s); rng := rng s; tasks := tasks s; wg := wg s; calls := calls s |} ]
  | _, _ => []
  end.

Definition succs (s : st) : list st :=
  step_cancel s ++ step_range s ++ step_node s ++ step_handoff s ++ step_abort s
  ++ step_coll_cancel s ++ step_close s ++ step_coll_closed s.

(* ---- measure ---- *)
Definition tweight (t : task) : nat :=
  match tstage t with
  | SRun => 2 * length (tnodes t) + 1
  | SSend _ => 1
  | SDone => 0
  end.
Definition rootsw (roots : list (N * list node)) : nat :=
  fold_right (fun r a => 2 * length (snd r) + 2 + a) 0 roots.
Definition rweight (r : ranger) : nat :=
  match r with
  | RRange roots | RInRoot roots => rootsw roots + 2
  | RWait => 1
  | RClosed => 0
  end.
Definition measure (s : st) : nat :=
  (if ctx s then 0 else 1) + (match coll s with Some _ => 1 | None => 0 end)
  + rweight (rng s) + fold_right (fun t a => tweight t + a) 0 (tasks s).

(* ---- predicates to test ---- *)
Definition task_done (t : task) : bool := match tstage t with SDone => true | _ => false end.
Definition terminal (s : st) : bool :=
  match coll s, rng s with
  | None, RClosed => forallb task_done (tasks s)
  | _, _ => false
  end.

Definition live (s : st) : nat := length (filter (fun t => negb (task_done t)) (tasks s)).

(* statement tests at one state *)
Definition ok_measure (s : st) : bool := forallb (fun s' => Nat.ltb (measure s') (measure s)) (succs s).
Definition ok_progress (s : st) : bool := terminal s || negb (match succs s with [] => true | _ => false end).
Definition ok_wg (s : st) : bool := Nat.eqb (wg s) (live s).
Definition ok_prompt (s : st) : bool :=   (* C03: once ctx is done the collector can always return *)
  match coll s with Some _ => if ctx s then negb (match step_coll_cancel s with [] => true | _ => false end) else true | None => true end.

(* C02 soundness: every collected message was produced by a task that is now done, one per task *)
Definition msg_eqb (a b : msg) : bool :=
  match a, b with
  | MWarn x, MWarn y => N.eqb x y
  | MComplete n s, MComplete n' s' => N.eqb n n' && Bool.eqb s s'
  | _, _ => false
  end.
Definition collected (s : st) : list msg :=
  match coll s, result s with
  | Some acc, _ => acc
  | None, Some (acc, _) => acc
  | None, None => []
  end.
Definition ok_sound (s : st) : bool := Nat.leb (length (collected s)) (length (filter task_done (tasks s))).

(* exhaustive exploration with fuel = measure bound *)
Fixpoint explore (fuel : nat) (check : st -> bool) (s : st) : bool * N :=
  match fuel with
  | O => (false, 0%N)
  | S k =>
      if check s then
        fold_left (fun (acc : bool * N) (s' : st) =>
                     if fst acc then
                       let r := explore k check s' in (fst r, (snd acc + snd r)%N)
                     else acc)
                  (succs s) (true, 1%N)
      else (false, 1%N)
  end.

Definition all_ok (s : st) : bool := ok_measure s && ok_progress s && ok_wg s && ok_prompt s && ok_sound s.

(* terminal states reached without cancellation report exactly one message per pipeline *)
Fixpoint terminals (fuel : nat) (s : st) : list st :=
  match fuel with
  | O => []
  | S k => if terminal s then [s] else flat_map (terminals k) (succs s)
  end.

Definition n1 := {| nid := 1; nsink := false; nbeh := OPass 11 |}.
Definition n2 := {| nid := 2; nsink := false; nbeh := ODrop |}.
Definition n3 := {| nid := 3; nsink := true; nbeh := OPass 0 |}.
Definition n4 := {| nid := 4; nsink := false; nbeh := OErr 7 |}.
Definition n5 := {| nid := 5; nsink := false; nbeh := OPass 12 |}.

Definition cfg0 : list (N * list node) := [ (1%N, [n1; n3]) ].
Definition cfgA : list (N * list node) := [ (1%N, [n1; n5; n3]); (2%N, [n1; n2; n3]) ].
Definition cfgB : list (N * list node) := [ (1%N, [n1; n3]); (2%N, [n4; n3]); (3%N, [n5; n2]) ].

Eval vm_compute in measure (init cfgA false).
Time Eval vm_compute in explore 40 all_ok (init cfg0 false).
Time Eval vm_compute in explore 40 all_ok (init cfgA false).
Time Eval vm_compute in explore 40 all_ok (init cfgB false).
Time Eval vm_compute in explore 40 all_ok (init cfgB true).

(* uncancelled complete runs: filter terminals where ctx never became true *)
Definition uncancelled_results (cfg : list (N * list node)) : list (nat * nat) :=
  map (fun s => (length (collected s), length (calls s)))
      (filter (fun s => negb (ctx s)) (terminals 40 (init cfg false))).
Time Eval vm_compute in (length (terminals 40 (init cfgA false))).
Definition pair_eq_dec (a b : nat * nat) : {a = b} + {a <> b}.
Proof. decide equality; apply Nat.eq_dec. Defined.
Eval vm_compute in nodup pair_eq_dec (uncancelled_results cfgA).
Eval vm_compute in nodup pair_eq_dec (uncancelled_results cfgB).
