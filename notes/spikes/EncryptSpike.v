(* Spike: the encrypt.Filter walker (semantics after repairs F8a-c) on the payload grammar G, as a total
   function on trees with symbolic leaf statuses, and proved for every payload tree, every override table:
   - shape_preserved: the filter changes nothing but leaf statuses (structure, keys, lengths, canaries and
     every non-string value are kept);
   - no_leak: the output satisfies an independently stated [clean] predicate: every string leaf sits at the
     status its tag, the defaults and the overrides dictate; in particular never Plain unless public / none. *)
From Coq Require Import List Bool NArith ZArith Lia.
Import ListNotations.

Inductive status := Plain | Redacted | Enc | Hmac.
Inductive ctext := TxPublic | TxSensitive | TxSecret | TxOther.         (* class text of a tag *)
Inductive otext := OxNone | OxRedact | OxEncrypt | OxHmac | OxOther.    (* operation text, lower-cased *)
Definition tagT := option (ctext * otext).

Inductive v :=
| VLeaf (c : N) (s : status)              (* string / []byte / wrapper value; c = canary *)
| VLeaves (l : list (N * status))         (* []string / [][]byte *)
| VOther (z : Z)                          (* any non-string value *)
| VStruct (fs : list (tagT * v))
| VPtr (o : option v)
| VSlice (l : list v)
| VMap (l : list (N * v))                 (* untagged map *)
| VTMap (tags : list (N * ctext * otext)) (l : list (N * v)).   (* Taggable map: pointer tags "/key" *)

(* ---------- tag resolution: getClassificationFromTag(String) + filterValue's dispatch ---------- *)
Section Policy.
  Variable ov : ctext -> option otext.      (* FilterOperationOverrides *)

  Definition op_status (o : otext) : option status :=
    match o with OxNone => Some Plain | OxRedact => Some Redacted | OxEncrypt => Some Enc | OxHmac => Some Hmac | OxOther => None end.

  (* None = Process fails (unknown operation forced by an override) *)
  Definition policy (t : tagT) : option status :=
    match t with
    | None => Some Redacted                                     (* no class tag: unknown classification *)
    | Some (TxOther, _) => Some Redacted                         (* unknown / mis-spelt classification *)
    | Some (TxPublic, _) => Some Plain
    | Some (c, o) =>
        match ov c with
        | Some o' => op_status o'
        | None =>
            match c, o with
            | TxSensitive, OxRedact => Some Redacted
            | TxSensitive, OxHmac => Some Hmac
            | TxSensitive, _ => Some Enc                        (* default for sensitive *)
            | _, OxEncrypt => Some Enc
            | _, OxHmac => Some Hmac
            | _, _ => Some Redacted                             (* default for secret *)
            end
        end
    end.

  (* tags of a Taggable map: an unknown classification on an existing key makes Process fail *)
  Definition tag_policy (c : ctext) (o : otext) : option status :=
    match c with TxOther => None | _ => policy (Some (c, o)) end.

  Definition set_leaf (st : status) (x : v) : v :=
    match x with
    | VLeaf c s => VLeaf c (match st with Plain => s | _ => st end)
    | VLeaves l => VLeaves (map (fun cs => (fst cs, match st with Plain => snd cs | _ => st end)) l)
    | x => x
    end.

  Fixpoint omap {A B} (f : A -> option B) (l : list A) : option (list B) :=
    match l with
    | [] => Some []
    | x :: t => match f x, omap f t with Some y, Some r => Some (y :: r) | _, _ => None end
    end.

  Fixpoint lookup_tag (k : N) (tags : list (N * ctext * otext)) : list (ctext * otext) :=
    match tags with [] => [] | (k', c, o) :: t => if N.eqb k k' then (c, o) :: lookup_tag k t else lookup_tag k t end.

  (* tags on the same key are applied in order; once a value has been replaced it stays replaced *)
  Fixpoint apply_tags (x : v) (ts : list (ctext * otext)) : option v :=
    match ts with
    | [] => Some x
    | (c, o) :: t => match tag_policy c o with Some st => apply_tags (set_leaf st x) t | None => None end
    end.

  (* contexts a value can sit in *)
  Inductive ctx := CField (t : tagT) | CMapVal | CElem.

  Fixpoint walk (cx : ctx) (x : v) : option v :=
    match x with
    | VLeaf _ _ | VLeaves _ =>
        match cx with
        | CField t => match policy t with Some st => Some (set_leaf st x) | None => None end
        | CMapVal => Some (set_leaf Redacted x)
        | CElem => Some x
        end
    | VOther z => Some x
    | VStruct fs =>
        match (fix go (fs : list (tagT * v)) : option (list (tagT * v)) :=
                 match fs with
                 | [] => Some []
                 | (t, y) :: r => match walk (CField t) y, go r with Some y', Some r' => Some ((t, y') :: r') | _, _ => None end
                 end) fs with
        | Some fs' => Some (VStruct fs') | None => None end
    | VPtr None => Some x
    | VPtr (Some y) =>
        (* dereferencing keeps the context: a *string field is filtered by the field's tag, a pointer to a struct is walked *)
        match walk cx y with Some y' => Some (VPtr (Some y')) | None => None end
    | VSlice l =>
        match (fix go (l : list v) : option (list v) :=
                 match l with
                 | [] => Some []
                 | y :: r => match walk CElem y, go r with Some y', Some r' => Some (y' :: r') | _, _ => None end
                 end) l with
        | Some l' => Some (VSlice l') | None => None end
    | VMap l =>
        match (fix go (l : list (N * v)) : option (list (N * v)) :=
                 match l with
                 | [] => Some []
                 | (k, y) :: r => match walk CMapVal y, go r with Some y', Some r' => Some ((k, y') :: r') | _, _ => None end
                 end) l with
        | Some l' => Some (VMap l') | None => None end
    | VTMap tags l =>
        match (fix go (l : list (N * v)) : option (list (N * v)) :=
                 match l with
                 | [] => Some []
                 | (k, y) :: r =>
                     match (match lookup_tag k tags with
                            | [] => walk CMapVal y                 (* untagged key: filtered as secret *)
                            | ts => apply_tags y ts                (* tagged key: only what the tags say *)
                            end), go r with
                     | Some y', Some r' => Some ((k, y') :: r') | _, _ => None end
                 end) l with
        | Some l' => Some (VTMap tags l') | None => None end
    end.

  (* Process on a payload: a pointer to a struct / string, a slice, a map or a Taggable map *)
  Definition process (x : v) : option v :=
    match x with
    | VPtr (Some (VLeaf _ _)) => walk (CField (Some (TxSecret, OxNone))) x     (* *string payload: treated as secret *)
    | VLeaves _ => walk (CField (Some (TxSecret, OxNone))) x                    (* []string payload *)
    | VPtr (Some (VStruct _)) | VSlice _ | VMap _ | VTMap _ _ => walk CElem x
    | VPtr (Some (VMap _)) | VPtr (Some (VTMap _ _)) => walk CElem x
    | _ => None                                                                  (* outside the grammar *)
    end.

  (* ---------- status erasure: what "same shape" means ---------- *)
  Fixpoint erase (x : v) : v :=
    match x with
    | VLeaf c _ => VLeaf c Plain
    | VLeaves l => VLeaves (map (fun cs => (fst cs, Plain)) l)
    | VOther z => VOther z
    | VStruct fs => VStruct (map (fun ty => (fst ty, erase (snd ty))) fs)
    | VPtr o => VPtr (match o with Some y => Some (erase y) | None => None end)
    | VSlice l => VSlice (map erase l)
    | VMap l => VMap (map (fun ky => (fst ky, erase (snd ky))) l)
    | VTMap tags l => VTMap tags (map (fun ky => (fst ky, erase (snd ky))) l)
    end.

  Lemma erase_set_leaf st x : erase (set_leaf st x) = erase x.
  Proof.
    destruct x; cbn; try reflexivity. f_equal. rewrite map_map. apply map_ext. intros [c s]. reflexivity.
  Qed.

  Lemma erase_apply_tags ts : forall x y, apply_tags x ts = Some y -> erase y = erase x.
  Proof.
    induction ts as [|[c o] t IH]; intros x y H; cbn in H; [inversion H; reflexivity|].
    destruct (tag_policy c o); [|discriminate]. rewrite (IH _ _ H). apply erase_set_leaf.
  Qed.

  (* a strong induction principle over the nested type, by size *)
  Fixpoint size (x : v) : nat :=
    match x with
    | VStruct fs => S (fold_right (fun ty a => size (snd ty) + a) 0 fs)
    | VPtr (Some y) => S (size y)
    | VSlice l => S (fold_right (fun y a => size y + a) 0 l)
    | VMap l | VTMap _ l => S (fold_right (fun ky a => size (snd ky) + a) 0 l)
    | _ => 1
    end.

  Theorem shape_preserved : forall n x, size x <= n -> forall cx y, walk cx x = Some y -> erase y = erase x.
  Proof.
    induction n as [|n IH]; intros x Hs cx y H.
    { destruct x as [| | | |[|]| | |]; cbn in Hs; lia. }
    destruct x as [c s|l|z|fs|[x0|]|l|l|tags l]; cbn [walk] in H.
    - destruct cx as [t| |]; [destruct (policy t) as [st|]; [|discriminate]| |]; injection H as <-; reflexivity.
    - destruct cx as [t| |]; [destruct (policy t) as [st|]; [|discriminate]| |]; injection H as <-;
        [exact (erase_set_leaf st (VLeaves l))|exact (erase_set_leaf Redacted (VLeaves l))|reflexivity].
    - inversion H; reflexivity.
    - (* struct *)
      cbn [size] in Hs.
      assert (Hgo : forall fs, fold_right (fun ty a => size (snd ty) + a) 0 fs <= n -> forall fs',
                (fix go (fs : list (tagT * v)) : option (list (tagT * v)) :=
                   match fs with
                   | [] => Some []
                   | (t, y) :: r => match walk (CField t) y, go r with Some y', Some r' => Some ((t, y') :: r') | _, _ => None end
                   end) fs = Some fs' ->
                map (fun ty => (fst ty, erase (snd ty))) fs' = map (fun ty => (fst ty, erase (snd ty))) fs).
      { clear fs Hs H. induction fs as [|[t y0] r IHr]; intros Hsz fs' Hg; [inversion Hg; reflexivity|].
        cbn [fold_right snd] in Hsz.
        destruct (walk (CField t) y0) as [y'|] eqn:Ew; [|discriminate].
        match type of Hg with match ?g with _ => _ end = _ => destruct g as [r'|] eqn:Eg; [|discriminate] end.
        inversion Hg; subst. cbn [map fst snd]. rewrite (IH y0 ltac:(lia) _ _ Ew). rewrite (IHr ltac:(lia) _ eq_refl). reflexivity. }
      match type of H with match ?g with _ => _ end = _ => destruct g as [fs'|] eqn:Eg; [|discriminate] end.
      inversion H; subst. cbn [erase]. f_equal. apply Hgo; [lia|exact Eg].
    - (* pointer *)
      cbn [size] in Hs. destruct (walk cx x0) as [y'|] eqn:Ew; [|discriminate]. inversion H; subst. cbn [erase].
      rewrite (IH x0 ltac:(lia) _ _ Ew). reflexivity.
    - inversion H; reflexivity.
    - (* slice *)
      cbn [size] in Hs.
      assert (Hgo : forall l, fold_right (fun y a => size y + a) 0 l <= n -> forall l',
                (fix go (l : list v) : option (list v) :=
                   match l with
                   | [] => Some []
                   | y :: r => match walk CElem y, go r with Some y', Some r' => Some (y' :: r') | _, _ => None end
                   end) l = Some l' -> map erase l' = map erase l).
      { clear l Hs H. induction l as [|y0 r IHr]; intros Hsz l' Hg; [inversion Hg; reflexivity|].
        cbn [fold_right] in Hsz.
        destruct (walk CElem y0) as [y'|] eqn:Ew; [|discriminate].
        match type of Hg with match ?g with _ => _ end = _ => destruct g as [r'|] eqn:Eg; [|discriminate] end.
        inversion Hg; subst. cbn [map]. rewrite (IH y0 ltac:(lia) _ _ Ew). rewrite (IHr ltac:(lia) _ eq_refl). reflexivity. }
      match type of H with match ?g with _ => _ end = _ => destruct g as [l'|] eqn:Eg; [|discriminate] end.
      inversion H; subst. cbn [erase]. f_equal. apply Hgo; [lia|exact Eg].
    - (* map *)
      cbn [size] in Hs.
      assert (Hgo : forall l, fold_right (fun ky a => size (snd ky) + a) 0 l <= n -> forall l',
                (fix go (l : list (N * v)) : option (list (N * v)) :=
                   match l with
                   | [] => Some []
                   | (k, y) :: r => match walk CMapVal y, go r with Some y', Some r' => Some ((k, y') :: r') | _, _ => None end
                   end) l = Some l' ->
                map (fun ky => (fst ky, erase (snd ky))) l' = map (fun ky => (fst ky, erase (snd ky))) l).
      { clear l Hs H. induction l as [|[k y0] r IHr]; intros Hsz l' Hg; [inversion Hg; reflexivity|].
        cbn [fold_right snd] in Hsz.
        destruct (walk CMapVal y0) as [y'|] eqn:Ew; [|discriminate].
        match type of Hg with match ?g with _ => _ end = _ => destruct g as [r'|] eqn:Eg; [|discriminate] end.
        inversion Hg; subst. cbn [map fst snd]. rewrite (IH y0 ltac:(lia) _ _ Ew). rewrite (IHr ltac:(lia) _ eq_refl). reflexivity. }
      match type of H with match ?g with _ => _ end = _ => destruct g as [l'|] eqn:Eg; [|discriminate] end.
      inversion H; subst. cbn [erase]. f_equal. apply Hgo; [lia|exact Eg].
    - (* taggable map *)
      cbn [size] in Hs.
      assert (Hgo : forall l, fold_right (fun ky a => size (snd ky) + a) 0 l <= n -> forall l',
                (fix go (l : list (N * v)) : option (list (N * v)) :=
                   match l with
                   | [] => Some []
                   | (k, y) :: r =>
                       match (match lookup_tag k tags with [] => walk CMapVal y | ts => apply_tags y ts end), go r with
                       | Some y', Some r' => Some ((k, y') :: r') | _, _ => None end
                   end) l = Some l' ->
                map (fun ky => (fst ky, erase (snd ky))) l' = map (fun ky => (fst ky, erase (snd ky))) l).
      { clear l Hs H. induction l as [|[k y0] r IHr]; intros Hsz l' Hg; [inversion Hg; reflexivity|].
        cbn [fold_right snd] in Hsz.
        destruct (match lookup_tag k tags with [] => walk CMapVal y0 | ts => apply_tags y0 ts end) as [y'|] eqn:Ew; [|discriminate].
        match type of Hg with match ?g with _ => _ end = _ => destruct g as [r'|] eqn:Eg; [|discriminate] end.
        inversion Hg; subst. cbn [map fst snd].
        assert (Ey : erase y' = erase y0).
        { destruct (lookup_tag k tags) as [|t0 ts]; [apply (IH y0 ltac:(lia) _ _ Ew)|apply (erase_apply_tags _ _ _ Ew)]. }
        rewrite Ey. rewrite (IHr ltac:(lia) _ eq_refl). reflexivity. }
      match type of H with match ?g with _ => _ end = _ => destruct g as [l'|] eqn:Eg; [|discriminate] end.
      inversion H; subst. cbn [erase]. f_equal. apply Hgo; [lia|exact Eg].
  Qed.

  (* C10: the forwarded payload has the same dynamic shape as the input: only leaf statuses differ *)
  Corollary process_shape x y : process x = Some y -> erase y = erase x.
  Proof.
    intros H. unfold process in H.
    destruct x as [| | | |[[| | | | | | |]|]| | |]; try discriminate; eapply shape_preserved; eauto.
  Qed.

  (* ================= C09: no classified plaintext leaves the filter ================= *)
  (* what a leaf status must be, stated on the OUTPUT alone, per position *)
  Definition want (st s : status) : Prop := st = Plain \/ s = st.     (* st = Plain: public / none: left as it was *)

  Definition leaf_clean (cx : ctx) (s : status) : Prop :=
    match cx with
    | CField t => exists st, policy t = Some st /\ want st s
    | CMapVal => s = Redacted               (* unclassified map data is secret *)
    | CElem => False                        (* bare strings as slice elements are outside the grammar *)
    end.

  (* what the ordered tags of one key of a Taggable map dictate: the last one that is not public / none *)
  Fixpoint tags_status (ts : list (ctext * otext)) (acc : option status) : option status :=
    match ts with
    | [] => acc
    | (c, o) :: t => tags_status t (match tag_policy c o with Some Plain | None => acc | Some st => Some st end)
    end.
  Definition tagged_clean (ts : list (ctext * otext)) (x : v) : Prop :=
    match tags_status ts None, x with
    | Some st, VLeaf _ s => s = st
    | Some st, VLeaves l => Forall (fun cs => snd cs = st) l
    | _, _ => True
    end.

  Fixpoint clean (cx : ctx) (y : v) : Prop :=
    match y with
    | VLeaf _ s => leaf_clean cx s
    | VLeaves l => Forall (fun cs => leaf_clean cx (snd cs)) l
    | VOther _ => True
    | VStruct fs => (fix all (fs : list (tagT * v)) : Prop :=
                       match fs with [] => True | (t, x) :: r => clean (CField t) x /\ all r end) fs
    | VPtr None => True
    | VPtr (Some x) => clean cx x
    | VSlice l => (fix all (l : list v) : Prop := match l with [] => True | x :: r => clean CElem x /\ all r end) l
    | VMap l => (fix all (l : list (N * v)) : Prop := match l with [] => True | (_, x) :: r => clean CMapVal x /\ all r end) l
    | VTMap tags l =>
        (fix all (l : list (N * v)) : Prop :=
           match l with
           | [] => True
           | (k, x) :: r => (match lookup_tag k tags with [] => clean CMapVal x | ts => tagged_clean ts x end) /\ all r
           end) l
    end.

  (* the grammar: a slice holds structs, pointers to structs, or maps; tagged keys of a Taggable map hold leaves *)
  Fixpoint inG (cx : ctx) (x : v) : Prop :=
    match x with
    | VLeaf _ _ | VLeaves _ => match cx with CElem => False | _ => True end
    | VOther _ => True
    | VStruct fs => (fix all (fs : list (tagT * v)) : Prop :=
                       match fs with [] => True | (t, y) :: r => inG (CField t) y /\ all r end) fs
    | VPtr None => True
    | VPtr (Some y) => inG cx y
    | VSlice l => (fix all (l : list v) : Prop := match l with [] => True | y :: r => inG CElem y /\ all r end) l
    | VMap l => (fix all (l : list (N * v)) : Prop := match l with [] => True | (_, y) :: r => inG CMapVal y /\ all r end) l
    | VTMap tags l =>
        (fix all (l : list (N * v)) : Prop :=
           match l with
           | [] => True
           | (k, y) :: r => (match lookup_tag k tags with [] => inG CMapVal y | _ => True end) /\ all r
           end) l
    end.

  Lemma leaf_clean_set cx st c s : (match cx with CField t => policy t = Some st | CMapVal => st = Redacted | CElem => False end) ->
    clean cx (set_leaf st (VLeaf c s)).
  Proof.
    destruct cx as [t| |]; cbn; intros H; [|subst; reflexivity|contradiction].
    exists st. split; [exact H|]. unfold want. destruct st; auto.
  Qed.
  Lemma leaves_clean_set cx st l : (match cx with CField t => policy t = Some st | CMapVal => st = Redacted | CElem => False end) ->
    clean cx (set_leaf st (VLeaves l)).
  Proof.
    intros H. cbn [set_leaf clean]. apply Forall_forall. intros [c s] Hin. apply in_map_iff in Hin as [[c0 s0] [He _]].
    inversion He; subst. cbn [snd]. destruct cx as [t| |]; cbn; [|subst; reflexivity|contradiction].
    exists st. split; [exact H|]. unfold want. destruct st; auto.
  Qed.

  (* applying the ordered tags of a key produces exactly what [tags_status] says *)
  Lemma apply_tags_clean ts : forall x y acc, apply_tags x ts = Some y ->
    (match acc, x with
     | Some st, VLeaf _ s => s = st
     | Some st, VLeaves l => Forall (fun cs => snd cs = st) l
     | _, _ => True end) ->
    match tags_status ts acc, y with
    | Some st, VLeaf _ s => s = st
    | Some st, VLeaves l => Forall (fun cs => snd cs = st) l
    | _, _ => True
    end.
  Proof.
    induction ts as [|[c o] t IH]; intros x y acc H Hacc; cbn [apply_tags tags_status] in *.
    - inversion H; subst. exact Hacc.
    - destruct (tag_policy c o) as [st|] eqn:Ep; [|discriminate].
      apply (IH _ _ _ H). destruct st; cbn [set_leaf].
      + (* Plain: nothing changes *)
        destruct x; cbn; try exact Hacc; try (destruct acc; exact I).
        destruct acc as [sa|]; [|exact I]. rewrite Forall_forall in *. intros [c0 s0] Hin.
        apply in_map_iff in Hin as [[c1 s1] [He Hin]]. inversion He; subst. apply (Hacc _ Hin).
      + destruct x; cbn; auto. apply Forall_forall. intros [c0 s0] Hin. apply in_map_iff in Hin as [[c1 s1] [He _]]. inversion He; reflexivity.
      + destruct x; cbn; auto. apply Forall_forall. intros [c0 s0] Hin. apply in_map_iff in Hin as [[c1 s1] [He _]]. inversion He; reflexivity.
      + destruct x; cbn; auto. apply Forall_forall. intros [c0 s0] Hin. apply in_map_iff in Hin as [[c1 s1] [He _]]. inversion He; reflexivity.
  Qed.

  Theorem no_leak : forall n x, size x <= n -> forall cx y, inG cx x -> walk cx x = Some y -> clean cx y.
  Proof.
    induction n as [|n IH]; intros x Hs cx y HG H.
    { destruct x as [| | | |[|]| | |]; cbn in Hs; lia. }
    destruct x as [c s|l|z|fs|[x0|]|l|l|tags l]; cbn [walk] in H.
    - destruct cx as [t| |]; [destruct (policy t) as [st|] eqn:Ep; [|discriminate]| |]; [| |cbn in HG; contradiction];
        injection H as <-; [exact (leaf_clean_set (CField t) st c s Ep)|exact (leaf_clean_set CMapVal Redacted c s eq_refl)].
    - destruct cx as [t| |]; [destruct (policy t) as [st|] eqn:Ep; [|discriminate]| |]; [| |cbn in HG; contradiction];
        injection H as <-; [exact (leaves_clean_set (CField t) st l Ep)|exact (leaves_clean_set CMapVal Redacted l eq_refl)].
    - inversion H; subst. exact I.
    - (* struct *)
      cbn [size] in Hs. cbn [inG] in HG.
      match type of H with match ?g with _ => _ end = _ => destruct g as [fs'|] eqn:Eg; [|discriminate] end.
      inversion H; subst y. cbn [clean]. clear H.
      revert fs' Eg HG Hs. induction fs as [|[t y0] r IHr]; intros fs' Eg HG Hs; [inversion Eg; exact I|].
      cbn [fold_right snd] in Hs. destruct HG as [HG0 HGr].
      destruct (walk (CField t) y0) as [y'|] eqn:Ew; [|discriminate].
      match type of Eg with match ?g with _ => _ end = _ => destruct g as [r'|] eqn:Egr; [|discriminate] end.
      inversion Eg; subst. split; [apply (IH y0 ltac:(lia) _ _ HG0 Ew)|apply (IHr _ eq_refl HGr); lia].
    - (* pointer *)
      cbn [size] in Hs. cbn [inG] in HG. destruct (walk cx x0) as [y'|] eqn:Ew; [|discriminate]. inversion H; subst. cbn [clean].
      apply (IH x0 ltac:(lia) _ _ HG Ew).
    - inversion H; subst. exact I.
    - (* slice *)
      cbn [size] in Hs. cbn [inG] in HG.
      match type of H with match ?g with _ => _ end = _ => destruct g as [l'|] eqn:Eg; [|discriminate] end.
      inversion H; subst y. cbn [clean]. clear H.
      revert l' Eg HG Hs. induction l as [|y0 r IHr]; intros l' Eg HG Hs; [inversion Eg; exact I|].
      cbn [fold_right] in Hs. destruct HG as [HG0 HGr].
      destruct (walk CElem y0) as [y'|] eqn:Ew; [|discriminate].
      match type of Eg with match ?g with _ => _ end = _ => destruct g as [r'|] eqn:Egr; [|discriminate] end.
      inversion Eg; subst. split; [apply (IH y0 ltac:(lia) _ _ HG0 Ew)|apply (IHr _ eq_refl HGr); lia].
    - (* untagged map *)
      cbn [size] in Hs. cbn [inG] in HG.
      match type of H with match ?g with _ => _ end = _ => destruct g as [l'|] eqn:Eg; [|discriminate] end.
      inversion H; subst y. cbn [clean]. clear H.
      revert l' Eg HG Hs. induction l as [|[k y0] r IHr]; intros l' Eg HG Hs; [inversion Eg; exact I|].
      cbn [fold_right snd] in Hs. destruct HG as [HG0 HGr].
      destruct (walk CMapVal y0) as [y'|] eqn:Ew; [|discriminate].
      match type of Eg with match ?g with _ => _ end = _ => destruct g as [r'|] eqn:Egr; [|discriminate] end.
      inversion Eg; subst. split; [apply (IH y0 ltac:(lia) _ _ HG0 Ew)|apply (IHr _ eq_refl HGr); lia].
    - (* taggable map *)
      cbn [size] in Hs. cbn [inG] in HG.
      match type of H with match ?g with _ => _ end = _ => destruct g as [l'|] eqn:Eg; [|discriminate] end.
      inversion H; subst y. cbn [clean]. clear H.
      revert l' Eg HG Hs. induction l as [|[k y0] r IHr]; intros l' Eg HG Hs; [inversion Eg; exact I|].
      cbn [fold_right snd] in Hs. destruct HG as [HG0 HGr].
      destruct (match lookup_tag k tags with [] => walk CMapVal y0 | ts => apply_tags y0 ts end) as [y'|] eqn:Ew; [|discriminate].
      match type of Eg with match ?g with _ => _ end = _ => destruct g as [r'|] eqn:Egr; [|discriminate] end.
      inversion Eg; subst. split; [|apply (IHr _ eq_refl HGr); lia].
      destruct (lookup_tag k tags) as [|t0 ts] eqn:El.
      + apply (IH y0 ltac:(lia) _ _ HG0 Ew).
      + unfold tagged_clean. apply (apply_tags_clean _ _ _ None Ew). exact I.
  Qed.
End Policy.

Print Assumptions process_shape.
Print Assumptions no_leak.

(* sanity: defaults (no overrides) on a small payload *)
Definition nov : ctext -> option otext := fun _ => None.
Open Scope N_scope.
Definition ex := VPtr (Some (VStruct [ (Some (TxPublic, OxNone), VLeaf 1 Plain); (Some (TxSensitive, OxNone), VLeaf 2 Plain);
                                     (None, VLeaf 3 Plain); (Some (TxOther, OxHmac), VLeaves [(4, Plain)]);
                                     (None, VMap [(7, VLeaf 5 Plain); (8, VStruct [(Some (TxSecret, OxHmac), VLeaf 6 Plain)])]);
                                     (None, VTMap [(1, TxPublic, OxNone); (2, TxSensitive, OxRedact)] [(1, VLeaf 9 Plain); (2, VLeaf 10 Plain); (3, VLeaf 11 Plain)]) ])).
Eval vm_compute in process nov ex.
