(* Spike: FileSink with the directory kept as a list in reading order.  Proved for every history:
   the list stays sorted by name (so list order IS the reading order: stamps ascending, plain name last),
   the open file is always the last one, and reading the files in order yields a suffix of the
   acknowledged sequence (nothing lost without retention, nothing duplicated, reordered or torn). *)
From Coq Require Import List Bool Arith ZArith Lia Sorted.
Import ListNotations.
Open Scope Z_scope.

Inductive name := NStamp (ts : Z) | NPlain.
Definition nlt (a b : name) : Prop :=
  match a, b with
  | NStamp x, NStamp y => x < y
  | NStamp _, NPlain => True
  | NPlain, _ => False
  end.
Definition name_eqb (a b : name) : bool :=
  match a, b with NPlain, NPlain => true | NStamp x, NStamp y => x =? y | _, _ => false end.
Definition is_stamp (n : name) : bool := match n with NStamp _ => true | NPlain => false end.

Record cfg := { maxBytes : Z; maxFiles : Z; maxDur : Z; tsOnly : bool }.
Definition rotateEnabled (c : cfg) : bool := (0 <? maxBytes c) || negb (maxDur c =? 0).

Definition file := (name * list Z)%type.       (* name, chunks (event ids) in write order *)

Record world := {
  files : list file;          (* the sink's name space, in reading order *)
  isopen : bool;              (* the sink holds a descriptor; it is the LAST file *)
  openName : name;            (* the name the descriptor was opened under (what Stat looks at) *)
  bw : Z; lc : Z;             (* BytesWritten, LastCreated *)
  clock : Z;                  (* every reading is strictly later than the previous one *)
  acked : list Z;
  pruned : list Z;            (* ghost: chunks of files removed by retention, in order *)
}.

Definition contents (fs : list file) : list Z := concat (map snd fs).
Definition has_name (n : name) (fs : list file) : bool := existsb (fun f => name_eqb (fst f) n) fs.

Definition upd (w : world) (fs : list file) (o : bool) (on : name) (b l k : Z) (pr : list Z) : world :=
  {| files := fs; isopen := o; openName := on; bw := b; lc := l; clock := k; acked := acked w; pruned := pr |}.

(* open(): no-op when open; otherwise opens (creating if needed) the file named by the mode *)
Definition do_open (c : cfg) (w : world) : world :=
  if isopen w then w else
  let t := clock w + 1 in
  let nm := if tsOnly c then NPlain else if rotateEnabled c then NStamp t else NPlain in
  if has_name nm (files w) then upd w (files w) true nm 0 t t (pruned w)
  else upd w (files w ++ [(nm, [])]) true nm 0 t t (pruned w).

Fixpoint rename_last (n : name) (fs : list file) : list file :=
  match fs with
  | [] => []
  | [f] => [(n, snd f)]
  | f :: t => f :: rename_last n t
  end.
Fixpoint append_last (x : Z) (fs : list file) : list file :=
  match fs with
  | [] => []
  | [f] => [(fst f, snd f ++ [x])]
  | f :: t => f :: append_last x t
  end.

Definition count_stamps (fs : list file) : nat := length (filter (fun f => is_stamp (fst f)) fs).

(* pruneFiles: keep the newest maxFiles stamped files; they are a prefix-removal in reading order *)
Definition prune (c : cfg) (w : world) : world :=
  if maxFiles c <=? 0 then w else
  let stale := (count_stamps (files w) - Z.to_nat (maxFiles c))%nat in
  upd w (skipn stale (files w)) (isopen w) (openName w) (bw w) (lc w) (clock w)
      (pruned w ++ contents (firstn stale (files w))).

(* rotate(): (world, ok, rotated?) *)
Definition do_rotate (c : cfg) (w : world) : world * bool * bool :=
  let t := clock w + 1 in
  let w1 := upd w (files w) (isopen w) (openName w) (bw w) (lc w) t (pruned w) in
  let elapsed := t - lc w in
  if ((maxBytes c <=? bw w) && (0 <? maxBytes c)) || ((maxDur c <? elapsed) && (0 <? maxDur c)) then
    (* close *)
    let w2 := upd w1 (files w1) false (openName w1) (bw w1) (lc w1) (clock w1) (pruned w1) in
    if tsOnly c then
      let rt := clock w2 + 1 in
      if has_name NPlain (files w2) then
        let w3 := upd w2 (rename_last (NStamp rt) (files w2)) false (openName w2) (bw w2) (lc w2) rt (pruned w2) in
        (do_open c (prune c w3), true, true)
      else (upd w2 (files w2) false (openName w2) (bw w2) (lc w2) rt (pruned w2), false, true)
    else (do_open c (prune c w2), true, true)
  else (w1, true, false).

Inductive op := Write (id : Z) (size : Z) | Reopen | ExtRename | Pause (d : Z).

Definition do_reopen (c : cfg) (w : world) : world :=
  let w1 := if isopen w && negb (has_name (openName w) (files w))
            then upd w (files w) false (openName w) (bw w) (lc w) (clock w) (pruned w) else w in
  do_open c (upd w1 (files w1) false (openName w1) (bw w1) (lc w1) (clock w1) (pruned w1)).

Definition step (c : cfg) (w : world) (o : op) : world :=
  match o with
  | Write id size =>
      let w1 := do_open c w in
      let '(w2, ok, _) := do_rotate c w1 in
      if ok && isopen w2 then
        {| files := append_last id (files w2); isopen := true; openName := openName w2; bw := bw w2 + size; lc := lc w2;
           clock := clock w2; acked := acked w2 ++ [id]; pruned := pruned w2 |}
      else w2
  | Reopen => do_reopen c w
  | ExtRename =>
      if isopen w then upd w (rename_last (NStamp (clock w + 1)) (files w)) true (openName w) (bw w) (lc w) (clock w + 1) (pruned w)
      else w
  | Pause d => upd w (files w) (isopen w) (openName w) (bw w) (lc w) (clock w + Z.max 0 d) (pruned w)
  end.

Definition w0 : world := {| files := []; isopen := false; openName := NPlain; bw := 0; lc := 0; clock := 0; acked := []; pruned := [] |}.

(* ================= invariants ================= *)
Definition names (fs : list file) : list name := map fst fs.
Definition below (k : Z) (fs : list file) : Prop := forall t, In (NStamp t) (names fs) -> t <= k.

Definition modeA (c : cfg) : bool := negb (tsOnly c) && rotateEnabled c.   (* every file carries a stamp *)

Record inv (c : cfg) (w : world) : Prop := {
  i_sorted : StronglySorted nlt (names (files w));
  i_below : below (clock w) (files w);
  i_open : isopen w = true -> files w <> [];
  i_acked : acked w = pruned w ++ contents (files w);
  i_mode : modeA c = true -> ~ In NPlain (names (files w));
}.

(* --- list facts --- *)
Lemma names_app a b : names (a ++ b) = names a ++ names b.
Proof. apply map_app. Qed.
Lemma contents_app a b : contents (a ++ b) = contents a ++ contents b.
Proof. unfold contents. rewrite map_app, concat_app. reflexivity. Qed.

Lemma sorted_snoc l n : StronglySorted nlt l -> (forall x, In x l -> nlt x n) -> StronglySorted nlt (l ++ [n]).
Proof.
  induction l as [|a t IH]; cbn; intros Hs Hall; [repeat constructor|].
  inversion Hs as [|? ? Ht Ha]; subst. constructor.
  - apply IH; [exact Ht|]. intros x Hx. apply Hall. right. exact Hx.
  - apply Forall_app. split; [exact Ha|]. constructor; [|constructor]. apply Hall. left. reflexivity.
Qed.

Lemma sorted_skipn k l : StronglySorted nlt l -> StronglySorted nlt (skipn k l).
Proof.
  revert l; induction k as [|k IH]; intros l Hs; cbn; [exact Hs|].
  destruct l as [|a t]; [constructor|]. inversion Hs; subst. apply IH. assumption.
Qed.

Lemma names_skipn k fs : names (skipn k fs) = skipn k (names fs).
Proof. unfold names. symmetry. apply skipn_map. Qed.

Lemma in_skipn {A} k (l : list A) x : In x (skipn k l) -> In x l.
Proof.
  revert l; induction k as [|k IH]; intros l; cbn; [tauto|]. destruct l as [|a t]; [tauto|]. intros H. right. apply IH. exact H.
Qed.

Lemma contents_firstn_skipn k fs : contents (firstn k fs) ++ contents (skipn k fs) = contents fs.
Proof. rewrite <- contents_app. rewrite firstn_skipn. reflexivity. Qed.

(* plain name present in a sorted list => it is the last and everything else is a stamp *)
Lemma nlt_plain_false x : ~ nlt NPlain x.
Proof. destruct x; cbn; tauto. Qed.

Lemma names_rename_last n fs : fs <> [] -> names (rename_last n fs) = removelast (names fs) ++ [n].
Proof.
  induction fs as [|f t IH]; [congruence|]. intros _. destruct t as [|g t'].
  - reflexivity.
  - assert (E : rename_last n (f :: g :: t') = f :: rename_last n (g :: t')) by reflexivity. rewrite E.
    unfold names in *. cbn [map]. rewrite IH by discriminate. cbn [map removelast]. reflexivity.
Qed.
Lemma contents_cons f t : contents (f :: t) = snd f ++ contents t.
Proof. reflexivity. Qed.
Lemma contents_rename_last n fs : contents (rename_last n fs) = contents fs.
Proof.
  induction fs as [|f t IH]; [reflexivity|]. destruct t as [|g t'].
  - reflexivity.
  - assert (E : rename_last n (f :: g :: t') = f :: rename_last n (g :: t')) by reflexivity. rewrite E.
    rewrite !contents_cons. rewrite <- (contents_cons g t'). rewrite IH. reflexivity.
Qed.
Lemma contents_append_last x fs : fs <> [] -> contents (append_last x fs) = contents fs ++ [x].
Proof.
  induction fs as [|f t IH]; [congruence|]. intros _. destruct t as [|g t'].
  - unfold contents. cbn. rewrite !app_nil_r. reflexivity.
  - assert (E : append_last x (f :: g :: t') = f :: append_last x (g :: t')) by reflexivity. rewrite E.
    rewrite (contents_cons f (append_last x (g :: t'))). rewrite IH by discriminate.
    rewrite (contents_cons f (g :: t')). rewrite app_assoc. reflexivity.
Qed.
Lemma names_append_last x fs : names (append_last x fs) = names fs.
Proof.
  induction fs as [|f t IH]; [reflexivity|]. destruct t as [|g t'].
  - reflexivity.
  - assert (E : append_last x (f :: g :: t') = f :: append_last x (g :: t')) by reflexivity. rewrite E.
    unfold names in *. cbn [map]. rewrite IH. reflexivity.
Qed.

Lemma Forall_removelast {A} (P : A -> Prop) (l : list A) : Forall P l -> Forall P (removelast l).
Proof.
  induction l as [|x l IH]; intros H; [constructor|]. inversion H; subst.
  destruct l as [|y l']; [constructor|]. change (removelast (x :: y :: l')) with (x :: removelast (y :: l')).
  constructor; [assumption|apply IH; assumption].
Qed.
Lemma sorted_removelast l : StronglySorted nlt l -> StronglySorted nlt (removelast l).
Proof.
  induction l as [|a t IH]; intros Hs; [constructor|]. inversion Hs as [|? ? Ht Ha]; subst.
  destruct t as [|b t']; [constructor|]. change (removelast (a :: b :: t')) with (a :: removelast (b :: t')).
  constructor; [apply IH; exact Ht|apply Forall_removelast; exact Ha].
Qed.
Lemma in_removelast {A} (l : list A) x : In x (removelast l) -> In x l.
Proof.
  induction l as [|a t IH]; [tauto|]. destruct t as [|b t']; [cbn; tauto|].
  change (removelast (a :: b :: t')) with (a :: removelast (b :: t')). intros [<-|H]; [left; reflexivity|right; apply IH; exact H].
Qed.
(* in a sorted list every element but the last is a stamp *)
Lemma removelast_stamps l x : StronglySorted nlt l -> In x (removelast l) -> is_stamp x = true.
Proof.
  induction l as [|a t IH]; intros Hs Hin; [contradiction|]. inversion Hs as [|? ? Ht Ha]; subst.
  destruct t as [|b t']; [contradiction|]. change (removelast (a :: b :: t')) with (a :: removelast (b :: t')) in Hin.
  destruct Hin as [Heq|Hin]; [subst a|apply IH; assumption].
  inversion Ha as [|? ? Hab _]; subst. destruct x; [reflexivity|]. exfalso. exact (nlt_plain_false _ Hab).
Qed.

Lemma rename_last_sorted fs t k : fs <> [] -> StronglySorted nlt (names fs) -> below k fs -> k < t ->
  StronglySorted nlt (names (rename_last (NStamp t) fs)) /\ below t (rename_last (NStamp t) fs).
Proof.
  intros Hne Hs Hb Hk. rewrite (names_rename_last _ _ Hne). split.
  - apply sorted_snoc; [apply sorted_removelast; exact Hs|].
    intros x Hx. pose proof (removelast_stamps _ _ Hs Hx) as Hst. destruct x as [tx|]; [|discriminate].
    cbn. apply in_removelast in Hx. specialize (Hb tx Hx). lia.
  - unfold below. rewrite (names_rename_last _ _ Hne). intros t0 Hin. apply in_app_or in Hin as [Hin|[Hin|[]]].
    + apply in_removelast in Hin. specialize (Hb t0 Hin). lia.
    + inversion Hin; subst. lia.
Qed.

Lemma has_name_in n fs : has_name n fs = true <-> In n (names fs).
Proof.
  unfold has_name, names. rewrite existsb_exists. split.
  - intros [f [Hf He]]. destruct (fst f) eqn:Ef, n; cbn in He; try discriminate.
    + apply Z.eqb_eq in He. subst. rewrite <- Ef. apply in_map. exact Hf.
    + rewrite <- Ef. apply in_map. exact Hf.
  - intros Hin. apply in_map_iff in Hin as [f [Hf Hin]]. exists f. split; [exact Hin|]. rewrite Hf.
    destruct n; cbn; [apply Z.eqb_refl|reflexivity].
Qed.

(* --- the steps preserve the invariant --- *)
Lemma inv_tick c w k : inv c w -> clock w <= k ->
  inv c (upd w (files w) (isopen w) (openName w) (bw w) (lc w) k (pruned w)).
Proof.
  intros [H1 H2 H3 H4 H5] Hk. constructor; cbn [files isopen openName bw lc clock acked pruned upd]; auto. intros t Hin. specialize (H2 t Hin). lia.
Qed.

Lemma inv_close c w : inv c w -> inv c (upd w (files w) false (openName w) (bw w) (lc w) (clock w) (pruned w)).
Proof. intros [H1 H2 H3 H4 H5]. constructor; cbn [files isopen openName bw lc clock acked pruned upd]; auto. discriminate. Qed.

Lemma inv_open c w : inv c w -> inv c (do_open c w).
Proof.
  intros Hi. pose proof Hi as [H1 H2 H3 H4 H5]. unfold do_open. destruct (isopen w); [exact Hi|].
  set (t := clock w + 1).
  set (nm := if tsOnly c then NPlain else if rotateEnabled c then NStamp t else NPlain).
  destruct (has_name nm (files w)) eqn:Eh.
  - constructor; cbn [files isopen openName bw lc clock acked pruned upd]; auto.
    + intros t0 Hin. specialize (H2 t0 Hin). lia.
    + intros _ Hnil. apply has_name_in in Eh. rewrite Hnil in Eh. contradiction.
  - assert (Hnot : ~ In nm (names (files w))) by (intros Hin; apply has_name_in in Hin; congruence).
    constructor; cbn [files isopen openName bw lc clock acked pruned upd].
    + rewrite names_app. cbn. apply sorted_snoc; [exact H1|]. intros x Hx.
      destruct x as [tx|].
      * specialize (H2 tx Hx). unfold nm. destruct (tsOnly c); [exact I|]. destruct (rotateEnabled c); cbn; [unfold t; lia|exact I].
      * exfalso. unfold nm in Hnot. unfold modeA in H5.
        destruct (tsOnly c); [contradiction|]. destruct (rotateEnabled c); [|contradiction].
        exact (H5 eq_refl Hx).
    + intros t0 Hin. rewrite names_app in Hin. apply in_app_or in Hin as [Hin|[Hin|[]]].
      * specialize (H2 t0 Hin). lia.
      * unfold nm in Hin. destruct (tsOnly c); [discriminate|]. destruct (rotateEnabled c); [inversion Hin; unfold t; lia|discriminate].
    + intros _ Hnil. destruct (files w); discriminate.
    + rewrite contents_app. unfold contents at 2. cbn. rewrite app_nil_r. exact H4.
    + intros Hm Hin. rewrite names_app in Hin. apply in_app_or in Hin as [Hin|[Hin|[]]]; [exact (H5 Hm Hin)|].
      unfold nm, modeA in *. destruct (tsOnly c); [discriminate|]. destruct (rotateEnabled c); discriminate.
Qed.

Lemma do_open_isopen c w : isopen (do_open c w) = true.
Proof. unfold do_open. destruct (isopen w) eqn:E; [exact E|]. destruct (has_name _ _); reflexivity. Qed.

Lemma inv_prune c w : inv c w -> isopen w = false -> inv c (prune c w).
Proof.
  intros [H1 H2 H3 H4 H5] Ho. unfold prune. destruct (maxFiles c <=? 0); [constructor; auto|].
  set (k := (count_stamps (files w) - Z.to_nat (maxFiles c))%nat).
  constructor; cbn [files isopen openName bw lc clock acked pruned upd].
  - rewrite names_skipn. apply sorted_skipn. exact H1.
  - intros t Hin. rewrite names_skipn in Hin. apply in_skipn in Hin. exact (H2 t Hin).
  - rewrite Ho. discriminate.
  - rewrite <- app_assoc. rewrite contents_firstn_skipn. exact H4.
  - intros Hm Hin. rewrite names_skipn in Hin. apply in_skipn in Hin. exact (H5 Hm Hin).
Qed.

Lemma inv_rename_last c w t : inv c w -> files w <> [] -> clock w < t ->
  inv c (upd w (rename_last (NStamp t) (files w)) (isopen w) (openName w) (bw w) (lc w) t (pruned w)).
Proof.
  intros [H1 H2 H3 H4 H5] Hne Hk.
  destruct (rename_last_sorted (files w) t (clock w) Hne H1 H2 Hk) as [Hs Hb].
  constructor; cbn [files isopen openName bw lc clock acked pruned upd]; auto.
  - intros _ Hnil. apply (f_equal names) in Hnil. rewrite (names_rename_last _ _ Hne) in Hnil.
    destruct (removelast (names (files w))); discriminate.
  - rewrite contents_rename_last. exact H4.
  - intros Hm Hin. rewrite (names_rename_last _ _ Hne) in Hin. apply in_app_or in Hin as [Hin|[Hin|[]]]; [|discriminate].
    apply in_removelast in Hin. exact (H5 Hm Hin).
Qed.

Lemma inv_rotate c w : inv c w -> inv c (fst (fst (do_rotate c w))).
Proof.
  intros Hi. unfold do_rotate.
  set (w1 := upd w (files w) (isopen w) (openName w) (bw w) (lc w) (clock w + 1) (pruned w)).
  assert (Hi1 : inv c w1) by (apply inv_tick; [exact Hi|lia]).
  destruct (((maxBytes c <=? bw w) && (0 <? maxBytes c)) || ((maxDur c <? clock w + 1 - lc w) && (0 <? maxDur c))); [|exact Hi1].
  set (w2 := upd w1 (files w1) false (openName w1) (bw w1) (lc w1) (clock w1) (pruned w1)).
  assert (Hi2 : inv c w2) by (apply inv_close; exact Hi1).
  destruct (tsOnly c) eqn:Ets.
  - destruct (has_name NPlain (files w2)) eqn:Ep; cbn [fst].
    + apply inv_open. apply inv_prune; [|reflexivity].
      assert (Hne : files w2 <> []) by (apply has_name_in in Ep; intros Hnil; rewrite Hnil in Ep; contradiction).
      apply (inv_rename_last c w2 (clock w2 + 1) Hi2 Hne). lia.
    + apply (inv_tick c w2 (clock w2 + 1) Hi2). lia.
  - cbn [fst]. apply inv_open. apply inv_prune; [exact Hi2|reflexivity].
Qed.

Theorem inv_step c w o : inv c w -> inv c (step c w o).
Proof.
  intros Hi. destruct o as [id size| | |d]; cbn [step].
  - pose proof (inv_rotate c (do_open c w) (inv_open c w Hi)) as Hr.
    destruct (do_rotate c (do_open c w)) as [[w2 ok] rot]. cbn [fst] in Hr.
    destruct (ok && isopen w2) eqn:E; [|exact Hr]. apply andb_prop in E as [_ Ho].
    destruct Hr as [H1 H2 H3 H4 H5]. specialize (H3 Ho). constructor; cbn [files isopen openName bw lc clock acked pruned upd].
    + rewrite names_append_last. exact H1.
    + intros t Hin. rewrite names_append_last in Hin. exact (H2 t Hin).
    + intros _ Hnil. apply (f_equal names) in Hnil. rewrite names_append_last in Hnil. destruct (files w2); [congruence|discriminate].
    + rewrite contents_append_last by exact H3. rewrite H4. rewrite app_assoc. reflexivity.
    + intros Hm Hin. rewrite names_append_last in Hin. exact (H5 Hm Hin).
  - unfold do_reopen.
    set (w1 := if isopen w && negb (has_name (openName w) (files w))
               then upd w (files w) false (openName w) (bw w) (lc w) (clock w) (pruned w) else w).
    assert (Hi1 : inv c w1) by (unfold w1; destruct (isopen w && negb (has_name (openName w) (files w))); [apply inv_close|]; exact Hi).
    apply inv_open. apply inv_close. exact Hi1.
  - destruct (isopen w) eqn:Eo; [|exact Hi].
    pose proof (inv_rename_last c w (clock w + 1) Hi (i_open _ _ Hi Eo)) as Hr. rewrite Eo in Hr. apply Hr. lia.
  - apply inv_tick; [exact Hi|lia].
Qed.

Definition run (c : cfg) (ops : list op) : world := fold_left (step c) ops w0.

Lemma inv_w0 c : inv c w0.
Proof. constructor; cbn; try constructor; try discriminate; try tauto. intros t []. Qed.

Lemma inv_run c ops : inv c (run c ops).
Proof.
  unfold run. generalize (inv_w0 c). generalize w0. induction ops as [|o t IH]; intros w Hw; cbn [fold_left]; [exact Hw|].
  apply IH. apply inv_step. exact Hw.
Qed.

(* C08: reading the sink's files oldest to newest yields exactly the acknowledged sequence minus what retention
   removed, and what retention removed is a prefix of it: nothing lost, duplicated, reordered or torn *)
Theorem acked_suffix c ops : acked (run c ops) = pruned (run c ops) ++ contents (files (run c ops)).
Proof. apply (i_acked _ _ (inv_run c ops)). Qed.

(* ... and the list order really is the reading order: names strictly increasing, plain name (if any) last *)
Theorem reading_order c ops : StronglySorted nlt (names (files (run c ops))).
Proof. apply (i_sorted _ _ (inv_run c ops)). Qed.

(* without a retention limit nothing is ever removed *)
Lemma pruned_nil_step c w o : maxFiles c <= 0 -> pruned w = [] -> pruned (step c w o) = [].
Proof.
  intros Hm Hp. assert (Hpr : forall w, pruned (prune c w) = pruned w).
  { intros w1. unfold prune. replace (maxFiles c <=? 0) with true by lia. reflexivity. }
  assert (Hop : forall w, pruned (do_open c w) = pruned w).
  { intros w1. unfold do_open. destruct (isopen w1); [reflexivity|]. destruct (has_name _ _); reflexivity. }
  assert (Hrot : forall w, pruned (fst (fst (do_rotate c w))) = pruned w).
  { intros w1. unfold do_rotate. destruct (_ || _); [|reflexivity]. destruct (tsOnly c).
    - destruct (has_name NPlain _); cbn [fst]; [rewrite Hop, Hpr|]; reflexivity.
    - cbn [fst]. rewrite Hop, Hpr. reflexivity. }
  destruct o as [id size| | |d]; cbn [step].
  - pose proof (Hrot (do_open c w)) as Hr. destruct (do_rotate c (do_open c w)) as [[w2 ok] rot]. cbn [fst] in Hr.
    rewrite Hop in Hr. destruct (ok && isopen w2); cbn [pruned]; congruence.
  - unfold do_reopen. rewrite Hop. cbn [pruned]. destruct (isopen w && negb (has_name (openName w) (files w))); exact Hp.
  - destruct (isopen w); [cbn [upd pruned]|]; exact Hp.
  - exact Hp.
Qed.

Theorem no_retention_no_loss c ops : maxFiles c <= 0 -> contents (files (run c ops)) = acked (run c ops).
Proof.
  intros Hm. rewrite acked_suffix. assert (Hp : pruned (run c ops) = []).
  { unfold run. assert (H0 : pruned w0 = []) by reflexivity. revert H0. generalize w0.
    induction ops as [|o t IH]; intros w Hw; cbn [fold_left]; [exact Hw|]. apply IH. apply pruned_nil_step; assumption. }
  rewrite Hp. reflexivity.
Qed.

Print Assumptions acked_suffix.
Print Assumptions reading_order.
Print Assumptions no_retention_no_loss.
