(* Spike: executable FileSink + file-system model; exhaustive small-history test of the
   planned C08/C15 statements (a test of the statements, not a proof). *)
From Coq Require Import List Bool Arith ZArith Lia.
Import ListNotations.
Open Scope Z_scope.

Inductive name := NPlain | NStamp (ts : Z).
Definition name_eqb (a b : name) : bool :=
  match a, b with NPlain, NPlain => true | NStamp x, NStamp y => Z.eqb x y | _, _ => false end.

Record cfg := { maxBytes : Z; maxFiles : Z; maxDur : Z; tsOnly : bool }.
Definition rotateEnabled (c : cfg) : bool := (0 <? maxBytes c) || negb (maxDur c =? 0).

Record fsys := { dir : list (name * nat); files : list (nat * list Z); nexti : nat }.
Record sink := { fopen : option (nat * name); bw : Z; lc : Z }.
Record world := { fs : fsys; sk : sink; now : Z; acked : list Z; rotations : nat }.

Definition tick (w : world) : world * Z :=
  ({| fs := fs w; sk := sk w; now := now w + 1; acked := acked w; rotations := rotations w |}, now w + 1).

Fixpoint dlookup (n : name) (d : list (name * nat)) : option nat :=
  match d with [] => None | (n', i) :: t => if name_eqb n n' then Some i else dlookup n t end.
Fixpoint dremove (n : name) (d : list (name * nat)) : list (name * nat) :=
  match d with [] => [] | (n', i) :: t => if name_eqb n n' then dremove n t else (n', i) :: dremove n t end.
Fixpoint flookup (i : nat) (f : list (nat * list Z)) : list Z :=
  match f with [] => [] | (j, c) :: t => if Nat.eqb i j then c else flookup i t end.
Fixpoint fappend (i : nat) (x : Z) (f : list (nat * list Z)) : list (nat * list Z) :=
  match f with [] => [] | (j, c) :: t => if Nat.eqb i j then (j, c ++ [x]) :: t else (j, c) :: fappend i x t end.
Fixpoint name_of_inode (i : nat) (d : list (name * nat)) : option name :=
  match d with [] => None | (n, j) :: t => if Nat.eqb i j then Some n else name_of_inode i t end.

Definition set_sink (w : world) (s : sink) : world :=
  {| fs := fs w; sk := s; now := now w; acked := acked w; rotations := rotations w |}.
Definition set_fs (w : world) (f : fsys) : world :=
  {| fs := f; sk := sk w; now := now w; acked := acked w; rotations := rotations w |}.

(* open(): no-op when a file is open *)
Definition do_open (c : cfg) (w : world) : world :=
  match fopen (sk w) with
  | Some _ => w
  | None =>
      let '(w1, t) := tick w in
      let nm := if tsOnly c then NPlain else if rotateEnabled c then NStamp t else NPlain in
      match dlookup nm (dir (fs w1)) with
      | Some i => set_sink w1 {| fopen := Some (i, nm); bw := 0; lc := t |}
      | None =>
          let i := nexti (fs w1) in
          let f' := {| dir := dir (fs w1) ++ [(nm, i)]; files := files (fs w1) ++ [(i, [])]; nexti := S i |} in
          set_sink (set_fs w1 f') {| fopen := Some (i, nm); bw := 0; lc := t |}
      end
  end.

(* stamped names sorted ascending *)
Fixpoint insert_sorted (x : Z) (l : list Z) : list Z :=
  match l with [] => [x] | y :: t => if x <=? y then x :: l else y :: insert_sorted x t end.
Definition stamps (d : list (name * nat)) : list Z :=
  fold_right (fun e a => match fst e with NStamp t => insert_sorted t a | NPlain => a end) [] d.

Definition prune (c : cfg) (w : world) : world :=
  if maxFiles c =? 0 then w else
  let ss := stamps (dir (fs w)) in
  let stale := Z.to_nat (Z.of_nat (length ss) - maxFiles c) in
  let victims := firstn stale ss in
  set_fs w {| dir := fold_left (fun d t => dremove (NStamp t) d) victims (dir (fs w)); files := files (fs w); nexti := nexti (fs w) |}.

(* rotate(): returns (world, ok) *)
Definition do_rotate (c : cfg) (w : world) : world * bool :=
  let '(w1, t) := tick w in
  let elapsed := t - lc (sk w1) in
  if ((maxBytes c <=? bw (sk w1)) && (0 <? maxBytes c)) || ((maxDur c <? elapsed) && (0 <? maxDur c)) then
    let w2 := set_sink w1 {| fopen := None; bw := bw (sk w1); lc := lc (sk w1) |} in
    let w2 := {| fs := fs w2; sk := sk w2; now := now w2; acked := acked w2; rotations := S (rotations w2) |} in
    let r :=
      if tsOnly c then
        let '(w3, rt) := tick w2 in
        match dlookup NPlain (dir (fs w3)) with
        | Some i => (set_fs w3 {| dir := dremove NPlain (dir (fs w3)) ++ [(NStamp rt, i)]; files := files (fs w3); nexti := nexti (fs w3) |}, true)
        | None => (w3, false)
        end
      else (w2, true) in
    let '(w4, ok) := r in
    if ok then (do_open c (prune c w4), true) else (w4, false)
  else (w1, true).

Inductive op := Write (id : Z) (size : Z) | Reopen | ExtRename | Pause (d : Z).

Definition do_reopen (c : cfg) (w : world) : world :=
  let w1 :=
    match fopen (sk w) with
    | Some (i, nm) =>
        match dlookup nm (dir (fs w)) with
        | Some _ => w
        | None => set_sink w {| fopen := None; bw := bw (sk w); lc := lc (sk w) |}
        end
    | None => w
    end in
  match fopen (sk w1) with
  | None => do_open c w1
  | Some _ => do_open c (set_sink w1 {| fopen := None; bw := bw (sk w1); lc := lc (sk w1) |})
  end.

Definition step (c : cfg) (w : world) (o : op) : world :=
  match o with
  | Write id size =>
      let w1 := do_open c w in
      let '(w2, ok) := do_rotate c w1 in
      if ok then
        match fopen (sk w2) with
        | Some (i, nm) =>
            let f' := {| dir := dir (fs w2); files := fappend i id (files (fs w2)); nexti := nexti (fs w2) |} in
            {| fs := f'; sk := {| fopen := fopen (sk w2); bw := bw (sk w2) + size; lc := lc (sk w2) |};
               now := now w2; acked := acked w2 ++ [id]; rotations := rotations w2 |}
        | None => w2
        end
      else w2
  | Reopen => do_reopen c w
  | ExtRename =>
      match fopen (sk w) with
      | Some (i, _) =>
          match name_of_inode i (dir (fs w)) with
          | Some cur =>
              let '(w1, t) := tick w in
              set_fs w1 {| dir := dremove cur (dir (fs w1)) ++ [(NStamp t, i)]; files := files (fs w1); nexti := nexti (fs w1) |}
          | None => w
          end
      | None => w
      end
  | Pause d => {| fs := fs w; sk := sk w; now := now w + d; acked := acked w; rotations := rotations w |}
  end.

Definition w0 : world := {| fs := {| dir := []; files := []; nexti := 0 |}; sk := {| fopen := None; bw := 0; lc := 0 |}; now := 100; acked := []; rotations := 0 |}.

(* read the sink's files oldest to newest: stamps ascending, plain last *)
Definition read_all (w : world) : list Z :=
  let d := dir (fs w) in
  flat_map (fun t => match dlookup (NStamp t) d with Some i => flookup i (files (fs w)) | None => [] end) (stamps d)
  ++ match dlookup NPlain d with Some i => flookup i (files (fs w)) | None => [] end.

Fixpoint list_eqb (a b : list Z) : bool :=
  match a, b with [] , [] => true | x :: a', y :: b' => (x =? y) && list_eqb a' b' | _, _ => false end.
Fixpoint is_suffix (s l : list Z) : bool :=
  list_eqb s l || match l with [] => false | _ :: t => is_suffix s t end.

Definition inv (c : cfg) (w : world) : bool :=
  let r := read_all w in
  is_suffix r (acked w)
  && (if maxFiles c =? 0 then list_eqb r (acked w) else true)
  && (if negb (rotateEnabled c) && negb (tsOnly c) then Nat.eqb (rotations w) 0 else true)
  && (if (maxBytes c =? 0) && (maxDur c =? 0) then Nat.eqb (rotations w) 0 else true).

(* retention right after a rotation is checked inside a dedicated runner *)
Definition rotated_count (c : cfg) (w : world) : nat :=
  let ss := stamps (dir (fs w)) in
  if tsOnly c then length ss else
    match fopen (sk w) with Some (_, NStamp _) => pred (length ss) | _ => length ss end.

Definition ops_alphabet : list op := [Write 0 2; Write 0 3; Reopen; ExtRename; Pause 5].

(* enumerate all histories of length n; ids are assigned by position *)
Fixpoint run_all (c : cfg) (n : nat) (w : world) (k : Z) : bool * N :=
  if inv c w then
    match n with
    | O => (true, 1%N)
    | S n' =>
        fold_left (fun (acc : bool * N) (o : op) =>
          if fst acc then
            let o' := match o with Write _ sz => Write k sz | o => o end in
            let w' := step c w o' in
            let rot := Nat.ltb (rotations w) (rotations w') in
            let ret_ok := if rot && (0 <? maxFiles c) && (match fopen (sk w') with Some _ => true | None => false end)
                          then Nat.leb (rotated_count c w') (Z.to_nat (maxFiles c)) else true in
            if ret_ok then let r := run_all c n' w' (k + 1) in (fst r, (snd acc + snd r)%N) else (false, snd acc)
          else acc) ops_alphabet (true, 0%N)
    end
  else (false, 0%N).

Definition configs : list cfg :=
  flat_map (fun mb => flat_map (fun mf => flat_map (fun md => map (fun ts =>
     {| maxBytes := mb; maxFiles := mf; maxDur := md; tsOnly := ts |}) [false; true]) [0; 4]) [0; 1; 2]) [0; 4].

Time Eval vm_compute in map (fun c => run_all c 6 w0 1) configs.
