(* Spike: gated.Filter (semantics after repair F1) with the C11 accounting invariant and the C17
   "nothing lingers" theorems proved for every history, fault oracle and clock. *)
From Coq Require Import List Bool Arith ZArith Lia.
Import ListNotations.
Open Scope Z_scope.

Record ev := { eid : Z; en : Z }.              (* group id, arrival number (assigned by the model) *)
Definition ev_eq_dec (a b : ev) : {a = b} + {a <> b}.
Proof. decide equality; apply Z.eq_dec. Defined.
Definition cnt (x : ev) (l : list ev) : nat := count_occ ev_eq_dec l x.

Record grp := { gid : Z; gevs : list ev; gexp : Z }.
Record outs := { sent : list (list ev); discarded : list (list ev) }.

Record env := { broker_set : bool; expiration : Z;
                send_fails : nat -> bool;           (* the n-th Broker.Send fails *)
                compose_fails : list ev -> bool }.

Definition all_of (gs : list grp) : list ev := concat (map gevs gs).

(* openGate: the group leaves the gate whatever happens; (outputs, ok) *)
Definition open_gate (E : env) (o : outs) (g : grp) : outs * bool :=
  if compose_fails E (gevs g) then ({| sent := sent o; discarded := discarded o ++ [gevs g] |}, false)
  else if broker_set E then
    if send_fails E (length (sent o) + length (discarded o))
    then ({| sent := sent o; discarded := discarded o ++ [gevs g] |}, false)
    else ({| sent := sent o ++ [gevs g]; discarded := discarded o |}, true)
  else ({| sent := sent o; discarded := discarded o ++ [gevs g] |}, true).

(* processExpiredEvents after F1: every expired group is opened, oldest first; stops at the first failure *)
Fixpoint expire_list (E : env) (now : Z) (o : outs) (gs : list grp) : list grp * outs * bool :=
  match gs with
  | [] => ([], o, true)
  | g :: t =>
      if gexp g <? now then
        let '(o', ok) := open_gate E o g in
        if ok then expire_list E now o' t else (t, o', false)
      else
        let '(k, o', ok) := expire_list E now o t in (g :: k, o', ok)
  end.

(* FlushAll with a broker after F1 *)
Fixpoint flush_list (E : env) (o : outs) (gs : list grp) : list grp * outs * bool :=
  match gs with
  | [] => ([], o, true)
  | g :: t => let '(o', ok) := open_gate E o g in if ok then flush_list E o' t else (t, o', false)
  end.

Fixpoint add_ev (e : ev) (exp_new : Z) (gs : list grp) : list grp :=
  match gs with
  | [] => [ {| gid := eid e; gevs := [e]; gexp := exp_new |} ]
  | g :: t => if gid g =? eid e then {| gid := gid g; gevs := gevs g ++ [e]; gexp := gexp g |} :: t
              else g :: add_ev e exp_new t
  end.
Fixpoint take_group (id : Z) (gs : list grp) : option grp * list grp :=
  match gs with
  | [] => (None, [])
  | g :: t => if gid g =? id then (Some g, t) else let '(r, k) := take_group id t in (r, g :: k)
  end.

Record gst := { groups : list grp; now : Z; next : Z; out : outs; returned : list (list ev);
                seen : list ev;       (* every Gateable event that entered a group *)
                accepted : list ev }. (* those for which Process reported no error *)

Inductive op := Ev (id : Z) (flush : bool) | NonGateable | Advance (d : Z) | FlushAll.
Inductive res := RPass | RWithheld | RComposite (evs : list ev) | RErr | RNil.

Definition step (E : env) (s : gst) (o : op) : gst * res :=
  match o with
  | NonGateable => (s, RPass)
  | Advance d => ({| groups := groups s; now := now s + Z.max 0 d; next := next s; out := out s; returned := returned s;
                     seen := seen s; accepted := accepted s |}, RNil)
  | FlushAll =>
      match groups s with
      | [] => (s, RNil)
      | gs =>
          if broker_set E then
            let '(k, o', ok) := flush_list E (out s) gs in
            ({| groups := k; now := now s; next := next s; out := o'; returned := returned s; seen := seen s; accepted := accepted s |},
             if ok then RNil else RErr)
          else
            ({| groups := []; now := now s; next := next s;
                out := {| sent := sent (out s); discarded := discarded (out s) ++ map gevs gs |};
                returned := returned s; seen := seen s; accepted := accepted s |}, RNil)
      end
  | Ev id flush =>
      if id =? 0 then (s, RErr) else
      let '(k, o', ok) := expire_list E (now s) (out s) (groups s) in
      if negb ok then
        ({| groups := k; now := now s; next := next s; out := o'; returned := returned s; seen := seen s; accepted := accepted s |}, RErr)
      else
        let e := {| eid := id; en := next s |} in
        let gs' := add_ev e (now s + expiration E) k in
        if flush then
          match take_group id gs' with
          | (Some g, rest) =>
              if compose_fails E (gevs g) then
                ({| groups := rest; now := now s; next := next s + 1;
                    out := {| sent := sent o'; discarded := discarded o' ++ [gevs g] |};
                    returned := returned s; seen := seen s ++ [e]; accepted := accepted s |}, RErr)
              else
                ({| groups := rest; now := now s; next := next s + 1; out := o'; returned := returned s ++ [gevs g];
                    seen := seen s ++ [e]; accepted := accepted s ++ [e] |}, RComposite (gevs g))
          | (None, rest) => (s, RErr)   (* unreachable: the event was just added *)
          end
        else
          ({| groups := gs'; now := now s; next := next s + 1; out := o'; returned := returned s;
              seen := seen s ++ [e]; accepted := accepted s ++ [e] |}, RWithheld)
  end.

Definition s0 : gst := {| groups := []; now := 0; next := 1; out := {| sent := []; discarded := [] |}; returned := [];
                          seen := []; accepted := [] |}.

(* everything the filter ever took in is in exactly one of these places *)
Definition everywhere (s : gst) : list ev :=
  concat (sent (out s)) ++ concat (discarded (out s)) ++ concat (returned s) ++ all_of (groups s).

(* ---------- counting lemmas ---------- *)
Lemma cnt_app x a b : cnt x (a ++ b) = (cnt x a + cnt x b)%nat.
Proof. apply count_occ_app. Qed.
Lemma cnt_concat_snoc x (l : list (list ev)) c : cnt x (concat (l ++ [c])) = (cnt x (concat l) + cnt x c)%nat.
Proof. rewrite concat_app. cbn. rewrite app_nil_r. apply cnt_app. Qed.
Lemma all_of_cons g t : all_of (g :: t) = gevs g ++ all_of t.
Proof. reflexivity. Qed.

Definition ocnt (x : ev) (o : outs) : nat := (cnt x (concat (sent o)) + cnt x (concat (discarded o)))%nat.

Lemma open_gate_cnt E o g x : ocnt x (fst (open_gate E o g)) = (ocnt x o + cnt x (gevs g))%nat.
Proof.
  unfold open_gate, ocnt.
  destruct (compose_fails E (gevs g)); cbn [fst sent discarded]; [rewrite cnt_concat_snoc; lia|].
  destruct (broker_set E); [|cbn [fst sent discarded]; rewrite cnt_concat_snoc; lia].
  destruct (send_fails E _); cbn [fst sent discarded]; rewrite cnt_concat_snoc; lia.
Qed.

Lemma expire_list_cnt E nw x gs : forall o,
  let '(k, o', _) := expire_list E nw o gs in
  (ocnt x o' + cnt x (all_of k) = ocnt x o + cnt x (all_of gs))%nat.
Proof.
  induction gs as [|g t IH]; intros o; cbn [expire_list]; [lia|].
  destruct (gexp g <? nw).
  - pose proof (open_gate_cnt E o g x) as Hg. destruct (open_gate E o g) as [o1 ok]. cbn [fst] in Hg.
    destruct ok.
    + specialize (IH o1). destruct (expire_list E nw o1 t) as [[k o'] ok']. rewrite all_of_cons, cnt_app. lia.
    + rewrite all_of_cons, cnt_app. lia.
  - specialize (IH o). destruct (expire_list E nw o t) as [[k o'] ok']. rewrite !all_of_cons, !cnt_app. lia.
Qed.

Lemma flush_list_cnt E x gs : forall o,
  let '(k, o', _) := flush_list E o gs in
  (ocnt x o' + cnt x (all_of k) = ocnt x o + cnt x (all_of gs))%nat.
Proof.
  induction gs as [|g t IH]; intros o; cbn [flush_list]; [lia|].
  pose proof (open_gate_cnt E o g x) as Hg. destruct (open_gate E o g) as [o1 ok]. cbn [fst] in Hg.
  destruct ok.
  - specialize (IH o1). destruct (flush_list E o1 t) as [[k o'] ok']. rewrite all_of_cons, cnt_app. lia.
  - rewrite all_of_cons, cnt_app. lia.
Qed.

Lemma add_ev_cnt x e ex gs : cnt x (all_of (add_ev e ex gs)) = (cnt x (all_of gs) + cnt x [e])%nat.
Proof.
  induction gs as [|g t IH]; cbn [add_ev]; [reflexivity|].
  destruct (gid g =? eid e).
  - rewrite !all_of_cons. cbn [gevs]. rewrite !cnt_app. lia.
  - rewrite !all_of_cons, !cnt_app, IH. lia.
Qed.

Lemma take_group_cnt x id gs :
  let '(r, k) := take_group id gs in
  cnt x (all_of gs) = (match r with Some g => cnt x (gevs g) | None => 0 end + cnt x (all_of k))%nat.
Proof.
  induction gs as [|g t IH]; cbn [take_group]; [reflexivity|].
  destruct (gid g =? id).
  - rewrite all_of_cons, cnt_app. reflexivity.
  - destruct (take_group id t) as [r k]. rewrite !all_of_cons, !cnt_app, IH. lia.
Qed.

Lemma cnt_concat_map_gevs x gs : cnt x (concat (map gevs gs)) = cnt x (all_of gs).
Proof. reflexivity. Qed.

Lemma concat_app_cnt x (a b : list (list ev)) : cnt x (concat (a ++ b)) = (cnt x (concat a) + cnt x (concat b))%nat.
Proof. rewrite concat_app. apply cnt_app. Qed.

(* ---------- C11: accounting ---------- *)
Definition ecnt (x : ev) (s : gst) : nat :=
  (ocnt x (out s) + cnt x (concat (returned s)) + cnt x (all_of (groups s)))%nat.

Lemma ecnt_everywhere x s : cnt x (everywhere s) = ecnt x s.
Proof. unfold everywhere, ecnt, ocnt. rewrite !cnt_app. lia. Qed.

Theorem step_accounting E s o x : ecnt x s = cnt x (seen s) -> ecnt x (fst (step E s o)) = cnt x (seen (fst (step E s o))).
Proof.
  intros H. destruct o as [id flush| |d|]; cbn [step].
  - destruct (id =? 0); [exact H|].
    pose proof (expire_list_cnt E (now s) x (groups s) (out s)) as He.
    destruct (expire_list E (now s) (out s) (groups s)) as [[k o'] ok].
    destruct ok; cbn [negb].
    + set (e := {| eid := id; en := next s |}).
      pose proof (add_ev_cnt x e (now s + expiration E) k) as Ha.
      destruct flush.
      * pose proof (take_group_cnt x id (add_ev e (now s + expiration E) k)) as Ht.
        destruct (take_group id (add_ev e (now s + expiration E) k)) as [[g|] rest]; [|exact H].
        destruct (compose_fails E (gevs g)); cbn [fst]; unfold ecnt, ocnt in *; cbn [out returned groups seen sent discarded];
          rewrite ?cnt_concat_snoc, ?cnt_app; lia.
      * cbn [fst]. unfold ecnt in *. cbn [out returned groups seen]. rewrite cnt_app. lia.
    + cbn [fst]. unfold ecnt in *. cbn [out returned groups seen]. lia.
  - exact H.
  - cbn [fst]. exact H.
  - destruct (groups s) as [|g t] eqn:Eg; [exact H|]. rewrite <- Eg in *.
    destruct (broker_set E).
    + pose proof (flush_list_cnt E x (groups s) (out s)) as Hf.
      destruct (flush_list E (out s) (groups s)) as [[k o'] ok]. cbn [fst]. unfold ecnt in *. cbn [out returned groups seen]. lia.
    + cbn [fst]. unfold ecnt, ocnt in *. cbn [out returned groups seen sent discarded]. rewrite concat_app_cnt.
      cbn [all_of concat map]. rewrite cnt_concat_map_gevs. cbn. lia.
Qed.

Definition run (E : env) (ops : list op) : gst := fold_left (fun s o => fst (step E s o)) ops s0.

Theorem accounting E ops x : cnt x (everywhere (run E ops)) = cnt x (seen (run E ops)).
Proof.
  rewrite ecnt_everywhere. unfold run.
  assert (H0 : ecnt x s0 = cnt x (seen s0)) by reflexivity. revert H0. generalize s0.
  induction ops as [|o t IH]; intros s H; cbn [fold_left]; [exact H|]. apply IH. apply step_accounting. exact H.
Qed.

(* arrival numbers are fresh, so [seen] has no duplicates and accepted events are among them *)
Definition fresh (s : gst) : Prop :=
  (forall e, In e (seen s) -> en e < next s) /\ NoDup (seen s) /\ incl (accepted s) (seen s).

Lemma NoDup_snoc {A} (l : list A) x : NoDup l -> ~ In x l -> NoDup (l ++ [x]).
Proof.
  induction l as [|y t IH]; cbn; intros Hd Hn; [constructor; [intros []|constructor]|].
  inversion Hd as [|? ? Hy Ht]; subst. constructor.
  - intros Hin. apply in_app_or in Hin as [Hin|[<-|[]]]; [contradiction|apply Hn; left; reflexivity].
  - apply IH; [assumption|]. intros Hin. apply Hn. right. exact Hin.
Qed.

Lemma step_fresh E s o : fresh s -> fresh (fst (step E s o)).
Proof.
  intros [H1 [H2 H3]]. destruct o as [id flush| |d|]; cbn [step]; try (split; [|split]; assumption).
  - destruct (id =? 0); [split; [|split]; assumption|].
    destruct (expire_list E (now s) (out s) (groups s)) as [[k o'] ok].
    destruct ok; cbn [negb]; [|cbn [fst]; split; [|split]; assumption].
    set (e := {| eid := id; en := next s |}).
    assert (Hnew : fresh {| groups := []; now := 0; next := next s + 1; out := o'; returned := []; seen := seen s ++ [e]; accepted := accepted s ++ [e] |}).
    { split; [|split]; cbn [seen next accepted].
      - intros e0 Hin. apply in_app_or in Hin as [Hin|[<-|[]]]; [specialize (H1 _ Hin); lia|cbn; lia].
      - apply NoDup_snoc; [exact H2|]. intros Hin. specialize (H1 _ Hin). cbn in H1. lia.
      - intros a Hin. apply in_app_or in Hin as [Hin|Hin]; apply in_or_app; [left; apply H3; exact Hin|right; exact Hin]. }
    destruct Hnew as [N1 [N2 N3]]. cbn [seen next accepted] in *.
    destruct flush.
    + destruct (take_group id (add_ev e (now s + expiration E) k)) as [[g|] rest]; [|split; [|split]; assumption].
      destruct (compose_fails E (gevs g)); cbn [fst]; (split; [|split]); cbn [seen next accepted]; auto.
      intros a Hin. apply in_or_app. left. apply H3. exact Hin.
    + cbn [fst]. split; [|split]; cbn [seen next accepted]; auto.
  - destruct (groups s) as [|g t]; [split; [|split]; assumption|].
    destruct (broker_set E).
    + destruct (flush_list E (out s) (g :: t)) as [[k o'] ok]. cbn [fst]. split; [|split]; assumption.
    + cbn [fst]. split; [|split]; assumption.
Qed.

Lemma fresh_run E ops : fresh (run E ops).
Proof.
  unfold run. assert (H0 : fresh s0) by (split; [intros ? []|split; [constructor|intros ? []]]). revert H0. generalize s0.
  induction ops as [|o t IH]; intros s H; cbn [fold_left]; [exact H|]. apply IH. apply step_fresh. exact H.
Qed.

(* C11: every accepted event is, at every moment of every history, in exactly one place *)
Theorem exactly_once E ops e : In e (accepted (run E ops)) -> cnt e (everywhere (run E ops)) = 1%nat.
Proof.
  intros Hin. rewrite accounting.
  destruct (fresh_run E ops) as [_ [Hnd Hincl]]. unfold cnt. apply NoDup_count_occ'; [exact Hnd|]. apply Hincl. exact Hin.
Qed.

(* ---------- C17: nothing lingers ---------- *)
Lemma expire_list_ok E nw gs : forall o k o', expire_list E nw o gs = (k, o', true) -> forall g, In g k -> In g gs /\ (gexp g <? nw) = false.
Proof.
  induction gs as [|g0 t IH]; intros o k o' H g Hin; cbn [expire_list] in H.
  - inversion H; subst. contradiction.
  - destruct (gexp g0 <? nw) eqn:Ex.
    + destruct (open_gate E o g0) as [o1 ok]. destruct ok; [|inversion H].
      destruct (IH _ _ _ H g Hin). split; [right|]; assumption.
    + destruct (expire_list E nw o t) as [[k1 o1] ok1] eqn:Er. inversion H; subst.
      destruct Hin as [<-|Hin]; [split; [left; reflexivity|exact Ex]|].
      destruct (IH _ _ _ Er g Hin). split; [right|]; assumption.
Qed.

Lemma add_ev_in e ex gs g : In g (add_ev e ex gs) ->
  (gexp g = ex /\ gevs g = [e]) \/ (exists g0, In g0 gs /\ gexp g = gexp g0) .
Proof.
  induction gs as [|g0 t IH]; cbn [add_ev].
  - intros [<-|[]]. left. split; reflexivity.
  - destruct (gid g0 =? eid e).
    + intros [<-|Hin]; right.
      * exists g0. split; [left; reflexivity|reflexivity].
      * exists g. split; [right; exact Hin|reflexivity].
    + intros [<-|Hin].
      * right. exists g0. split; [left; reflexivity|reflexivity].
      * destruct (IH Hin) as [?|[g1 [H1 H2]]]; [left; assumption|right; exists g1; split; [right; exact H1|exact H2]].
Qed.

Lemma take_group_in id gs g : In g (snd (take_group id gs)) -> In g gs.
Proof.
  induction gs as [|g0 t IH]; cbn [take_group]; [tauto|].
  destruct (gid g0 =? id); cbn [snd]; [intros H; right; exact H|].
  destruct (take_group id t) as [r k]. cbn [snd] in *. intros [<-|H]; [left; reflexivity|right; apply IH; exact H].
Qed.

(* after a successful Process of a Gateable event at time T, no group whose expiry lies before T remains *)
Theorem expired_gone E s id flush : 0 <= expiration E ->
  snd (step E s (Ev id flush)) <> RErr ->
  forall g, In g (groups (fst (step E s (Ev id flush)))) -> ~ (gexp g < now s).
Proof.
  intros Hexp Hres g Hin. cbn [step] in *. destruct (id =? 0); [cbn in Hres; congruence|].
  destruct (expire_list E (now s) (out s) (groups s)) as [[k o'] ok] eqn:Ee.
  destruct ok; cbn [negb] in *; [|cbn in Hres; congruence].
  set (e := {| eid := id; en := next s |}) in *.
  assert (Hk : forall g, In g (add_ev e (now s + expiration E) k) -> ~ (gexp g < now s)).
  { intros g1 H1. apply add_ev_in in H1 as [[H1 _]|[g0 [H0 H1]]].
    - lia.
    - destruct (expire_list_ok _ _ _ _ _ _ Ee g0 H0) as [_ Hx]. apply Z.ltb_ge in Hx. lia. }
  destruct flush.
  - pose proof (take_group_in id (add_ev e (now s + expiration E) k)) as Ht.
    destruct (take_group id (add_ev e (now s + expiration E) k)) as [[g1|] rest]; [|cbn in Hres; congruence].
    cbn [snd] in Ht. destruct (compose_fails E (gevs g1)); cbn [fst snd groups] in *; [congruence|].
    apply Hk. apply Ht. exact Hin.
  - cbn [fst groups] in Hin. apply Hk. exact Hin.
Qed.

Lemma flush_list_ok E gs : forall o k o', flush_list E o gs = (k, o', true) -> k = [].
Proof.
  induction gs as [|g t IH]; intros o k o' H; cbn [flush_list] in H; [inversion H; reflexivity|].
  destruct (open_gate E o g) as [o1 ok]. destruct ok; [eapply IH; eauto|inversion H].
Qed.

(* after a successful FlushAll (hence Close) nothing remains gated *)
Theorem flushall_empties E s : snd (step E s FlushAll) = RNil -> groups (fst (step E s FlushAll)) = [].
Proof.
  cbn [step]. destruct (groups s) as [|g t] eqn:Eg; [intros _; exact Eg|].
  destruct (broker_set E).
  - destruct (flush_list E (out s) (g :: t)) as [[k o'] ok] eqn:Ef. destruct ok; cbn [fst snd groups]; [|discriminate].
    intros _. eapply flush_list_ok; eauto.
  - intros _. reflexivity.
Qed.

Print Assumptions exactly_once.
Print Assumptions expired_gone.
Print Assumptions flushall_empties.
