(* Spike: executable gated.Filter model (buggy = code as it is, fixed = after F1) and an
   exhaustive small-history test of the planned C11/C17 statements (a test, not a proof). *)
From Coq Require Import List Bool Arith ZArith Lia.
Import ListNotations.
Open Scope Z_scope.

Record grp := { gid : Z; gevs : list Z; gexp : Z }.
Record gst := { groups : list grp; now : Z;
                sent : list (list Z);        (* composites sent through the Broker, in order *)
                returned : list (list Z);    (* composites returned by flush events *)
                discarded : list (list Z);   (* groups dropped: no broker / compose or send error *)
                accepted : list Z }.         (* Gateable events for which Process returned no error *)

Record env := { broker_set : bool; expiration : Z;
                send_fails : nat -> bool;    (* n-th Broker.Send fails *)
                compose_fails : list Z -> bool }.

Inductive op := Ev (id : Z) (flush : bool) (e : Z) | NonGateable (e : Z) | Advance (d : Z) | FlushAll.

Definition set_groups (s : gst) (g : list grp) : gst :=
  {| groups := g; now := now s; sent := sent s; returned := returned s; discarded := discarded s; accepted := accepted s |}.

(* openGate on one group: always removes it; result ok? *)
Definition open_gate (E : env) (s : gst) (g : grp) : gst * bool :=
  let rest := filter (fun g' => negb (gid g' =? gid g)) (groups s) in
  if compose_fails E (gevs g) then
    ({| groups := rest; now := now s; sent := sent s; returned := returned s; discarded := discarded s ++ [gevs g]; accepted := accepted s |}, false)
  else if broker_set E then
    if send_fails E (length (sent s) + length (discarded s)) then
      ({| groups := rest; now := now s; sent := sent s; returned := returned s; discarded := discarded s ++ [gevs g]; accepted := accepted s |}, false)
    else
      ({| groups := rest; now := now s; sent := sent s ++ [gevs g]; returned := returned s; discarded := discarded s; accepted := accepted s |}, true)
  else
    ({| groups := rest; now := now s; sent := sent s; returned := returned s; discarded := discarded s ++ [gevs g]; accepted := accepted s |}, true).

(* expiry walk. buggy: stops after the first gate it opens (Next() of a removed element is nil) *)
Fixpoint expire (fixed : bool) (E : env) (s : gst) (gs : list grp) : gst * bool :=
  match gs with
  | [] => (s, true)
  | g :: t =>
      if gexp g <? now s then
        let '(s', ok) := open_gate E s g in
        if ok then (if fixed then expire fixed E s' t else (s', true)) else (s', false)
      else expire fixed E s t
  end.

Fixpoint flush_all_groups (fixed : bool) (E : env) (s : gst) (gs : list grp) : gst * bool :=
  match gs with
  | [] => (s, true)
  | g :: t =>
      let '(s', ok) := open_gate E s g in
      if ok then (if fixed then flush_all_groups fixed E s' t else (s', true)) else (s', false)
  end.

Inductive res := RPass | RWithheld | RComposite (evs : list Z) | RErr | RNil.

Definition step (fixed : bool) (E : env) (s : gst) (o : op) : gst * res :=
  match o with
  | NonGateable e => (s, RPass)
  | Advance d => ({| groups := groups s; now := now s + d; sent := sent s; returned := returned s; discarded := discarded s; accepted := accepted s |}, RNil)
  | FlushAll =>
      match groups s with
      | [] => (s, RNil)
      | gs =>
          if broker_set E then
            let '(s', ok) := flush_all_groups fixed E s gs in (s', if ok then RNil else RErr)
          else
            ({| groups := []; now := now s; sent := sent s; returned := returned s;
                discarded := discarded s ++ map gevs gs; accepted := accepted s |}, RNil)
      end
  | Ev id flush e =>
      if id =? 0 then (s, RErr) else
      let '(s1, ok) := expire fixed E s (groups s) in
      if negb ok then (s1, RErr) else
      let gs := groups s1 in
      let gs' :=
        if existsb (fun g => gid g =? id) gs
        then map (fun g => if gid g =? id then {| gid := id; gevs := gevs g ++ [e]; gexp := gexp g |} else g) gs
        else gs ++ [ {| gid := id; gevs := [e]; gexp := now s1 + expiration E |} ] in
      let s2 := {| groups := gs'; now := now s1; sent := sent s1; returned := returned s1; discarded := discarded s1; accepted := accepted s1 ++ [e] |} in
      if flush then
        match find (fun g => gid g =? id) gs' with
        | Some g =>
            let rest := filter (fun g' => negb (gid g' =? id)) gs' in
            if compose_fails E (gevs g) then
              (* Process returns an error: the flush event itself was not accepted, the rest of the group is discarded *)
              ({| groups := rest; now := now s2; sent := sent s2; returned := returned s2;
                  discarded := discarded s2 ++ [gevs g]; accepted := accepted s1 |}, RErr)
            else
              ({| groups := rest; now := now s2; sent := sent s2; returned := returned s2 ++ [gevs g];
                  discarded := discarded s2; accepted := accepted s2 |}, RComposite (gevs g))
        | None => (s2, RErr)
        end
      else (s2, RWithheld)
  end.

Definition s0 : gst := {| groups := []; now := 1000; sent := []; returned := []; discarded := []; accepted := [] |}.

(* ---- statements to test ---- *)
Fixpoint count (x : Z) (l : list Z) : nat :=
  match l with [] => O | y :: t => ((if Z.eqb x y then 1 else 0) + count x t)%nat end.

Definition everywhere (s : gst) : list Z :=
  concat (sent s) ++ concat (returned s) ++ concat (discarded s) ++ concat (map gevs (groups s)).

(* C11 exactly-once: every accepted event occurs exactly once across sent/returned/discarded/gated
   (a flush event whose composition failed is in a discarded group but was not accepted: allow >= accepted) *)
Definition ok_exactly_once (s : gst) : bool :=
  forallb (fun e => Nat.eqb (count e (everywhere s)) 1) (accepted s)
  && forallb (fun e => Nat.leb (count e (everywhere s)) 1) (everywhere s).

(* order inside every composite is arrival order: event ids are assigned increasing, so sorted *)
Fixpoint sortedb (l : list Z) : bool :=
  match l with x :: ((y :: _) as t) => (x <? y) && sortedb t | _ => true end.
Definition ok_order (s : gst) : bool :=
  forallb sortedb (sent s) && forallb sortedb (returned s) && forallb sortedb (map gevs (groups s)).

(* C17: after a successful Ev at time T no group with exp < T remains *)
Definition ok_expired_gone (s : gst) (r : res) (o : op) : bool :=
  match o, r with
  | Ev _ _ _, (RWithheld | RComposite _) => forallb (fun g => negb (gexp g <? now s)) (groups s)
  | FlushAll, RNil => match groups s with [] => true | _ => false end
  | _, _ => true
  end.

Definition alphabet (k : Z) : list op :=
  [Ev 1 false k; Ev 2 false k; Ev 3 false k; Ev 1 true k; Ev 2 true k; NonGateable k; Advance 20; FlushAll].

Fixpoint run_all (fixed : bool) (E : env) (n : nat) (s : gst) (k : Z) (c17 : bool) : bool * N :=
  match n with
  | O => (true, 1%N)
  | S n' =>
      fold_left (fun (acc : bool * N) (o : op) =>
        if fst acc then
          let '(s', r) := step fixed E s o in
          if ok_exactly_once s' && ok_order s' && (if c17 then ok_expired_gone s' r o else true)
          then let rr := run_all fixed E n' s' (k + 1) c17 in (fst rr, (snd acc + snd rr)%N)
          else (false, snd acc)
        else acc) (alphabet k) (true, 0%N)
  end.

Definition envs : list env :=
  [ {| broker_set := true; expiration := 10; send_fails := fun _ => false; compose_fails := fun _ => false |};
    {| broker_set := false; expiration := 10; send_fails := fun _ => false; compose_fails := fun _ => false |};
    {| broker_set := true; expiration := 10; send_fails := fun n => Nat.eqb n 1; compose_fails := fun _ => false |};
    {| broker_set := true; expiration := 10; send_fails := fun _ => false; compose_fails := fun l => Nat.eqb (length l) 2 |} ].

(* fixed model: C11 and C17 statements on all histories of length 5 *)
Time Eval vm_compute in map (fun E => run_all true E 5 s0 1 true) envs.
(* buggy model (code as it is): C11 safety half still holds ... *)
Time Eval vm_compute in map (fun E => run_all false E 5 s0 1 false) envs.
(* ... but C17 fails: the witness search finds a violating history quickly *)
Time Eval vm_compute in map (fun E => fst (run_all false E 4 s0 1 true)) envs.
