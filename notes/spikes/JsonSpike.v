(* Spike: JSON value model, Go-style compact rendering (ASCII strings), prefix parser, round trip. *)
From Coq Require Import List Bool Arith NArith ZArith Lia ZifyN ZifyNat ZifyBool.
Import ListNotations.
Open Scope N_scope.
Ltac Zify.zify_post_hook ::= Z.div_mod_to_equations.

(* characters are N codes *)
Definition cQuote := 34. Definition cBack := 92. Definition cComma := 44. Definition cColon := 58.
Definition cLB := 91. Definition cRB := 93. Definition cLC := 123. Definition cRC := 125. Definition cMinus := 45.

Inductive jv :=
| JNull | JBool (b : bool)
| JNum (neg : bool) (digits : list N)      (* already-rendered token: digit characters *)
| JStr (s : list N)
| JArr (l : list jv)
| JObj (l : list (list N * jv)).

(* ---------- strings ---------- *)
Definition hex (d : N) : N := if d <? 10 then 48 + d else 87 + d.   (* 0-9a-f *)
Definition unhex (c : N) : option N :=
  if (48 <=? c) && (c <=? 57) then Some (c - 48)
  else if (97 <=? c) && (c <=? 102) then Some (c - 87)
  else None.

Lemma unhex_hex d : d < 16 -> unhex (hex d) = Some d.
Proof.
  intros H. unfold hex, unhex. destruct (d <? 10) eqn:E.
  - replace ((48 <=? 48 + d) && (48 + d <=? 57)) with true by lia. f_equal. lia.
  - replace ((48 <=? 87 + d) && (87 + d <=? 57)) with false by lia.
    replace ((97 <=? 87 + d) && (87 + d <=? 102)) with true by lia. f_equal. lia.
Qed.

(* Go's appendString for bytes < 0x80 with HTML escaping *)
Definition esc (c : N) : list N :=
  if c =? 34 then [92; 34]
  else if c =? 92 then [92; 92]
  else if c =? 8 then [92; 98]        (* \b *)
  else if c =? 12 then [92; 102]      (* \f *)
  else if c =? 10 then [92; 110]      (* \n *)
  else if c =? 13 then [92; 114]      (* \r *)
  else if c =? 9 then [92; 116]       (* \t *)
  else if (c <? 32) || (c =? 60) || (c =? 62) || (c =? 38) then [92; 117; 48; 48; hex (c / 16); hex (c mod 16)]
  else [c].

Fixpoint render_chars (s : list N) : list N :=
  match s with [] => [] | c :: t => esc c ++ render_chars t end.
Definition render_str (s : list N) : list N := 34 :: render_chars s ++ [34].

(* parse the body of a string (after the opening quote) up to and including the closing quote *)
Definition unescape (e : N) : option N :=
  if e =? 34 then Some 34 else if e =? 92 then Some 92 else if e =? 98 then Some 8
  else if e =? 102 then Some 12 else if e =? 110 then Some 10 else if e =? 114 then Some 13
  else if e =? 116 then Some 9 else None.

Fixpoint parse_chars (inp : list N) : option (list N * list N) :=
  match inp with
  | [] => None
  | c :: rest =>
      if c =? 34 then Some ([], rest)
      else if c =? 92 then
        match rest with
        | [] => None
        | e :: rest2 =>
            if e =? 117 then
              match rest2 with
              | a :: b :: x :: y :: rest' =>
                  match unhex a, unhex b, unhex x, unhex y with
                  | Some 0, Some 0, Some hx, Some hy =>
                      match parse_chars rest' with Some (s, r) => Some (16 * hx + hy :: s, r) | None => None end
                  | _, _, _, _ => None     (* only \u00XY is produced for ASCII input *)
                  end
              | _ => None
              end
            else
              match unescape e with
              | Some c' => match parse_chars rest2 with Some (s, r) => Some (c' :: s, r) | None => None end
              | None => None
              end
        end
      else if c <? 32 then None
      else match parse_chars rest with Some (s, r) => Some (c :: s, r) | None => None end
  end.

Definition ascii (s : list N) : Prop := Forall (fun c => c < 128) s.

Lemma parse_esc c inp : c < 128 ->
  parse_chars (esc c ++ inp) = match parse_chars inp with Some (s, r) => Some (c :: s, r) | None => None end.
Proof.
  intros Hc. unfold esc.
  destruct (c =? 34) eqn:E1; [apply N.eqb_eq in E1; subst; reflexivity|].
  destruct (c =? 92) eqn:E2; [apply N.eqb_eq in E2; subst; reflexivity|].
  destruct (c =? 8) eqn:E3; [apply N.eqb_eq in E3; subst; reflexivity|].
  destruct (c =? 12) eqn:E4; [apply N.eqb_eq in E4; subst; reflexivity|].
  destruct (c =? 10) eqn:E5; [apply N.eqb_eq in E5; subst; reflexivity|].
  destruct (c =? 13) eqn:E6; [apply N.eqb_eq in E6; subst; reflexivity|].
  destruct (c =? 9) eqn:E7; [apply N.eqb_eq in E7; subst; reflexivity|].
  destruct ((c <? 32) || (c =? 60) || (c =? 62) || (c =? 38)) eqn:E8.
  - cbn [app]. unfold parse_chars; fold parse_chars.
    change (92 =? 34) with false. change (92 =? 92) with true. change (117 =? 117) with true.
    change (unhex 48) with (Some 0).
    rewrite !unhex_hex by lia.
    destruct (parse_chars inp) as [[s r]|]; auto.
    do 2 f_equal. f_equal. lia.
  - cbn [app]. unfold parse_chars; fold parse_chars.
    rewrite E1, E2.
    replace (c <? 32) with false by (destruct (c <? 32); cbn in E8; congruence).
    reflexivity.
Qed.

Lemma parse_render_chars s rest : ascii s ->
  parse_chars (render_chars s ++ 34 :: rest) = Some (s, rest).
Proof.
  induction s as [|c s IH]; intros Ha.
  - reflexivity.
  - inversion Ha as [|? ? Hc Hs]; subst. cbn [render_chars]. rewrite <- app_assoc.
    rewrite parse_esc by assumption. rewrite (IH Hs). reflexivity.
Qed.


(* ---------- values ---------- *)
Definition is_digit (c : N) : bool := (48 <=? c) && (c <=? 57).

Fixpoint render (v : jv) : list N :=
  match v with
  | JNull => [110; 117; 108; 108]
  | JBool true => [116; 114; 117; 101]
  | JBool false => [102; 97; 108; 115; 101]
  | JNum neg ds => (if neg then [45] else []) ++ ds
  | JStr s => render_str s
  | JArr l =>
      91 :: match l with
            | [] => []
            | x :: t => render x ++ (fix tail (t : list jv) : list N :=
                                       match t with [] => [] | y :: t' => 44 :: render y ++ tail t' end) t
            end ++ [93]
  | JObj l =>
      123 :: match l with
             | [] => []
             | (k, x) :: t => render_str k ++ 58 :: render x ++
                 (fix tail (t : list (list N * jv)) : list N :=
                    match t with [] => [] | (k', y) :: t' => 44 :: render_str k' ++ 58 :: render y ++ tail t' end) t
             end ++ [125]
  end.

(* named versions of the local fixes, for stating lemmas *)
Fixpoint arr_tail (t : list jv) : list N :=
  match t with [] => [] | y :: t' => 44 :: render y ++ arr_tail t' end.
Fixpoint obj_tail (t : list (list N * jv)) : list N :=
  match t with [] => [] | (k', y) :: t' => 44 :: render_str k' ++ 58 :: render y ++ obj_tail t' end.

Lemma render_arr l : render (JArr l) = 91 :: match l with [] => [] | x :: t => render x ++ arr_tail t end ++ [93].
Proof.
  cbn [render]. destruct l as [|x t]; [reflexivity|].
  assert (E : forall t, (fix tail (t : list jv) : list N :=
                 match t with [] => [] | y :: t' => 44 :: render y ++ tail t' end) t = arr_tail t).
  { induction t0 as [|y t0 IH]; [reflexivity|]. cbn [arr_tail]. rewrite IH. reflexivity. }
  rewrite E. reflexivity.
Qed.
Lemma render_obj l : render (JObj l) =
  123 :: match l with [] => [] | (k, x) :: t => render_str k ++ 58 :: render x ++ obj_tail t end ++ [125].
Proof.
  cbn [render]. destruct l as [|[k x] t]; [reflexivity|].
  assert (E : forall t, (fix tail (t : list (list N * jv)) : list N :=
                 match t with [] => [] | (k', y) :: t' => 44 :: render_str k' ++ 58 :: render y ++ tail t' end) t = obj_tail t).
  { induction t0 as [|[k' y] t0 IH]; [reflexivity|]. cbn [obj_tail]. rewrite IH. reflexivity. }
  rewrite E. reflexivity.
Qed.

Fixpoint span_digits (inp : list N) : list N * list N :=
  match inp with
  | c :: r => if is_digit c then let '(d, r') := span_digits r in (c :: d, r') else ([], inp)
  | [] => ([], [])
  end.

Definition parse_str (inp : list N) : option (list N * list N) :=
  match inp with c :: r => if c =? 34 then parse_chars r else None | [] => None end.

Fixpoint parse (fuel : nat) (inp : list N) : option (jv * list N) :=
  match fuel with
  | O => None
  | S k =>
      match inp with
      | [] => None
      | c :: r =>
          if c =? 110 then match r with 117 :: 108 :: 108 :: r' => Some (JNull, r') | _ => None end
          else if c =? 116 then match r with 114 :: 117 :: 101 :: r' => Some (JBool true, r') | _ => None end
          else if c =? 102 then match r with 97 :: 108 :: 115 :: 101 :: r' => Some (JBool false, r') | _ => None end
          else if c =? 34 then match parse_chars r with Some (s, r') => Some (JStr s, r') | None => None end
          else if c =? 45 then
            match span_digits r with ([], _) => None | (d, r') => Some (JNum true d, r') end
          else if is_digit c then
            let '(d, r') := span_digits inp in Some (JNum false d, r')
          else if c =? 91 then
            match r with
            | [] => None
            | c2 :: r' =>
                if c2 =? 93 then Some (JArr [], r')
                else match parse k r with
                     | Some (x, r1) => match parse_arr_tail k r1 with Some (t, r2) => Some (JArr (x :: t), r2) | None => None end
                     | None => None
                     end
            end
          else if c =? 123 then
            match r with
            | [] => None
            | c2 :: r' =>
                if c2 =? 125 then Some (JObj [], r')
                else match parse_member k r with
                     | Some (kx, r1) => match parse_obj_tail k r1 with Some (t, r2) => Some (JObj (kx :: t), r2) | None => None end
                     | None => None
                     end
            end
          else None
      end
  end
with parse_arr_tail (fuel : nat) (inp : list N) : option (list jv * list N) :=
  match fuel with
  | O => None
  | S k =>
      match inp with
      | c :: r =>
          if c =? 93 then Some ([], r)
          else if c =? 44 then
            match parse k r with
            | Some (x, r1) => match parse_arr_tail k r1 with Some (t, r2) => Some (x :: t, r2) | None => None end
            | None => None
            end
          else None
      | [] => None
      end
  end
with parse_member (fuel : nat) (inp : list N) : option ((list N * jv) * list N) :=
  match fuel with
  | O => None
  | S k =>
      match parse_str inp with
      | Some (key, c :: r1) =>
          if c =? 58 then match parse k r1 with Some (x, r2) => Some ((key, x), r2) | None => None end else None
      | _ => None
      end
  end
with parse_obj_tail (fuel : nat) (inp : list N) : option (list (list N * jv) * list N) :=
  match fuel with
  | O => None
  | S k =>
      match inp with
      | c :: r =>
          if c =? 125 then Some ([], r)
          else if c =? 44 then
            match parse_member k r with
            | Some (kx, r1) => match parse_obj_tail k r1 with Some (t, r2) => Some (kx :: t, r2) | None => None end
            | None => None
            end
          else None
      | [] => None
      end
  end.

(* sanity *)
Definition ex1 := JObj [([97], JArr [JNum false [49; 50]; JStr [60; 10; 34]; JNull; JBool true; JObj []]); ([98], JNum true [55])].
Eval vm_compute in render ex1.
Eval vm_compute in parse 20 (render ex1 ++ [10]).

(* ---------- round trip ---------- *)
Fixpoint size (v : jv) : nat :=
  match v with
  | JArr l => match l with
              | [] => 1
              | x :: t => 1 + size x + (fix ts (t : list jv) : nat := match t with [] => 1 | y :: t' => 1 + size y + ts t' end) t
              end
  | JObj l => match l with
              | [] => 1
              | (_, x) :: t => 2 + size x + (fix ts (t : list (list N * jv)) : nat :=
                                               match t with [] => 1 | (_, y) :: t' => 2 + size y + ts t' end) t
              end
  | _ => 1
  end%nat.
Fixpoint tsize (t : list jv) : nat := match t with [] => 1 | y :: t' => 1 + size y + tsize t' end%nat.
Fixpoint otsize (t : list (list N * jv)) : nat := match t with [] => 1 | (_, y) :: t' => 2 + size y + otsize t' end%nat.

Lemma size_arr x t : size (JArr (x :: t)) = (1 + size x + tsize t)%nat.
Proof.
  cbn [size].
  assert (E : forall t, (fix ts (t : list jv) : nat := match t with [] => 1 | y :: t' => 1 + size y + ts t' end)%nat t = tsize t).
  { induction t0 as [|y t0 IH]; [reflexivity|]. cbn [tsize]. rewrite IH. reflexivity. }
  rewrite E. reflexivity.
Qed.
Lemma size_obj k x t : size (JObj ((k, x) :: t)) = (2 + size x + otsize t)%nat.
Proof.
  cbn [size].
  assert (E : forall t, (fix ts (t : list (list N * jv)) : nat :=
                 match t with [] => 1 | (_, y) :: t' => 2 + size y + ts t' end)%nat t = otsize t).
  { induction t0 as [|[k' y] t0 IH]; [reflexivity|]. cbn [otsize]. rewrite IH. reflexivity. }
  rewrite E. reflexivity.
Qed.
Lemma size_pos v : (1 <= size v)%nat.
Proof. destruct v as [| | | |[|x t]|[|[k x] t]]; cbn [size]; lia. Qed.

Fixpoint wf (v : jv) : Prop :=
  match v with
  | JNum _ ds => ds <> [] /\ Forall (fun c => is_digit c = true) ds
  | JStr s => ascii s
  | JArr l => (fix all (l : list jv) : Prop := match l with [] => True | x :: t => wf x /\ all t end) l
  | JObj l => (fix all (l : list (list N * jv)) : Prop :=
                 match l with [] => True | (k, x) :: t => ascii k /\ wf x /\ all t end) l
  | _ => True
  end.
Fixpoint wf_all (l : list jv) : Prop := match l with [] => True | x :: t => wf x /\ wf_all t end.
Fixpoint wf_mem (l : list (list N * jv)) : Prop := match l with [] => True | (k, x) :: t => ascii k /\ wf x /\ wf_mem t end.
Lemma wf_arr l : wf (JArr l) <-> wf_all l.
Proof. cbn [wf]. induction l as [|x t IH]; cbn [wf_all]; tauto. Qed.
Lemma wf_obj l : wf (JObj l) <-> wf_mem l.
Proof. cbn [wf]. induction l as [|[k x] t IH]; cbn [wf_mem]; tauto. Qed.

Definition follow_ok (rest : list N) : Prop := match rest with c :: _ => is_digit c = false | [] => True end.

Lemma span_digits_app ds rest :
  Forall (fun c => is_digit c = true) ds -> follow_ok rest -> span_digits (ds ++ rest) = (ds, rest).
Proof.
  induction ds as [|d ds IH]; intros Hd Hf.
  - cbn [app]. destruct rest as [|c r]; [reflexivity|]. cbn [span_digits]. cbn in Hf. rewrite Hf. reflexivity.
  - inversion Hd as [|? ? H1 H2]; subst. cbn [app span_digits]. rewrite H1. rewrite (IH H2 Hf). reflexivity.
Qed.

(* first character of a rendering *)
Lemma render_head v tl : wf v -> exists c r, render v ++ tl = c :: r /\ (c =? 93) = false.
Proof.
  intros Hw. destruct v as [|[|]|[|] ds|s|l|l].
  - eexists _, _. split; [reflexivity|reflexivity].
  - eexists _, _. split; [reflexivity|reflexivity].
  - eexists _, _. split; [reflexivity|reflexivity].
  - eexists _, _. split; [reflexivity|reflexivity].
  - cbn [render app]. destruct Hw as [Hne Hd]. destruct ds as [|d ds]; [congruence|].
    inversion Hd as [|? ? H1 _]; subst. eexists _, _. split; [reflexivity|]. unfold is_digit in H1. lia.
  - eexists _, _. split; [reflexivity|reflexivity].
  - rewrite render_arr. eexists _, _. split; [reflexivity|reflexivity].
  - rewrite render_obj. eexists _, _. split; [reflexivity|reflexivity].
Qed.

Lemma parse_str_render k rest : ascii k -> parse_str (render_str k ++ rest) = Some (k, rest).
Proof.
  intros Ha. unfold render_str, parse_str. cbn [app]. change (34 =? 34) with true.
  rewrite <- app_assoc. cbn [app]. apply parse_render_chars. exact Ha.
Qed.

Theorem parse_render_n : forall n v, (size v <= n)%nat -> wf v ->
  forall k rest, (size v <= k)%nat -> follow_ok rest -> parse k (render v ++ rest) = Some (v, rest).
Proof.
  induction n as [|n IH]; intros v Hs Hw k rest Hk Hf.
  { pose proof (size_pos v). lia. }
  destruct k as [|k]; [pose proof (size_pos v); lia|].
  destruct v as [|[|]|neg ds|s|l|l].
  - reflexivity.
  - reflexivity.
  - reflexivity.
  - (* number *)
    destruct Hw as [Hne Hd]. cbn [render]. destruct neg.
    + cbn [app]. unfold parse.
      change (45 =? 110) with false. change (45 =? 116) with false. change (45 =? 102) with false.
      change (45 =? 34) with false. change (45 =? 45) with true.
      rewrite (span_digits_app _ _ Hd Hf). destruct ds; [congruence|reflexivity].
    + cbn [app]. destruct ds as [|d ds]; [congruence|].
      inversion Hd as [|? ? H1 H2]; subst.
      pose proof (span_digits_app (d :: ds) rest Hd Hf) as Hsp.
      cbn [app] in *. unfold parse.
      assert (E : is_digit d = true) by exact H1. unfold is_digit in H1.
      replace (d =? 110) with false by lia. replace (d =? 116) with false by lia.
      replace (d =? 102) with false by lia. replace (d =? 34) with false by lia.
      replace (d =? 45) with false by lia. rewrite E. rewrite Hsp. reflexivity.
  - (* string *)
    cbn [render wf] in *. unfold render_str. cbn [app]. unfold parse.
    change (34 =? 110) with false. change (34 =? 116) with false. change (34 =? 102) with false.
    change (34 =? 34) with true. rewrite <- app_assoc. cbn [app].
    rewrite (parse_render_chars s rest Hw). reflexivity.
  - (* array *)
    rewrite render_arr. apply wf_arr in Hw.
    (* tails *)
    assert (Htail : forall t, (tsize t <= n)%nat -> wf_all t -> forall k rest, (tsize t <= k)%nat ->
                    parse_arr_tail k (arr_tail t ++ 93 :: rest) = Some (t, rest)).
    { induction t as [|y t IHt]; intros Ht Hwt k0 rest0 Hk0.
      - destruct k0; [cbn in Hk0; lia|]. reflexivity.
      - cbn [tsize] in *. destruct k0 as [|k0]; [lia|]. destruct Hwt as [Hy Hwt].
        cbn [arr_tail app]. rewrite <- app_assoc. unfold parse_arr_tail; fold parse_arr_tail; fold parse.
        change (44 =? 93) with false. change (44 =? 44) with true.
        rewrite (IH y) ; [|lia|assumption|lia|].
        + rewrite IHt; [reflexivity|lia|assumption|lia].
        + destruct t as [|z t]; cbn; reflexivity. }
    destruct l as [|x t].
    + reflexivity.
    + rewrite size_arr in *. destruct Hw as [Hx Hwt].
      cbn [app]. repeat rewrite <- app_assoc. cbn [app].
      destruct (render_head x (arr_tail t ++ 93 :: rest) Hx) as [c [r [Ehd Hc]]].
      unfold parse; fold parse; fold parse_arr_tail.
      change (91 =? 110) with false. change (91 =? 116) with false. change (91 =? 102) with false.
      change (91 =? 34) with false. change (91 =? 45) with false. change (is_digit 91) with false.
      change (91 =? 91) with true. cbv iota.
      rewrite Ehd. rewrite Hc. rewrite <- Ehd.
      rewrite (IH x); [|lia|assumption|lia|].
      * rewrite Htail; [reflexivity|lia|assumption|lia].
      * destruct t as [|z t]; cbn; reflexivity.
  - (* object *)
    rewrite render_obj. apply wf_obj in Hw.
    assert (Hmem : forall key y, ascii key -> wf y -> (size y <= n)%nat -> forall k rest, (1 + size y <= k)%nat -> follow_ok rest ->
                   parse_member k (render_str key ++ 58 :: render y ++ rest) = Some ((key, y), rest)).
    { intros key y Hkey Hy Hsy k0 rest0 Hk0 Hf0. destruct k0 as [|k0]; [lia|].
      unfold parse_member; fold parse.
      rewrite (parse_str_render key _ Hkey). change (58 =? 58) with true.
      rewrite (IH y); [reflexivity|lia|assumption|lia|assumption]. }
    assert (Htail : forall t, (otsize t <= n)%nat -> wf_mem t -> forall k rest, (otsize t <= k)%nat ->
                    parse_obj_tail k (obj_tail t ++ 125 :: rest) = Some (t, rest)).
    { induction t as [|[ky y] t IHt]; intros Ht Hwt k0 rest0 Hk0.
      - destruct k0; [cbn in Hk0; lia|]. reflexivity.
      - cbn [otsize] in *. destruct k0 as [|k0]; [lia|]. destruct Hwt as [Hky [Hy Hwt]].
        cbn [obj_tail app]. rewrite <- !app_assoc. cbn [app]. rewrite <- app_assoc.
        unfold parse_obj_tail; fold parse_obj_tail; fold parse_member.
        change (44 =? 125) with false. change (44 =? 44) with true.
        rewrite Hmem; [|assumption|assumption|lia|lia|].
        + rewrite IHt; [reflexivity|lia|assumption|lia].
        + destruct t as [|[kz z] t]; cbn; reflexivity. }
    destruct l as [|[key x] t].
    + reflexivity.
    + rewrite size_obj in *. destruct Hw as [Hkey [Hx Hwt]].
      cbn [app]. rewrite <- !app_assoc. cbn [app]. rewrite <- !app_assoc.
      unfold parse; fold parse_member; fold parse_obj_tail.
      change (123 =? 110) with false. change (123 =? 116) with false. change (123 =? 102) with false.
      change (123 =? 34) with false. change (123 =? 45) with false. change (is_digit 123) with false.
      change (123 =? 91) with false. change (123 =? 123) with true.
      unfold render_str at 1. cbn [app]. change (34 =? 125) with false.
      change (34 :: render_chars key ++ [34] ++ 58 :: render x ++ obj_tail t ++ [125] ++ rest)
        with (render_str key ++ 58 :: render x ++ (obj_tail t ++ [125] ++ rest)).
      rewrite Hmem; [|assumption|assumption|lia|lia|].
      * cbn [app]. rewrite Htail; [reflexivity|lia|assumption|lia].
      * destruct t as [|[kz z] t]; cbn; reflexivity.
Qed.

Theorem parse_render v rest : wf v -> follow_ok rest -> parse (size v) (render v ++ rest) = Some (v, rest).
Proof. intros Hw Hf. apply (parse_render_n (size v)); auto. Qed.

Print Assumptions parse_render.
