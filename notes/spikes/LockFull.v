(* Spike: the full command language emitted by the translator (Defer, Go, Block, break regions,
   multi-lock guards), its big-step trace semantics, the diagnostic checker, and SOUNDNESS:
   if the checker has no complaint, every trace of every run is safe (all accesses guarded, no lock
   re-acquired while held, no callback under a lock it may take), for any extra locks the caller holds. *)
From Coq Require Import List Bool Arith String Lia.
Import ListNotations.
Open Scope string_scope.
Notation "a +++ b" := (@List.app string a b) (at level 60, right associativity).

Inductive mode := MR | MW.
Definition mode_eqb (a b : mode) := match a, b with MR, MR | MW, MW => true | _, _ => false end.
Lemma mode_eqb_eq a b : mode_eqb a b = true -> a = b.
Proof. destruct a, b; cbn; congruence. Qed.

Inductive act :=
| Acq (l : string) (m : mode) | Rel (l : string) (m : mode)
| Rd (f : string) | Wr (f : string) | User (k : string).

Inductive prog :=
| PSkip | PAct (a : act) | PSeq (p q : prog) | PAlt (p q : prog) | PLoop (p : prog)
| PCall (f : string) | PRet | PDefer (a : act) | PGo (p : prog) | PBlock (p : prog) | PBrk | PLoop1 (p : prog).

Definition held := list (string * mode).
Fixpoint lookup (l : string) (h : held) : option mode :=
  match h with [] => None | (l', m) :: t => if String.eqb l l' then Some m else lookup l t end.
Fixpoint remove (l : string) (h : held) : held :=
  match h with [] => [] | (l', m) :: t => if String.eqb l l' then remove l t else (l', m) :: remove l t end.

Inductive guard := GLocks (ls : list string) | GImmutable | GFree.
Record contracts := {
  guard_of : string -> guard;
  requires : string -> held;
  acquires : string -> list string;
  user_acquires : string -> list string;
  constructors : list string;
}.

Definition mem (l : string) (ls : list string) : bool := existsb (String.eqb l) ls.
Definition disjoint (h : held) (ls : list string) : bool :=
  forallb (fun l => match lookup l h with None => true | Some _ => false end) ls.
Definition opt_mode_eqb (a b : option mode) : bool :=
  match a, b with Some x, Some y => mode_eqb x y | None, None => true | _, _ => false end.
Definition covers (h req : held) : bool :=
  forallb (fun lm => opt_mode_eqb (lookup (fst lm) h) (lookup (fst lm) req)) req.
Fixpoint held_eqb (a b : held) : bool :=
  match a, b with
  | [], [] => true
  | (l, m) :: a', (l', m') :: b' => String.eqb l l' && mode_eqb m m' && held_eqb a' b'
  | _, _ => false
  end.
Definition act_eqb (a b : act) : bool :=
  match a, b with
  | Acq l m, Acq l' m' | Rel l m, Rel l' m' => String.eqb l l' && mode_eqb m m'
  | Rd f, Rd f' | Wr f, Wr f' | User f, User f' => String.eqb f f'
  | _, _ => false
  end.
Fixpoint acts_eqb (a b : list act) : bool :=
  match a, b with [], [] => true | x :: a', y :: b' => act_eqb x y && acts_eqb a' b' | _, _ => false end.
Definition declared (decl : option (list string)) (l : string) : bool :=
  match decl with None => true | Some d => mem l d end.

Definition rd_ok (h : held) (ls : list string) : bool :=
  existsb (fun l => match lookup l h with Some _ => true | None => false end) ls.
Definition wr_ok (h : held) (ls : list string) : bool :=
  forallb (fun l => match lookup l h with Some MW => true | _ => false end) ls.

(* ---------- checker ---------- *)
Definition st := option (held * list act).

Section Check.
  Variable C : contracts.
  Variable fname : string.

  Definition step_act (decl : option (list string)) (h : held) (a : act) : list string * held :=
    match a with
    | Acq l m =>
        if declared decl l then
          match lookup l h with None => ([], (l, m) :: h) | Some _ => (["re-acquire of " ++ l], h) end
        else (["acquire of undeclared lock " ++ l], (l, m) :: h)
    | Rel l m =>
        if declared decl l then
          match lookup l h with
          | Some m' => if mode_eqb m m' then ([], remove l h) else (["release mode mismatch " ++ l], remove l h)
          | None => (["release of lock not held " ++ l], h)
          end
        else (["release of undeclared lock " ++ l], h)
    | Rd f =>
        match guard_of C f with
        | GLocks ls => if rd_ok h ls then ([], h) else (["unguarded read of " ++ f], h)
        | _ => ([], h)
        end
    | Wr f =>
        match guard_of C f with
        | GLocks ls => if wr_ok h ls then ([], h) else (["unguarded write of " ++ f], h)
        | GImmutable => if mem fname (constructors C) then ([], h) else (["write of immutable field " ++ f], h)
        | GFree => ([], h)
        end
    | User k =>
        if disjoint h (user_acquires C k) && forallb (declared decl) (user_acquires C k) then ([], h)
        else (["callback " ++ k ++ " runs under a lock it may acquire (or takes an undeclared one)"], h)
    end.

  Fixpoint run_defers (decl : option (list string)) (h : held) (ds : list act) : list string * held :=
    match ds with
    | [] => ([], h)
    | a :: t => let '(e1, h') := step_act decl h a in let '(e2, h'') := run_defers decl h' t in (e1 +++ e2, h'')
    end.

  (* no defer, and no goroutine / literal, directly inside a loop or switch body: keeps the deferred stack
     of a break equal to the one at loop entry (the analysed code never does it) *)
  Fixpoint no_defer (p : prog) : bool :=
    match p with
    | PDefer _ => false
    | PSeq p q | PAlt p q => no_defer p && no_defer q
    | PLoop p | PLoop1 p => no_defer p
    | _ => true
    end.

  Fixpoint check (decl : option (list string)) (entry lentry : held) (p : prog) (h : held) (ds : list act) : list string * st :=
    match p with
    | PSkip => ([], Some (h, ds))
    | PAct a => let '(e, h') := step_act decl h a in (e, Some (h', ds))
    | PDefer a => ([], Some (h, a :: ds))
    | PBrk => ((if held_eqb h lentry then [] else ["break with a different lock set than at loop entry"]), None)
    | PSeq p q =>
        match check decl entry lentry p h ds with
        | (e, None) => (e, None)
        | (e, Some (h', ds')) => let '(e2, r) := check decl entry lentry q h' ds' in (e +++ e2, r)
        end
    | PAlt p q =>
        let '(e1, r1) := check decl entry lentry p h ds in
        let '(e2, r2) := check decl entry lentry q h ds in
        match r1, r2 with
        | None, r => (e1 +++ e2, r)
        | r, None => (e1 +++ e2, r)
        | Some (h1, d1), Some (h2, d2) =>
            if held_eqb h1 h2 && acts_eqb d1 d2 then (e1 +++ e2, Some (h1, d1))
            else (e1 +++ e2 +++ ["branches disagree on held locks"], Some (h1, d1))
        end
    | PLoop p =>
        if negb (no_defer p) then (["defer inside a loop"], Some (h, ds)) else
        match check decl entry h p h ds with
        | (e, None) => (e, Some (h, ds))
        | (e, Some (h', ds')) => if held_eqb h' h then (e, Some (h, ds)) else (e +++ ["loop body not lock-neutral"], Some (h, ds))
        end
    | PLoop1 p =>
        if negb (no_defer p) then (["defer inside a switch"], Some (h, ds)) else
        match check decl entry h p h ds with
        | (e, None) => (e, Some (h, ds))
        | (e, Some (h', ds')) => if held_eqb h' h then (e, Some (h, ds)) else (e +++ ["switch not lock-neutral"], Some (h, ds))
        end
    | PCall f =>
        ((if covers h (requires C f) then [] else ["call of " ++ f ++ " without its required locks"]) +++
         (if disjoint h (acquires C f) then [] else ["call of " ++ f ++ " while holding a lock it acquires"]) +++
         (if forallb (declared decl) (acquires C f) then [] else ["callee " ++ f ++ " acquires undeclared lock"]),
         Some (h, ds))
    | PRet =>
        let '(e, h') := run_defers decl h ds in
        (e +++ (if held_eqb h' entry then [] else ["return with locks held"]), None)
    | PGo p =>
        match check None [] [] p [] [] with
        | (e, None) => (e, Some (h, ds))
        | (e, Some (h', ds')) =>
            let '(e2, h'') := run_defers None h' ds' in
            (e +++ e2 +++ (if held_eqb h'' [] then [] else ["goroutine ends with locks held"]), Some (h, ds))
        end
    | PBlock p =>
        match check decl h h p h [] with
        | (e, None) => (e, Some (h, ds))
        | (e, Some (h', ds')) =>
            let '(e2, h'') := run_defers decl h' ds' in
            (e +++ e2 +++ (if held_eqb h'' h then [] else ["literal not lock-neutral"]), Some (h, ds))
        end
    end.
End Check.

(* a function body is checked as "body; return" from exactly its required locks *)
Definition check_fn (C : contracts) (f : string) (body : prog) : list string :=
  (if disjoint (requires C f) (acquires C f) then [] else ["requires/acquires overlap"]) +++
  fst (check C f (Some (acquires C f)) (requires C f) (requires C f) (PSeq body PRet) (requires C f) []).

(* ---------- semantics ---------- *)
Inductive exit := XN | XR | XB.

Section Sem.
  Variable fenv : string -> option prog.

  (* run fn p ds t x ds' : inside function fn, from deferred stack ds, p produces trace t (actions tagged with the
     function performing them), exits with x and leaves deferred stack ds' *)
  Definition tag (fn : string) (l : list act) : list (string * act) := map (pair fn) l.

  Inductive run (fn : string) : prog -> list act -> list (string * act) -> exit -> list act -> Prop :=
  | RSkip ds : run fn PSkip ds [] XN ds
  | RAct a ds : run fn (PAct a) ds [(fn, a)] XN ds
  | RDefer a ds : run fn (PDefer a) ds [] XN (a :: ds)
  | RBrk ds : run fn PBrk ds [] XB ds
  | RRet ds : run fn PRet ds [] XR ds
  | RSeqN p q ds t1 ds1 t2 x ds2 : run fn p ds t1 XN ds1 -> run fn q ds1 t2 x ds2 -> run fn (PSeq p q) ds (t1 ++ t2) x ds2
  | RSeqX p q ds t1 x ds1 : run fn p ds t1 x ds1 -> x <> XN -> run fn (PSeq p q) ds t1 x ds1
  | RAltL p q ds t x ds1 : run fn p ds t x ds1 -> run fn (PAlt p q) ds t x ds1
  | RAltR p q ds t x ds1 : run fn q ds t x ds1 -> run fn (PAlt p q) ds t x ds1
  | RLoop0 p ds : run fn (PLoop p) ds [] XN ds
  | RLoopS p ds t1 x1 ds1 t2 x ds2 : run fn p ds t1 x1 ds1 -> x1 <> XR ->     (* normal end or continue: go round again *)
      run fn (PLoop p) ds1 t2 x ds2 -> run fn (PLoop p) ds (t1 ++ t2) x ds2
  | RLoopB p ds t1 ds1 : run fn p ds t1 XB ds1 -> run fn (PLoop p) ds t1 XN ds1    (* break *)
  | RLoopR p ds t1 ds1 : run fn p ds t1 XR ds1 -> run fn (PLoop p) ds t1 XR ds1
  | RLoop1 p ds t x ds1 : run fn p ds t x ds1 -> run fn (PLoop1 p) ds t (match x with XB => XN | x => x end) ds1
  | RCall f body ds t x dsf : fenv f = Some body -> run f body [] t x dsf -> x <> XB ->
      run fn (PCall f) ds (t ++ tag f dsf) XN ds
  | RBlock p ds t x dsf : run fn p [] t x dsf -> x <> XB -> run fn (PBlock p) ds (t ++ tag fn dsf) XN ds
  | RGo p ds : run fn (PGo p) ds [] XN ds.    (* the spawned body runs in another thread *)
End Sem.

(* ---------- what "safe" means ---------- *)
Definition act_safe (C : contracts) (fname : string) (H : held) (a : act) : Prop :=
  match a with
  | Acq l _ => lookup l H = None
  | Rel l m => lookup l H = Some m
  | Rd f => match guard_of C f with GLocks ls => rd_ok H ls = true | _ => True end
  | Wr f => match guard_of C f with
            | GLocks ls => wr_ok H ls = true
            | GImmutable => mem fname (constructors C) = true
            | GFree => True end
  | User k => disjoint H (user_acquires C k) = true
  end.
Definition upd (H : held) (a : act) : held :=
  match a with Acq l m => (l, m) :: H | Rel l _ => remove l H | _ => H end.
Fixpoint upds (H : held) (t : list (string * act)) : held := match t with [] => H | a :: t' => upds (upd H (snd a)) t' end.
Fixpoint trace_safe (C : contracts) (H : held) (t : list (string * act)) : Prop :=
  match t with [] => True | a :: t' => act_safe C (fst a) H (snd a) /\ trace_safe C (upd H (snd a)) t' end.

Lemma trace_safe_app C H t1 t2 : trace_safe C H (t1 ++ t2) <-> trace_safe C H t1 /\ trace_safe C (upds H t1) t2.
Proof. revert H; induction t1 as [|a t1 IH]; intros H; cbn; [tauto|]. rewrite IH. tauto. Qed.
Lemma upds_app H t1 t2 : upds H (t1 ++ t2) = upds (upds H t1) t2.
Proof. revert H; induction t1 as [|a t1 IH]; intros H; cbn; auto. Qed.

(* ---------- basic facts ---------- *)
Lemma held_eqb_eq a b : held_eqb a b = true -> a = b.
Proof.
  revert b; induction a as [|[l m] a IH]; intros [|[l' m'] b]; cbn; try congruence.
  intros H. apply andb_prop in H as [H H3]. apply andb_prop in H as [H1 H2].
  apply String.eqb_eq in H1. apply mode_eqb_eq in H2. f_equal; [congruence|auto].
Qed.
Lemma held_eqb_refl a : held_eqb a a = true.
Proof. induction a as [|[l m] a IH]; cbn; [reflexivity|]. rewrite String.eqb_refl, IH. destruct m; reflexivity. Qed.
Lemma mem_In l ls : mem l ls = true <-> In l ls.
Proof.
  unfold mem. rewrite existsb_exists. split.
  - intros [x [Hx He]]. apply String.eqb_eq in He. subst; auto.
  - intros H. exists l. split; auto. apply String.eqb_refl.
Qed.
Lemma lookup_remove_same l h : lookup l (remove l h) = None.
Proof. induction h as [|[l' m] h IH]; cbn; auto. destruct (String.eqb l l') eqn:E; auto. cbn. rewrite E. auto. Qed.
Lemma lookup_remove_other l l' h : l <> l' -> lookup l (remove l' h) = lookup l h.
Proof.
  intros Hn. induction h as [|[l2 m] h IH]; cbn; auto.
  destruct (String.eqb l' l2) eqn:E.
  - apply String.eqb_eq in E. subst. destruct (String.eqb l l2) eqn:E2; auto. apply String.eqb_eq in E2. congruence.
  - cbn. rewrite IH. auto.
Qed.
Lemma disjoint_spec h ls : disjoint h ls = true <-> forall l, In l ls -> lookup l h = None.
Proof.
  unfold disjoint. rewrite forallb_forall. split; intros H l Hl; specialize (H l Hl).
  - destruct (lookup l h); congruence.
  - rewrite H. auto.
Qed.
Lemma app_nil_s (a b : list string) : a +++ b = [] -> a = [] /\ b = [].
Proof. apply app_eq_nil. Qed.

(* abstract set is a sub-map of the concrete one and exact on the declared locks (all locks when decl = None) *)
Definition absrel (decl : option (list string)) (h H : held) : Prop :=
  (forall l m, lookup l h = Some m -> lookup l H = Some m) /\
  (forall l, declared decl l = true -> lookup l H = lookup l h).

Lemma rd_ok_mono h H ls : (forall l m, lookup l h = Some m -> lookup l H = Some m) -> rd_ok h ls = true -> rd_ok H ls = true.
Proof.
  intros Hs. unfold rd_ok. rewrite !existsb_exists. intros [l [Hl Hx]]. exists l. split; auto.
  destruct (lookup l h) eqn:E; [|discriminate]. rewrite (Hs _ _ E). reflexivity.
Qed.
Lemma wr_ok_mono h H ls : (forall l m, lookup l h = Some m -> lookup l H = Some m) -> wr_ok h ls = true -> wr_ok H ls = true.
Proof.
  intros Hs. unfold wr_ok. rewrite !forallb_forall. intros Hall l Hl. specialize (Hall l Hl).
  destruct (lookup l h) as [[|]|] eqn:E; try discriminate. rewrite (Hs _ _ E). reflexivity.
Qed.

Section Sound.
  Variable C : contracts.
  Variable fenv : string -> option prog.
  Hypothesis all_checked : forall f body, fenv f = Some body -> check_fn C f body = [].

  Lemma step_act_sound fn decl h H a h' :
    step_act C fn decl h a = ([], h') -> absrel decl h H ->
    act_safe C fn H a /\ absrel decl h' (upd H a) /\ (forall l, declared decl l = false -> lookup l (upd H a) = lookup l H).
  Proof.
    intros Hs [Hsub Hex]. destruct a as [l m|l m|f|f|k]; cbn [step_act act_safe upd] in *.
    - destruct (declared decl l) eqn:Ed; [|inversion Hs].
      destruct (lookup l h) eqn:El; inversion Hs; subst h'.
      assert (HlH : lookup l H = None) by (rewrite Hex; auto).
      split; [exact HlH|]. split.
      + split.
        * intros l0 m0. cbn. destruct (String.eqb l0 l) eqn:E; auto.
        * intros l0 Hl0. cbn. destruct (String.eqb l0 l) eqn:E; auto.
      + intros l0 Hn. cbn. destruct (String.eqb l0 l) eqn:E; auto. apply String.eqb_eq in E. subst. congruence.
    - destruct (declared decl l) eqn:Ed; [|inversion Hs].
      destruct (lookup l h) eqn:El; [|inversion Hs].
      destruct (mode_eqb m m0) eqn:Em; inversion Hs; subst h'.
      apply mode_eqb_eq in Em. subst m0.
      split; [apply Hsub; auto|]. split.
      + split.
        * intros l0 m0 Hl0. destruct (string_dec l0 l) as [->|Hn].
          -- rewrite lookup_remove_same in Hl0. discriminate.
          -- rewrite lookup_remove_other in * by auto. auto.
        * intros l0 Hl0. destruct (string_dec l0 l) as [->|Hn].
          -- rewrite !lookup_remove_same. auto.
          -- rewrite !lookup_remove_other by auto. auto.
      + intros l0 Hn. apply lookup_remove_other. intros ->. congruence.
    - destruct (guard_of C f) as [ls| |]; [|inversion Hs; subst; repeat split; auto..].
      destruct (rd_ok h ls) eqn:E; inversion Hs; subst. split; [eapply rd_ok_mono; eauto|]. repeat split; auto.
    - destruct (guard_of C f) as [ls| |].
      + destruct (wr_ok h ls) eqn:E; inversion Hs; subst. split; [eapply wr_ok_mono; eauto|]. repeat split; auto.
      + destruct (mem fn (constructors C)) eqn:E; inversion Hs; subst. repeat split; auto.
      + inversion Hs; subst. repeat split; auto.
    - destruct (disjoint h (user_acquires C k)) eqn:Ed; cbn [andb] in Hs; [|inversion Hs].
      destruct (forallb (declared decl) (user_acquires C k)) eqn:Ef; inversion Hs; subst.
      split; [|repeat split; auto].
      apply disjoint_spec. intros l Hl. rewrite forallb_forall in Ef. specialize (Ef l Hl).
      rewrite Hex by auto. rewrite disjoint_spec in Ed. auto.
  Qed.

  Lemma run_defers_sound fn decl ds : forall h H h',
    run_defers C fn decl h ds = ([], h') -> absrel decl h H ->
    trace_safe C H (tag fn ds) /\ absrel decl h' (upds H (tag fn ds)) /\
    (forall l, declared decl l = false -> lookup l (upds H (tag fn ds)) = lookup l H).
  Proof.
    induction ds as [|a t IH]; intros h H h' Hr Ha; cbn [run_defers] in Hr.
    - inversion Hr; subst. cbn. auto.
    - destruct (step_act C fn decl h a) as [e1 h1] eqn:E1. destruct (run_defers C fn decl h1 t) as [e2 h2] eqn:E2.
      inversion Hr as [[He Hh]]. apply app_nil_s in He as [-> ->]. subst h2.
      destruct (step_act_sound _ _ _ _ _ _ E1 Ha) as [S1 [S2 S3]].
      destruct (IH _ _ _ E2 S2) as [T1 [T2 T3]]. cbn [tag map trace_safe upds fst snd]. split; [split; assumption|]. split; [exact T2|].
      intros l Hl. rewrite T3, S3; auto.
  Qed.

  Lemma act_eqb_eq a b : act_eqb a b = true -> a = b.
  Proof.
    destruct a, b; cbn; try discriminate; intros H;
      try (apply andb_prop in H as [H1 H2]; apply String.eqb_eq in H1; apply mode_eqb_eq in H2; subst; reflexivity);
      apply String.eqb_eq in H; subst; reflexivity.
  Qed.
  Lemma acts_eqb_eq a b : acts_eqb a b = true -> a = b.
  Proof.
    revert b; induction a as [|x a IH]; intros [|y b]; cbn; try discriminate; [reflexivity|].
    intros H. apply andb_prop in H as [H1 H2]. apply act_eqb_eq in H1. rewrite (IH _ H2). subst. reflexivity.
  Qed.

  Lemma no_defer_run fn p ds t x ds' : run fenv fn p ds t x ds' -> no_defer p = true -> ds' = ds.
  Proof.
    induction 1; cbn [no_defer]; intros Hn; try reflexivity; try discriminate.
    - apply andb_prop in Hn as [H1 H2]. rewrite (IHrun2 H2). apply IHrun1. exact H1.
    - apply andb_prop in Hn as [H1 H2]. apply IHrun. exact H1.
    - apply andb_prop in Hn as [H1 H2]. apply IHrun. exact H1.
    - apply andb_prop in Hn as [H1 H2]. apply IHrun. exact H2.
    - rewrite (IHrun2 Hn). apply IHrun1. exact Hn.
    - apply IHrun. exact Hn.
    - apply IHrun. exact Hn.
    - apply IHrun. exact Hn.
  Qed.

  Lemma covers_spec h req : covers h req = true -> forall l m, lookup l req = Some m -> lookup l h = Some m.
  Proof.
    unfold covers. rewrite forallb_forall. intros Hc l m Hl.
    assert (Hin : exists m', In (l, m') req).
    { clear Hc. induction req as [|[l' m'] req IH]; cbn in *; try discriminate.
      destruct (String.eqb l l') eqn:E.
      - apply String.eqb_eq in E. subst. eauto.
      - destruct (IH Hl) as [m2 H2]. eauto. }
    destruct Hin as [m' Hin]. specialize (Hc _ Hin). cbn in Hc.
    rewrite Hl in Hc. destruct (lookup l h); cbn in Hc; try discriminate.
    apply mode_eqb_eq in Hc. congruence.
  Qed.

  Definition post (decl : option (list string)) (entry lentry : held) (fn : string) (res : st)
             (H : held) (t : list (string * act)) (x : exit) (dsout : list act) : Prop :=
    trace_safe C H t /\
    (forall l, declared decl l = false -> lookup l (upds H t) = lookup l H) /\
    match x with
    | XN => exists h', res = Some (h', dsout) /\ absrel decl h' (upds H t)
    | XR => trace_safe C (upds H t) (tag fn dsout) /\ absrel decl entry (upds H (t ++ tag fn dsout)) /\
            (forall l, declared decl l = false -> lookup l (upds H (t ++ tag fn dsout)) = lookup l H)
    | XB => absrel decl lentry (upds H t)
    end.

  Lemma absrel_nil_trace decl h H : absrel decl h H -> absrel decl h (upds H []).
  Proof. auto. Qed.

  Theorem check_sound :
    forall fn p ds t x ds', run fenv fn p ds t x ds' ->
    forall decl entry lentry h H res,
      check C fn decl entry lentry p h ds = ([], res) -> absrel decl h H ->
      post decl entry lentry fn res H t x ds'.
  Proof.
    induction 1 as [ fn ds | fn a ds | fn a ds | fn ds | fn ds
                   | fn p q ds t1 ds1 t2 x ds2 R1 IH1 R2 IH2
                   | fn p q ds t1 x ds1 R1 IH1 Hx
                   | fn p q ds t x ds1 R IH | fn p q ds t x ds1 R IH
                   | fn p ds
                   | fn p ds t1 x1 ds1 t2 x ds2 R1 IH1 Hx1 R2 IH2
                   | fn p ds t1 ds1 R1 IH1
                   | fn p ds t1 ds1 R1 IH1
                   | fn p ds t x ds1 R IH
                   | fn f body ds t x dsf Hf R IH Hxb
                   | fn p ds t x dsf R IH Hxb
                   | fn p ds ];
      intros decl entry lentry h H res Hc Ha; cbn [check] in Hc.
    - (* skip *) inversion Hc; subst. split; [exact I|]. split; [auto|]. exists h. auto.
    - (* act *)
      destruct (step_act C fn decl h a) as [e h1] eqn:Es. inversion Hc; subst.
      destruct (step_act_sound _ _ _ _ _ _ Es Ha) as [S1 [S2 S3]].
      split; [cbn; auto|]. split; [cbn; auto|]. exists h1. auto.
    - (* defer *) inversion Hc; subst. split; [exact I|]. split; [auto|]. exists h. auto.
    - (* break *)
      destruct (held_eqb h lentry) eqn:E; inversion Hc. apply held_eqb_eq in E. subst.
      split; [exact I|]. split; [auto|]. exact Ha.
    - (* return *)
      destruct (run_defers C fn decl h ds) as [e h1] eqn:Er. injection Hc as He Hres.
      apply app_nil_s in He as [-> He]. destruct (held_eqb h1 entry) eqn:E; [|discriminate].
      apply held_eqb_eq in E. subst h1.
      destruct (run_defers_sound _ _ _ _ _ _ Er Ha) as [T1 [T2 T3]].
      split; [exact I|]. split; [auto|]. cbn [app upds]. auto.
    - (* seq, first part normal *)
      destruct (check C fn decl entry lentry p h ds) as [e1 [[h1 d1]|]] eqn:E1.
      + destruct (check C fn decl entry lentry q h1 d1) as [e2 r2] eqn:E2. injection Hc as He Hres.
        apply app_nil_s in He as [-> ->]. subst r2.
        destruct (IH1 _ _ _ _ _ _ E1 Ha) as [T1 [F1 [h' [Eh A1]]]]. inversion Eh; subst h' d1.
        destruct (IH2 _ _ _ _ _ _ E2 A1) as [T2 [F2 P2]].
        split; [apply trace_safe_app; auto|]. split.
        * intros l Hl. rewrite upds_app, F2, F1; auto.
        * destruct x.
          -- rewrite upds_app. exact P2.
          -- destruct P2 as [P2a [P2b P2c]]. rewrite upds_app. split; [exact P2a|].
             rewrite <- app_assoc, !upds_app. rewrite upds_app in P2b, P2c. split; [exact P2b|].
             intros l Hl. rewrite P2c, F1; auto.
          -- rewrite upds_app. exact P2.
      + inversion Hc; subst. destruct (IH1 _ _ _ _ _ _ E1 Ha) as [_ [_ [h' [Eh _]]]]. discriminate.
    - (* seq, first part leaves *)
      destruct (check C fn decl entry lentry p h ds) as [e1 [[h1 d1]|]] eqn:E1.
      + destruct (check C fn decl entry lentry q h1 d1) as [e2 r2] eqn:E2. injection Hc as He Hres.
        apply app_nil_s in He as [-> ->].
        destruct (IH1 _ _ _ _ _ _ E1 Ha) as [T1 [F1 P1]]. split; [exact T1|]. split; [exact F1|].
        destruct x; [congruence|exact P1|exact P1].
      + inversion Hc; subst. destruct (IH1 _ _ _ _ _ _ E1 Ha) as [T1 [F1 P1]]. split; [exact T1|]. split; [exact F1|].
        destruct x; [congruence|exact P1|exact P1].
    - (* alt left *)
      destruct (check C fn decl entry lentry p h ds) as [e1 r1] eqn:E1.
      destruct (check C fn decl entry lentry q h ds) as [e2 r2] eqn:E2.
      assert (He : e1 = [] /\ (x = XN -> res = r1)).
      { destruct r1 as [[h1 d1]|]; destruct r2 as [[h2 d2]|].
        - destruct (held_eqb h1 h2 && acts_eqb d1 d2) eqn:Eq; injection Hc as He Hres.
          + apply app_nil_s in He as [-> _]. auto.
          + apply app_nil_s in He as [_ He]. apply app_nil_s in He as [_ He]. discriminate.
        - injection Hc as He Hres. apply app_nil_s in He as [-> _]. auto.
        - injection Hc as He Hres. apply app_nil_s in He as [-> _]. split; [reflexivity|].
          intros ->. destruct (IH _ _ _ _ _ _ E1 Ha) as [_ [_ [h' [Eh _]]]]. subst. discriminate.
        - injection Hc as He Hres. apply app_nil_s in He as [-> _]. auto. }
      destruct He as [-> Hr]. destruct (IH _ _ _ _ _ _ E1 Ha) as [T1 [F1 P1]].
      split; [exact T1|]. split; [exact F1|]. destruct x; [rewrite (Hr eq_refl); exact P1|exact P1|exact P1].
    - (* alt right *)
      destruct (check C fn decl entry lentry p h ds) as [e1 r1] eqn:E1.
      destruct (check C fn decl entry lentry q h ds) as [e2 r2] eqn:E2.
      assert (He : e2 = [] /\ (x = XN -> res = r2)).
      { destruct r1 as [[h1 d1]|]; destruct r2 as [[h2 d2]|].
        - destruct (held_eqb h1 h2 && acts_eqb d1 d2) eqn:Eq; injection Hc as He Hres.
          + apply app_nil_s in He as [_ ->]. apply andb_prop in Eq as [Q1 Q2].
            apply held_eqb_eq in Q1. apply acts_eqb_eq in Q2. subst. auto.
          + apply app_nil_s in He as [_ He]. apply app_nil_s in He as [_ He]. discriminate.
        - injection Hc as He Hres. apply app_nil_s in He as [_ ->]. split; [reflexivity|].
          intros ->. destruct (IH _ _ _ _ _ _ E2 Ha) as [_ [_ [h' [Eh _]]]]. discriminate.
        - injection Hc as He Hres. apply app_nil_s in He as [_ ->]. auto.
        - injection Hc as He Hres. apply app_nil_s in He as [_ ->]. auto. }
      destruct He as [-> Hr]. destruct (IH _ _ _ _ _ _ E2 Ha) as [T1 [F1 P1]].
      split; [exact T1|]. split; [exact F1|]. destruct x; [rewrite (Hr eq_refl); exact P1|exact P1|exact P1].
    - (* loop, zero iterations *)
      destruct (no_defer p) eqn:End; cbn [negb] in Hc; [|inversion Hc].
      destruct (check C fn decl entry h p h ds) as [e1 [[h1 d1]|]] eqn:E1.
      + destruct (held_eqb h1 h) eqn:Eq; injection Hc as He Hres; [|apply app_nil_s in He as [_ He]; discriminate].
        split; [exact I|]. split; [auto|]. exists h. auto.
      + inversion Hc; subst. split; [exact I|]. split; [auto|]. exists h. auto.
    - (* loop, one more round *)
      destruct (no_defer p) eqn:End; cbn [negb] in Hc; [|inversion Hc].
      pose proof (no_defer_run _ _ _ _ _ _ R1 End) as Hds. subst ds1.
      destruct (check C fn decl entry h p h ds) as [e1 r1] eqn:E1.
      assert (He : e1 = [] /\ res = Some (h, ds) /\ (forall h1 d1, r1 = Some (h1, d1) -> h1 = h)).
      { destruct r1 as [[h1 d1]|].
        - destruct (held_eqb h1 h) eqn:Eq; injection Hc as He Hres; [|apply app_nil_s in He as [_ He]; discriminate].
          apply held_eqb_eq in Eq. subst. split; [reflexivity|]. split; [reflexivity|]. intros ? ? Hx. inversion Hx; reflexivity.
        - inversion Hc; subst. split; [reflexivity|]. split; [reflexivity|]. intros ? ? Hx. discriminate. }
      destruct He as [-> [-> Hh]].
      destruct (IH1 _ _ _ _ _ _ E1 Ha) as [T1 [F1 P1]].
      assert (A1 : absrel decl h (upds H t1)).
      { destruct x1; [|congruence|exact P1]. destruct P1 as [h' [Eh A]]. rewrite (Hh _ _ Eh) in A. exact A. }
      assert (Hc2 : check C fn decl entry lentry (PLoop p) h ds = ([], Some (h, ds))).
      { cbn [check]. rewrite End. cbn [negb]. rewrite E1. destruct r1 as [[h1 d1]|]; [|reflexivity].
        rewrite (Hh _ _ eq_refl). rewrite held_eqb_refl. reflexivity. }
      destruct (IH2 _ _ _ _ _ _ Hc2 A1) as [T2 [F2 P2]].
      split; [apply trace_safe_app; auto|]. split.
      + intros l Hl. rewrite upds_app, F2, F1; auto.
      + destruct x.
        * rewrite upds_app. exact P2.
        * destruct P2 as [P2a [P2b P2c]]. rewrite upds_app. split; [exact P2a|].
          rewrite <- app_assoc, !upds_app. rewrite upds_app in P2b, P2c. split; [exact P2b|].
          intros l Hl. rewrite P2c, F1; auto.
        * rewrite upds_app. exact P2.
    - (* loop, break *)
      destruct (no_defer p) eqn:End; cbn [negb] in Hc; [|inversion Hc].
      pose proof (no_defer_run _ _ _ _ _ _ R1 End) as Hds. subst ds1.
      destruct (check C fn decl entry h p h ds) as [e1 r1] eqn:E1.
      assert (He : e1 = [] /\ res = Some (h, ds)).
      { destruct r1 as [[h1 d1]|].
        - destruct (held_eqb h1 h) eqn:Eq; injection Hc as He Hres; [|apply app_nil_s in He as [_ He]; discriminate]. auto.
        - inversion Hc; subst. auto. }
      destruct He as [-> ->]. destruct (IH1 _ _ _ _ _ _ E1 Ha) as [T1 [F1 P1]].
      split; [exact T1|]. split; [exact F1|]. exists h. auto.
    - (* loop, return from the body *)
      destruct (no_defer p) eqn:End; cbn [negb] in Hc; [|inversion Hc].
      destruct (check C fn decl entry h p h ds) as [e1 r1] eqn:E1.
      assert (He : e1 = []).
      { destruct r1 as [[h1 d1]|].
        - destruct (held_eqb h1 h) eqn:Eq; injection Hc as He Hres; [exact He|apply app_nil_s in He as [He _]; exact He].
        - injection Hc as He Hres. exact He. }
      subst e1. destruct (IH1 _ _ _ _ _ _ E1 Ha) as [T1 [F1 P1]]. split; [exact T1|]. split; [exact F1|]. exact P1.
    - (* switch / select *)
      destruct (no_defer p) eqn:End; cbn [negb] in Hc; [|inversion Hc].
      pose proof (no_defer_run _ _ _ _ _ _ R End) as Hds. subst ds1.
      destruct (check C fn decl entry h p h ds) as [e1 r1] eqn:E1.
      assert (He : e1 = [] /\ res = Some (h, ds) /\ (forall h1 d1, r1 = Some (h1, d1) -> h1 = h)).
      { destruct r1 as [[h1 d1]|].
        - destruct (held_eqb h1 h) eqn:Eq; injection Hc as He Hres; [|apply app_nil_s in He as [_ He]; discriminate].
          apply held_eqb_eq in Eq. subst. split; [reflexivity|]. split; [reflexivity|]. intros ? ? Hx. inversion Hx; reflexivity.
        - inversion Hc; subst. split; [reflexivity|]. split; [reflexivity|]. intros ? ? Hx. discriminate. }
      destruct He as [-> [-> Hh]]. destruct (IH _ _ _ _ _ _ E1 Ha) as [T1 [F1 P1]].
      split; [exact T1|]. split; [exact F1|]. destruct x.
      + destruct P1 as [h' [Eh A]]. rewrite (Hh _ _ Eh) in A. exists h. auto.
      + exact P1.
      + exists h. auto.
    - (* call *)
      injection Hc as He Hres. apply app_nil_s in He as [E1 He]. apply app_nil_s in He as [E2 E3].
      destruct (covers h (requires C f)) eqn:Ecov; [|discriminate].
      destruct (disjoint h (acquires C f)) eqn:Edis; [|discriminate].
      destruct (forallb (declared decl) (acquires C f)) eqn:Esub; [|discriminate].
      pose proof (all_checked _ _ Hf) as Hck. unfold check_fn in Hck.
      apply app_nil_s in Hck as [Hdj Hck].
      destruct (disjoint (requires C f) (acquires C f)) eqn:Edj; [|discriminate].
      rewrite disjoint_spec in Edj, Edis. rewrite forallb_forall in Esub.
      destruct Ha as [Hsub Hex].
      assert (Ha' : absrel (Some (acquires C f)) (requires C f) H).
      { split.
        - intros l m Hl. apply Hsub. eapply covers_spec; eauto.
        - intros l Hl. cbn in Hl. apply mem_In in Hl. rewrite (Edj l Hl). rewrite Hex by (apply Esub; exact Hl). apply Edis. exact Hl. }
      cbn [check] in Hck.
      destruct (check C f (Some (acquires C f)) (requires C f) (requires C f) body (requires C f) []) as [eb [[hb db]|]] eqn:Eb.
      + destruct (run_defers C f (Some (acquires C f)) hb db) as [er hr] eqn:Er. cbn [fst] in Hck.
        apply app_nil_s in Hck as [-> Hck]. apply app_nil_s in Hck as [-> Hck].
        destruct (held_eqb hr (requires C f)) eqn:Eq; [|discriminate]. apply held_eqb_eq in Eq. subst hr.
        destruct (IH _ _ _ _ _ _ Eb Ha') as [T1 [F1 P1]].
        assert (Hfin : trace_safe C (upds H t) (tag f dsf) /\ absrel (Some (acquires C f)) (requires C f) (upds H (t ++ tag f dsf)) /\
                       (forall l, declared (Some (acquires C f)) l = false -> lookup l (upds H (t ++ tag f dsf)) = lookup l H)).
        { destruct x; [|exact P1|congruence].
          destruct P1 as [h' [Eh A]]. inversion Eh; subst h' db.
          destruct (run_defers_sound _ _ _ _ _ _ Er A) as [D1 [D2 D3]]. rewrite upds_app. split; [exact D1|]. split; [exact D2|].
          intros l Hl. rewrite D3, F1; auto. }
        destruct Hfin as [G1 [G2 G3]].
        split; [apply trace_safe_app; auto|]. split.
        * intros l Hl. apply G3. cbn. destruct (mem l (acquires C f)) eqn:Em; [|reflexivity].
          apply mem_In in Em. rewrite (Esub l Em) in Hl. discriminate.
        * exists h. split; [subst; reflexivity|]. destruct G2 as [_ G2b]. split.
          -- intros l m Hl. destruct (mem l (acquires C f)) eqn:Em.
             ++ apply mem_In in Em. rewrite (Edis l Em) in Hl. discriminate.
             ++ rewrite G3 by exact Em. auto.
          -- intros l Hl. destruct (mem l (acquires C f)) eqn:Em.
             ++ rewrite G2b by exact Em. apply mem_In in Em. rewrite (Edj l Em), (Edis l Em). reflexivity.
             ++ rewrite G3 by exact Em. auto.
      + cbn [fst] in Hck. subst eb.
        destruct (IH _ _ _ _ _ _ Eb Ha') as [T1 [F1 P1]].
        assert (Hfin : trace_safe C (upds H t) (tag f dsf) /\ absrel (Some (acquires C f)) (requires C f) (upds H (t ++ tag f dsf)) /\
                       (forall l, declared (Some (acquires C f)) l = false -> lookup l (upds H (t ++ tag f dsf)) = lookup l H)).
        { destruct x; [|exact P1|congruence]. destruct P1 as [h' [Eh A]]. discriminate. }
        destruct Hfin as [G1 [G2 G3]].
        split; [apply trace_safe_app; auto|]. split.
        * intros l Hl. apply G3. cbn. destruct (mem l (acquires C f)) eqn:Em; [|reflexivity].
          apply mem_In in Em. rewrite (Esub l Em) in Hl. discriminate.
        * exists h. split; [subst; reflexivity|]. destruct G2 as [_ G2b]. split.
          -- intros l m Hl. destruct (mem l (acquires C f)) eqn:Em.
             ++ apply mem_In in Em. rewrite (Edis l Em) in Hl. discriminate.
             ++ rewrite G3 by exact Em. auto.
          -- intros l Hl. destruct (mem l (acquires C f)) eqn:Em.
             ++ rewrite G2b by exact Em. apply mem_In in Em. rewrite (Edj l Em), (Edis l Em). reflexivity.
             ++ rewrite G3 by exact Em. auto.
    - (* function literal called in place *)
      destruct (check C fn decl h h p h []) as [eb [[hb db]|]] eqn:Eb.
      + destruct (run_defers C fn decl hb db) as [er hr] eqn:Er. injection Hc as He Hres.
        apply app_nil_s in He as [-> He]. apply app_nil_s in He as [-> He].
        destruct (held_eqb hr h) eqn:Eq; [|discriminate]. apply held_eqb_eq in Eq. subst hr.
        destruct (IH _ _ _ _ _ _ Eb Ha) as [T1 [F1 P1]].
        assert (Hfin : trace_safe C (upds H t) (tag fn dsf) /\ absrel decl h (upds H (t ++ tag fn dsf)) /\
                       (forall l, declared decl l = false -> lookup l (upds H (t ++ tag fn dsf)) = lookup l H)).
        { destruct x; [|exact P1|congruence].
          destruct P1 as [h' [Eh A]]. inversion Eh; subst h' db.
          destruct (run_defers_sound _ _ _ _ _ _ Er A) as [D1 [D2 D3]]. rewrite upds_app. split; [exact D1|]. split; [exact D2|].
          intros l Hl. rewrite D3, F1; auto. }
        destruct Hfin as [G1 [G2 G3]].
        split; [apply trace_safe_app; auto|]. split; [exact G3|]. exists h. auto.
      + inversion Hc; subst.
        destruct (IH _ _ _ _ _ _ Eb Ha) as [T1 [F1 P1]].
        assert (Hfin : trace_safe C (upds H t) (tag fn dsf) /\ absrel decl h (upds H (t ++ tag fn dsf)) /\
                       (forall l, declared decl l = false -> lookup l (upds H (t ++ tag fn dsf)) = lookup l H)).
        { destruct x; [|exact P1|congruence]. destruct P1 as [h' [Eh A]]. discriminate. }
        destruct Hfin as [G1 [G2 G3]].
        split; [apply trace_safe_app; auto|]. split; [exact G3|]. exists h. auto.
    - (* go: nothing happens in this thread *)
      assert (Hres : res = Some (h, ds)).
      { destruct (check C fn None [] [] p [] []) as [e1 [[h1 d1]|]]; [destruct (run_defers C fn None h1 d1)|]; inversion Hc; reflexivity. }
      subst. split; [exact I|]. split; [auto|]. exists h. auto.
  Qed.

  (* entry point: an exported function with no requirement, called by a thread that holds nothing of what it acquires *)
  Corollary entry_point_safe f body t x dsf :
    fenv f = Some body -> requires C f = [] -> run fenv f body [] t x dsf -> x <> XB ->
    trace_safe C [] (t ++ tag f dsf).
  Proof.
    intros Hf Hr Hrun Hx.
    assert (Hcall : run fenv f (PCall f) [] (t ++ tag f dsf) XN []) by (eapply RCall; eauto).
    assert (Hck : check C f (Some (acquires C f)) [] [] (PCall f) [] [] = ([], Some ([], []))).
    { cbn [check]. rewrite Hr. cbn [covers forallb].
      assert (Hd : disjoint [] (acquires C f) = true) by (apply disjoint_spec; reflexivity).
      assert (Hs : forallb (declared (Some (acquires C f))) (acquires C f) = true).
      { apply forallb_forall. intros l Hl. cbn. apply mem_In. exact Hl. }
      rewrite Hd, Hs. reflexivity. }
    assert (Ha : absrel (Some (acquires C f)) [] []) by (split; auto).
    destruct (check_sound _ _ _ _ _ _ Hcall _ _ _ _ _ _ Hck Ha) as [T _]. exact T.
  Qed.
End Sound.

Print Assumptions check_sound.
Print Assumptions entry_point_safe.

(* ================= from "every access holds its guard" to "no data race" ================= *)
(* Two threads (any two threads of a larger system: removing the others only enables more steps), each with the
   locks it holds and the tagged trace it still has to perform.  A thread may take a step when the lock rules
   allow it with respect to the other thread. *)
Section NoRace.
  Variable C : contracts.

  Definition can_step (Hother : held) (a : act) : Prop :=
    match a with
    | Acq l MW => lookup l Hother = None
    | Acq l MR => lookup l Hother <> Some MW
    | _ => True
    end.

  Record cfg2 := { h1 : held; t1 : list (string * act); h2 : held; t2 : list (string * act) }.

  Inductive step2 : cfg2 -> cfg2 -> Prop :=
  | Step1 H1 a T1 H2 T2 : can_step H2 (snd a) -> step2 {| h1 := H1; t1 := a :: T1; h2 := H2; t2 := T2 |}
                                                       {| h1 := upd H1 (snd a); t1 := T1; h2 := H2; t2 := T2 |}
  | Step2 H1 T1 H2 a T2 : can_step H1 (snd a) -> step2 {| h1 := H1; t1 := T1; h2 := H2; t2 := a :: T2 |}
                                                       {| h1 := H1; t1 := T1; h2 := upd H2 (snd a); t2 := T2 |}.

  (* a write lock excludes every other holder *)
  Definition excl (Ha Hb : held) : Prop := forall l, lookup l Ha = Some MW -> lookup l Hb = None.

  Record good (c : cfg2) : Prop := {
    g_s1 : trace_safe C (h1 c) (t1 c);
    g_s2 : trace_safe C (h2 c) (t2 c);
    g_12 : excl (h1 c) (h2 c);
    g_21 : excl (h2 c) (h1 c);
  }.

  Lemma excl_upd_self Ha Hb a : excl Ha Hb -> excl Hb Ha -> act_safe C "" Ha a \/ True -> can_step Hb a ->
    (forall l m, a = Acq l m -> lookup l Ha = None) -> excl (upd Ha a) Hb /\ excl Hb (upd Ha a).
  Proof.
    intros E1 E2 _ Hc Hfresh. destruct a as [l m|l m|f|f|k]; cbn [upd]; try (split; assumption).
    - split.
      + intros l0. cbn. destruct (String.eqb l0 l) eqn:E.
        * apply String.eqb_eq in E. subst l0. intros Hm. inversion Hm; subst m. exact Hc.
        * apply E1.
      + intros l0 Hw. cbn. destruct (String.eqb l0 l) eqn:E.
        * apply String.eqb_eq in E. subst l0. exfalso. destruct m; cbn in Hc; congruence.
        * apply E2. exact Hw.
    - split.
      + intros l0 Hw. destruct (string_dec l0 l) as [->|Hn].
        * rewrite lookup_remove_same in Hw. discriminate.
        * rewrite lookup_remove_other in Hw by exact Hn. apply E1. exact Hw.
      + intros l0 Hw. destruct (string_dec l0 l) as [->|Hn].
        * apply lookup_remove_same.
        * rewrite lookup_remove_other by exact Hn. apply E2. exact Hw.
  Qed.

  Theorem good_step c c' : good c -> step2 c c' -> good c'.
  Proof.
    intros [S1 S2 E12 E21] Hs. destruct Hs as [H1 a T1 H2 T2 Hc|H1 T1 H2 a T2 Hc]; cbn [h1 t1 h2 t2] in *.
    - destruct S1 as [Sa S1].
      destruct (excl_upd_self H1 H2 (snd a) E12 E21 (or_intror I) Hc) as [N1 N2].
      { intros l m Ha. rewrite Ha in Sa. exact Sa. }
      constructor; cbn [h1 t1 h2 t2]; assumption.
    - destruct S2 as [Sa S2].
      destruct (excl_upd_self H2 H1 (snd a) E21 E12 (or_intror I) Hc) as [N1 N2].
      { intros l m Ha. rewrite Ha in Sa. exact Sa. }
      constructor; cbn [h1 t1 h2 t2]; assumption.
  Qed.

  Inductive reach2 (c0 : cfg2) : cfg2 -> Prop :=
  | R2refl : reach2 c0 c0
  | R2step c c' : reach2 c0 c -> step2 c c' -> reach2 c0 c'.

  Lemma good_reach c0 c : good c0 -> reach2 c0 c -> good c.
  Proof. intros Hg Hr. induction Hr; [exact Hg|]. eapply good_step; eauto. Qed.

  (* the next actions of the two threads are never a write and a conflicting access to the same lock-guarded field *)
  Definition reads_or_writes (f : string) (a : act) : Prop := a = Rd f \/ a = Wr f.

  Theorem no_data_race c0 c f ls fa a fb b T1 T2 :
    good c0 -> reach2 c0 c -> guard_of C f = GLocks ls -> ls <> [] ->
    t1 c = (fa, a) :: T1 -> t2 c = (fb, b) :: T2 ->
    (a = Wr f /\ reads_or_writes f b) \/ (b = Wr f /\ reads_or_writes f a) -> False.
  Proof.
    intros Hg Hr Hgd Hne E1 E2 Hconf. destruct (good_reach _ _ Hg Hr) as [S1 S2 E12 E21].
    rewrite E1 in S1. rewrite E2 in S2. destruct S1 as [Sa _]. destruct S2 as [Sb _]. cbn [fst snd] in *.
    assert (Hw : forall Hx Hy fx x fy y, act_safe C fx Hx x -> act_safe C fy Hy y -> excl Hx Hy ->
                 x = Wr f -> reads_or_writes f y -> False).
    { intros Hx Hy fx x fy y Sx Sy Ex -> Hy'. cbn [act_safe] in Sx. rewrite Hgd in Sx.
      assert (Hhold : exists l, In l ls /\ lookup l Hy <> None).
      { destruct Hy' as [->| ->]; cbn [act_safe] in Sy; rewrite Hgd in Sy.
        - unfold rd_ok in Sy. apply existsb_exists in Sy as [l [Hl Hx']]. exists l. split; [exact Hl|].
          destruct (lookup l Hy); [discriminate|discriminate].
        - destruct ls as [|l ls']; [congruence|]. exists l. split; [left; reflexivity|].
          unfold wr_ok in Sy. cbn in Sy. apply andb_prop in Sy as [Sy _]. destruct (lookup l Hy) as [[|]|]; discriminate. }
      destruct Hhold as [l [Hl Hyl]]. unfold wr_ok in Sx. rewrite forallb_forall in Sx. specialize (Sx l Hl).
      destruct (lookup l Hx) as [[|]|] eqn:El; try discriminate. apply Hyl. apply Ex. exact El. }
    destruct Hconf as [[Ha Hb]|[Hb Ha]].
    - exact (Hw _ _ _ _ _ _ Sa Sb E12 Ha Hb).
    - exact (Hw _ _ _ _ _ _ Sb Sa E21 Hb Ha).
  Qed.
End NoRace.

Print Assumptions no_data_race.
