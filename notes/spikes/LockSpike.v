(* Spike: modular lockset checker for a tiny command language + soundness.
   Throw-away feasibility check for DESIGN.md §5 C04/C12/C19. *)
From Coq Require Import List Bool Arith NArith Lia.
Import ListNotations.

Definition lock := N.
Definition field := N.
Definition fname := N.

Inductive mode := MR | MW.
Definition mode_eqb (a b : mode) := match a, b with MR, MR | MW, MW => true | _, _ => false end.

Inductive act :=
| Acq (l : lock) (m : mode)
| Rel (l : lock) (m : mode)
| Rd (f : field)
| Wr (f : field)
| User (k : N).

Inductive prog :=
| PSkip
| PAct (a : act)
| PSeq (p q : prog)
| PAlt (p q : prog)
| PLoop (p : prog)
| PCall (f : fname)
| PRet.

(* held locks: association list lock -> mode; no duplicates by construction *)
Definition held := list (lock * mode).

Fixpoint lookup (l : lock) (h : held) : option mode :=
  match h with
  | [] => None
  | (l', m) :: t => if N.eqb l l' then Some m else lookup l t
  end.

Fixpoint remove (l : lock) (h : held) : held :=
  match h with
  | [] => []
  | (l', m) :: t => if N.eqb l l' then remove l t else (l', m) :: remove l t
  end.

(* contracts *)
Inductive guard := GLock (l : lock) | GFree.   (* GFree: immutable/private: reads free, writes forbidden *)
Record contracts := {
  guard_of : field -> guard;
  requires : fname -> held;          (* locks the caller must hold (with at least that mode) *)
  acquires : fname -> list lock;     (* locks the function may acquire: caller must not hold them *)
  user_acquires : N -> list lock;    (* same for user callbacks *)
}.

Definition mode_le (need have : mode) : bool :=
  match need, have with MR, _ => true | MW, MW => true | MW, MR => false end.

Definition holds (h : held) (l : lock) (need : mode) : bool :=
  match lookup l h with Some m => mode_le need m | None => false end.

Definition access_ok (C : contracts) (h : held) (f : field) (need : mode) : bool :=
  match guard_of C f with
  | GLock l => holds h l need
  | GFree => match need with MR => true | MW => false end
  end.

Definition disjoint (h : held) (ls : list lock) : bool :=
  forallb (fun l => match lookup l h with None => true | Some _ => false end) ls.

Definition opt_mode_eqb (a b : option mode) : bool :=
  match a, b with
  | Some x, Some y => mode_eqb x y
  | None, None => true
  | _, _ => false
  end.

(* every lock the callee requires is held in exactly the required mode *)
Definition covers (h req : held) : bool :=
  forallb (fun lm => opt_mode_eqb (lookup (fst lm) h) (lookup (fst lm) req)) req.

(* one action: new held set or failure.  [decl] = locks the current function declared it acquires. *)
Definition step_act (C : contracts) (decl : list lock) (h : held) (a : act) : option held :=
  match a with
  | Acq l m =>
      if existsb (N.eqb l) decl then
        match lookup l h with None => Some ((l, m) :: h) | Some _ => None end
      else None
  | Rel l m =>
      if existsb (N.eqb l) decl then
        match lookup l h with
        | Some m' => if mode_eqb m m' then Some (remove l h) else None
        | None => None
        end
      else None
  | Rd f => if access_ok C h f MR then Some h else None
  | Wr f => if access_ok C h f MW then Some h else None
  | User k =>
      if disjoint h (user_acquires C k) && forallb (fun l => existsb (N.eqb l) decl) (user_acquires C k)
      then Some h else None
  end.

(* ---------- dynamic semantics: traces ---------- *)
Inductive exit := XN | XR.

Section Sem.
  Variable fenv : fname -> option prog.

  Inductive run : prog -> list act -> exit -> Prop :=
  | RSkip : run PSkip [] XN
  | RAct a : run (PAct a) [a] XN
  | RSeqN p q t1 t2 x : run p t1 XN -> run q t2 x -> run (PSeq p q) (t1 ++ t2) x
  | RSeqR p q t1 : run p t1 XR -> run (PSeq p q) t1 XR
  | RAltL p q t x : run p t x -> run (PAlt p q) t x
  | RAltR p q t x : run q t x -> run (PAlt p q) t x
  | RLoop0 p : run (PLoop p) [] XN
  | RLoopS p t1 t2 x : run p t1 XN -> run (PLoop p) t2 x -> run (PLoop p) (t1 ++ t2) x
  | RLoopR p t1 : run p t1 XR -> run (PLoop p) t1 XR
  | RCall f body t x : fenv f = Some body -> run body t x -> run (PCall f) t XN
  | RRet : run PRet [] XR.
End Sem.

(* ---------- static checker (per function body) ---------- *)
(* returns the held set at normal fall-through (None = no normal exit, e.g. always returns),
   checking that every return point has held = entry.  Result: option (option held); outer None = check failed. *)

Fixpoint held_eqb (a b : held) : bool :=
  match a, b with
  | [], [] => true
  | (l, m) :: a', (l', m') :: b' => N.eqb l l' && mode_eqb m m' && held_eqb a' b'
  | _, _ => false
  end.

Section Check.
  Variable C : contracts.
  Variable decl : list lock.
  Variable entry : held.

  Fixpoint check (p : prog) (h : held) : option (option held) :=
    match p with
    | PSkip => Some (Some h)
    | PAct a => match step_act C decl h a with Some h' => Some (Some h') | None => None end
    | PSeq p q =>
        match check p h with
        | None => None
        | Some None => Some None
        | Some (Some h') => check q h'
        end
    | PAlt p q =>
        match check p h, check q h with
        | Some None, r => r
        | r, Some None => r
        | Some (Some h1), Some (Some h2) => if held_eqb h1 h2 then Some (Some h1) else None
        | _, _ => None
        end
    | PLoop p =>
        match check p h with
        | Some (Some h') => if held_eqb h' h then Some (Some h) else None
        | Some None => Some (Some h)    (* body always returns: loop runs at most one iteration or zero *)
        | None => None
        end
    | PCall f =>
        if covers h (requires C f) && disjoint h (acquires C f)
           && forallb (fun l => existsb (N.eqb l) decl) (acquires C f)
        then Some (Some h) else None
    | PRet => if held_eqb h entry then Some None else None
    end.
End Check.

Definition check_fn (C : contracts) (f : fname) (body : prog) : bool :=
  disjoint (requires C f) (acquires C f) &&
  match check C (acquires C f) (requires C f) body (requires C f) with
  | Some None => true
  | Some (Some h) => held_eqb h (requires C f)
  | None => false
  end.

(* ---------- what soundness says ---------- *)
(* The concrete held set of the thread is (extra ++ h) where [extra] are locks held by callers that
   this function knows nothing about; they are disjoint from everything the function declares it acquires. *)

Definition act_safe (C : contracts) (H : held) (a : act) : Prop :=
  match a with
  | Acq l _ => lookup l H = None                      (* no self-deadlock *)
  | Rel l m => lookup l H = Some m
  | Rd f => access_ok C H f MR = true
  | Wr f => access_ok C H f MW = true
  | User k => disjoint H (user_acquires C k) = true   (* callback may take these locks *)
  end.

Definition upd (H : held) (a : act) : held :=
  match a with
  | Acq l m => (l, m) :: H
  | Rel l _ => remove l H
  | _ => H
  end.

Fixpoint trace_safe (C : contracts) (H : held) (t : list act) : Prop :=
  match t with
  | [] => True
  | a :: t' => act_safe C H a /\ trace_safe C (upd H a) t'
  end.

Fixpoint upds (H : held) (t : list act) : held :=
  match t with [] => H | a :: t' => upds (upd H a) t' end.

Lemma trace_safe_app C H t1 t2 :
  trace_safe C H (t1 ++ t2) <-> trace_safe C H t1 /\ trace_safe C (upds H t1) t2.
Proof.
  revert H; induction t1 as [|a t1 IH]; intros H; cbn; [tauto|].
  rewrite IH; tauto.
Qed.

Lemma upds_app H t1 t2 : upds H (t1 ++ t2) = upds (upds H t1) t2.
Proof. revert H; induction t1 as [|a t1 IH]; intros H; cbn; auto. Qed.

(* ---------- soundness ---------- *)

Lemma mode_eqb_eq a b : mode_eqb a b = true -> a = b.
Proof. destruct a, b; cbn; congruence. Qed.

Lemma held_eqb_eq a b : held_eqb a b = true -> a = b.
Proof.
  revert b; induction a as [|[l m] a IH]; intros [|[l' m'] b]; cbn; try congruence.
  intros H. apply andb_prop in H as [H H3]. apply andb_prop in H as [H1 H2].
  apply N.eqb_eq in H1. apply mode_eqb_eq in H2. f_equal; [congruence|auto].
Qed.

Lemma existsb_In l ls : existsb (N.eqb l) ls = true <-> In l ls.
Proof.
  rewrite existsb_exists. split.
  - intros [x [Hx He]]. apply N.eqb_eq in He. subst; auto.
  - intros H. exists l. split; auto. apply N.eqb_refl.
Qed.

Lemma lookup_remove_same l h : lookup l (remove l h) = None.
Proof.
  induction h as [|[l' m] h IH]; cbn; auto.
  destruct (N.eqb l l') eqn:E; auto. cbn. rewrite E. auto.
Qed.

Lemma lookup_remove_other l l' h : l <> l' -> lookup l (remove l' h) = lookup l h.
Proof.
  intros Hn. induction h as [|[l2 m] h IH]; cbn; auto.
  destruct (N.eqb l' l2) eqn:E.
  - apply N.eqb_eq in E. subst. destruct (N.eqb l l2) eqn:E2; auto.
    apply N.eqb_eq in E2. congruence.
  - cbn. rewrite IH. auto.
Qed.

Lemma disjoint_spec h ls : disjoint h ls = true <-> forall l, In l ls -> lookup l h = None.
Proof.
  unfold disjoint. rewrite forallb_forall. split; intros H l Hl; specialize (H l Hl).
  - destruct (lookup l h); congruence.
  - rewrite H. auto.
Qed.

(* abstract/concrete relation: h is a sub-map of H, exact on declared locks *)
Definition absrel (decl : list lock) (h H : held) : Prop :=
  (forall l m, lookup l h = Some m -> lookup l H = Some m) /\
  (forall l, In l decl -> lookup l H = lookup l h).

Lemma access_ok_mono C h H f need :
  (forall l m, lookup l h = Some m -> lookup l H = Some m) ->
  access_ok C h f need = true -> access_ok C H f need = true.
Proof.
  unfold access_ok, holds. intros Hs. destruct (guard_of C f); auto.
  destruct (lookup l h) eqn:E; try congruence. rewrite (Hs _ _ E). auto.
Qed.

Section Sound.
  Variable C : contracts.
  Variable fenv : fname -> option prog.
  Hypothesis all_checked : forall f body, fenv f = Some body -> check_fn C f body = true.
  (* user callbacks only take locks they declared; nothing to check about their bodies here *)

  Lemma step_act_sound decl h H a h' :
    step_act C decl h a = Some h' -> absrel decl h H ->
    act_safe C H a /\ absrel decl h' (upd H a) /\
    (forall l, ~ In l decl -> lookup l (upd H a) = lookup l H).
  Proof.
    intros Hs [Hsub Hex]. destruct a as [l m|l m|f|f|k]; cbn in *.
    - destruct (existsb (N.eqb l) decl) eqn:Ed; try discriminate.
      apply existsb_In in Ed.
      destruct (lookup l h) eqn:El; try discriminate. inversion Hs; subst h'.
      assert (HlH : lookup l H = None) by (rewrite Hex; auto).
      split; [exact HlH|]. split.
      + split.
        * intros l0 m0. cbn. destruct (N.eqb l0 l) eqn:E; auto.
        * intros l0 Hl0. cbn. destruct (N.eqb l0 l) eqn:E; auto.
      + intros l0 Hn. destruct (N.eqb l0 l) eqn:E; auto.
        apply N.eqb_eq in E. subst. contradiction.
    - destruct (existsb (N.eqb l) decl) eqn:Ed; try discriminate.
      apply existsb_In in Ed.
      destruct (lookup l h) eqn:El; try discriminate.
      destruct (mode_eqb m m0) eqn:Em; try discriminate. inversion Hs; subst h'.
      apply mode_eqb_eq in Em. subst m0.
      split; [apply Hsub; auto|]. split.
      + split.
        * intros l0 m0 Hl0. destruct (N.eq_dec l0 l) as [->|Hn].
          -- rewrite lookup_remove_same in Hl0. discriminate.
          -- rewrite lookup_remove_other in * by auto. auto.
        * intros l0 Hl0. destruct (N.eq_dec l0 l) as [->|Hn].
          -- rewrite !lookup_remove_same. auto.
          -- rewrite !lookup_remove_other by auto. auto.
      + intros l0 Hn. apply lookup_remove_other. intros ->. contradiction.
    - destruct (access_ok C h f MR) eqn:E; try discriminate. inversion Hs; subst.
      split; [eapply access_ok_mono; eauto|]. split; [split; auto|auto].
    - destruct (access_ok C h f MW) eqn:E; try discriminate. inversion Hs; subst.
      split; [eapply access_ok_mono; eauto|]. split; [split; auto|auto].
    - destruct (disjoint h (user_acquires C k)) eqn:Ed; try discriminate.
      cbn in Hs.
      destruct (forallb (fun l : N => existsb (N.eqb l) decl) (user_acquires C k)) eqn:Ef; try discriminate.
      inversion Hs; subst. split; [|split; [split; auto|auto]].
      apply disjoint_spec. intros l Hl. rewrite forallb_forall in Ef.
      specialize (Ef l Hl). apply existsb_In in Ef.
      rewrite Hex by auto. rewrite disjoint_spec in Ed. auto.
  Qed.

  Definition post (decl : list lock) (entry : held) (res : option held) (H : held) (t : list act) (x : exit) : Prop :=
    trace_safe C H t /\
    (forall l, ~ In l decl -> lookup l (upds H t) = lookup l H) /\
    match x with
    | XN => exists h', res = Some h' /\ absrel decl h' (upds H t)
    | XR => absrel decl entry (upds H t)
    end.

  Lemma covers_spec h req :
    covers h req = true -> forall l m, lookup l req = Some m -> lookup l h = Some m.
  Proof.
    unfold covers. rewrite forallb_forall. intros Hc l m Hl.
    assert (Hin : exists m', In (l, m') req).
    { clear Hc. induction req as [|[l' m'] req IH]; cbn in *; try discriminate.
      destruct (N.eqb l l') eqn:E.
      - apply N.eqb_eq in E. subst. eauto.
      - destruct (IH Hl) as [m2 H2]. eauto. }
    destruct Hin as [m' Hin]. specialize (Hc _ Hin). cbn in Hc.
    rewrite Hl in Hc. destruct (lookup l h); cbn in Hc; try discriminate.
    apply mode_eqb_eq in Hc. congruence.
  Qed.

  Theorem check_sound :
    forall p t x, run fenv p t x ->
    forall decl entry h H res,
      check C decl entry p h = Some res -> absrel decl h H ->
      post decl entry res H t x.
  Proof.
    induction 1 as [ | a | p q t1 t2 x R1 IHrun1 R2 IHrun2 | p q t1 R1 IHrun | p q t x R IHrun
                   | p q t x R IHrun | p | p t1 t2 x R1 IHrun1 R2 IHrun2 | p t1 R1 IHrun
                   | f body t x H0 R IHrun | ];
      intros decl entry h H res Hc Ha; cbn in Hc.
    - (* skip *) inversion Hc; subst. repeat split; cbn; auto. eexists; split; eauto.
    - (* act *)
      destruct (step_act C decl h a) eqn:Es; try discriminate. inversion Hc; subst.
      destruct (step_act_sound _ _ _ _ _ Es Ha) as [S1 [S2 S3]].
      repeat split; cbn; auto. eexists; split; eauto.
    - (* seq normal *)
      destruct (check C decl entry p h) as [[h1|]|] eqn:E1; try discriminate.
      + destruct (IHrun1 _ _ _ _ _ E1 Ha) as [T1 [F1 [h' [Eh A1]]]]. inversion Eh; subst h'.
        destruct (IHrun2 _ _ _ _ _ Hc A1) as [T2 [F2 P2]].
        split; [apply trace_safe_app; auto|]. split.
        * intros l Hl. rewrite upds_app, F2, F1; auto.
        * rewrite upds_app. exact P2.
      + destruct (IHrun1 _ _ _ _ _ E1 Ha) as [_ [_ [h' [Eh _]]]]. discriminate.
    - (* seq return *)
      destruct (check C decl entry p h) as [[h1|]|] eqn:E1; try discriminate.
      + destruct (IHrun _ _ _ _ _ E1 Ha) as [T1 [F1 P1]]. split; [auto|split; auto].
      + destruct (IHrun _ _ _ _ _ E1 Ha) as [T1 [F1 P1]]. split; [auto|split; auto].
    - (* alt left *)
      destruct (check C decl entry p h) as [[h1|]|] eqn:E1; try discriminate.
      + destruct (check C decl entry q h) as [[h2|]|] eqn:E2; try discriminate.
        * destruct (held_eqb h1 h2) eqn:Eq; try discriminate. inversion Hc; subst.
          apply (IHrun _ _ _ _ _ E1 Ha).
        * inversion Hc; subst. apply (IHrun _ _ _ _ _ E1 Ha).
      + destruct (IHrun _ _ _ _ _ E1 Ha) as [T1 [F1 P1]].
        split; auto. split; auto. destruct x; auto.
        destruct P1 as [h' [Eh _]]. discriminate.
      + destruct (check C decl entry q h) as [[?|]|]; discriminate.
    - (* alt right *)
      destruct (check C decl entry p h) as [[h1|]|] eqn:E1; try discriminate.
      + destruct (check C decl entry q h) as [[h2|]|] eqn:E2; try discriminate.
        * destruct (held_eqb h1 h2) eqn:Eq; try discriminate. inversion Hc; subst.
          apply held_eqb_eq in Eq. subst. apply (IHrun _ _ _ _ _ E2 Ha).
        * destruct (IHrun _ _ _ _ _ E2 Ha) as [T1 [F1 P1]].
          split; auto. split; auto. destruct x; auto.
          destruct P1 as [h' [Eh _]]. discriminate.
      + apply (IHrun _ _ _ _ _ Hc Ha).
      + destruct (check C decl entry q h) as [[?|]|]; discriminate.
    - (* loop 0 *)
      destruct (check C decl entry p h) as [[h1|]|] eqn:E1; try discriminate.
      + destruct (held_eqb h1 h) eqn:Eq; try discriminate. inversion Hc; subst.
        repeat split; cbn; auto. eexists; split; eauto.
      + inversion Hc; subst. repeat split; cbn; auto. eexists; split; eauto.
    - (* loop step *)
      pose proof Hc as Hc'.
      destruct (check C decl entry p h) as [[h1|]|] eqn:E1; try discriminate.
      + destruct (held_eqb h1 h) eqn:Eq; try discriminate. inversion Hc; subst.
        apply held_eqb_eq in Eq. subst h1.
        destruct (IHrun1 _ _ _ _ _ E1 Ha) as [T1 [F1 [h' [Eh A1]]]]. inversion Eh; subst h'.
        assert (Hc2 : check C decl entry (PLoop p) h = Some (Some h)).
        { cbn. rewrite E1. replace (held_eqb h h) with true; auto.
          clear. induction h as [|[l m] h IH]; cbn; auto. rewrite N.eqb_refl, <- IH.
          destruct m; auto. }
        destruct (IHrun2 _ _ _ _ _ Hc2 A1) as [T2 [F2 P2]].
        split; [apply trace_safe_app; auto|]. split.
        * intros l Hl. rewrite upds_app, F2, F1; auto.
        * rewrite upds_app. exact P2.
      + destruct (IHrun1 _ _ _ _ _ E1 Ha) as [_ [_ [h' [Eh _]]]]. discriminate.
    - (* loop return *)
      destruct (check C decl entry p h) as [[h1|]|] eqn:E1; try discriminate.
      + destruct (IHrun _ _ _ _ _ E1 Ha) as [T1 [F1 P1]]. split; [auto|split; auto].
      + destruct (IHrun _ _ _ _ _ E1 Ha) as [T1 [F1 P1]]. split; [auto|split; auto].
    - (* call *)
      destruct (covers h (requires C f)) eqn:Ecov; cbn in Hc; try discriminate.
      destruct (disjoint h (acquires C f)) eqn:Edis; cbn in Hc; try discriminate.
      destruct (forallb (fun l : N => existsb (N.eqb l) decl) (acquires C f)) eqn:Esub; try discriminate.
      inversion Hc; subst res. clear Hc.
      pose proof (all_checked _ _ H0) as Hck. unfold check_fn in Hck.
      apply andb_prop in Hck as [Hdj Hck].
      rewrite disjoint_spec in Hdj, Edis. rewrite forallb_forall in Esub.
      destruct Ha as [Hsub Hex].
      assert (Ha' : absrel (acquires C f) (requires C f) H).
      { split.
        - intros l m Hl. apply Hsub. eapply covers_spec; eauto.
        - intros l Hl. rewrite (Hdj l Hl). 
          specialize (Esub l Hl). apply existsb_In in Esub.
          rewrite Hex by auto. auto. }
      destruct (check C (acquires C f) (requires C f) body (requires C f)) as [[hx|]|] eqn:Eb;
        try discriminate.
      + apply held_eqb_eq in Hck. subst hx.
        destruct (IHrun _ _ _ _ _ Eb Ha') as [T1 [F1 P1]].
        assert (Aex : absrel (acquires C f) (requires C f) (upds H t)).
        { destruct x; auto. destruct P1 as [h' [Eh A]]. inversion Eh; subst; auto. }
        split; auto. split.
        * intros l Hl. apply F1. intros Hin. apply Hl.
          specialize (Esub l Hin). apply existsb_In in Esub. auto.
        * exists h. split; auto. destruct Aex as [_ Aex2]. split.
          -- intros l m Hl. destruct (in_dec N.eq_dec l (acquires C f)) as [Hin|Hnin].
             ++ rewrite (Edis l Hin) in Hl. discriminate.
             ++ rewrite F1 by auto. auto.
          -- intros l Hl. destruct (in_dec N.eq_dec l (acquires C f)) as [Hin|Hnin].
             ++ rewrite Aex2 by auto. rewrite (Hdj l Hin), (Edis l Hin). auto.
             ++ rewrite F1 by auto. auto.
      + destruct (IHrun _ _ _ _ _ Eb Ha') as [T1 [F1 P1]].
        assert (Aex : absrel (acquires C f) (requires C f) (upds H t)).
        { destruct x; auto. destruct P1 as [h' [Eh A]]. discriminate. }
        split; auto. split.
        * intros l Hl. apply F1. intros Hin. apply Hl.
          specialize (Esub l Hin). apply existsb_In in Esub. auto.
        * exists h. split; auto. destruct Aex as [_ Aex2]. split.
          -- intros l m Hl. destruct (in_dec N.eq_dec l (acquires C f)) as [Hin|Hnin].
             ++ rewrite (Edis l Hin) in Hl. discriminate.
             ++ rewrite F1 by auto. auto.
          -- intros l Hl. destruct (in_dec N.eq_dec l (acquires C f)) as [Hin|Hnin].
             ++ rewrite Aex2 by auto. rewrite (Hdj l Hin), (Edis l Hin). auto.
             ++ rewrite F1 by auto. auto.
    - (* ret *)
      destruct (held_eqb h entry) eqn:Eq; try discriminate. inversion Hc; subst.
      apply held_eqb_eq in Eq. subst. split; [cbn; auto|]. split; [cbn; auto|]. cbn. exact Ha.
  Qed.

  (* entry point corollary: an exported function with no requirement, called by a thread holding nothing *)
  Corollary entry_point_safe f body t x :
    fenv f = Some body -> requires C f = [] -> run fenv body t x -> trace_safe C [] t.
  Proof.
    intros Hf Hr Hrun. pose proof (all_checked _ _ Hf) as Hck. unfold check_fn in Hck.
    apply andb_prop in Hck as [_ Hck]. rewrite Hr in Hck.
    destruct (check C (acquires C f) [] body []) as [res|] eqn:E; try discriminate.
    assert (Ha : absrel (acquires C f) [] []) by (split; auto).
    destruct (check_sound _ _ _ Hrun _ _ _ _ _ E Ha) as [T _]. exact T.
  Qed.
End Sound.

Print Assumptions check_sound.
