Require Import LockLang2. From Coq Require Import List String Bool. Import ListNotations. Open Scope string_scope.

Definition starts (p s : string) : bool := String.prefix p s.

Definition guard_tbl (thr_lock : bool) (f : string) : guard :=
  if mem f ["eventlogger.Broker.nodes"; "eventlogger.Broker.graphs";
            "eventlogger.nodeUsage.node"; "eventlogger.nodeUsage.referenceCount"; "eventlogger.nodeUsage.registrationPolicy"]
  then GLock "eventlogger.Broker.lock"
  else if mem f ["eventlogger.graph.successThreshold"; "eventlogger.graph.successThresholdSinks"]
  then (if thr_lock then GLocks ["eventlogger.Broker.lock"; "eventlogger.graph.thresholdLock"] else GLock "eventlogger.Broker.lock")
  else if String.eqb f "eventlogger.Event.Formatted" then GLock "eventlogger.Event.l"
  else if mem f ["eventlogger.Event.Payload"; "eventlogger.Event.Type"; "eventlogger.Event.CreatedAt"] then GImmutable
  else if mem f ["eventlogger.FileSink.f"; "eventlogger.FileSink.BytesWritten"; "eventlogger.FileSink.LastCreated"]
  then GLock "eventlogger.FileSink.l"
  else if starts "eventlogger.FileSink." f then GImmutable
  else if starts "eventlogger.linkedNode." f then GImmutable
  else if String.eqb f "eventlogger.Broker.clock" then GImmutable
  else if mem f ["gated.Filter.gated"; "gated.Filter.orderedGated"; "gated.Filter.composeFrom"; "gated.Filter.Expiration"]
  then GLock "gated.Filter.l"
  else if starts "gated.gatedEvent." f then GLock "gated.Filter.l"
  else if starts "gated.Filter." f then GImmutable
  else if mem f ["encrypt.Filter.Wrapper"; "encrypt.Filter.HmacSalt"; "encrypt.Filter.HmacInfo"] then GLock "encrypt.Filter.l"
  else if starts "encrypt.Filter." f then GImmutable
  else if String.eqb f "cloudevents.FormatterFilter.Signer" then GLock "cloudevents.FormatterFilter.l"
  else if starts "cloudevents.FormatterFilter." f then GImmutable
  else if starts "writer.Sink." f then GImmutable
  else if starts "channel.ChannelSink." f then GImmutable
  else if String.eqb f "payload-graph" then GLock "COPY"
  else GFree.

Definition requires_tbl (f : string) : held :=
  if mem f ["eventlogger.Broker.removeNode"; "eventlogger.Broker.unregisterNode"; "eventlogger.Broker.releaseNodes"]
  then [("eventlogger.Broker.lock", MW)]
  else if mem f ["eventlogger.FileSink.reopen"; "eventlogger.FileSink.open"; "eventlogger.FileSink.rotate"; "eventlogger.FileSink.pruneFiles"]
  then [("eventlogger.FileSink.l", MW)]
  else if String.eqb f "gated.Filter.openGate" then [("gated.Filter.l", MW)]
  else if mem f ["encrypt.Filter.filterField"; "encrypt.Filter.filterSlice"; "encrypt.Filter.filterValue"; "encrypt.Filter.filterTaggable";
                 "encrypt.setValue"; "encrypt.trackedMaps.processUnfiltered"]
  then [("COPY", MW)]
  else [].

Definition user_acq (k : string) : list string :=
  if mem k ["Node.Process"; "Closer.Close"; "Sender.Send"] then ["eventlogger.Broker.lock"] else [].

Definition ctors : list string :=
  ["eventlogger.linkNodes"; "eventlogger.linkNodesAndSinks"; "eventlogger.Broker.StopTimeAt"; "eventlogger.NewBroker"].

Definition mk (thr_lock : bool) (prog_ : list (string * prog)) : contracts :=
  let tbl := infer 12 user_acq prog_ [] in
  {| guard_of := guard_tbl thr_lock; requires := requires_tbl;
     acquires := fun f => assoc f tbl []; user_acquires := user_acq; constructors := ctors |}.
