(* Spike: command language with Defer / Go / Block, and the modular checker with diagnostics.
   (Soundness for the core constructs is proved in LockSpike.v; this file only RUNS the checker
   on generated programs to see whether it is too strict for the real code.) *)
From Coq Require Import List Bool Arith NArith String.
Import ListNotations.
Open Scope string_scope.

Inductive mode := MR | MW.
Definition mode_eqb (a b : mode) := match a, b with MR, MR | MW, MW => true | _, _ => false end.

Inductive act :=
| Acq (l : string) (m : mode)
| Rel (l : string) (m : mode)
| Rd (f : string)
| Wr (f : string)
| User (k : string).

Inductive prog :=
| PSkip
| PAct (a : act)
| PSeq (p q : prog)
| PAlt (p q : prog)
| PLoop (p : prog)
| PCall (f : string)
| PRet
| PDefer (a : act)        (* registered when executed, run LIFO at function exit *)
| PGo (p : prog)          (* new thread holding nothing *)
| PBlock (p : prog)       (* function literal called in place: Ret leaves the block only; own defer frame *)
| PBrk                    (* break / continue: leaves the innermost loop or switch *)
| PLoop1 (p : prog).      (* breakable region executed once (switch / select) *)

Definition held := list (string * mode).

Fixpoint lookup (l : string) (h : held) : option mode :=
  match h with [] => None | (l', m) :: t => if String.eqb l l' then Some m else lookup l t end.
Fixpoint remove (l : string) (h : held) : held :=
  match h with [] => [] | (l', m) :: t => if String.eqb l l' then remove l t else (l', m) :: remove l t end.

(* GLocks ls: writers hold every lock of ls in write mode, readers hold at least one of them *)
Inductive guard := GLocks (ls : list string) | GImmutable | GFree.
Definition GLock (l : string) := GLocks [l].

Record contracts := {
  guard_of : string -> guard;
  requires : string -> held;
  acquires : string -> list string;
  user_acquires : string -> list string;
  constructors : list string;     (* functions allowed to write immutable fields *)
}.

Definition mode_le (need have : mode) : bool :=
  match need, have with MR, _ => true | MW, MW => true | MW, MR => false end.

Definition mem (l : string) (ls : list string) : bool := existsb (String.eqb l) ls.

Definition disjoint (h : held) (ls : list string) : bool :=
  forallb (fun l => match lookup l h with None => true | Some _ => false end) ls.

Definition opt_mode_eqb (a b : option mode) : bool :=
  match a, b with Some x, Some y => mode_eqb x y | None, None => true | _, _ => false end.
Definition covers (h req : held) : bool :=
  forallb (fun lm => opt_mode_eqb (lookup (fst lm) h) (lookup (fst lm) req)) req.

Fixpoint held_eqb (a b : held) : bool :=
  match a, b with
  | [], [] => true
  | (l, m) :: a', (l', m') :: b' => String.eqb l l' && mode_eqb m m' && held_eqb a' b'
  | _, _ => false
  end.

(* diagnostics: the checker collects every complaint instead of stopping at the first *)
Notation "a +++ b" := (@List.app string a b) (at level 60, right associativity).
Definition st := option (held * list act).   (* None = no normal exit *)

Section Check.
  Variable C : contracts.
  Variable fname : string.

  (* decl = None: unrestricted (goroutine body: an entry point nobody calls) *)
  Definition declared (decl : option (list string)) (l : string) : bool :=
    match decl with None => true | Some d => mem l d end.

  Definition step_act (decl : option (list string)) (h : held) (a : act) : list string * held :=
    match a with
    | Acq l m =>
        if declared decl l then
          match lookup l h with None => ([], (l, m) :: h) | Some _ => (["re-acquire of " ++ l], h) end
        else (["acquire of undeclared lock " ++ l], (l, m) :: h)
    | Rel l m =>
        match lookup l h with
        | Some m' => if mode_eqb m m' then ([], remove l h) else (["release mode mismatch " ++ l], remove l h)
        | None => (["release of lock not held " ++ l], h)
        end
    | Rd f =>
        match guard_of C f with
        | GLocks ls => if existsb (fun l => match lookup l h with Some _ => true | None => false end) ls
                       then ([], h) else (["unguarded read of " ++ f], h)
        | _ => ([], h)
        end
    | Wr f =>
        match guard_of C f with
        | GLocks ls => if forallb (fun l => match lookup l h with Some MW => true | _ => false end) ls
                       then ([], h) else (["unguarded write of " ++ f], h)
        | GImmutable => if mem fname (constructors C) then ([], h) else (["write of immutable field " ++ f], h)
        | GFree => ([], h)
        end
    | User k =>
        if disjoint h (user_acquires C k) then ([], h)
        else (["callback " ++ k ++ " runs under a lock it may acquire"], h)
    end.

  Fixpoint run_defers (decl : option (list string)) (h : held) (ds : list act) : list string * held :=
    match ds with
    | [] => ([], h)
    | a :: t => let '(e1, h') := step_act decl h a in let '(e2, h'') := run_defers decl h' t in (e1 +++ e2, h'')
    end.

  Fixpoint has_brk (p : prog) : bool :=
    match p with
    | PBrk => true
    | PSeq p q | PAlt p q => has_brk p || has_brk q
    | _ => false
    end.

  Fixpoint check (decl : option (list string)) (entry lentry : held) (p : prog) (h : held) (ds : list act) : list string * st :=
    match p with
    | PSkip => ([], Some (h, ds))
    | PAct a => let '(e, h') := step_act decl h a in (e, Some (h', ds))
    | PDefer a => ([], Some (h, a :: ds))
    | PBrk => ((if held_eqb h lentry then [] else ["break with a different lock set than at loop entry"]), None)
    | PSeq p q =>
        match check decl entry lentry p h ds with
        | (e, None) => (e, None)
        | (e, Some (h', ds')) => let '(e2, r) := check decl entry lentry q h' ds' in (e +++ e2, r)
        end
    | PAlt p q =>
        let '(e1, r1) := check decl entry lentry p h ds in
        let '(e2, r2) := check decl entry lentry q h ds in
        match r1, r2 with
        | None, r => (e1 +++ e2, r)
        | r, None => (e1 +++ e2, r)
        | Some (h1, d1), Some (h2, d2) =>
            if held_eqb h1 h2 && Nat.eqb (List.length d1) (List.length d2) then (e1 +++ e2, Some (h1, d1))
            else (e1 +++ e2 +++ ["branches disagree on held locks"], Some (h1, d1))
        end
    | PLoop p =>
        match check decl entry h p h ds with
        | (e, None) => (e, Some (h, ds))
        | (e, Some (h', ds')) =>
            if held_eqb h' h && Nat.eqb (List.length ds') (List.length ds) then (e, Some (h, ds))
            else (e +++ ["loop body not lock-neutral"], Some (h, ds))
        end
    | PLoop1 p =>
        match check decl entry h p h ds with
        | (e, None) => (e, Some (h, ds))
        | (e, Some (h', ds')) =>
            if has_brk p && negb (held_eqb h' h) then (e +++ ["switch with break not lock-neutral"], Some (h', ds'))
            else (e, Some (h', ds'))
        end
    | PCall f =>
        ((if covers h (requires C f) then [] else ["call of " ++ f ++ " without its required locks"]) +++
         (if disjoint h (acquires C f) then [] else ["call of " ++ f ++ " while holding a lock it acquires"]) +++
         (if forallb (declared decl) (acquires C f) then [] else ["callee " ++ f ++ " acquires undeclared lock"]),
         Some (h, ds))
    | PRet =>
        let '(e, h') := run_defers decl h ds in
        (e +++ (if held_eqb h' entry then [] else ["return with locks held"]), None)
    | PGo p =>
        match check None [] [] p [] [] with
        | (e, None) => (map (fun w => "goroutine: " ++ w) e, Some (h, ds))
        | (e, Some (h', ds')) =>
            let '(e2, h'') := run_defers None h' ds' in
            (map (fun w => "goroutine: " ++ w) (e +++ e2 +++ (if held_eqb h'' [] then [] else ["ends with locks held"])), Some (h, ds))
        end
    | PBlock p =>
        match check decl h h p h [] with
        | (e, None) => (e, Some (h, ds))
        | (e, Some (h', ds')) =>
            let '(e2, h'') := run_defers decl h' ds' in
            (e +++ e2 +++ (if held_eqb h'' h then [] else ["literal not lock-neutral"]), Some (h, ds))
        end
    end.
End Check.

Definition check_fn (C : contracts) (f : string) (body : prog) : list string :=
  (if disjoint (requires C f) (acquires C f) then [] else ["requires/acquires overlap"]) +++
  fst (check C f (Some (acquires C f)) (requires C f) (requires C f) (PSeq body PRet) (requires C f) []).

Fixpoint dedup_s (l : list string) : list string :=
  match l with [] => [] | x :: t => if mem x t then dedup_s t else x :: dedup_s t end.

Definition check_all (C : contracts) (prog_ : list (string * prog)) : list (string * list string) :=
  flat_map (fun fb => match dedup_s (check_fn C (fst fb) (snd fb)) with [] => [] | w => [(fst fb, w)] end) prog_.

(* ---- inference of the [acquires] table (untrusted: the checker validates whatever table it is given) ---- *)
Fixpoint direct_acq (ua : string -> list string) (p : prog) : list string :=
  match p with
  | PAct (Acq l _) => [l]
  | PAct (User k) => ua k
  | PSeq p q | PAlt p q => direct_acq ua p ++ direct_acq ua q
  | PLoop p | PBlock p | PLoop1 p => direct_acq ua p
  | _ => []
  end.
Fixpoint callees (p : prog) : list string :=
  match p with
  | PCall f => [f]
  | PSeq p q | PAlt p q => callees p ++ callees q
  | PLoop p | PBlock p | PLoop1 p => callees p
  | _ => []
  end.
Fixpoint assoc {A} (k : string) (l : list (string * A)) (d : A) : A :=
  match l with [] => d | (k', v) :: t => if String.eqb k k' then v else assoc k t d end.
Fixpoint dedup (l : list string) : list string :=
  match l with [] => [] | x :: t => if mem x t then dedup t else x :: dedup t end.
Fixpoint infer (n : nat) (ua : string -> list string) (prog_ : list (string * prog)) (tbl : list (string * list string)) : list (string * list string) :=
  match n with
  | O => tbl
  | S k =>
      infer k ua prog_
        (map (fun fb => (fst fb, dedup (direct_acq ua (snd fb) ++ flat_map (fun c => assoc c tbl []) (callees (snd fb))))) prog_)
  end.
