Require Import LockLang2 Contracts2 Gen_root Gen_enc. From Coq Require Import List String. Import ListNotations.
Definition all := (Gen_root.program ++ Gen_enc.program)%list.
Definition failures := Eval vm_compute in check_all (mk THR all) all.
Print failures.
