// translate — regenerates, from the working tree of the library under test, the lock/access skeleton of every
// function of the six library packages as a term of the command language of coq/LockLang.v (Gen_Locks.v), plus a
// side table (translate.json) that maps source positions to the accesses emitted (used to classify race-detector
// reports) and the ordered sync.Map operations every function performs on graph.roots.
//
// usage: translate -dir <harness module dir> -modfile <go.mod that replaces the library onto the tree> -out <dir>
//
// What is recognised (this list is the trusted part of the translator, see DESIGN.md section 2):
//   * sync.Mutex / sync.RWMutex Lock, Unlock, RLock, RUnlock on a mutex-typed FIELD of a struct type declared in an
//     analysed package -> Acq / Rel of "pkg.Type.field" in write / read mode; `defer` of those -> Defer.
//   * every selector that resolves to a (possibly promoted) field of such a struct -> Rd "pkg.Type.field";
//     assignment / IncDec / delete / copy / clear targets -> Wr (instance-insensitive: every instance of T.f is one field).
//   * reference aliasing (flow-insensitive, per function): a local variable that is assigned the value of a map-, slice-,
//     pointer- or chan-typed tracked field stands for that field: every later use of the local is Rd of the field, index
//     assignment / delete / copy / clear / IncDec through it is Wr of the field.
//   * calls: functions and methods of analysed packages -> Call; methods of interfaces declared in analysed packages,
//     io.Writer and the kms Wrapper -> User "Iface.Method"; func-typed fields -> Rd + User "func:field"; func-typed
//     variables -> User "funcval"; arguments of interface types Node / io.Writer / Wrapper / Sender handed to code
//     outside the analysed packages -> User "Iface.*" (the callee may call back).
//   * any argument of (pointer to) tracked struct type handed to a function outside the analysed packages is read
//     reflectively as a whole: Rd of every field (copystructure.Copy, json, fmt); copystructure.Copy additionally
//     takes the pseudo lock COPY (what is mutated afterwards is the private copy); reflect.Value.Set*, SetMapIndex and
//     pointerstructure.Set write the pseudo field "payload-graph".
//   * blocking waits that are not mutex operations -> User "wait:<what>": sync.WaitGroup.Wait, sync.Cond.Wait, a channel receive
//     or send outside a select, ranging over a channel, a select without default (one wait for the whole statement).  The
//     contracts let a wait "acquire" the registry locks (it may depend on another goroutine that needs them), so a wait must not
//     happen while Broker.lock or a graph's threshold lock is held.
//   * g.roots.Store / Delete (any method of graphMap on a graph's roots other than Range / Nodes) -> additionally Wr of the pseudo
//     field "eventlogger.graph.roots!": the registry's map mutations, guarded by Broker.lock in Contracts.v.
//   * reading the wall clock (time.Now, time.Since, time.Until) -> Rd of the pseudo field "<receiver type>.clock!" (package
//     functions: "<pkg>.clock!"): a type whose contract guards it (FileSink) must read the clock under its lock.
//   * go statements -> Go; immediately invoked literals -> Block; literals passed as arguments -> Loop (Block ..) after
//     the call (run by the callee zero or more times, synchronously); other literals become functions of their own.
//   * if / switch / select -> Alt (all case guards first); for / range -> Loop; break / continue -> Brk n.
package main

import (
	"encoding/json"
	"flag"
	"fmt"
	"go/ast"
	"go/token"
	"go/types"
	"os"
	"path/filepath"
	"sort"
	"strings"

	"golang.org/x/tools/go/packages"
)

const root = "github.com/hashicorp/eventlogger"

type access struct {
	Fn    string `json:"fn"`
	File  string `json:"file"`
	Line  int    `json:"line"`
	Kind  string `json:"kind"` // R W
	Field string `json:"field"`
	Refl  bool   `json:"reflective,omitempty"`
}

type region struct {
	label    string
	brk, cnt bool // target of an unlabelled break / continue
}

type tr struct {
	p       *packages.Package
	info    *types.Info
	fset    *token.FileSet
	fn      string // function being translated (for the access table)
	regions []region
	out     *output
	nlit    int
	base    string // name of the enclosing declared function (literal numbering)
	rops    []string
	// index in the output of the last translated call at which the call's own effects start (after the
	// evaluation of its arguments and receiver); used to split a deferred call
	effectStart int
	// locals of the enclosing declared function that hold the value of a reference-typed tracked field
	alias map[types.Object]string
	// translating the communication of a select arm: the wait is accounted for once, by the select itself
	inComm bool
	// "pkg.Type" of the receiver of the enclosing declared method, or "pkg" for a plain function
	owner string
}

type output struct {
	entries     []string // coq program entries
	names       []string
	entryPoints []string
	accesses    []access
	litCallees  map[string]bool
	unsupported []string
	rootsOps    map[string][]string
	funcPos     map[string]string
	calls       map[string]map[string]bool
}

func short(pkgPath string) string {
	switch {
	case pkgPath == root:
		return "eventlogger"
	case strings.HasPrefix(pkgPath, root+"/"):
		parts := strings.Split(pkgPath, "/")
		return parts[len(parts)-1]
	}
	return ""
}

func deref(ty types.Type) types.Type {
	for {
		if p, ok := ty.(*types.Pointer); ok {
			ty = p.Elem()
			continue
		}
		return ty
	}
}

// named type declared in an analysed package -> "pkg.Type"
func tracked(ty types.Type) (string, bool) {
	if ty == nil {
		return "", false
	}
	ty = types.Unalias(deref(ty))
	n, ok := ty.(*types.Named)
	if !ok || n.Obj().Pkg() == nil {
		return "", false
	}
	s := short(n.Obj().Pkg().Path())
	if s == "" {
		return "", false
	}
	return s + "." + n.Obj().Name(), true
}

func isMutex(ty types.Type) bool {
	s := ty.String()
	return s == "sync.Mutex" || s == "sync.RWMutex" || s == "*sync.Mutex" || s == "*sync.RWMutex"
}

// ---- program terms ----
func seq(ps []string) string {
	var q []string
	for _, p := range ps {
		if p != "" && p != "PSkip" {
			q = append(q, p)
		}
	}
	if len(q) == 0 {
		return "PSkip"
	}
	r := q[len(q)-1]
	for i := len(q) - 2; i >= 0; i-- {
		r = "(PSeq " + q[i] + " " + r + ")"
	}
	return r
}
func actp(a string) string { return "(PAct (" + a + "))" }
func isActTerm(s string) (string, bool) {
	if strings.HasPrefix(s, "(PAct (") && strings.HasSuffix(s, "))") {
		return s[len("(PAct (") : len(s)-2], true
	}
	return "", false
}

func (t *tr) pos(n ast.Node) (string, int) {
	p := t.fset.Position(n.Pos())
	return p.Filename, p.Line
}
func (t *tr) rd(n ast.Node, field string, out *[]string, refl bool) {
	f, l := t.pos(n)
	t.out.accesses = append(t.out.accesses, access{Fn: t.fn, File: f, Line: l, Kind: "R", Field: field, Refl: refl})
	*out = append(*out, actp(fmt.Sprintf("Rd %q", field)))
}
func (t *tr) wr(n ast.Node, field string, out *[]string) {
	f, l := t.pos(n)
	t.out.accesses = append(t.out.accesses, access{Fn: t.fn, File: f, Line: l, Kind: "W", Field: field})
	*out = append(*out, actp(fmt.Sprintf("Wr %q", field)))
}
func (t *tr) called(callee string) {
	m := t.out.calls[t.fn]
	if m == nil {
		m = map[string]bool{}
		t.out.calls[t.fn] = m
	}
	m[callee] = true
}
// isVerifPoint recognises a call of the library's verifPoint hook (a no-op unless a verification harness installed a
// callback; never library behaviour).
func isVerifPoint(e ast.Expr) bool {
	c, ok := ast.Unparen(e).(*ast.CallExpr)
	if !ok {
		return false
	}
	id, ok := ast.Unparen(c.Fun).(*ast.Ident)
	return ok && id.Name == "verifPoint"
}

func (t *tr) unsupported(n ast.Node, what string) {
	f, l := t.pos(n)
	t.out.unsupported = append(t.out.unsupported, fmt.Sprintf("%s: %s at %s:%d", t.fn, what, filepath.Base(f), l))
}

// the struct type that declares the selected field, following the embedding path; also the embedded fields read on the way
func (t *tr) fieldPath(sel *types.Selection) (owners []string, names []string, ok bool) {
	ty := sel.Recv()
	idx := sel.Index()
	for _, i := range idx {
		st, isSt := types.Unalias(deref(ty)).Underlying().(*types.Struct)
		if !isSt {
			return nil, nil, false
		}
		o, tracked := tracked(ty)
		f := st.Field(i)
		if tracked {
			owners = append(owners, o)
			names = append(names, f.Name())
		} else {
			owners = append(owners, "")
			names = append(names, f.Name())
		}
		ty = f.Type()
	}
	return owners, names, true
}

func (t *tr) lockAct(c *ast.CallExpr) (string, bool) {
	se, ok := c.Fun.(*ast.SelectorExpr)
	if !ok {
		return "", false
	}
	var kind string
	switch se.Sel.Name {
	case "Lock":
		kind = "Acq %q MW"
	case "Unlock":
		kind = "Rel %q MW"
	case "RLock":
		kind = "Acq %q MR"
	case "RUnlock":
		kind = "Rel %q MR"
	default:
		return "", false
	}
	inner, ok := ast.Unparen(se.X).(*ast.SelectorExpr)
	if !ok {
		return "", false
	}
	sel := t.info.Selections[inner]
	if sel == nil || sel.Kind() != types.FieldVal || !isMutex(sel.Obj().Type()) {
		return "", false
	}
	owners, names, ok := t.fieldPath(sel)
	if !ok || owners[len(owners)-1] == "" {
		return "", false
	}
	return fmt.Sprintf(kind, owners[len(owners)-1]+"."+names[len(names)-1]), true
}

// selector -> the tracked field it denotes (declaring struct), emitting reads of embedded fields passed through
func (t *tr) fieldOf(e ast.Expr, out *[]string) (string, bool) {
	se, ok := e.(*ast.SelectorExpr)
	if !ok {
		return "", false
	}
	sel := t.info.Selections[se]
	if sel == nil || sel.Kind() != types.FieldVal || isMutex(sel.Obj().Type()) {
		return "", false
	}
	owners, names, ok := t.fieldPath(sel)
	if !ok {
		return "", false
	}
	last := len(owners) - 1
	if out != nil {
		for i := 0; i < last; i++ {
			if owners[i] != "" {
				t.rd(se, owners[i]+"."+names[i], out, false)
			}
		}
	}
	if owners[last] == "" {
		return "", false
	}
	return owners[last] + "." + names[last], true
}

// the field an assignment / delete / copy target designates (x.f, x.f[i], *x.f, x.f[i].g is NOT x.f)
func (t *tr) lvalField(e ast.Expr, out *[]string) (string, ast.Node, bool) {
	return t.lvalFieldX(e, out, false)
}

// inner: the expression is reached through an index / dereference / slice (or is the target of delete / copy / clear), so a
// local that aliases a reference-typed field designates the field's content
func (t *tr) lvalFieldX(e ast.Expr, out *[]string, inner bool) (string, ast.Node, bool) {
	switch v := e.(type) {
	case *ast.SelectorExpr:
		t.expr(v.X, out)
		f, ok := t.fieldOf(v, out)
		return f, v, ok
	case *ast.IndexExpr:
		t.expr(v.Index, out)
		return t.lvalFieldX(v.X, out, true)
	case *ast.StarExpr:
		return t.lvalFieldX(v.X, out, true)
	case *ast.ParenExpr:
		return t.lvalFieldX(v.X, out, inner)
	case *ast.SliceExpr:
		return t.lvalFieldX(v.X, out, true)
	case *ast.Ident:
		if fl, ok := t.aliasOf(v); ok && inner {
			return fl, v, true
		}
		return "", nil, false
	}
	t.expr(e, out)
	return "", nil, false
}

var reflectMutators = map[string]bool{"Set": true, "SetString": true, "SetBytes": true, "SetMapIndex": true, "SetInt": true, "SetBool": true, "SetUint": true, "SetFloat": true, "SetLen": true}

// interfaces whose methods are callbacks into code the library does not own
func ifaceName(ty types.Type) (string, bool) {
	n, ok := types.Unalias(deref(ty)).(*types.Named)
	if !ok || n.Obj().Pkg() == nil {
		return "", false
	}
	if !types.IsInterface(n.Underlying()) {
		return "", false
	}
	path := n.Obj().Pkg().Path()
	if short(path) != "" {
		return n.Obj().Name(), true
	}
	switch path + "." + n.Obj().Name() {
	case "io.Writer":
		return "Writer", true
	case "github.com/hashicorp/go-kms-wrapping/v2.Wrapper":
		return "Wrapper", true
	}
	return "", false
}

func isRefType(ty types.Type) bool {
	switch types.Unalias(ty).Underlying().(type) {
	case *types.Map, *types.Slice, *types.Pointer, *types.Chan:
		return true
	}
	return false
}

// collectAliases: x := s.f / x = s.f / var x = s.f with f a tracked field of map, slice, pointer or chan type
func (t *tr) collectAliases(body ast.Node) {
	t.alias = map[types.Object]string{}
	bind := func(lhs ast.Expr, rhs ast.Expr) {
		id, ok := ast.Unparen(lhs).(*ast.Ident)
		if !ok || id.Name == "_" {
			return
		}
		se, ok := ast.Unparen(rhs).(*ast.SelectorExpr)
		if !ok {
			return
		}
		fl, ok := t.fieldOf(se, nil)
		if !ok || !isRefType(t.info.TypeOf(se)) {
			return
		}
		obj := t.info.Defs[id]
		if obj == nil {
			obj = t.info.Uses[id]
		}
		if obj != nil {
			t.alias[obj] = fl
		}
	}
	ast.Inspect(body, func(n ast.Node) bool {
		switch v := n.(type) {
		case *ast.AssignStmt:
			if len(v.Lhs) == len(v.Rhs) {
				for i := range v.Lhs {
					bind(v.Lhs[i], v.Rhs[i])
				}
			}
		case *ast.ValueSpec:
			if len(v.Names) == len(v.Values) {
				for i := range v.Names {
					bind(v.Names[i], v.Values[i])
				}
			}
		}
		return true
	})
}

func (t *tr) aliasOf(e ast.Expr) (string, bool) {
	id, ok := ast.Unparen(e).(*ast.Ident)
	if !ok || t.alias == nil {
		return "", false
	}
	if obj := t.info.Uses[id]; obj != nil {
		fl, ok := t.alias[obj]
		return fl, ok
	}
	return "", false
}

// expression -> program terms in evaluation order
func (t *tr) expr(e ast.Node, out *[]string) {
	if e == nil {
		return
	}
	ast.Inspect(e, func(n ast.Node) bool {
		switch v := n.(type) {
		case *ast.FuncLit:
			// a literal that is stored / returned: a function of its own, callable by anybody later
			t.closure(v)
			return false
		case *ast.CallExpr:
			t.call(v, out)
			return false
		case *ast.SelectorExpr:
			if sel := t.info.Selections[v]; sel != nil && sel.Kind() == types.FieldVal {
				t.expr(v.X, out)
				if fl, ok := t.fieldOf(v, out); ok {
					t.rd(v, fl, out, false)
				}
				return false
			}
		case *ast.Ident:
			if fl, ok := t.aliasOf(v); ok {
				t.rd(v, fl, out, false)
			}
		case *ast.UnaryExpr:
			if v.Op == token.ARROW {
				t.expr(v.X, out)
				if !t.inComm {
					*out = append(*out, actp(`User "wait:chan-recv"`))
				}
				return false
			}
		case *ast.KeyValueExpr:
			// composite literal: the key is a field name of a fresh object, only the value is evaluated
			if _, isIdent := v.Key.(*ast.Ident); isIdent {
				t.expr(v.Value, out)
				return false
			}
		}
		return true
	})
}

func (t *tr) closure(fl *ast.FuncLit) {
	t.nlit++
	name := fmt.Sprintf("%s$lit%d", t.base, t.nlit)
	sub := &tr{p: t.p, info: t.info, fset: t.fset, fn: name, out: t.out, base: name, alias: t.alias, owner: t.owner}
	body := sub.block(fl.Body)
	t.out.addFunc(name, body, true, t.fset.Position(fl.Pos()).String())
	if len(sub.rops) > 0 {
		t.out.rootsOps[name] = sub.rops
	}
}

func (o *output) addFunc(name, body string, entry bool, pos string) {
	o.entries = append(o.entries, fmt.Sprintf("  (%q, %s)", name, body))
	o.names = append(o.names, name)
	o.funcPos[name] = pos
	if entry {
		o.entryPoints = append(o.entryPoints, name)
	}
}

func (t *tr) reflectiveRead(arg ast.Expr, out *[]string) {
	ty := t.info.TypeOf(arg)
	owner, ok := tracked(ty)
	if !ok {
		return
	}
	st, ok := types.Unalias(deref(ty)).Underlying().(*types.Struct)
	if !ok {
		return
	}
	for i := 0; i < st.NumFields(); i++ {
		if !isMutex(st.Field(i).Type()) {
			t.rd(arg, owner+"."+st.Field(i).Name(), out, true)
		}
	}
}

func (t *tr) rootsOp(c *ast.CallExpr, recv ast.Expr, method string) (mutation bool) {
	// g.roots.<Store|Delete|Range|Nodes>: ordered record for the overwrite-atomicity obligation
	if se, ok := ast.Unparen(recv).(*ast.SelectorExpr); ok {
		if fl, ok := t.fieldOf(se, nil); ok && fl == "eventlogger.graph.roots" {
			switch method {
			case "Store", "Delete", "Range", "Nodes":
				t.rops = append(t.rops, method)
			default:
				t.rops = append(t.rops, "Other")
			}
			return method != "Range" && method != "Nodes"
		}
	}
	return false
}

func (t *tr) call(c *ast.CallExpr, out *[]string) {
	if a, ok := t.lockAct(c); ok {
		*out = append(*out, actp(a))
		return
	}
	fun := ast.Unparen(c.Fun)
	// conversion
	if tv, ok := t.info.Types[fun]; ok && tv.IsType() {
		for _, a := range c.Args {
			t.expr(a, out)
		}
		return
	}
	// immediately invoked literal
	if fl, ok := fun.(*ast.FuncLit); ok {
		for _, a := range c.Args {
			t.expr(a, out)
		}
		*out = append(*out, "(PBlock "+t.literalBody(fl)+")")
		return
	}
	// arguments; literals passed as arguments are run by the callee (Range, sort.Slice, ...)
	var lits []*ast.FuncLit
	for _, a := range c.Args {
		if fl, ok := ast.Unparen(a).(*ast.FuncLit); ok {
			lits = append(lits, fl)
		} else {
			t.expr(a, out)
		}
	}
	external := false // callee outside the analysed packages
	calleeName := ""
	t.effectStart = len(*out)
	switch f := fun.(type) {
	case *ast.SelectorExpr:
		if sel := t.info.Selections[f]; sel != nil {
			switch sel.Kind() {
			case types.MethodVal:
				t.expr(f.X, out)
				t.effectStart = len(*out)
				recv := sel.Recv()
				if types.IsInterface(recv.Underlying()) {
					if name, ok := ifaceName(recv); ok {
						*out = append(*out, actp(fmt.Sprintf("User %q", name+"."+f.Sel.Name)))
					} else {
						external = true
					}
				} else {
					// the method's own receiver type (promoted methods belong to the embedded type)
					var owner string
					var ok bool
					if fn, isFn := sel.Obj().(*types.Func); isFn {
						if sig, isSig := fn.Type().(*types.Signature); isSig && sig.Recv() != nil {
							owner, ok = tracked(sig.Recv().Type())
						}
					}
					if ok {
						calleeName = owner + "." + f.Sel.Name
						t.called(calleeName)
						*out = append(*out, "(PCall \""+calleeName+"\")")
						if owner == "eventlogger.graphMap" && t.rootsOp(c, f.X, f.Sel.Name) {
							// a mutation of a graph's pipeline map: a write of the pseudo field graph.roots! (the map itself is a
							// sync.Map and race free; the registry STATE it is part of changes only under Broker.lock)
							t.wr(c, "eventlogger.graph.roots!", out)
						}
					} else {
						external = true
						if strings.HasSuffix(deref(recv).String(), "reflect.Value") && reflectMutators[f.Sel.Name] {
							t.wr(c, "payload-graph", out)
						}
						if rs := deref(recv).String(); f.Sel.Name == "Wait" && (rs == "sync.WaitGroup" || rs == "sync.Cond") {
							*out = append(*out, actp(fmt.Sprintf("User %q", "wait:"+strings.TrimPrefix(rs, "sync.")+".Wait")))
						}
					}
				}
			case types.FieldVal: // call of a func-typed field
				t.expr(f.X, out)
				t.effectStart = len(*out)
				if fl, ok := t.fieldOf(f, out); ok {
					t.rd(f, fl, out, false)
					*out = append(*out, actp(fmt.Sprintf("User %q", "func:"+fl)))
				} else {
					*out = append(*out, actp(`User "funcval"`))
				}
			}
		} else if id, ok := f.X.(*ast.Ident); ok {
			if pn, isPkg := t.info.Uses[id].(*types.PkgName); isPkg {
				full := pn.Imported().Path() + "." + f.Sel.Name
				switch {
				case strings.HasSuffix(full, "copystructure.Copy"):
					*out = append(*out, actp(`Acq "COPY" MW`), `(PDefer (Rel "COPY" MW))`)
					external = true
				case strings.HasSuffix(full, "pointerstructure.Set"):
					t.wr(c, "payload-graph", out)
					external = true
				case full == "time.Now" || full == "time.Since" || full == "time.Until":
					t.rd(c, t.owner+".clock!", out, false)
					external = true
				case short(pn.Imported().Path()) != "":
					if _, isFunc := t.info.Uses[f.Sel].(*types.Func); isFunc {
						calleeName = short(pn.Imported().Path()) + "." + f.Sel.Name
						t.called(calleeName)
						*out = append(*out, "(PCall \""+calleeName+"\")")
					} else {
						*out = append(*out, actp(`User "funcval"`)) // package-level func variable
					}
				default:
					external = true
				}
			}
		}
	case *ast.Ident:
		switch obj := t.info.Uses[f].(type) {
		case *types.Func:
			if obj.Pkg() != nil && short(obj.Pkg().Path()) != "" {
				calleeName = short(obj.Pkg().Path()) + "." + f.Name
				t.called(calleeName)
				*out = append(*out, "(PCall \""+calleeName+"\")")
			} else {
				external = true
			}
		case *types.Builtin:
			switch f.Name {
			case "delete", "copy", "clear":
				if len(c.Args) > 0 {
					var scratch []string
					if fl, n, ok := t.lvalFieldX(c.Args[0], &scratch, true); ok {
						t.wr(n, fl, out)
					}
				}
			}
		case *types.Var:
			*out = append(*out, actp(`User "funcval"`))
		}
	case *ast.IndexExpr, *ast.IndexListExpr:
		t.unsupported(c, "call of a generic instantiation")
	default:
		// call of a call result, etc.
		t.expr(fun, out)
		*out = append(*out, actp(`User "funcval"`))
	}
	if external {
		for _, a := range c.Args {
			if _, isLit := ast.Unparen(a).(*ast.FuncLit); isLit {
				continue
			}
			t.reflectiveRead(a, out)
			if ty := t.info.TypeOf(a); ty != nil {
				if name, ok := ifaceName(ty); ok && (name == "Writer" || name == "Wrapper" || name == "Node" || name == "Sender") {
					// a stream held in a tracked field is written to by the callee: the pseudo field "<field>*" stands for
					// the stream's content (writes to it must be serialised by the owner's lock)
					if fl, ok := t.fieldOf(ast.Unparen(a), nil); ok && name == "Writer" {
						t.wr(a, fl+"*", out)
					}
					*out = append(*out, actp(fmt.Sprintf("User %q", name+".*")))
				}
			}
		}
	}
	for _, fl := range lits {
		if calleeName != "" {
			t.out.litCallees[calleeName] = true
		}
		*out = append(*out, "(PLoop (PBlock "+t.literalBody(fl)+"))")
	}
}

// body of a literal run in place: own break scope
func (t *tr) literalBody(fl *ast.FuncLit) string {
	saved := t.regions
	t.regions = nil
	b := t.block(fl.Body)
	t.regions = saved
	return b
}

func (t *tr) brkDepth(label string, cont bool) (int, bool) {
	for i := len(t.regions) - 1; i >= 0; i-- {
		r := t.regions[i]
		d := len(t.regions) - 1 - i
		if label != "" {
			if r.label == label && ((cont && r.cnt) || (!cont && r.brk)) {
				return d, true
			}
			continue
		}
		if (cont && r.cnt) || (!cont && r.brk) {
			return d, true
		}
	}
	return 0, false
}

func (t *tr) stmtL(s ast.Stmt, label string) string {
	var a []string
	switch v := s.(type) {
	case nil:
		return "PSkip"
	case *ast.ExprStmt:
		if isVerifPoint(v.X) {
			// inert instrumentation (verif_off.go: empty function; verif_on.go: the harness's own callback)
			return "PSkip"
		}
		t.expr(v.X, &a)
	case *ast.AssignStmt:
		for _, r := range v.Rhs {
			t.expr(r, &a)
		}
		for _, l := range v.Lhs {
			if fl, n, ok := t.lvalField(l, &a); ok {
				if v.Tok != token.ASSIGN && v.Tok != token.DEFINE {
					t.rd(n, fl, &a, false) // x.f += e reads x.f
				}
				t.wr(n, fl, &a)
			}
		}
	case *ast.IncDecStmt:
		if fl, n, ok := t.lvalField(v.X, &a); ok {
			t.rd(n, fl, &a, false)
			t.wr(n, fl, &a)
		}
	case *ast.DeclStmt:
		t.expr(v, &a)
	case *ast.SendStmt:
		t.expr(v.Chan, &a)
		t.expr(v.Value, &a)
		if !t.inComm {
			a = append(a, actp(`User "wait:chan-send"`))
		}
	case *ast.DeferStmt:
		if isVerifPoint(v.Call) {
			return "PSkip"
		}
		if act, ok := t.lockAct(v.Call); ok {
			return "(PDefer (" + act + "))"
		}
		if _, ok := ast.Unparen(v.Call.Fun).(*ast.FuncLit); ok {
			t.unsupported(v, "deferred function literal")
			return "PSkip"
		}
		// arguments and receiver are evaluated now, the call's own effects happen at exit
		var now, later []string
		t.effectStart = 0
		t.call(v.Call, &later)
		es := t.effectStart
		if es < 0 || es > len(later) {
			es = 0
		}
		now = append(now, later[:es]...)
		// the call's own effects may only consist of plain actions (no Call / Block / Loop); they are registered in
		// reverse so that they run in order at exit (LIFO)
		var acts []string
		for _, x := range later[es:] {
			if ac, ok := isActTerm(x); ok {
				acts = append(acts, ac)
			} else if strings.HasPrefix(x, "(PDefer ") {
				now = append(now, x)
			} else {
				t.unsupported(v, "deferred call of a library function or with a literal argument")
			}
		}
		for i := len(acts) - 1; i >= 0; i-- {
			now = append(now, "(PDefer ("+acts[i]+"))")
		}
		return seq(now)
	case *ast.GoStmt:
		if fl, ok := ast.Unparen(v.Call.Fun).(*ast.FuncLit); ok {
			for _, arg := range v.Call.Args {
				t.expr(arg, &a)
			}
			a = append(a, "(PGo "+t.literalBody(fl)+")")
			return seq(a)
		}
		var b []string
		t.call(v.Call, &b)
		return "(PGo " + seq(b) + ")"
	case *ast.ReturnStmt:
		for _, r := range v.Results {
			t.expr(r, &a)
		}
		a = append(a, "PRet")
	case *ast.BlockStmt:
		return t.block(v)
	case *ast.IfStmt:
		if v.Init != nil {
			a = append(a, t.stmt(v.Init))
		}
		t.expr(v.Cond, &a)
		els := "PSkip"
		body := t.block(v.Body)
		if v.Else != nil {
			els = t.stmt(v.Else)
		}
		a = append(a, "(PAlt "+body+" "+els+")")
	case *ast.ForStmt:
		if v.Init != nil {
			a = append(a, t.stmt(v.Init))
		}
		var cond []string
		t.expr(v.Cond, &cond)
		post := "PSkip"
		if v.Post != nil {
			// translated outside the body's regions
			post = t.stmt(v.Post)
		}
		if post == "PSkip" {
			t.regions = append(t.regions, region{label: label, brk: true, cnt: true})
			body := t.block(v.Body)
			t.regions = t.regions[:len(t.regions)-1]
			a = append(a, "(PLoop "+seq(append(cond, body))+")")
		} else {
			// continue must still run the post statement: the body is a breakable region of its own
			t.regions = append(t.regions, region{label: label, brk: true}, region{label: label, cnt: true})
			body := t.block(v.Body)
			t.regions = t.regions[:len(t.regions)-2]
			a = append(a, "(PLoop "+seq(append(cond, "(PLoop1 "+body+")", post))+")")
		}
	case *ast.RangeStmt:
		t.expr(v.X, &a)
		if ty := t.info.TypeOf(v.X); ty != nil {
			if _, isChan := types.Unalias(ty).Underlying().(*types.Chan); isChan {
				a = append(a, actp(`User "wait:chan-recv"`))
			}
		}
		t.regions = append(t.regions, region{label: label, brk: true, cnt: true})
		var b []string
		// range with field targets (for x.f = range ...) does not occur; keys/values are locals
		b = append(b, t.block(v.Body))
		t.regions = t.regions[:len(t.regions)-1]
		a = append(a, "(PLoop "+seq(b)+")")
	case *ast.SwitchStmt:
		if v.Init != nil {
			a = append(a, t.stmt(v.Init))
		}
		t.expr(v.Tag, &a)
		a = append(a, t.cases(v.Body, label))
	case *ast.TypeSwitchStmt:
		if v.Init != nil {
			a = append(a, t.stmt(v.Init))
		}
		a = append(a, t.stmt(v.Assign), t.cases(v.Body, label))
	case *ast.SelectStmt:
		blocking := true
		for _, c := range v.Body.List {
			if cc, ok := c.(*ast.CommClause); ok && cc.Comm == nil {
				blocking = false // a default arm: the select never waits
			}
		}
		if blocking {
			a = append(a, actp(`User "wait:select"`))
		}
		a = append(a, t.cases(v.Body, label))
	case *ast.BranchStmt:
		lbl := ""
		if v.Label != nil {
			lbl = v.Label.Name
		}
		switch v.Tok {
		case token.BREAK, token.CONTINUE:
			d, ok := t.brkDepth(lbl, v.Tok == token.CONTINUE)
			if !ok {
				t.unsupported(v, "break/continue without an enclosing region")
				return "PSkip"
			}
			return fmt.Sprintf("(PBrk %d)", d)
		default:
			t.unsupported(v, v.Tok.String())
		}
	case *ast.LabeledStmt:
		return t.stmtL(v.Stmt, v.Label.Name)
	case *ast.EmptyStmt:
	default:
		t.unsupported(s, fmt.Sprintf("statement %T", s))
	}
	return seq(a)
}

func (t *tr) stmt(s ast.Stmt) string { return t.stmtL(s, "") }

// switch / select: alternatives; all case guards are evaluated first (over-approximation)
func (t *tr) cases(b *ast.BlockStmt, label string) string {
	var guards []string
	alts := []string{}
	hasDefault := false
	t.regions = append(t.regions, region{label: label, brk: true})
	for _, c := range b.List {
		switch cc := c.(type) {
		case *ast.CaseClause:
			if cc.List == nil {
				hasDefault = true
			}
			for _, e := range cc.List {
				saved := t.regions
				t.regions = t.regions[:len(t.regions)-1]
				t.expr(e, &guards)
				t.regions = saved
			}
			var body []string
			for _, s := range cc.Body {
				body = append(body, t.stmt(s))
			}
			alts = append(alts, seq(body))
		case *ast.CommClause:
			if cc.Comm == nil {
				hasDefault = true
			}
			var body []string
			if cc.Comm != nil {
				saved := t.inComm
				t.inComm = true
				body = append(body, t.stmt(cc.Comm))
				t.inComm = saved
			}
			for _, s := range cc.Body {
				body = append(body, t.stmt(s))
			}
			alts = append(alts, seq(body))
		}
	}
	t.regions = t.regions[:len(t.regions)-1]
	if !hasDefault {
		alts = append(alts, "PSkip")
	}
	r := alts[len(alts)-1]
	for i := len(alts) - 2; i >= 0; i-- {
		r = "(PAlt " + alts[i] + " " + r + ")"
	}
	return seq(append(guards, "(PLoop1 "+r+")"))
}

func (t *tr) block(b *ast.BlockStmt) string {
	if b == nil {
		return "PSkip"
	}
	var a []string
	for _, s := range b.List {
		a = append(a, t.stmt(s))
	}
	return seq(a)
}

func coqList(xs []string) string {
	q := make([]string, len(xs))
	for i, x := range xs {
		q[i] = fmt.Sprintf("%q", x)
	}
	return "[" + strings.Join(q, "; ") + "]"
}

func main() {
	dir := flag.String("dir", ".", "directory of the module from which the library packages are resolved (the harness module)")
	modfile := flag.String("modfile", "", "alternative go.mod (replaces the library onto the tree under test)")
	tags := flag.String("tags", "verif", "build tags")
	outDir := flag.String("out", ".", "output directory")
	flag.Parse()

	var flags []string
	if *modfile != "" {
		flags = append(flags, "-modfile="+*modfile)
	}
	if *tags != "" {
		flags = append(flags, "-tags="+*tags)
	}
	fset := token.NewFileSet()
	cfg := &packages.Config{
		Mode: packages.NeedName | packages.NeedFiles | packages.NeedSyntax | packages.NeedTypes | packages.NeedTypesInfo | packages.NeedImports | packages.NeedDeps | packages.NeedModule,
		Dir:  *dir, Fset: fset, BuildFlags: flags,
	}
	pkgs, err := packages.Load(cfg, root+"/...")
	if err != nil {
		fmt.Fprintln(os.Stderr, "translate: load:", err)
		os.Exit(2)
	}
	out := &output{litCallees: map[string]bool{}, rootsOps: map[string][]string{}, funcPos: map[string]string{}, calls: map[string]map[string]bool{}}
	var pkgNames []string
	sort.Slice(pkgs, func(i, j int) bool { return pkgs[i].PkgPath < pkgs[j].PkgPath })
	for _, p := range pkgs {
		if strings.Contains(p.PkgPath, "/testing") || strings.HasSuffix(p.PkgPath, "/tools") {
			continue
		}
		if len(p.Errors) > 0 {
			fmt.Fprintln(os.Stderr, "translate: package errors:", p.PkgPath, p.Errors)
			os.Exit(2)
		}
		pkgNames = append(pkgNames, p.PkgPath)
		for _, f := range p.Syntax {
			for _, d := range f.Decls {
				fd, ok := d.(*ast.FuncDecl)
				if !ok || fd.Body == nil {
					continue
				}
				name := short(p.PkgPath) + "." + fd.Name.Name
				exported := fd.Name.IsExported()
				recvOwner := short(p.PkgPath)
				if fd.Recv != nil && len(fd.Recv.List) > 0 {
					if owner, ok := tracked(p.TypesInfo.TypeOf(fd.Recv.List[0].Type)); ok {
						name = owner + "." + fd.Name.Name
						recvOwner = owner
					}
				}
				t := &tr{p: p, info: p.TypesInfo, fset: fset, fn: name, out: out, base: name, owner: recvOwner}
				t.collectAliases(fd.Body)
				body := t.block(fd.Body)
				out.addFunc(name, body, exported, fset.Position(fd.Pos()).String())
				if len(t.rops) > 0 {
					out.rootsOps[name] = t.rops
				}
			}
		}
	}
	if len(out.entries) == 0 {
		fmt.Fprintln(os.Stderr, "translate: no functions found")
		os.Exit(2)
	}
	sort.Strings(out.entries)
	sort.Strings(out.entryPoints)
	sort.Strings(out.unsupported)
	var lc []string
	for k := range out.litCallees {
		lc = append(lc, k)
	}
	sort.Strings(lc)
	var ropNames []string
	for k := range out.rootsOps {
		ropNames = append(ropNames, k)
	}
	sort.Strings(ropNames)
	var rops []string
	for _, k := range ropNames {
		var ops []string
		for _, o := range out.rootsOps[k] {
			ops = append(ops, "R"+o)
		}
		rops = append(rops, fmt.Sprintf("  (%q, [%s])", k, strings.Join(ops, "; ")))
	}

	var sb strings.Builder
	sb.WriteString("(* GENERATED by translate/ from the working tree under test on every check; do not edit *)\n")
	sb.WriteString("From Coq Require Import List String.\nFrom Verif Require Import LockLang.\nImport ListNotations.\nLocal Open Scope string_scope.\n")
	fmt.Fprintf(&sb, "Definition program : list (string * prog) := [\n%s\n].\n", strings.Join(out.entries, ";\n"))
	fmt.Fprintf(&sb, "Definition entries : list string := %s.\n", coqList(out.entryPoints))
	fmt.Fprintf(&sb, "Definition lit_callees : list string := %s.\n", coqList(lc))
	fmt.Fprintf(&sb, "Definition unsupported : list string := %s.\n", coqList(out.unsupported))
	sb.WriteString("(* ordered sync.Map operations on graph.roots per function (overwrite atomicity, C07) *)\n")
	fmt.Fprintf(&sb, "Definition roots_ops : list (string * list rop) := [\n%s\n].\n", strings.Join(rops, ";\n"))
	if err := os.WriteFile(filepath.Join(*outDir, "Gen_Locks.v"), []byte(sb.String()), 0o644); err != nil {
		fmt.Fprintln(os.Stderr, err)
		os.Exit(2)
	}
	calls := map[string][]string{}
	for f, m := range out.calls {
		for c := range m {
			calls[f] = append(calls[f], c)
		}
		sort.Strings(calls[f])
	}
	side := map[string]interface{}{
		"calls": calls,
		"packages": pkgNames, "functions": len(out.entries), "entries": out.entryPoints, "accesses": out.accesses,
		"lit_callees": lc, "unsupported": out.unsupported, "roots_ops": out.rootsOps, "func_pos": out.funcPos,
	}
	js, _ := json.MarshalIndent(side, "", " ")
	if err := os.WriteFile(filepath.Join(*outDir, "translate.json"), js, 0o644); err != nil {
		fmt.Fprintln(os.Stderr, err)
		os.Exit(2)
	}
	fmt.Printf("translate: %d functions of %d packages, %d entry points, %d accesses, %d unsupported constructs\n",
		len(out.entries), len(pkgNames), len(out.entryPoints), len(out.accesses), len(out.unsupported))
}
